import Zrnt.Beacon.State
import Zrnt.Sha256
/-!
# Specification layer `S`: helper functions of the consensus spec (phase0 `beacon-chain.md` names)

Written from the published consensus specifications, not from the Go code. `Nat` arithmetic; the
places where the pyspec's `uint64` arithmetic could raise are guarded by `u64` (⇒ `Err.overflow`).
An `assert`/`IndexError`/`ZeroDivisionError` of the pyspec is `Err.invalid`.
-/
namespace Zrnt.Beacon.Spec
open Zrnt.Beacon

inductive Err where
  /-- an `assert`, index error or division by zero of the pyspec: the transition is invalid -/
  | invalid (msg : String)
  /-- a `uint64` overflow of the pyspec (also invalid there; kept apart because Go wraps silently and
      such states are unreachable) -/
  | overflow (msg : String)
  /-- an unbounded `while` of the pyspec did not finish within the model's fuel -/
  | fuel (msg : String)
  /-- an input the Go side has to supply (state root, aggregate pubkey) was not supplied -/
  | oracle (msg : String)
  deriving Repr, DecidableEq, Inhabited

abbrev SM := Except Err

def invalid {α} (msg : String) : SM α := throw (.invalid msg)
def require (c : Bool) (msg : String) : SM Unit := if c then pure () else invalid msg

def U64_MAX : Nat := 2 ^ 64 - 1
def FAR_FUTURE_EPOCH : Nat := 2 ^ 64 - 1
def GENESIS_EPOCH : Nat := 0
def GENESIS_SLOT : Nat := 0
def BASE_REWARDS_PER_EPOCH : Nat := 4
def JUSTIFICATION_BITS_LENGTH : Nat := 4
def ZERO32 : Bytes := ⟨Array.replicate 32 0⟩

def DOMAIN_BEACON_PROPOSER : Bytes := ⟨#[0, 0, 0, 0]⟩
def DOMAIN_BEACON_ATTESTER : Bytes := ⟨#[1, 0, 0, 0]⟩
def DOMAIN_RANDAO : Bytes := ⟨#[2, 0, 0, 0]⟩
def DOMAIN_DEPOSIT : Bytes := ⟨#[3, 0, 0, 0]⟩
def DOMAIN_VOLUNTARY_EXIT : Bytes := ⟨#[4, 0, 0, 0]⟩
def DOMAIN_SELECTION_PROOF : Bytes := ⟨#[5, 0, 0, 0]⟩
def DOMAIN_AGGREGATE_AND_PROOF : Bytes := ⟨#[6, 0, 0, 0]⟩
def DOMAIN_SYNC_COMMITTEE : Bytes := ⟨#[7, 0, 0, 0]⟩
def DOMAIN_SYNC_COMMITTEE_SELECTION_PROOF : Bytes := ⟨#[8, 0, 0, 0]⟩
def DOMAIN_CONTRIBUTION_AND_PROOF : Bytes := ⟨#[9, 0, 0, 0]⟩
def DOMAIN_BLS_TO_EXECUTION_CHANGE : Bytes := ⟨#[10, 0, 0, 0]⟩

/-- range check of a `uint64` result -/
def u64 (n : Nat) (what : String := "") : SM Nat :=
  if n < 2 ^ 64 then pure n else throw (.overflow what)

/-- `l[i]` with the pyspec's IndexError -/
def idx {α} (l : List α) (i : Nat) (what : String := "index") : SM α :=
  match l[i]? with
  | some a => pure a
  | none => invalid s!"{what} out of range"

/-- `l[i] = v` with the pyspec's IndexError -/
def setIdx {α} (l : List α) (i : Nat) (v : α) (what : String := "index") : SM (List α) :=
  if i < l.length then pure (l.set i v) else invalid s!"{what} out of range"

def hash (b : Bytes) : Bytes := Sha256.hash b

/-- `uint_to_bytes` for a value of `n` bytes (little endian) -/
def uintToBytes (nbytes : Nat) (v : Nat) : Bytes :=
  ⟨(Array.range nbytes).map fun i => UInt8.ofNat ((v / 256 ^ i) % 256)⟩

/-- `bytes_to_uint64` (little endian) of the first 8 bytes -/
def bytesToUint64 (b : Bytes) : Nat :=
  (List.range 8).foldl (fun acc i => acc + (b.get! i).toNat * 256 ^ i) 0

def integer_squareroot (n : Nat) : Nat := Nat.sqrt n

/-! ### SSZ hash-tree-roots of the few fixed shapes `S` needs (literal SSZ spec: `merkleize`, zero padding) -/

/-- smallest `d` with `2^d ≥ n` (for `n ≤ 2^64`) -/
def log2ceil (n : Nat) : Nat := Id.run do
  let mut d := 0
  for _ in [0:64] do
    if 2 ^ d < n then d := d + 1
  return d

/-- one Merkle layer: pairwise hashes; a missing right/left node is the all-zero subtree root `zero` -/
def merkleLayer (layer : Array Bytes) (zero : Bytes) : Array Bytes :=
  (Array.range ((layer.size + 1) / 2)).map fun i =>
    hash (layer.getD (2 * i) zero ++ layer.getD (2 * i + 1) zero)

/-- `depth` layers up; `zero` is the root of an all-zero subtree of the current height -/
def merkleUp (layer : Array Bytes) (zero : Bytes) : Nat → Bytes
  | 0 => layer.getD 0 zero
  | d + 1 => merkleUp (merkleLayer layer zero) (hash (zero ++ zero)) d

/-- Merkle root of `chunks` padded with zero chunks up to `limit` leaves (rounded up to a power of two). -/
def merkleize (chunks : List Bytes) (limit : Nat) : Bytes :=
  merkleUp chunks.toArray ZERO32 (log2ceil (max limit 1))

def chunkU64 (v : Nat) : Bytes := uintToBytes 8 v ++ ⟨Array.replicate 24 0⟩

/-- `hash_tree_root(BeaconBlockHeader)` -/
def hash_tree_root_header (h : BeaconBlockHeader) : Bytes :=
  merkleize [chunkU64 h.slot, chunkU64 h.proposer_index, h.parent_root, h.state_root, h.body_root] 5

/-- `hash_tree_root(Vector[Root, N])` -/
def hash_tree_root_roots_vector (l : List Bytes) : Bytes := merkleize l l.length

/-- `hash_tree_root(HistoricalBatch(block_roots, state_roots))` -/
def hash_tree_root_historical_batch (block_roots state_roots : List Bytes) : Bytes :=
  hash (hash_tree_root_roots_vector block_roots ++ hash_tree_root_roots_vector state_roots)

/-! ### Predicates -/

def is_active_validator (v : Validator) (epoch : Nat) : Bool :=
  v.activation_epoch ≤ epoch && epoch < v.exit_epoch

def is_eligible_for_activation_queue (cfg : Config) (v : Validator) : Bool :=
  v.activation_eligibility_epoch == FAR_FUTURE_EPOCH && v.effective_balance == cfg.MAX_EFFECTIVE_BALANCE

def is_eligible_for_activation (s : State) (v : Validator) : Bool :=
  v.activation_eligibility_epoch ≤ s.finalized_checkpoint.epoch && v.activation_epoch == FAR_FUTURE_EPOCH

def is_slashable_validator (v : Validator) (epoch : Nat) : Bool :=
  !v.slashed && v.activation_epoch ≤ epoch && epoch < v.withdrawable_epoch

/-! ### Misc -/

/-- `compute_shuffled_index` (swap-or-not, one index at a time) -/
def compute_shuffled_index (cfg : Config) (index index_count : Nat) (seed : Bytes) : SM Nat := do
  require (index < index_count) "compute_shuffled_index: index < index_count"
  let mut index := index
  for current_round in [0:cfg.SHUFFLE_ROUND_COUNT] do
    let r := uintToBytes 1 current_round
    let pivot := bytesToUint64 (hash (seed ++ r)) % index_count
    let flip := (pivot + index_count - index) % index_count
    let position := max index flip
    let source := hash (seed ++ r ++ uintToBytes 4 (position / 256))
    let byte := (source.get! ((position % 256) / 8)).toNat
    let bit := (byte >>> (position % 8)) % 2
    index := if bit = 1 then flip else index
  return index

def compute_epoch_at_slot (cfg : Config) (slot : Nat) : Nat := slot / cfg.SLOTS_PER_EPOCH
def compute_start_slot_at_epoch (cfg : Config) (epoch : Nat) : Nat := epoch * cfg.SLOTS_PER_EPOCH
def compute_activation_exit_epoch (cfg : Config) (epoch : Nat) : Nat := epoch + 1 + cfg.MAX_SEED_LOOKAHEAD

/-- `compute_committee` -/
def compute_committee (cfg : Config) (indices : List Nat) (seed : Bytes) (index count : Nat) : SM (List Nat) := do
  if count = 0 then invalid "compute_committee: count = 0"
  let n := indices.length
  let start := (n * index) / count
  let stop := (n * (index + 1)) / count
  let arr := indices.toArray
  (List.range (stop - start)).mapM fun k => do
    let j ← compute_shuffled_index cfg (start + k) n seed
    pure (arr.getD j 0)

/-! ### Accessors -/

def get_current_epoch (cfg : Config) (s : State) : Nat := compute_epoch_at_slot cfg s.slot

def get_previous_epoch (cfg : Config) (s : State) : Nat :=
  let current_epoch := get_current_epoch cfg s
  if current_epoch = GENESIS_EPOCH then GENESIS_EPOCH else current_epoch - 1

def get_block_root_at_slot (cfg : Config) (s : State) (slot : Nat) : SM Bytes := do
  require (slot < s.slot && s.slot ≤ slot + cfg.SLOTS_PER_HISTORICAL_ROOT) "get_block_root_at_slot: slot range"
  if cfg.SLOTS_PER_HISTORICAL_ROOT = 0 then invalid "SLOTS_PER_HISTORICAL_ROOT = 0"
  idx s.block_roots (slot % cfg.SLOTS_PER_HISTORICAL_ROOT) "block_roots"

def get_block_root (cfg : Config) (s : State) (epoch : Nat) : SM Bytes :=
  get_block_root_at_slot cfg s (compute_start_slot_at_epoch cfg epoch)

def get_randao_mix (cfg : Config) (s : State) (epoch : Nat) : SM Bytes := do
  if cfg.EPOCHS_PER_HISTORICAL_VECTOR = 0 then invalid "EPOCHS_PER_HISTORICAL_VECTOR = 0"
  idx s.randao_mixes (epoch % cfg.EPOCHS_PER_HISTORICAL_VECTOR) "randao_mixes"

/-- `get_active_validator_indices` on a bare registry -/
def active_indices_of (vals : List Validator) (epoch : Nat) : List Nat :=
  (List.range vals.length).filter fun i =>
    match vals[i]? with
    | some v => is_active_validator v epoch
    | none => false

def get_active_validator_indices (s : State) (epoch : Nat) : List Nat := active_indices_of s.validators epoch

def get_validator_churn_limit (cfg : Config) (s : State) : SM Nat := do
  if cfg.CHURN_LIMIT_QUOTIENT = 0 then invalid "CHURN_LIMIT_QUOTIENT = 0"
  let active_validator_indices := get_active_validator_indices s (get_current_epoch cfg s)
  pure (max cfg.MIN_PER_EPOCH_CHURN_LIMIT (active_validator_indices.length / cfg.CHURN_LIMIT_QUOTIENT))

/-- deneb (EIP-7514) -/
def get_validator_activation_churn_limit (cfg : Config) (s : State) : SM Nat := do
  pure (min cfg.MAX_PER_EPOCH_ACTIVATION_CHURN_LIMIT (← get_validator_churn_limit cfg s))

def get_seed (cfg : Config) (s : State) (epoch : Nat) (domain_type : Bytes) : SM Bytes := do
  let e ← u64 (epoch + cfg.EPOCHS_PER_HISTORICAL_VECTOR) "get_seed"
  -- pyspec: `epoch + EPOCHS_PER_HISTORICAL_VECTOR - MIN_SEED_LOOKAHEAD - 1` (uint64: underflow raises)
  if e < cfg.MIN_SEED_LOOKAHEAD + 1 then throw (.overflow "get_seed underflow")
  let mix ← get_randao_mix cfg s (e - cfg.MIN_SEED_LOOKAHEAD - 1)
  pure (hash (domain_type ++ uintToBytes 8 epoch ++ mix))

def get_committee_count_per_slot (cfg : Config) (s : State) (epoch : Nat) : SM Nat := do
  if cfg.SLOTS_PER_EPOCH = 0 || cfg.TARGET_COMMITTEE_SIZE = 0 then invalid "division by zero"
  pure (max 1 (min cfg.MAX_COMMITTEES_PER_SLOT
    ((get_active_validator_indices s epoch).length / cfg.SLOTS_PER_EPOCH / cfg.TARGET_COMMITTEE_SIZE)))

def get_beacon_committee (cfg : Config) (s : State) (slot index : Nat) : SM (List Nat) := do
  let epoch := compute_epoch_at_slot cfg slot
  let committees_per_slot ← get_committee_count_per_slot cfg s epoch
  compute_committee cfg (get_active_validator_indices s epoch) (← get_seed cfg s epoch DOMAIN_BEACON_ATTESTER)
    ((slot % cfg.SLOTS_PER_EPOCH) * committees_per_slot + index) (committees_per_slot * cfg.SLOTS_PER_EPOCH)

def get_total_balance (cfg : Config) (s : State) (indices : List Nat) : SM Nat := do
  let sum ← indices.foldlM (fun acc i => do
    let v ← idx s.validators i "validators"
    u64 (acc + v.effective_balance) "get_total_balance") 0
  pure (max cfg.EFFECTIVE_BALANCE_INCREMENT sum)

def get_total_active_balance (cfg : Config) (s : State) : SM Nat :=
  get_total_balance cfg s (get_active_validator_indices s (get_current_epoch cfg s))

/-- `get_attesting_indices` (phase0 … deneb form): members of the committee whose bit is set.
Returned in committee order without duplicates (the pyspec returns a set). A bitlist shorter than the
committee is an IndexError in the pyspec. -/
def get_attesting_indices (cfg : Config) (s : State) (data : AttestationData) (bits : List Bool) : SM (List Nat) := do
  let committee ← get_beacon_committee cfg s data.slot data.index
  if bits.length < committee.length then invalid "aggregation bits shorter than committee"
  pure ((committee.zip bits).filterMap fun (i, b) => if b then some i else none).eraseDups

/-! ### Mutators -/

def increase_balance (s : State) (index delta : Nat) : SM State := do
  let b ← idx s.balances index "balances"
  let nb ← u64 (b + delta) "increase_balance"
  pure { s with balances := s.balances.set index nb }

def decrease_balance (s : State) (index delta : Nat) : SM State := do
  let b ← idx s.balances index "balances"
  pure { s with balances := s.balances.set index (if delta > b then 0 else b - delta) }

/-- `get_validator_churn_limit` on a bare registry -/
def churn_limit_of (cfg : Config) (vals : List Validator) (current_epoch : Nat) : Nat :=
  max cfg.MIN_PER_EPOCH_CHURN_LIMIT ((vals.filter (is_active_validator · current_epoch)).length / cfg.CHURN_LIMIT_QUOTIENT)

/-- The body of `initiate_validator_exit` on a bare registry, in unbounded `Nat` arithmetic
(the `uint64` range of the two assigned epochs is checked by the caller). -/
def initiate_validator_exit_pure (cfg : Config) (current_epoch : Nat) (vals : List Validator) (index : Nat) : List Validator :=
  match vals[index]? with
  | none => vals
  | some validator =>
    if validator.exit_epoch ≠ FAR_FUTURE_EPOCH then vals else
    -- exit_epochs = [v.exit_epoch for v in state.validators if v.exit_epoch != FAR_FUTURE_EPOCH]
    let exit_epochs := (vals.filter (·.exit_epoch ≠ FAR_FUTURE_EPOCH)).map (·.exit_epoch)
    -- exit_queue_epoch = max(exit_epochs + [compute_activation_exit_epoch(get_current_epoch(state))])
    let exit_queue_epoch := (exit_epochs ++ [compute_activation_exit_epoch cfg current_epoch]).foldl max 0
    -- exit_queue_churn = len([v for v in state.validators if v.exit_epoch == exit_queue_epoch])
    let exit_queue_churn := (vals.filter (·.exit_epoch = exit_queue_epoch)).length
    let exit_queue_epoch :=
      if exit_queue_churn ≥ churn_limit_of cfg vals current_epoch then exit_queue_epoch + 1 else exit_queue_epoch
    vals.set index { validator with exit_epoch := exit_queue_epoch,
                                    withdrawable_epoch := exit_queue_epoch + cfg.MIN_VALIDATOR_WITHDRAWABILITY_DELAY }

/-- `initiate_validator_exit` -/
def initiate_validator_exit (cfg : Config) (s : State) (index : Nat) : SM State := do
  let _ ← idx s.validators index "validators"
  if cfg.CHURN_LIMIT_QUOTIENT = 0 then invalid "CHURN_LIMIT_QUOTIENT = 0"
  let vals := initiate_validator_exit_pure cfg (get_current_epoch cfg s) s.validators index
  let v ← idx vals index "validators"
  let _ ← u64 v.exit_epoch "exit_epoch"
  let _ ← u64 v.withdrawable_epoch "withdrawable_epoch"
  pure { s with validators := vals }

end Zrnt.Beacon.Spec
