import Zrnt.Beacon.Spec.EpochPure
/-!
# Specification layer `S`, theorem-facing form of `process_slot`, the four upgrades and `process_slots`

Pure functions on `State`; what the monadic versions obtain from oracles or from the committee machinery enters as
inputs (`previous_state_root`, `UpgradeInputs`). The monadic versions in `Transition.lean` compare themselves with
these on every evaluation.
-/
namespace Zrnt.Beacon.Spec
open Zrnt.Beacon

/-- `ExecutionPayloadHeader()` of bellatrix -/
def defaultPayloadHeader (cfg : Config) : ExecutionPayloadHeader :=
  { parent_hash := ZERO32, fee_recipient := ⟨Array.replicate 20 0⟩, state_root := ZERO32, receipts_root := ZERO32,
    logs_bloom := ⟨Array.replicate cfg.BYTES_PER_LOGS_BLOOM 0⟩, prev_randao := ZERO32, block_number := 0, gas_limit := 0,
    gas_used := 0, timestamp := 0, extra_data := ByteArray.empty, base_fee_per_gas := 0, block_hash := ZERO32,
    transactions_root := ZERO32, withdrawals_root := none, blob_gas_used := none, excess_blob_gas := none }

/-- `process_slot` given `hash_tree_root(state)` -/
def process_slot_pure (cfg : Config) (previous_state_root : Bytes) (s : State) : State :=
  -- Cache state root
  let s := { s with state_roots := s.state_roots.set (s.slot % cfg.SLOTS_PER_HISTORICAL_ROOT) previous_state_root }
  -- Cache latest block header state root
  let s := if s.latest_block_header.state_root = ZERO32 then
      { s with latest_block_header := { s.latest_block_header with state_root := previous_state_root } }
    else s
  -- Cache block root
  let previous_block_root := hash_tree_root_header s.latest_block_header
  { s with block_roots := s.block_roots.set (s.slot % cfg.SLOTS_PER_HISTORICAL_ROOT) previous_block_root }

/-- a pending attestation as `translate_participation` sees it: attesting indices and the three root comparisons
(`data.source == justified_checkpoint`, `data.target.root == get_block_root(..)`, `data.beacon_block_root == get_block_root_at_slot(..)`) -/
structure FlagAtt where
  indices : List Nat
  inclusion_delay : Nat
  source_ok : Bool
  target_ok : Bool
  head_ok : Bool
  deriving DecidableEq, Inhabited

/-- `get_attestation_participation_flag_indices` (altair form; `assert is_matching_source` is the monadic version's) -/
def participation_flag_indices_pure (cfg : Config) (a : FlagAtt) : List Nat :=
  let is_matching_source := a.source_ok
  let is_matching_target := is_matching_source && a.target_ok
  let is_matching_head := is_matching_target && a.head_ok
  (if is_matching_source && decide (a.inclusion_delay ≤ integer_squareroot cfg.SLOTS_PER_EPOCH) then [TIMELY_SOURCE_FLAG_INDEX] else []) ++
  (if is_matching_target && decide (a.inclusion_delay ≤ cfg.SLOTS_PER_EPOCH) then [TIMELY_TARGET_FLAG_INDEX] else []) ++
  (if is_matching_head && decide (a.inclusion_delay = cfg.MIN_ATTESTATION_INCLUSION_DELAY) then [TIMELY_HEAD_FLAG_INDEX] else [])

/-- `translate_participation`: the new `previous_epoch_participation` -/
def translate_participation_pure (cfg : Config) (atts : List FlagAtt) (participation : List Nat) : List Nat :=
  atts.foldl (fun epoch_participation attestation =>
    let participation_flag_indices := participation_flag_indices_pure cfg attestation
    attestation.indices.foldl (fun epoch_participation index =>
      participation_flag_indices.foldl (fun epoch_participation flag_index =>
        match epoch_participation[index]? with
        | some flags => epoch_participation.set index (add_flag flags flag_index)
        | none => epoch_participation) epoch_participation) epoch_participation) participation

structure UpgradeInputs where
  /-- `pre.previous_epoch_attestations`, resolved against the post state (altair upgrade) -/
  atts : List FlagAtt
  /-- `get_next_sync_committee(post)` (altair upgrade) -/
  syncCommittee : Option SyncCommittee

def upgrade_to_altair_pure (cfg : Config) (inp : UpgradeInputs) (pre : State) : State :=
  let epoch := get_current_epoch cfg pre
  { pre with
    fork := .altair
    fork_rec := ⟨pre.fork_rec.current_version, cfg.ALTAIR_FORK_VERSION, epoch⟩
    previous_epoch_attestations := []
    current_epoch_attestations := []
    previous_epoch_participation := translate_participation_pure cfg inp.atts (List.replicate pre.validators.length 0)
    current_epoch_participation := List.replicate pre.validators.length 0
    inactivity_scores := List.replicate pre.validators.length 0
    current_sync_committee := inp.syncCommittee
    next_sync_committee := inp.syncCommittee }

def upgrade_to_bellatrix_pure (cfg : Config) (pre : State) : State :=
  let epoch := get_current_epoch cfg pre
  { pre with
    fork := .bellatrix
    fork_rec := ⟨pre.fork_rec.current_version, cfg.BELLATRIX_FORK_VERSION, epoch⟩
    latest_execution_payload_header := some (defaultPayloadHeader cfg) }

def upgrade_to_capella_pure (cfg : Config) (pre : State) : State :=
  let epoch := get_current_epoch cfg pre
  { pre with
    fork := .capella
    fork_rec := ⟨pre.fork_rec.current_version, cfg.CAPELLA_FORK_VERSION, epoch⟩
    latest_execution_payload_header := pre.latest_execution_payload_header.map fun h => { h with withdrawals_root := some ZERO32 }
    next_withdrawal_index := 0
    next_withdrawal_validator_index := 0
    historical_summaries := [] }

def upgrade_to_deneb_pure (cfg : Config) (pre : State) : State :=
  let epoch := get_current_epoch cfg pre
  { pre with
    fork := .deneb
    fork_rec := ⟨pre.fork_rec.current_version, cfg.DENEB_FORK_VERSION, epoch⟩
    latest_execution_payload_header :=
      pre.latest_execution_payload_header.map fun h => { h with blob_gas_used := some 0, excess_blob_gas := some 0 } }

/-- is `s` at the first slot of `fork_epoch`? -/
def at_fork_epoch (cfg : Config) (fork_epoch : Nat) (s : State) : Bool :=
  s.slot % cfg.SLOTS_PER_EPOCH = 0 && compute_epoch_at_slot cfg s.slot = fork_epoch

/-- the upgrades due at the state's slot, in fork order (several forks may share an epoch); electra is out of scope -/
def upgrade_maybe_pure (cfg : Config) (inp : UpgradeInputs) (s : State) : State :=
  let s := if s.fork = .phase0 && at_fork_epoch cfg cfg.ALTAIR_FORK_EPOCH s then upgrade_to_altair_pure cfg inp s else s
  let s := if s.fork = .altair && at_fork_epoch cfg cfg.BELLATRIX_FORK_EPOCH s then upgrade_to_bellatrix_pure cfg s else s
  let s := if s.fork = .bellatrix && at_fork_epoch cfg cfg.CAPELLA_FORK_EPOCH s then upgrade_to_capella_pure cfg s else s
  if s.fork = .capella && at_fork_epoch cfg cfg.DENEB_FORK_EPOCH s then upgrade_to_deneb_pure cfg s else s

/-- what one slot of `process_slots` needs from outside -/
structure SlotInputs where
  stateRoot : Bytes
  epoch : EpochInputs
  upgrade : UpgradeInputs

/-- one iteration of the `while` loop of `process_slots`, with the fork upgrade that follows it -/
def process_slot_step_pure (epochFn : Config → EpochInputs → State → State) (cfg : Config) (inp : SlotInputs) (s : State) : State :=
  let s := process_slot_pure cfg inp.stateRoot s
  -- Process epoch on the start slot of the next epoch
  let s := if (s.slot + 1) % cfg.SLOTS_PER_EPOCH = 0 then epochFn cfg inp.epoch s else s
  let s := { s with slot := s.slot + 1 }
  upgrade_maybe_pure cfg inp.upgrade s

/-- `process_slots` over as many slots as there are inputs -/
def process_slots_pure (cfg : Config) (inps : List SlotInputs) (s : State) : State :=
  inps.foldl (fun s inp => process_slot_step_pure process_epoch_pure cfg inp s) s

end Zrnt.Beacon.Spec
