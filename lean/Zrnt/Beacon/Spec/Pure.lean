import Zrnt.Beacon.Spec.Helpers
/-!
# Specification layer `S`, theorem-facing form: the epoch sub-transitions on bare lists, in `Nat`

The same functions as in `Epoch.lean`, with the same names plus `_pure`, written over the fields they
read and write (registry, balances, participation, scores …) and without the `uint64`/index checks: those
are the job of the monadic versions in `Epoch.lean`, which ALSO compare their result with the function
here on every evaluation (`Err.oracle "pure core disagrees"` would surface as a mismatch in the
correspondence run). The refinement theorems (`Proofs/Properties/C02.lean`) are about these definitions.
-/
namespace Zrnt.Beacon.Spec
open Zrnt.Beacon

/-! ## Altair constants -/
def TIMELY_SOURCE_FLAG_INDEX : Nat := 0
def TIMELY_TARGET_FLAG_INDEX : Nat := 1
def TIMELY_HEAD_FLAG_INDEX : Nat := 2
def TIMELY_SOURCE_WEIGHT : Nat := 14
def TIMELY_TARGET_WEIGHT : Nat := 26
def TIMELY_HEAD_WEIGHT : Nat := 14
def SYNC_REWARD_WEIGHT : Nat := 2
def PROPOSER_WEIGHT : Nat := 8
def WEIGHT_DENOMINATOR : Nat := 64
def PARTICIPATION_FLAG_WEIGHTS : List Nat := [TIMELY_SOURCE_WEIGHT, TIMELY_TARGET_WEIGHT, TIMELY_HEAD_WEIGHT]

def has_flag (flags flag_index : Nat) : Bool := (flags / 2 ^ flag_index) % 2 = 1
def add_flag (flags flag_index : Nat) : Nat := if has_flag flags flag_index then flags else flags + 2 ^ flag_index

abbrev Deltas := List Nat × List Nat

def zeros (n : Nat) : List Nat := List.replicate n 0

/-- `l[i] += v` (no-op outside the list; the monadic versions raise there) -/
def addAtPure (l : List Nat) (i v : Nat) : List Nat :=
  match l[i]? with
  | some x => l.set i (x + v)
  | none => l

/-! ## Registry views -/

/-- `get_eligible_validator_indices` on a bare registry -/
def eligible_indices_of (vals : List Validator) (previous_epoch : Nat) : List Nat :=
  (List.range vals.length).filter fun i =>
    match vals[i]? with
    | some v => is_active_validator v previous_epoch || (v.slashed && previous_epoch + 1 < v.withdrawable_epoch)
    | none => false

def eff_of (vals : List Validator) (i : Nat) : Nat := (vals.getD i default).effective_balance
def slashed_of (vals : List Validator) (i : Nat) : Bool := (vals.getD i default).slashed

/-- `get_total_balance` -/
def total_balance_of (cfg : Config) (vals : List Validator) (indices : List Nat) : Nat :=
  max cfg.EFFECTIVE_BALANCE_INCREMENT ((indices.map (eff_of vals)).sum)

/-- `get_total_active_balance` for the given (current) epoch -/
def total_active_balance_of (cfg : Config) (vals : List Validator) (current_epoch : Nat) : Nat :=
  total_balance_of cfg vals (active_indices_of vals current_epoch)

/-- altair `get_unslashed_participating_indices` for the epoch whose participation list is given -/
def unslashed_participating_indices_of (vals : List Validator) (epoch_participation : List Nat)
    (flag_index epoch : Nat) : List Nat :=
  let active_validator_indices := active_indices_of vals epoch
  let participating_indices := active_validator_indices.filter fun i => has_flag (epoch_participation.getD i 0) flag_index
  participating_indices.filter fun index => !slashed_of vals index

/-! ## Altair rewards and penalties -/

def base_reward_per_increment_of (cfg : Config) (total_active_balance : Nat) : Nat :=
  cfg.EFFECTIVE_BALANCE_INCREMENT * cfg.BASE_REWARD_FACTOR / integer_squareroot total_active_balance

/-- altair `get_base_reward` -/
def base_reward_of (cfg : Config) (vals : List Validator) (total_active_balance index : Nat) : Nat :=
  let increments := eff_of vals index / cfg.EFFECTIVE_BALANCE_INCREMENT
  increments * base_reward_per_increment_of cfg total_active_balance

/-- altair `get_flag_index_deltas` -/
def get_flag_index_deltas_pure (cfg : Config) (vals : List Validator) (previous_epoch_participation : List Nat)
    (previous_epoch total_active_balance : Nat) (in_leak : Bool) (flag_index : Nat) : Deltas :=
  let unslashed_participating_indices :=
    unslashed_participating_indices_of vals previous_epoch_participation flag_index previous_epoch
  let weight := PARTICIPATION_FLAG_WEIGHTS.getD flag_index 0
  let unslashed_participating_balance := total_balance_of cfg vals unslashed_participating_indices
  let unslashed_participating_increments := unslashed_participating_balance / cfg.EFFECTIVE_BALANCE_INCREMENT
  let active_increments := total_active_balance / cfg.EFFECTIVE_BALANCE_INCREMENT
  (eligible_indices_of vals previous_epoch).foldl (fun (d : Deltas) index =>
    let base_reward := base_reward_of cfg vals total_active_balance index
    if unslashed_participating_indices.contains index then
      if !in_leak then
        let reward_numerator := base_reward * weight * unslashed_participating_increments
        (addAtPure d.1 index (reward_numerator / (active_increments * WEIGHT_DENOMINATOR)), d.2)
      else d
    else if flag_index ≠ TIMELY_HEAD_FLAG_INDEX then
      (d.1, addAtPure d.2 index (base_reward * weight / WEIGHT_DENOMINATOR))
    else d) (zeros vals.length, zeros vals.length)

/-- altair `get_inactivity_penalty_deltas`; `quotient` is `INACTIVITY_PENALTY_QUOTIENT_{ALTAIR,BELLATRIX}` -/
def get_inactivity_penalty_deltas_pure (cfg : Config) (vals : List Validator) (previous_epoch_participation : List Nat)
    (inactivity_scores : List Nat) (previous_epoch quotient : Nat) : Deltas :=
  let matching_target_indices :=
    unslashed_participating_indices_of vals previous_epoch_participation TIMELY_TARGET_FLAG_INDEX previous_epoch
  (eligible_indices_of vals previous_epoch).foldl (fun (d : Deltas) index =>
    if !matching_target_indices.contains index then
      let penalty_numerator := eff_of vals index * inactivity_scores.getD index 0
      let penalty_denominator := cfg.INACTIVITY_SCORE_BIAS * quotient
      (d.1, addAtPure d.2 index (penalty_numerator / penalty_denominator))
    else d) (zeros vals.length, zeros vals.length)

/-- the loop `for index in range(len(state.validators)): increase_balance(...); decrease_balance(...)` -/
def apply_deltas_pure (n : Nat) (balances : List Nat) (d : Deltas) : List Nat :=
  (List.range n).foldl (fun balances index =>
    match balances[index]? with
    | none => balances
    | some b =>
      -- increase_balance
      let b := b + d.1.getD index 0
      -- decrease_balance
      let delta := d.2.getD index 0
      balances.set index (if delta > b then 0 else b - delta)) balances

/-- altair `process_rewards_and_penalties` after the genesis-epoch guard: new balances -/
def process_rewards_and_penalties_altair_pure (cfg : Config) (vals : List Validator)
    (previous_epoch_participation inactivity_scores balances : List Nat)
    (previous_epoch current_epoch quotient : Nat) (in_leak : Bool) : List Nat :=
  let total_active_balance := total_active_balance_of cfg vals current_epoch
  let flag_deltas := (List.range PARTICIPATION_FLAG_WEIGHTS.length).map fun flag_index =>
    get_flag_index_deltas_pure cfg vals previous_epoch_participation previous_epoch total_active_balance in_leak flag_index
  let deltas := flag_deltas ++
    [get_inactivity_penalty_deltas_pure cfg vals previous_epoch_participation inactivity_scores previous_epoch quotient]
  deltas.foldl (apply_deltas_pure vals.length) balances

/-- altair `process_inactivity_updates` after the genesis-epoch guard: new scores -/
def process_inactivity_updates_pure (cfg : Config) (vals : List Validator) (previous_epoch_participation : List Nat)
    (inactivity_scores : List Nat) (previous_epoch : Nat) (in_leak : Bool) : List Nat :=
  let participating :=
    unslashed_participating_indices_of vals previous_epoch_participation TIMELY_TARGET_FLAG_INDEX previous_epoch
  (eligible_indices_of vals previous_epoch).foldl (fun scores index =>
    match scores[index]? with
    | none => scores
    | some score =>
      -- Increase the inactivity score of inactive validators
      let score := if participating.contains index then score - min 1 score else score + cfg.INACTIVITY_SCORE_BIAS
      -- Decrease the inactivity score of all eligible validators during a leak-free epoch
      let score := if !in_leak then score - min cfg.INACTIVITY_SCORE_RECOVERY_RATE score else score
      scores.set index score) inactivity_scores

/-- altair: the two target balances `process_justification_and_finalization` weighs -/
def target_balances_altair_pure (cfg : Config) (vals : List Validator)
    (previous_epoch_participation current_epoch_participation : List Nat) (previous_epoch current_epoch : Nat) : Nat × Nat :=
  (total_balance_of cfg vals
     (unslashed_participating_indices_of vals previous_epoch_participation TIMELY_TARGET_FLAG_INDEX previous_epoch),
   total_balance_of cfg vals
     (unslashed_participating_indices_of vals current_epoch_participation TIMELY_TARGET_FLAG_INDEX current_epoch))

/-! ## Phase0 rewards and penalties

The pending attestations enter with their committees resolved (`get_attesting_indices`) and their target/head
comparisons made; sets of validator indices are represented as index-sorted lists. -/

structure ResolvedAtt where
  /-- `get_attesting_indices(state, a.data, a.aggregation_bits)` -/
  indices : List Nat
  inclusion_delay : Nat
  proposer_index : Nat
  /-- `a.data.target.root == get_block_root(state, epoch)` -/
  matching_target : Bool
  /-- `a.data.beacon_block_root == get_block_root_at_slot(state, a.data.slot)` -/
  matching_head : Bool
  deriving DecidableEq, Inhabited

/-- `get_matching_target_attestations` among the epoch's (source-matching) attestations -/
def matching_target_atts (atts : List ResolvedAtt) : List ResolvedAtt := atts.filter (·.matching_target)
/-- `get_matching_head_attestations` -/
def matching_head_atts (atts : List ResolvedAtt) : List ResolvedAtt := (matching_target_atts atts).filter (·.matching_head)

/-- `get_unslashed_attesting_indices`: the union of the attesting indices, without the slashed validators -/
def unslashed_attesting_indices_of (vals : List Validator) (atts : List ResolvedAtt) : List Nat :=
  let output := (List.range vals.length).filter fun i => atts.any fun a => a.indices.contains i
  output.filter fun index => !slashed_of vals index

/-- phase0 `get_base_reward` -/
def base_reward_phase0_of (cfg : Config) (vals : List Validator) (total_balance index : Nat) : Nat :=
  eff_of vals index * cfg.BASE_REWARD_FACTOR / integer_squareroot total_balance / BASE_REWARDS_PER_EPOCH

def proposer_reward_of (cfg : Config) (vals : List Validator) (total_balance attesting_index : Nat) : Nat :=
  base_reward_phase0_of cfg vals total_balance attesting_index / cfg.PROPOSER_REWARD_QUOTIENT

/-- phase0 `get_attestation_component_deltas` -/
def get_attestation_component_deltas_pure (cfg : Config) (vals : List Validator) (previous_epoch total_balance : Nat)
    (in_leak : Bool) (attestations : List ResolvedAtt) : Deltas :=
  let unslashed_attesting_indices := unslashed_attesting_indices_of vals attestations
  let attesting_balance := total_balance_of cfg vals unslashed_attesting_indices
  (eligible_indices_of vals previous_epoch).foldl (fun (d : Deltas) index =>
    let base_reward := base_reward_phase0_of cfg vals total_balance index
    if unslashed_attesting_indices.contains index then
      let increment := cfg.EFFECTIVE_BALANCE_INCREMENT
      if in_leak then (addAtPure d.1 index base_reward, d.2)
      else
        let reward_numerator := base_reward * (attesting_balance / increment)
        (addAtPure d.1 index (reward_numerator / (total_balance / increment)), d.2)
    else (d.1, addAtPure d.2 index base_reward)) (zeros vals.length, zeros vals.length)

/-- `min(candidates, key=lambda a: a.inclusion_delay)`: the first attestation with the least inclusion delay -/
def min_inclusion (first : ResolvedAtt) (candidates : List ResolvedAtt) : ResolvedAtt :=
  candidates.foldl (fun best a => if a.inclusion_delay < best.inclusion_delay then a else best) first

/-- phase0 `get_inclusion_delay_deltas` (rewards; there are no penalties) -/
def get_inclusion_delay_deltas_pure (cfg : Config) (vals : List Validator) (total_balance : Nat)
    (matching_source_attestations : List ResolvedAtt) : List Nat :=
  (unslashed_attesting_indices_of vals matching_source_attestations).foldl (fun rewards index =>
    match matching_source_attestations.filter (fun a => a.indices.contains index) with
    | [] => rewards
    | first :: rest =>
      let attestation := min_inclusion first rest
      let rewards := addAtPure rewards attestation.proposer_index (proposer_reward_of cfg vals total_balance index)
      let max_attester_reward :=
        base_reward_phase0_of cfg vals total_balance index - proposer_reward_of cfg vals total_balance index
      addAtPure rewards index (max_attester_reward / attestation.inclusion_delay)) (zeros vals.length)

/-- phase0 `get_inactivity_penalty_deltas` (penalties; there are no rewards) -/
def get_inactivity_penalty_deltas_phase0_pure (cfg : Config) (vals : List Validator)
    (previous_epoch total_balance finality_delay : Nat) (in_leak : Bool)
    (matching_source_attestations : List ResolvedAtt) : List Nat :=
  if in_leak then
    let matching_target_attesting_indices :=
      unslashed_attesting_indices_of vals (matching_target_atts matching_source_attestations)
    (eligible_indices_of vals previous_epoch).foldl (fun penalties index =>
      -- If validator is performing optimally this cancels all rewards for a neutral balance
      let base_reward := base_reward_phase0_of cfg vals total_balance index
      let penalties := addAtPure penalties index
        (BASE_REWARDS_PER_EPOCH * base_reward - proposer_reward_of cfg vals total_balance index)
      if !matching_target_attesting_indices.contains index then
        addAtPure penalties index (eff_of vals index * finality_delay / cfg.INACTIVITY_PENALTY_QUOTIENT)
      else penalties) (zeros vals.length)
  else zeros vals.length

/-- phase0 `get_attestation_deltas`; `atts` are the previous epoch's pending attestations -/
def get_attestation_deltas_pure (cfg : Config) (vals : List Validator) (previous_epoch total_balance finality_delay : Nat)
    (in_leak : Bool) (atts : List ResolvedAtt) : Deltas :=
  let source := get_attestation_component_deltas_pure cfg vals previous_epoch total_balance in_leak atts
  let target := get_attestation_component_deltas_pure cfg vals previous_epoch total_balance in_leak (matching_target_atts atts)
  let head := get_attestation_component_deltas_pure cfg vals previous_epoch total_balance in_leak (matching_head_atts atts)
  let inclusion_delay_rewards := get_inclusion_delay_deltas_pure cfg vals total_balance atts
  let inactivity_penalties :=
    get_inactivity_penalty_deltas_phase0_pure cfg vals previous_epoch total_balance finality_delay in_leak atts
  ((List.range vals.length).map fun i =>
      source.1.getD i 0 + target.1.getD i 0 + head.1.getD i 0 + inclusion_delay_rewards.getD i 0,
   (List.range vals.length).map fun i =>
      source.2.getD i 0 + target.2.getD i 0 + head.2.getD i 0 + inactivity_penalties.getD i 0)

/-- phase0 `process_rewards_and_penalties` after the genesis-epoch guard: new balances -/
def process_rewards_and_penalties_phase0_pure (cfg : Config) (vals : List Validator) (balances : List Nat)
    (previous_epoch current_epoch finality_delay : Nat) (in_leak : Bool) (atts : List ResolvedAtt) : List Nat :=
  apply_deltas_pure vals.length balances
    (get_attestation_deltas_pure cfg vals previous_epoch (total_active_balance_of cfg vals current_epoch)
      finality_delay in_leak atts)

/-- phase0: the two target balances `process_justification_and_finalization` weighs -/
def target_balances_phase0_pure (cfg : Config) (vals : List Validator) (previous_atts current_atts : List ResolvedAtt) : Nat × Nat :=
  (total_balance_of cfg vals (unslashed_attesting_indices_of vals (matching_target_atts previous_atts)),
   total_balance_of cfg vals (unslashed_attesting_indices_of vals (matching_target_atts current_atts)))

/-! ## Final updates -/

/-- `process_eth1_data_reset`: the new `eth1_data_votes` -/
def process_eth1_data_reset_pure (cfg : Config) (current_epoch : Nat) (votes : List Eth1Data) : List Eth1Data :=
  let next_epoch := current_epoch + 1
  if next_epoch % cfg.EPOCHS_PER_ETH1_VOTING_PERIOD = 0 then [] else votes

/-- `process_slashings_reset`: the new `slashings` -/
def process_slashings_reset_pure (cfg : Config) (current_epoch : Nat) (slashings : List Nat) : List Nat :=
  let next_epoch := current_epoch + 1
  slashings.set (next_epoch % cfg.EPOCHS_PER_SLASHINGS_VECTOR) 0

/-- `process_randao_mixes_reset`: the new `randao_mixes` -/
def process_randao_mixes_reset_pure (cfg : Config) (current_epoch : Nat) (mixes : List Bytes) : List Bytes :=
  let next_epoch := current_epoch + 1
  -- get_randao_mix(state, current_epoch)
  match mixes[current_epoch % cfg.EPOCHS_PER_HISTORICAL_VECTOR]? with
  | some mix => mixes.set (next_epoch % cfg.EPOCHS_PER_HISTORICAL_VECTOR) mix
  | none => mixes

/-- does the epoch transition at the end of `current_epoch` close a historical batch? -/
def historical_batch_due (cfg : Config) (current_epoch : Nat) : Bool :=
  let next_epoch := current_epoch + 1
  next_epoch % (cfg.SLOTS_PER_HISTORICAL_ROOT / cfg.SLOTS_PER_EPOCH) = 0

/-- `process_historical_roots_update`: the new `historical_roots` -/
def process_historical_roots_update_pure (cfg : Config) (current_epoch : Nat) (block_roots state_roots historical_roots : List Bytes) :
    List Bytes :=
  if historical_batch_due cfg current_epoch then
    historical_roots ++ [hash_tree_root_historical_batch block_roots state_roots]
  else historical_roots

/-- capella `process_historical_summaries_update`: the new `historical_summaries` -/
def process_historical_summaries_update_pure (cfg : Config) (current_epoch : Nat) (block_roots state_roots : List Bytes)
    (summaries : List HistoricalSummary) : List HistoricalSummary :=
  if historical_batch_due cfg current_epoch then
    summaries ++ [⟨hash_tree_root_roots_vector block_roots, hash_tree_root_roots_vector state_roots⟩]
  else summaries

/-- altair `process_participation_flag_updates`: `(previous, current)` participation -/
def process_participation_flag_updates_pure (n : Nat) (current_epoch_participation : List Nat) : List Nat × List Nat :=
  (current_epoch_participation, List.replicate n 0)

/-- phase0 `process_participation_record_updates`: `(previous, current)` attestations -/
def process_participation_record_updates_pure (current_epoch_attestations : List PendingAttestation) :
    List PendingAttestation × List PendingAttestation :=
  (current_epoch_attestations, [])

/-! ## Sync committee selection (altair+) -/

/-- The `while` loop of `get_next_sync_committee_indices` from counter `i` with the members found so far, on `fuel`
iterations (`none`: not finished). `shuffled i` stands for `compute_shuffled_index(i % n, n, seed)`. -/
def sync_committee_indices_loop (cfg : Config) (vals : List Validator) (active : List Nat) (seed : Bytes)
    (shuffled : Nat → Nat) : Nat → Nat → List Nat → Option (List Nat)
  | 0, _, acc => if acc.length ≥ cfg.SYNC_COMMITTEE_SIZE then some acc else none
  | fuel + 1, i, acc =>
    if acc.length ≥ cfg.SYNC_COMMITTEE_SIZE then some acc else
    let MAX_RANDOM_BYTE := 2 ^ 8 - 1
    let shuffled_index := shuffled i
    let candidate_index := active.getD shuffled_index 0
    let random_byte := ((hash (seed ++ uintToBytes 8 (i / 32))).get! (i % 32)).toNat
    let effective_balance := eff_of vals candidate_index
    let acc := if effective_balance * MAX_RANDOM_BYTE ≥ cfg.MAX_EFFECTIVE_BALANCE * random_byte
      then acc ++ [candidate_index] else acc
    sync_committee_indices_loop cfg vals active seed shuffled fuel (i + 1) acc

/-- `process_sync_committee_updates` on the two committees: rotate at a period boundary -/
def process_sync_committee_updates_pure (cfg : Config) (current_epoch : Nat) (current next computed : Option SyncCommittee) :
    Option SyncCommittee × Option SyncCommittee :=
  let next_epoch := current_epoch + 1
  if next_epoch % cfg.EPOCHS_PER_SYNC_COMMITTEE_PERIOD = 0 then (next, computed) else (current, next)

end Zrnt.Beacon.Spec
