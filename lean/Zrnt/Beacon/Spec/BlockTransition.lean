import Zrnt.Beacon.Spec.BlockOps
/-!
# Specification layer `S`: `process_block` per fork and `state_transition`

```python
def state_transition(state, signed_block, validate_result=True):
    block = signed_block.message
    process_slots(state, block.slot)                       # Spec.process_slots (Spec/Transition.lean)
    if validate_result: assert verify_block_signature(state, signed_block)
    process_block(state, block)
    if validate_result: assert block.state_root == hash_tree_root(state)
```
`hash_tree_root(state)` after the block is the input `o_post_root` (SSZ merkleization of the state is
property C05's subject); the post-state itself is compared field by field on the same op line.
-/
namespace Zrnt.Beacon.Block
open Zrnt.Beacon Zrnt.Beacon.Spec

/-- `process_block` of the state's fork. A block whose container belongs to another fork is not a
block of this fork's `BeaconBlock` type at all: rejected. -/
def process_block (cfg : Config) (s : State) (block : SignedBlock) : SM State := do
  require (block.fork = s.fork) "block.container_of_other_fork"
  check_limits cfg block
  match s.fork with
  | .phase0 => do
    let s ← process_block_header cfg s block
    let s ← process_randao cfg s block
    let s ← process_eth1_data cfg s block
    process_operations cfg s block
  | .altair => do
    let s ← process_block_header cfg s block
    let s ← process_randao cfg s block
    let s ← process_eth1_data cfg s block
    let s ← process_operations cfg s block
    let some sa := block.sync_aggregate | invalid "block.no_sync_aggregate"
    process_sync_aggregate cfg s sa  -- [New in Altair]
  | .bellatrix => do
    let s ← process_block_header cfg s block
    let some payload := block.execution_payload | invalid "block.no_execution_payload"
    let s ← if is_execution_enabled cfg s payload then
        process_execution_payload cfg s block payload  -- [New in Bellatrix]
      else pure s
    let s ← process_randao cfg s block
    let s ← process_eth1_data cfg s block
    let s ← process_operations cfg s block
    let some sa := block.sync_aggregate | invalid "block.no_sync_aggregate"
    process_sync_aggregate cfg s sa
  | .capella | .deneb => do
    let s ← process_block_header cfg s block
    let some payload := block.execution_payload | invalid "block.no_execution_payload"
    -- [Modified in Capella] Removed `is_execution_enabled` check in Capella
    let s ← process_withdrawals cfg s payload  -- [New in Capella]
    let s ← process_execution_payload cfg s block payload  -- [Modified in Capella] [Modified in Deneb]
    let s ← process_randao cfg s block
    let s ← process_eth1_data cfg s block
    let s ← process_operations cfg s block  -- [Modified in Capella]
    let some sa := block.sync_aggregate | invalid "block.no_sync_aggregate"
    process_sync_aggregate cfg s sa

/-- `verify_block_signature`: `proposer = state.validators[signed_block.message.proposer_index]`
(IndexError ⇒ invalid), BLS verification = oracle Boolean. -/
def verify_block_signature (s : State) (block : SignedBlock) : SM Bool := do
  let _ ← idx s.validators block.proposer_index "block_signature.proposer_out_of_range"
  pure block.o_block_sig

/-- `state_transition` after `process_slots`: the state is already at the block's slot. -/
def state_transition_post_slots (cfg : Config) (s : State) (block : SignedBlock) : SM State := do
  -- Verify signature
  require (← verify_block_signature s block) "block_signature"
  -- Process block
  let s ← process_block cfg s block
  -- Verify state root
  match block.o_post_root with
  | some r => require (block.state_root = r) "state_root"
  | none => throw (.oracle "the real code rejected the block without validation, S accepts it")
  pure s

/-- `state_transition` -/
def state_transition (cfg : Config) (agg : AggOracle) (roots : RootOracle) (s : State) (block : SignedBlock) : SM State := do
  -- Process slots (including those with no blocks) since block
  let s ← process_slots cfg agg roots s block.slot
  state_transition_post_slots cfg s block

end Zrnt.Beacon.Block
