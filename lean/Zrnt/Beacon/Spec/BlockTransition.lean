import Zrnt.Beacon.Spec.BlockOps
/-!
# Specification layer `S`: `process_block` per fork and `state_transition`

```python
def state_transition(state, signed_block, validate_result=True):
    block = signed_block.message
    process_slots(state, block.slot)                       # Spec.process_slots (Spec/Transition.lean)
    if validate_result: assert verify_block_signature(state, signed_block)
    process_block(state, block)
    if validate_result: assert block.state_root == hash_tree_root(state)
```
`hash_tree_root(state)` after the block is the input `o_post_root` (SSZ merkleization of the state is
property C05's subject); the post-state itself is compared field by field on the same op line.
-/
namespace Zrnt.Beacon.Block
open Zrnt.Beacon Zrnt.Beacon.Spec

/-- The part of `process_block` that every fork shares: `process_randao`, `process_eth1_data`, `process_operations`
and, [New in Altair], `process_sync_aggregate`. -/
def process_block_rest (cfg : Config) (s : State) (block : SignedBlock) : SM State := do
  let s ← process_randao cfg s block
  let s ← process_eth1_data cfg s block
  let s ← process_operations cfg s block  -- [Modified in Capella]
  if s.fork = .phase0 then pure s else
  let some sa := block.sync_aggregate | invalid "block.no_sync_aggregate"
  process_sync_aggregate cfg s sa  -- [New in Altair]

/-- `process_block` of the state's fork. A block whose container belongs to another fork is not a
block of this fork's `BeaconBlock` type at all: rejected.
```python
    process_block_header(state, block)
    if is_execution_enabled(state, block.body): process_execution_payload(...)   # bellatrix
    process_withdrawals(state, block.body.execution_payload)                    # capella, deneb
    process_execution_payload(state, block.body, EXECUTION_ENGINE)              # capella, deneb (unconditional)
    process_randao(state, block.body); process_eth1_data(state, block.body); process_operations(state, block.body)
    process_sync_aggregate(state, block.body.sync_aggregate)                    # from altair
``` -/
def process_block (cfg : Config) (s : State) (block : SignedBlock) : SM State := do
  require (block.fork = s.fork) "block.container_of_other_fork"
  check_types cfg block
  let s ← process_block_header cfg s block
  let s ← (match s.fork with
    | .phase0 | .altair => pure s
    | .bellatrix => do
      let some payload := block.execution_payload | invalid "block.no_execution_payload"
      if is_execution_enabled cfg s payload then
        process_execution_payload cfg s block payload  -- [New in Bellatrix]
      else pure s
    | .capella | .deneb => do
      let some payload := block.execution_payload | invalid "block.no_execution_payload"
      -- [Modified in Capella] Removed `is_execution_enabled` check in Capella
      let s ← process_withdrawals cfg s payload  -- [New in Capella]
      process_execution_payload cfg s block payload)  -- [Modified in Capella] [Modified in Deneb]
  process_block_rest cfg s block

/-- `verify_block_signature`: `proposer = state.validators[signed_block.message.proposer_index]`
(IndexError ⇒ invalid), BLS verification = oracle Boolean. -/
def verify_block_signature (s : State) (block : SignedBlock) : SM Bool := do
  let _ ← idx s.validators block.proposer_index "block_signature.proposer_out_of_range"
  pure block.o_block_sig

/-- `state_transition` after `process_slots`: the state is already at the block's slot. -/
def state_transition_post_slots (cfg : Config) (s : State) (block : SignedBlock) : SM State := do
  -- Verify signature
  require (← verify_block_signature s block) "block_signature"
  -- Process block
  let s ← process_block cfg s block
  -- Verify state root
  match block.o_post_root with
  | some r => require (block.state_root = r) "state_root"
  | none => throw (.oracle "the real code rejected the block without validation, S accepts it")
  pure s

/-- `state_transition` -/
def state_transition (cfg : Config) (agg : AggOracle) (roots : RootOracle) (s : State) (block : SignedBlock) : SM State := do
  -- Process slots (including those with no blocks) since block
  let s ← process_slots cfg agg roots s block.slot
  state_transition_post_slots cfg s block

end Zrnt.Beacon.Block
