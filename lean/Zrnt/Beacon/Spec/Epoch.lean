import Zrnt.Beacon.Spec.Pure
/-!
# Specification layer `S`: epoch processing, phase0 … deneb

Function names are those of the consensus specs (`specs/phase0/beacon-chain.md`,
`specs/altair/beacon-chain.md`, `specs/bellatrix/…`, `specs/capella/…`, `specs/deneb/…`).
Where a fork *modifies* a function, the function takes the fork from `s.fork` and the modification
is marked `[Modified in …]` as in the spec text.
-/
namespace Zrnt.Beacon.Spec
open Zrnt.Beacon

/-- The monadic (checked) functions below compare what they computed with the theorem-facing pure function of
`Pure.lean`; a disagreement is reported as `Err.oracle`, which the correspondence run shows as a mismatch. -/
def crossCheck {α : Type} [DecidableEq α] (checked pureCore : α) (what : String) : SM Unit :=
  if checked = pureCore then pure () else throw (.oracle s!"pure core disagrees: {what}")

/-! ## Per-fork constants -/

/-- `PROPORTIONAL_SLASHING_MULTIPLIER` [Modified in Altair] [Modified in Bellatrix] -/
def proportional_slashing_multiplier (cfg : Config) : Fork → Nat
  | .phase0 => cfg.PROPORTIONAL_SLASHING_MULTIPLIER
  | .altair => cfg.PROPORTIONAL_SLASHING_MULTIPLIER_ALTAIR
  | _ => cfg.PROPORTIONAL_SLASHING_MULTIPLIER_BELLATRIX

/-- `INACTIVITY_PENALTY_QUOTIENT` [Modified in Altair] [Modified in Bellatrix] -/
def inactivity_penalty_quotient (cfg : Config) : Fork → Nat
  | .phase0 => cfg.INACTIVITY_PENALTY_QUOTIENT
  | .altair => cfg.INACTIVITY_PENALTY_QUOTIENT_ALTAIR
  | _ => cfg.INACTIVITY_PENALTY_QUOTIENT_BELLATRIX

/-- `MIN_SLASHING_PENALTY_QUOTIENT` [Modified in Altair] [Modified in Bellatrix] (used by `slash_validator`) -/
def min_slashing_penalty_quotient (cfg : Config) : Fork → Nat
  | .phase0 => cfg.MIN_SLASHING_PENALTY_QUOTIENT
  | .altair => cfg.MIN_SLASHING_PENALTY_QUOTIENT_ALTAIR
  | _ => cfg.MIN_SLASHING_PENALTY_QUOTIENT_BELLATRIX

/-! ## Phase0: matching attestations -/

def get_matching_source_attestations (cfg : Config) (s : State) (epoch : Nat) : SM (List PendingAttestation) := do
  require (epoch = get_previous_epoch cfg s || epoch = get_current_epoch cfg s) "get_matching_source_attestations: epoch"
  pure (if epoch = get_current_epoch cfg s then s.current_epoch_attestations else s.previous_epoch_attestations)

def get_matching_target_attestations (cfg : Config) (s : State) (epoch : Nat) : SM (List PendingAttestation) := do
  let src ← get_matching_source_attestations cfg s epoch
  -- `get_block_root` is evaluated only when there is an attestation to compare (as the list comprehension does)
  if src.isEmpty then return []
  let root ← get_block_root cfg s epoch
  pure (src.filter fun a => a.data.target.root = root)

def get_matching_head_attestations (cfg : Config) (s : State) (epoch : Nat) : SM (List PendingAttestation) := do
  let tgt ← get_matching_target_attestations cfg s epoch
  tgt.filterM fun a => do
    pure (a.data.beacon_block_root = (← get_block_root_at_slot cfg s a.data.slot))

def get_unslashed_attesting_indices (cfg : Config) (s : State) (attestations : List PendingAttestation) : SM (List Nat) := do
  let mut output : List Nat := []
  for a in attestations do
    output := output ++ (← get_attesting_indices cfg s a.data a.aggregation_bits)
  output.eraseDups.filterM fun index => do pure (!(← idx s.validators index "validators").slashed)

def get_attesting_balance (cfg : Config) (s : State) (attestations : List PendingAttestation) : SM Nat := do
  get_total_balance cfg s (← get_unslashed_attesting_indices cfg s attestations)

/-- The epoch's pending attestations with committees resolved and target/head comparisons made (the head
comparison only for target-matching attestations, as `get_matching_head_attestations` does). -/
def resolve_attestations (cfg : Config) (s : State) (epoch : Nat) : SM (List ResolvedAtt) := do
  let src ← get_matching_source_attestations cfg s epoch
  if src.isEmpty then return []
  let root ← get_block_root cfg s epoch
  src.mapM fun a => do
    let indices ← get_attesting_indices cfg s a.data a.aggregation_bits
    let matching_target := decide (a.data.target.root = root)
    let matching_head ← if matching_target then do
        pure (decide (a.data.beacon_block_root = (← get_block_root_at_slot cfg s a.data.slot)))
      else pure false
    pure { indices := indices, inclusion_delay := a.inclusion_delay, proposer_index := a.proposer_index,
           matching_target := matching_target, matching_head := matching_head }

/-! ## Altair: participation -/

def get_unslashed_participating_indices (cfg : Config) (s : State) (flag_index epoch : Nat) : SM (List Nat) := do
  require (epoch = get_previous_epoch cfg s || epoch = get_current_epoch cfg s) "get_unslashed_participating_indices: epoch"
  let epoch_participation :=
    if epoch = get_current_epoch cfg s then s.current_epoch_participation else s.previous_epoch_participation
  let active_validator_indices := get_active_validator_indices s epoch
  let participating_indices ← active_validator_indices.filterM fun i => do
    pure (has_flag (← idx epoch_participation i "epoch_participation") flag_index)
  participating_indices.filterM fun index => do pure (!(← idx s.validators index "validators").slashed)

/-! ## Justification and finalization -/

/-- The finality-relevant part of the state. -/
structure FFG where
  justification_bits : List Bool
  previous_justified_checkpoint : Checkpoint
  current_justified_checkpoint : Checkpoint
  finalized_checkpoint : Checkpoint
  deriving DecidableEq, Inhabited

/-- `weigh_justification_and_finalization` on the finality fields alone. `previous_root` /
`current_root` stand for `get_block_root(state, previous_epoch)` / `(state, current_epoch)`; they
are only read under the same conditions as in the spec. -/
def weigh_justification_and_finalization_pure (previous_epoch current_epoch : Nat) (f : FFG)
    (total_active_balance previous_epoch_target_balance current_epoch_target_balance : Nat)
    (previous_root current_root : Bytes) : FFG := Id.run do
  let old_previous_justified_checkpoint := f.previous_justified_checkpoint
  let old_current_justified_checkpoint := f.current_justified_checkpoint
  -- Process justifications
  let mut f := { f with previous_justified_checkpoint := f.current_justified_checkpoint }
  -- justification_bits[1:] = justification_bits[:JUSTIFICATION_BITS_LENGTH - 1]; justification_bits[0] = 0b0
  f := { f with justification_bits := false :: f.justification_bits.take (JUSTIFICATION_BITS_LENGTH - 1) }
  if previous_epoch_target_balance * 3 ≥ total_active_balance * 2 then
    f := { f with current_justified_checkpoint := ⟨previous_epoch, previous_root⟩,
                  justification_bits := f.justification_bits.set 1 true }
  if current_epoch_target_balance * 3 ≥ total_active_balance * 2 then
    f := { f with current_justified_checkpoint := ⟨current_epoch, current_root⟩,
                  justification_bits := f.justification_bits.set 0 true }
  -- Process finalizations
  let bits := f.justification_bits
  let b (i : Nat) : Bool := bits.getD i false
  -- The 2nd/3rd/4th most recent epochs are justified, the 2nd using the 4th as source
  if b 1 && b 2 && b 3 && old_previous_justified_checkpoint.epoch + 3 = current_epoch then
    f := { f with finalized_checkpoint := old_previous_justified_checkpoint }
  -- The 2nd/3rd most recent epochs are justified, the 2nd using the 3rd as source
  if b 1 && b 2 && old_previous_justified_checkpoint.epoch + 2 = current_epoch then
    f := { f with finalized_checkpoint := old_previous_justified_checkpoint }
  -- The 1st/2nd/3rd most recent epochs are justified, the 1st using the 3rd as source
  if b 0 && b 1 && b 2 && old_current_justified_checkpoint.epoch + 2 = current_epoch then
    f := { f with finalized_checkpoint := old_current_justified_checkpoint }
  -- The 1st/2nd most recent epochs are justified, the 1st using the 2nd as source
  if b 0 && b 1 && old_current_justified_checkpoint.epoch + 1 = current_epoch then
    f := { f with finalized_checkpoint := old_current_justified_checkpoint }
  return f

def ffgOf (s : State) : FFG :=
  ⟨s.justification_bits, s.previous_justified_checkpoint, s.current_justified_checkpoint, s.finalized_checkpoint⟩

def withFFG (s : State) (f : FFG) : State :=
  { s with justification_bits := f.justification_bits, previous_justified_checkpoint := f.previous_justified_checkpoint,
           current_justified_checkpoint := f.current_justified_checkpoint, finalized_checkpoint := f.finalized_checkpoint }

/-- what `weigh_justification_and_finalization` reads besides the finality fields -/
structure FFGInputs where
  total_active_balance : Nat
  previous_epoch_target_balance : Nat
  current_epoch_target_balance : Nat
  /-- `get_block_root(state, previous_epoch)`, looked up only when the previous epoch gets justified -/
  previous_root : Bytes
  /-- `get_block_root(state, current_epoch)`, looked up only when the current epoch gets justified -/
  current_root : Bytes

def weigh_inputs (cfg : Config) (s : State)
    (total_active_balance previous_epoch_target_balance current_epoch_target_balance : Nat) : SM FFGInputs := do
  let _ ← u64 (previous_epoch_target_balance * 3) "target balance * 3"
  let _ ← u64 (current_epoch_target_balance * 3) "target balance * 3"
  let _ ← u64 (total_active_balance * 2) "total balance * 2"
  -- the block roots are looked up only when the spec looks them up
  let previous_root ← if previous_epoch_target_balance * 3 ≥ total_active_balance * 2
    then get_block_root cfg s (get_previous_epoch cfg s) else pure ZERO32
  let current_root ← if current_epoch_target_balance * 3 ≥ total_active_balance * 2
    then get_block_root cfg s (get_current_epoch cfg s) else pure ZERO32
  pure ⟨total_active_balance, previous_epoch_target_balance, current_epoch_target_balance, previous_root, current_root⟩

def weigh_justification_and_finalization (cfg : Config) (s : State)
    (total_active_balance previous_epoch_target_balance current_epoch_target_balance : Nat) : SM State := do
  let i ← weigh_inputs cfg s total_active_balance previous_epoch_target_balance current_epoch_target_balance
  pure (withFFG s (weigh_justification_and_finalization_pure (get_previous_epoch cfg s) (get_current_epoch cfg s) (ffgOf s)
    i.total_active_balance i.previous_epoch_target_balance i.current_epoch_target_balance i.previous_root i.current_root))

/-- The balances `process_justification_and_finalization` feeds into the weighing; `none` = the early
return of the first two epochs. [Modified in Altair] -/
def justification_inputs (cfg : Config) (s : State) : SM (Option FFGInputs) := do
  -- Initial FFG checkpoint values have a `0x00` stub for `root`. Skip FFG updates in the first two epochs
  if get_current_epoch cfg s ≤ GENESIS_EPOCH + 1 then return none
  let total_active_balance ← get_total_active_balance cfg s
  if s.fork = .phase0 then
    let previous_attestations ← get_matching_target_attestations cfg s (get_previous_epoch cfg s)
    let current_attestations ← get_matching_target_attestations cfg s (get_current_epoch cfg s)
    let previous_target_balance ← get_attesting_balance cfg s previous_attestations
    let current_target_balance ← get_attesting_balance cfg s current_attestations
    crossCheck (total_active_balance, previous_target_balance, current_target_balance)
      (total_active_balance_of cfg s.validators (get_current_epoch cfg s),
       (target_balances_phase0_pure cfg s.validators (← resolve_attestations cfg s (get_previous_epoch cfg s))
         (← resolve_attestations cfg s (get_current_epoch cfg s))).1,
       (target_balances_phase0_pure cfg s.validators (← resolve_attestations cfg s (get_previous_epoch cfg s))
         (← resolve_attestations cfg s (get_current_epoch cfg s))).2) "phase0 target balances"
    some <$> weigh_inputs cfg s total_active_balance previous_target_balance current_target_balance
  else
    let previous_indices ← get_unslashed_participating_indices cfg s TIMELY_TARGET_FLAG_INDEX (get_previous_epoch cfg s)
    let current_indices ← get_unslashed_participating_indices cfg s TIMELY_TARGET_FLAG_INDEX (get_current_epoch cfg s)
    let previous_target_balance ← get_total_balance cfg s previous_indices
    let current_target_balance ← get_total_balance cfg s current_indices
    crossCheck (total_active_balance, previous_target_balance, current_target_balance)
      (total_active_balance_of cfg s.validators (get_current_epoch cfg s),
       (target_balances_altair_pure cfg s.validators s.previous_epoch_participation s.current_epoch_participation
         (get_previous_epoch cfg s) (get_current_epoch cfg s)).1,
       (target_balances_altair_pure cfg s.validators s.previous_epoch_participation s.current_epoch_participation
         (get_previous_epoch cfg s) (get_current_epoch cfg s)).2) "altair target balances"
    some <$> weigh_inputs cfg s total_active_balance previous_target_balance current_target_balance

/-- `process_justification_and_finalization` [Modified in Altair] -/
def process_justification_and_finalization (cfg : Config) (s : State) : SM State := do
  match ← justification_inputs cfg s with
  | none => pure s
  | some i =>
    pure (withFFG s (weigh_justification_and_finalization_pure (get_previous_epoch cfg s) (get_current_epoch cfg s) (ffgOf s)
      i.total_active_balance i.previous_epoch_target_balance i.current_epoch_target_balance i.previous_root i.current_root))

/-! ## Rewards and penalties -/

def get_finality_delay (cfg : Config) (s : State) : SM Nat := do
  let p := get_previous_epoch cfg s
  -- uint64 subtraction: underflow raises
  if p < s.finalized_checkpoint.epoch then throw (.overflow "get_finality_delay underflow")
  pure (p - s.finalized_checkpoint.epoch)

def is_in_inactivity_leak (cfg : Config) (s : State) : SM Bool := do
  pure ((← get_finality_delay cfg s) > cfg.MIN_EPOCHS_TO_INACTIVITY_PENALTY)

def get_eligible_validator_indices (cfg : Config) (s : State) : List Nat :=
  let previous_epoch := get_previous_epoch cfg s
  (List.range s.validators.length).filter fun i =>
    match s.validators[i]? with
    | some v => is_active_validator v previous_epoch || (v.slashed && previous_epoch + 1 < v.withdrawable_epoch)
    | none => false

/-- phase0 `get_base_reward` -/
def get_base_reward_phase0 (cfg : Config) (s : State) (total_balance : Nat) (index : Nat) : SM Nat := do
  let effective_balance := (← idx s.validators index "validators").effective_balance
  let _ ← u64 (effective_balance * cfg.BASE_REWARD_FACTOR) "base reward"
  let sq := integer_squareroot total_balance
  if sq = 0 then invalid "division by zero"
  pure (effective_balance * cfg.BASE_REWARD_FACTOR / sq / BASE_REWARDS_PER_EPOCH)

def get_proposer_reward (cfg : Config) (s : State) (total_balance attesting_index : Nat) : SM Nat := do
  if cfg.PROPOSER_REWARD_QUOTIENT = 0 then invalid "division by zero"
  pure ((← get_base_reward_phase0 cfg s total_balance attesting_index) / cfg.PROPOSER_REWARD_QUOTIENT)

def addAt (l : List Nat) (i v : Nat) (what : String) : SM (List Nat) := do
  let x ← idx l i what
  setIdx l i (← u64 (x + v) what) what

/-- phase0 `get_attestation_component_deltas` -/
def get_attestation_component_deltas (cfg : Config) (s : State) (attestations : List PendingAttestation) : SM Deltas := do
  let mut rewards := zeros s.validators.length
  let mut penalties := zeros s.validators.length
  let total_balance ← get_total_active_balance cfg s
  let unslashed_attesting_indices ← get_unslashed_attesting_indices cfg s attestations
  let attesting_balance ← get_total_balance cfg s unslashed_attesting_indices
  for index in get_eligible_validator_indices cfg s do
    let base_reward ← get_base_reward_phase0 cfg s total_balance index
    if unslashed_attesting_indices.contains index then
      let increment := cfg.EFFECTIVE_BALANCE_INCREMENT  -- Factored out from balance totals to avoid uint64 overflow
      if ← is_in_inactivity_leak cfg s then
        -- Since full base reward will be canceled out by inactivity penalty deltas,
        -- optimal participation receives full base reward compensation here.
        rewards ← addAt rewards index base_reward "rewards"
      else
        if increment = 0 then invalid "division by zero"
        let reward_numerator ← u64 (base_reward * (attesting_balance / increment)) "reward_numerator"
        if total_balance / increment = 0 then invalid "division by zero"
        rewards ← addAt rewards index (reward_numerator / (total_balance / increment)) "rewards"
    else
      penalties ← addAt penalties index base_reward "penalties"
  pure (rewards, penalties)

def get_source_deltas (cfg : Config) (s : State) : SM Deltas := do
  get_attestation_component_deltas cfg s (← get_matching_source_attestations cfg s (get_previous_epoch cfg s))

def get_target_deltas (cfg : Config) (s : State) : SM Deltas := do
  get_attestation_component_deltas cfg s (← get_matching_target_attestations cfg s (get_previous_epoch cfg s))

def get_head_deltas (cfg : Config) (s : State) : SM Deltas := do
  get_attestation_component_deltas cfg s (← get_matching_head_attestations cfg s (get_previous_epoch cfg s))

/-- phase0 `get_inclusion_delay_deltas` -/
def get_inclusion_delay_deltas (cfg : Config) (s : State) : SM Deltas := do
  let mut rewards := zeros s.validators.length
  let total_balance ← get_total_active_balance cfg s
  let matching_source_attestations ← get_matching_source_attestations cfg s (get_previous_epoch cfg s)
  -- each attestation with its attesting indices (the pyspec recomputes them inside the loop)
  let withIndices ← matching_source_attestations.mapM fun a => do
    pure (a, ← get_attesting_indices cfg s a.data a.aggregation_bits)
  for index in ← get_unslashed_attesting_indices cfg s matching_source_attestations do
    -- min(..., key=lambda a: a.inclusion_delay): the first attestation with the least inclusion delay
    let candidates := (withIndices.filter fun (_, is) => is.contains index).map (·.1)
    let some first := candidates.head? | invalid "min of empty list"
    let attestation := candidates.foldl (fun best a => if a.inclusion_delay < best.inclusion_delay then a else best) first
    let proposer_reward ← get_proposer_reward cfg s total_balance index
    rewards ← addAt rewards attestation.proposer_index proposer_reward "rewards[proposer_index]"
    let base_reward ← get_base_reward_phase0 cfg s total_balance index
    let max_attester_reward := base_reward - proposer_reward
    if attestation.inclusion_delay = 0 then invalid "division by zero (inclusion_delay)"
    rewards ← addAt rewards index (max_attester_reward / attestation.inclusion_delay) "rewards"
  -- No penalties associated with inclusion delay
  pure (rewards, zeros s.validators.length)

/-- phase0 `get_inactivity_penalty_deltas` -/
def get_inactivity_penalty_deltas_phase0 (cfg : Config) (s : State) : SM Deltas := do
  let mut penalties := zeros s.validators.length
  if ← is_in_inactivity_leak cfg s then
    let total_balance ← get_total_active_balance cfg s
    let matching_target_attestations ← get_matching_target_attestations cfg s (get_previous_epoch cfg s)
    let matching_target_attesting_indices ← get_unslashed_attesting_indices cfg s matching_target_attestations
    for index in get_eligible_validator_indices cfg s do
      -- If validator is performing optimally this cancels all rewards for a neutral balance
      let base_reward ← get_base_reward_phase0 cfg s total_balance index
      let proposer_reward ← get_proposer_reward cfg s total_balance index
      penalties ← addAt penalties index (BASE_REWARDS_PER_EPOCH * base_reward - proposer_reward) "penalties"
      if !matching_target_attesting_indices.contains index then
        let effective_balance := (← idx s.validators index "validators").effective_balance
        let n ← u64 (effective_balance * (← get_finality_delay cfg s)) "inactivity penalty"
        if cfg.INACTIVITY_PENALTY_QUOTIENT = 0 then invalid "division by zero"
        penalties ← addAt penalties index (n / cfg.INACTIVITY_PENALTY_QUOTIENT) "penalties"
  -- No rewards associated with inactivity penalties
  pure (zeros s.validators.length, penalties)

/-- phase0 `get_attestation_deltas` -/
def get_attestation_deltas (cfg : Config) (s : State) : SM Deltas := do
  let (source_rewards, source_penalties) ← get_source_deltas cfg s
  let (target_rewards, target_penalties) ← get_target_deltas cfg s
  let (head_rewards, head_penalties) ← get_head_deltas cfg s
  let (inclusion_delay_rewards, _) ← get_inclusion_delay_deltas cfg s
  let (_, inactivity_penalties) ← get_inactivity_penalty_deltas_phase0 cfg s
  let n := s.validators.length
  let rewards ← (List.range n).mapM fun i =>
    u64 (source_rewards.getD i 0 + target_rewards.getD i 0 + head_rewards.getD i 0 + inclusion_delay_rewards.getD i 0) "rewards"
  let penalties ← (List.range n).mapM fun i =>
    u64 (source_penalties.getD i 0 + target_penalties.getD i 0 + head_penalties.getD i 0 + inactivity_penalties.getD i 0) "penalties"
  pure (rewards, penalties)

/-! ### Altair rewards -/

def get_base_reward_per_increment (cfg : Config) (s : State) : SM Nat := do
  let sq := integer_squareroot (← get_total_active_balance cfg s)
  if sq = 0 then invalid "division by zero"
  let _ ← u64 (cfg.EFFECTIVE_BALANCE_INCREMENT * cfg.BASE_REWARD_FACTOR) "base reward per increment"
  pure (cfg.EFFECTIVE_BALANCE_INCREMENT * cfg.BASE_REWARD_FACTOR / sq)

/-- altair `get_base_reward` -/
def get_base_reward (cfg : Config) (s : State) (index : Nat) : SM Nat := do
  if cfg.EFFECTIVE_BALANCE_INCREMENT = 0 then invalid "division by zero"
  let increments := (← idx s.validators index "validators").effective_balance / cfg.EFFECTIVE_BALANCE_INCREMENT
  u64 (increments * (← get_base_reward_per_increment cfg s)) "base reward"

/-- altair `get_flag_index_deltas` -/
def get_flag_index_deltas (cfg : Config) (s : State) (flag_index : Nat) : SM Deltas := do
  let mut rewards := zeros s.validators.length
  let mut penalties := zeros s.validators.length
  let previous_epoch := get_previous_epoch cfg s
  let unslashed_participating_indices ← get_unslashed_participating_indices cfg s flag_index previous_epoch
  let weight := PARTICIPATION_FLAG_WEIGHTS.getD flag_index 0
  let unslashed_participating_balance ← get_total_balance cfg s unslashed_participating_indices
  if cfg.EFFECTIVE_BALANCE_INCREMENT = 0 then invalid "division by zero"
  let unslashed_participating_increments := unslashed_participating_balance / cfg.EFFECTIVE_BALANCE_INCREMENT
  let active_increments := (← get_total_active_balance cfg s) / cfg.EFFECTIVE_BALANCE_INCREMENT
  for index in get_eligible_validator_indices cfg s do
    let base_reward ← get_base_reward cfg s index
    if unslashed_participating_indices.contains index then
      if !(← is_in_inactivity_leak cfg s) then
        let reward_numerator ← u64 (base_reward * weight * unslashed_participating_increments) "reward_numerator"
        if active_increments * WEIGHT_DENOMINATOR = 0 then invalid "division by zero"
        rewards ← addAt rewards index (reward_numerator / (active_increments * WEIGHT_DENOMINATOR)) "rewards"
    else if flag_index ≠ TIMELY_HEAD_FLAG_INDEX then
      penalties ← addAt penalties index (base_reward * weight / WEIGHT_DENOMINATOR) "penalties"
  pure (rewards, penalties)

/-- altair `get_inactivity_penalty_deltas` [Modified in Bellatrix: quotient] -/
def get_inactivity_penalty_deltas (cfg : Config) (s : State) : SM Deltas := do
  let mut penalties := zeros s.validators.length
  let previous_epoch := get_previous_epoch cfg s
  let matching_target_indices ← get_unslashed_participating_indices cfg s TIMELY_TARGET_FLAG_INDEX previous_epoch
  for index in get_eligible_validator_indices cfg s do
    if !matching_target_indices.contains index then
      let penalty_numerator ← u64 ((← idx s.validators index "validators").effective_balance *
        (← idx s.inactivity_scores index "inactivity_scores")) "penalty_numerator"
      let penalty_denominator ← u64 (cfg.INACTIVITY_SCORE_BIAS * inactivity_penalty_quotient cfg s.fork) "penalty_denominator"
      if penalty_denominator = 0 then invalid "division by zero"
      penalties ← addAt penalties index (penalty_numerator / penalty_denominator) "penalties"
  pure (zeros s.validators.length, penalties)

def apply_deltas (s : State) (d : Deltas) : SM State := do
  let mut s := s
  for index in List.range s.validators.length do
    s ← increase_balance s index (← idx d.1 index "rewards")
    s ← decrease_balance s index (← idx d.2 index "penalties")
  pure s

/-- `process_rewards_and_penalties` [Modified in Altair] -/
def process_rewards_and_penalties (cfg : Config) (s : State) : SM State := do
  -- No rewards are applied at the end of `GENESIS_EPOCH` because rewards are for work done in the previous epoch
  if get_current_epoch cfg s = GENESIS_EPOCH then return s
  if s.fork = .phase0 then
    let s' ← apply_deltas s (← get_attestation_deltas cfg s)
    crossCheck s'.balances (process_rewards_and_penalties_phase0_pure cfg s.validators s.balances
      (get_previous_epoch cfg s) (get_current_epoch cfg s) (← get_finality_delay cfg s) (← is_in_inactivity_leak cfg s)
      (← resolve_attestations cfg s (get_previous_epoch cfg s))) "phase0 rewards and penalties"
    pure s'
  else
    let flag_deltas ← (List.range PARTICIPATION_FLAG_WEIGHTS.length).mapM (get_flag_index_deltas cfg s)
    let deltas := flag_deltas ++ [← get_inactivity_penalty_deltas cfg s]
    let s' ← deltas.foldlM apply_deltas s
    crossCheck s'.balances (process_rewards_and_penalties_altair_pure cfg s.validators s.previous_epoch_participation
      s.inactivity_scores s.balances (get_previous_epoch cfg s) (get_current_epoch cfg s)
      (inactivity_penalty_quotient cfg s.fork) (← is_in_inactivity_leak cfg s)) "altair rewards and penalties"
    pure s'

/-- altair `process_inactivity_updates` -/
def process_inactivity_updates (cfg : Config) (s : State) : SM State := do
  -- Skip the genesis epoch as score updates are based on the previous epoch participation
  if get_current_epoch cfg s = GENESIS_EPOCH then return s
  let participating ← get_unslashed_participating_indices cfg s TIMELY_TARGET_FLAG_INDEX (get_previous_epoch cfg s)
  let leak ← is_in_inactivity_leak cfg s
  let mut scores := s.inactivity_scores
  for index in get_eligible_validator_indices cfg s do
    let mut score ← idx scores index "inactivity_scores"
    -- Increase the inactivity score of inactive validators
    if participating.contains index then
      score := score - min 1 score
    else
      score ← u64 (score + cfg.INACTIVITY_SCORE_BIAS) "inactivity score"
    -- Decrease the inactivity score of all eligible validators during a leak-free epoch
    if !leak then
      score := score - min cfg.INACTIVITY_SCORE_RECOVERY_RATE score
    scores := scores.set index score
  crossCheck scores (process_inactivity_updates_pure cfg s.validators s.previous_epoch_participation s.inactivity_scores
    (get_previous_epoch cfg s) leak) "inactivity scores"
  pure { s with inactivity_scores := scores }

/-! ## Registry updates -/

/-- lexicographic order on `(activation_eligibility_epoch, index)` -/
def queueLe (vals : List Validator) (a b : Nat) : Bool :=
  let ea := (vals.getD a default).activation_eligibility_epoch
  let eb := (vals.getD b default).activation_eligibility_epoch
  ea < eb || (ea = eb && a ≤ b)

/-- First loop of `process_registry_updates` on a bare registry: activation eligibility and ejections,
validator by validator in index order, each ejection through `initiate_validator_exit`. -/
def registry_eligibility_and_ejections_pure (cfg : Config) (current_epoch : Nat) (vals : List Validator) : List Validator :=
  (List.range vals.length).foldl (fun vals index =>
    match vals[index]? with
    | none => vals
    | some validator =>
      let vals :=
        if is_eligible_for_activation_queue cfg validator then
          vals.set index { validator with activation_eligibility_epoch := current_epoch + 1 }
        else vals
      if is_active_validator validator current_epoch && validator.effective_balance ≤ cfg.EJECTION_BALANCE then
        initiate_validator_exit_pure cfg current_epoch vals index
      else vals) vals

/-- `activation_queue` of `process_registry_updates` -/
def activation_queue_pure (finalized_epoch : Nat) (vals : List Validator) : List Nat :=
  -- is_eligible_for_activation(state, validator)
  let eligible := (List.range vals.length).filter fun i =>
    match vals[i]? with
    | some v => v.activation_eligibility_epoch ≤ finalized_epoch && v.activation_epoch == FAR_FUTURE_EPOCH
    | none => false
  -- Order by the sequence of activation_eligibility_epoch setting and then index
  eligible.mergeSort (queueLe vals)

/-- Second loop: dequeue up to `limit` validators. -/
def registry_activations_pure (cfg : Config) (current_epoch finalized_epoch limit : Nat) (vals : List Validator) : List Validator :=
  ((activation_queue_pure finalized_epoch vals).take limit).foldl (fun vals index =>
    match vals[index]? with
    | none => vals
    | some validator => vals.set index { validator with activation_epoch := compute_activation_exit_epoch cfg current_epoch }) vals

/-- `process_registry_updates` [Modified in Deneb: activation churn limit] -/
def process_registry_updates (cfg : Config) (s : State) : SM State := do
  if cfg.CHURN_LIMIT_QUOTIENT = 0 then invalid "CHURN_LIMIT_QUOTIENT = 0"
  let current_epoch := get_current_epoch cfg s
  -- Process activation eligibility and ejections
  let vals := registry_eligibility_and_ejections_pure cfg current_epoch s.validators
  let s := { s with validators := vals }
  -- Queue validators eligible for activation and not yet dequeued for activation;
  -- dequeued validators for activation up to churn limit
  let limit ← if s.fork ≥ .deneb then get_validator_activation_churn_limit cfg s else get_validator_churn_limit cfg s
  let vals := registry_activations_pure cfg current_epoch s.finalized_checkpoint.epoch limit vals
  -- uint64 range of everything that was assigned
  for v in vals do
    if v.activation_eligibility_epoch ≥ 2 ^ 64 || v.activation_epoch ≥ 2 ^ 64 || v.exit_epoch ≥ 2 ^ 64
        || v.withdrawable_epoch ≥ 2 ^ 64 then throw (.overflow "registry epochs")
  pure { s with validators := vals }

/-! ## Slashings -/

/-- the penalty of one slashed validator at the halfway point -/
def slashing_penalty (cfg : Config) (effective_balance adjusted_total_slashing_balance total_balance : Nat) : Nat :=
  let increment := cfg.EFFECTIVE_BALANCE_INCREMENT  -- Factored out from penalty numerator to avoid uint64 overflow
  let penalty_numerator := effective_balance / increment * adjusted_total_slashing_balance
  penalty_numerator / total_balance * increment

/-- `process_slashings` on bare lists: new balances. -/
def process_slashings_pure (cfg : Config) (fork : Fork) (epoch total_balance : Nat) (slashings : List Nat)
    (vals : List Validator) (balances : List Nat) : List Nat :=
  let adjusted_total_slashing_balance := min (slashings.sum * proportional_slashing_multiplier cfg fork) total_balance
  (vals.zip balances).map fun (validator, balance) =>
    if validator.slashed && epoch + cfg.EPOCHS_PER_SLASHINGS_VECTOR / 2 = validator.withdrawable_epoch then
      let penalty := slashing_penalty cfg validator.effective_balance adjusted_total_slashing_balance total_balance
      -- decrease_balance
      if penalty > balance then 0 else balance - penalty
    else balance

/-- `process_slashings` [Modified in Altair, Bellatrix: multiplier] -/
def process_slashings (cfg : Config) (s : State) : SM State := do
  let epoch := get_current_epoch cfg s
  let total_balance ← get_total_active_balance cfg s
  let sum ← s.slashings.foldlM (fun acc x => u64 (acc + x) "sum(slashings)") 0
  let adjusted ← u64 (sum * proportional_slashing_multiplier cfg s.fork) "adjusted slashing balance"
  let adjusted := min adjusted total_balance
  if cfg.EFFECTIVE_BALANCE_INCREMENT = 0 then invalid "division by zero"
  for (index, v) in (List.range s.validators.length).zip s.validators do
    if v.slashed && epoch + cfg.EPOCHS_PER_SLASHINGS_VECTOR / 2 = v.withdrawable_epoch then
      let _ ← u64 (v.effective_balance / cfg.EFFECTIVE_BALANCE_INCREMENT * adjusted) "penalty_numerator"
      let _ ← u64 (slashing_penalty cfg v.effective_balance adjusted total_balance) "penalty"
      let _ ← idx s.balances index "balances"  -- decrease_balance(state, index, penalty)
  let nb := process_slashings_pure cfg s.fork epoch total_balance s.slashings s.validators s.balances
  pure { s with balances := nb ++ s.balances.drop nb.length }

/-! ## Final updates -/

def process_eth1_data_reset (cfg : Config) (s : State) : SM State := do
  if cfg.EPOCHS_PER_ETH1_VOTING_PERIOD = 0 then invalid "division by zero"
  -- Reset eth1 data votes
  pure { s with eth1_data_votes := process_eth1_data_reset_pure cfg (get_current_epoch cfg s) s.eth1_data_votes }

/-- the new effective balance of one validator (hysteresis) -/
def effective_balance_update (cfg : Config) (balance effective_balance : Nat) : Nat :=
  let HYSTERESIS_INCREMENT := cfg.EFFECTIVE_BALANCE_INCREMENT / cfg.HYSTERESIS_QUOTIENT
  let DOWNWARD_THRESHOLD := HYSTERESIS_INCREMENT * cfg.HYSTERESIS_DOWNWARD_MULTIPLIER
  let UPWARD_THRESHOLD := HYSTERESIS_INCREMENT * cfg.HYSTERESIS_UPWARD_MULTIPLIER
  if balance + DOWNWARD_THRESHOLD < effective_balance || effective_balance + UPWARD_THRESHOLD < balance then
    min (balance - balance % cfg.EFFECTIVE_BALANCE_INCREMENT) cfg.MAX_EFFECTIVE_BALANCE
  else effective_balance

def process_effective_balance_updates_pure (cfg : Config) (vals : List Validator) (balances : List Nat) : List Validator :=
  (vals.zip balances).map fun (validator, balance) =>
    { validator with effective_balance := effective_balance_update cfg balance validator.effective_balance }

def process_effective_balance_updates (cfg : Config) (s : State) : SM State := do
  if cfg.HYSTERESIS_QUOTIENT = 0 || cfg.EFFECTIVE_BALANCE_INCREMENT = 0 then invalid "division by zero"
  require (s.balances.length ≥ s.validators.length) "balances shorter than validators"
  let HYSTERESIS_INCREMENT := cfg.EFFECTIVE_BALANCE_INCREMENT / cfg.HYSTERESIS_QUOTIENT
  for (v, b) in s.validators.zip s.balances do
    let _ ← u64 (b + HYSTERESIS_INCREMENT * cfg.HYSTERESIS_DOWNWARD_MULTIPLIER) "balance + DOWNWARD_THRESHOLD"
    let _ ← u64 (v.effective_balance + HYSTERESIS_INCREMENT * cfg.HYSTERESIS_UPWARD_MULTIPLIER) "effective_balance + UPWARD_THRESHOLD"
  -- Update effective balances with hysteresis
  pure { s with validators := process_effective_balance_updates_pure cfg s.validators s.balances }

def process_slashings_reset (cfg : Config) (s : State) : SM State := do
  let next_epoch := get_current_epoch cfg s + 1
  if cfg.EPOCHS_PER_SLASHINGS_VECTOR = 0 then invalid "division by zero"
  let _ ← idx s.slashings (next_epoch % cfg.EPOCHS_PER_SLASHINGS_VECTOR) "slashings"
  -- Reset slashings
  pure { s with slashings := process_slashings_reset_pure cfg (get_current_epoch cfg s) s.slashings }

def process_randao_mixes_reset (cfg : Config) (s : State) : SM State := do
  let current_epoch := get_current_epoch cfg s
  let next_epoch := current_epoch + 1
  -- Set randao mix
  let _ ← get_randao_mix cfg s current_epoch
  let _ ← idx s.randao_mixes (next_epoch % cfg.EPOCHS_PER_HISTORICAL_VECTOR) "randao_mixes"
  pure { s with randao_mixes := process_randao_mixes_reset_pure cfg current_epoch s.randao_mixes }

/-- phase0 … bellatrix -/
def process_historical_roots_update (cfg : Config) (s : State) : SM State := do
  -- Set historical root accumulator
  if cfg.SLOTS_PER_EPOCH = 0 || cfg.SLOTS_PER_HISTORICAL_ROOT / cfg.SLOTS_PER_EPOCH = 0 then invalid "division by zero"
  if historical_batch_due cfg (get_current_epoch cfg s) then
    require (s.historical_roots.length < cfg.HISTORICAL_ROOTS_LIMIT) "historical_roots limit"
  pure { s with historical_roots :=
    process_historical_roots_update_pure cfg (get_current_epoch cfg s) s.block_roots s.state_roots s.historical_roots }

/-- capella+ -/
def process_historical_summaries_update (cfg : Config) (s : State) : SM State := do
  -- Set historical block root accumulator.
  if cfg.SLOTS_PER_EPOCH = 0 || cfg.SLOTS_PER_HISTORICAL_ROOT / cfg.SLOTS_PER_EPOCH = 0 then invalid "division by zero"
  if historical_batch_due cfg (get_current_epoch cfg s) then
    require (s.historical_summaries.length < cfg.HISTORICAL_ROOTS_LIMIT) "historical_summaries limit"
  pure { s with historical_summaries :=
    process_historical_summaries_update_pure cfg (get_current_epoch cfg s) s.block_roots s.state_roots s.historical_summaries }

/-- phase0 -/
def process_participation_record_updates (s : State) : SM State :=
  -- Rotate current/previous epoch attestations
  let r := process_participation_record_updates_pure s.current_epoch_attestations
  pure { s with previous_epoch_attestations := r.1, current_epoch_attestations := r.2 }

/-- altair+ -/
def process_participation_flag_updates (s : State) : SM State :=
  let r := process_participation_flag_updates_pure s.validators.length s.current_epoch_participation
  pure { s with previous_epoch_participation := r.1, current_epoch_participation := r.2 }

/-! ## Sync committees (altair+) -/

/-- BLS is not modelled: `eth_aggregate_pubkeys(pubkeys)` is an input supplied by the Go side
(computed with the real library), keyed by the list of pubkeys. -/
abbrev AggOracle := List Bytes → Option Bytes

/-- `compute_shuffled_index(i % n, n, seed)` as a total function (0 where the spec asserts) -/
def shuffledOf (cfg : Config) (n : Nat) (seed : Bytes) (i : Nat) : Nat :=
  match compute_shuffled_index cfg (i % n) n seed with
  | .ok j => j
  | .error _ => 0

def SYNC_FUEL : Nat := 100000

/-- `get_next_sync_committee_indices`; the unbounded `while` runs on `fuel` candidate draws. -/
def get_next_sync_committee_indices (cfg : Config) (s : State) (fuel : Nat := SYNC_FUEL) : SM (List Nat) := do
  let epoch := get_current_epoch cfg s + 1
  let MAX_RANDOM_BYTE := 2 ^ 8 - 1
  let active_validator_indices := (get_active_validator_indices s epoch).toArray
  let active_validator_count := active_validator_indices.size
  let seed ← get_seed cfg s epoch DOMAIN_SYNC_COMMITTEE
  let mut sync_committee_indices : Array Nat := #[]
  for i in [0:fuel] do
    if sync_committee_indices.size ≥ cfg.SYNC_COMMITTEE_SIZE then break
    if active_validator_count = 0 then invalid "modulo by zero (no active validators)"
    let shuffled_index ← compute_shuffled_index cfg (i % active_validator_count) active_validator_count seed
    let candidate_index := active_validator_indices.getD shuffled_index 0
    let random_byte := ((hash (seed ++ uintToBytes 8 (i / 32))).get! (i % 32)).toNat
    let effective_balance := (← idx s.validators candidate_index "validators").effective_balance
    if effective_balance * MAX_RANDOM_BYTE ≥ cfg.MAX_EFFECTIVE_BALANCE * random_byte then
      sync_committee_indices := sync_committee_indices.push candidate_index
  if sync_committee_indices.size < cfg.SYNC_COMMITTEE_SIZE then throw (.fuel "get_next_sync_committee_indices")
  crossCheck (some sync_committee_indices.toList)
    (sync_committee_indices_loop cfg s.validators (get_active_validator_indices s epoch) seed
      (shuffledOf cfg active_validator_count seed) fuel 0 []) "sync committee indices"
  pure sync_committee_indices.toList

def get_next_sync_committee (cfg : Config) (agg : AggOracle) (s : State) : SM SyncCommittee := do
  let indices ← get_next_sync_committee_indices cfg s
  let pubkeys ← indices.mapM fun index => do pure (← idx s.validators index "validators").pubkey
  match agg pubkeys with
  | some aggregate_pubkey => pure ⟨pubkeys, aggregate_pubkey⟩
  | none => throw (.oracle "eth_aggregate_pubkeys not supplied for this pubkey list")

def process_sync_committee_updates (cfg : Config) (agg : AggOracle) (s : State) : SM State := do
  let next_epoch := get_current_epoch cfg s + 1
  if cfg.EPOCHS_PER_SYNC_COMMITTEE_PERIOD = 0 then invalid "division by zero"
  -- `get_next_sync_committee(state)` is evaluated only at a period boundary
  let computed ← if next_epoch % cfg.EPOCHS_PER_SYNC_COMMITTEE_PERIOD = 0
    then some <$> get_next_sync_committee cfg agg s else pure none
  let r := process_sync_committee_updates_pure cfg (get_current_epoch cfg s) s.current_sync_committee s.next_sync_committee computed
  pure { s with current_sync_committee := r.1, next_sync_committee := r.2 }

/-! ## process_epoch -/

def process_epoch (cfg : Config) (agg : AggOracle) (s : State) : SM State := do
  if s.fork = .phase0 then
    let s ← process_justification_and_finalization cfg s
    let s ← process_rewards_and_penalties cfg s
    let s ← process_registry_updates cfg s
    let s ← process_slashings cfg s
    let s ← process_eth1_data_reset cfg s
    let s ← process_effective_balance_updates cfg s
    let s ← process_slashings_reset cfg s
    let s ← process_randao_mixes_reset cfg s
    let s ← process_historical_roots_update cfg s
    process_participation_record_updates s
  else
    let s ← process_justification_and_finalization cfg s  -- [Modified in Altair]
    let s ← process_inactivity_updates cfg s  -- [New in Altair]
    let s ← process_rewards_and_penalties cfg s  -- [Modified in Altair]
    let s ← process_registry_updates cfg s  -- [Modified in Deneb:EIP7514]
    let s ← process_slashings cfg s  -- [Modified in Altair] [Modified in Bellatrix]
    let s ← process_eth1_data_reset cfg s
    let s ← process_effective_balance_updates cfg s
    let s ← process_slashings_reset cfg s
    let s ← process_randao_mixes_reset cfg s
    let s ← if s.fork ≥ .capella then process_historical_summaries_update cfg s  -- [Modified in Capella]
            else process_historical_roots_update cfg s
    let s ← process_participation_flag_updates s  -- [New in Altair]
    process_sync_committee_updates cfg agg s  -- [New in Altair]

end Zrnt.Beacon.Spec
