import Zrnt.Driver.Loop
import Zrnt.Beacon.Ctx
/-!
`zmodel c08` — stateful; one chain per sequence (`reset` between chains). Every state-changing line carries
the flat state *after* the step; the answer is the context of that state computed from scratch (`ctxOf`):

```
genesis x_cfg=<id> x_n=<N> x_bal=<pattern> x_seed=<N> x_gmode=<kickstart|eth1> x_root=<H32> <CONFIG TOKENS> <FLAT STATE>
slots x_to=<slot> x_pre=<H32> x_root=<H32> <FLAT STATE>            ProcessSlots only
block x_slot=<slot> x_fork=<name> x_ssz=<hex> x_pre=<H32> x_root=<H32> <FLAT STATE>     ProcessSlots + block
genfail x_pre=<H32>     written by the generator when it could not extend a chain on the code under test;
                        the model answers `ok`, the Go side `generator-could-not-extend-chain` (a reported disagreement)
retain x_pre=<H32>      the Go side keeps (copy of the state, clone of the live context); the model keeps the state
recheck x_r=<H32>       re-dump the retained pair whose state root is `x_r`: answer `ok root=<r> fresh=same <ctxOf dump>`
sibling x_r=<H32> x_to=<slot> x_root=<H32> <FLAT STATE>   the retained pair `x_r` is advanced by empty slots (another
                        continuation than the live chain); answered like `recheck` for the new state
sibblock x_r=<H32> x_slot=<slot> x_fork=<name> x_ssz=<hex> x_root=<H32> <FLAT STATE>   the retained pair is fed a block
                        of an independent sibling chain (different blocks than the live chain); answered like `sibling`
clone x_r=<H32>         the retained pair is split: a second pair (copy of its state, clone of its context) is kept
xdeposit x_r=<H32> x_pk=<H48> x_wc=<H32> x_amount=<N> x_root=<H32> <FLAT STATE>   `phase0.ProcessDeposit(…, ignore=true)` of a
                        new validator applied to the retained pair (deposit-tree scenario); answered like `sibling`
reload x_pre=<H32>      from here on a second pair (state reloaded from SSZ bytes, fresh context) runs along
endreload
```
answers: `<model> | <spec>`, both of the form `ok root=<root> fresh=same reload=<none|same> hyps=<ok|failed:…> <abbreviated dump>`:
the model column dumps the live context of the code-shaped model (`rotate` at epoch boundaries, `afterDeposit` for
appended validators, `afterUpgrade` at the altair upgrade — applied line after line, never recomputed), the spec column
dumps `ctxOf` of the line's state; `hyps` is the executable check of the step theorems' hypotheses (`epochWritesB`, …)
between the previous and this state. `ok` (reload/endreload),
`bad-op` (unparseable, or `pre` is not the root of the state the sequence is at — so a deleted line silences
the rest of its chain on both sides).
-/
namespace Zrnt.Beacon.Ctx
open Zrnt.Beacon Zrnt.Beacon.Spec Zrnt.Text

structure DState where
  cfg : Option Config := none
  root : Option String := none
  shadow : Bool := false
  /-- the state after the previous line -/
  prev : Option State := none
  /-- the code-shaped model's live context (`rotate` / `afterDeposit` / `afterUpgrade` applied line by line) -/
  live : Option Ctx := none
  /-- retained pairs: (state root, state, rendered `ctxOf` answer — computed once when the pair is created or moved) of
  older states whose cloned contexts the Go side keeps -/
  kept : List (String × State × String) := []

def render (root : String) (shadow : Bool) (hyps : String) (c : SM Ctx) : String :=
  let head := s!"ok root={root} fresh=same reload={if shadow then "same" else "none"} hyps={hyps} "
  match c with
  | .ok c => head ++ dumpAbbrev c
  | .error _ => head ++ "ctx-err"

def renderKept (root : String) (c : SM Ctx) : String :=
  match c with
  | .ok c => s!"ok root={root} fresh=same " ++ dumpAbbrev c
  | .error _ => s!"ok root={root} fresh=err-fresh ctx-err"

/-- the state `RotateEpochs` sees when the same call of `ProcessSlots` also upgrades the fork: the upgrade keeps
registry, mixes and slot, and (altair) creates the sync committees afterwards -/
def preUpgrade (prev st' : State) : State :=
  if st'.fork = prev.fork then st'
  else if prev.fork < Fork.altair then
    { st' with fork := prev.fork, current_sync_committee := none, next_sync_committee := none }
  else { st' with fork := prev.fork }

/-- advance the live model context over one observed step `prev → st'`; also evaluates the step theorems' hypotheses -/
def advance (cfg : Config) (prev st' : State) (live : Ctx) : String × SM Ctx :=
  let N := get_current_epoch cfg prev
  let N' := get_current_epoch cfg st'
  let cfgOk := decide (1 ≤ cfg.MIN_SEED_LOOKAHEAD) && decide (1 ≤ cfg.MAX_SEED_LOOKAHEAD) &&
    decide (cfg.MIN_SEED_LOOKAHEAD + 3 < cfg.EPOCHS_PER_HISTORICAL_VECTOR)
  if !cfgOk then ("config-outside-theorems", ctxOf cfg st')
  else if N' = N then
    let hyps := if epochWritesB cfg N prev st' then (if inEpochHypsB prev st' then "ok" else "failed:in-epoch") else "failed:epoch-writes"
    (hyps, pure ((st'.validators.drop prev.validators.length).foldl afterDeposit live))
  else if N' = N + 1 then
    let mid := preUpgrade prev st'
    let hyps := if epochWritesB cfg N prev mid then (if boundaryHypsB cfg N prev mid then "ok" else "failed:boundary") else "failed:epoch-writes"
    (hyps, do
      let c1 ← rotate cfg live mid
      if prev.fork < Fork.altair ∧ st'.fork ≥ Fork.altair then afterUpgrade c1 { st' with fork := Fork.altair } else pure c1)
  else ("failed:more-than-one-epoch", ctxOf cfg st')

def step (d : DState) (line : String) : DState × String :=
  let bad := (d, "bad-op")
  match tokens line with
  | "genesis" :: rest =>
    let (kv, extra) := parseKV rest
    if !extra.isEmpty then bad else
    match parseConfig kv, parseState kv, kv.get? "x_root" with
    | .ok cfg, .ok st, some root =>
      let c := ctxOf cfg st
      ({ cfg := some cfg, root := some root, shadow := false, prev := some st, live := c.toOption },
        render root false "ok" c ++ " | " ++ render root false "ok" c)
    | _, _, _ => bad
  | op :: rest =>
    if op = "slots" || op = "block" then
      let (kv, extra) := parseKV rest
      if !extra.isEmpty then bad else
      match d.cfg, parseState kv, kv.get? "x_pre", kv.get? "x_root" with
      | some cfg, .ok st, some pre, some root =>
        if d.root ≠ some pre then bad else
        let spec := ctxOf cfg st
        let (hyps, model) := match d.prev, d.live with
          | some prev, some live => advance cfg prev st live
          | _, _ => ("no-live-context", spec)
        ({ d with root := some root, prev := some st, live := model.toOption },
          render root d.shadow hyps model ++ " | " ++ render root d.shadow hyps spec)
      | _, _, _, _ => bad
    else if op = "retain" then
      let (kv, extra) := parseKV rest
      match d.prev, d.root with
      | some prev, some root =>
        if !extra.isEmpty || kv.get? "x_pre" ≠ some root then bad else
        match d.cfg with
        | some cfg => ({ d with kept := d.kept ++ [(root, prev, renderKept root (ctxOf cfg prev))] }, "ok")
        | none => bad
      | _, _ => bad
    else if op = "recheck" then
      let (kv, extra) := parseKV rest
      match d.cfg, kv.get? "x_r" with
      | some cfg, some r =>
        match d.kept.find? (·.1 = r) with
        | some (_, _, ans) => if !extra.isEmpty || cfg.SLOTS_PER_EPOCH = 0 then bad else (d, ans)
        | none => bad
      | _, _ => bad
    else if op = "clone" then
      let (kv, extra) := parseKV rest
      match d.cfg, kv.get? "x_r" with
      | some _, some r =>
        match d.kept.find? (·.1 = r) with
        | some e => if !extra.isEmpty then bad else ({ d with kept := d.kept ++ [e] }, "ok")
        | none => bad
      | _, _ => bad
    else if op = "sibling" || op = "sibblock" || op = "xdeposit" then
      let (kv, extra) := parseKV rest
      match d.cfg, kv.get? "x_r", kv.get? "x_root", parseState kv,
          (kv.get? (if op = "sibling" then "x_to" else if op = "sibblock" then "x_slot" else "x_amount")).bind String.toNat? with
      | some cfg, some r, some root, .ok st, some _ =>
        if !extra.isEmpty || !(d.kept.any (·.1 = r)) then bad else
        -- the first retained pair with that root moves on to the line's state
        let ans := renderKept root (ctxOf cfg st)
        let rec upd : List (String × State × String) → List (String × State × String)
          | [] => []
          | (k, s0, a0) :: t => if k = r then (root, st, ans) :: t else (k, s0, a0) :: upd t
        ({ d with kept := upd d.kept }, ans)
      | _, _, _, _, _ => bad
    else if op = "genesisfail" then (d, "ok")   -- as `genfail`, for a chain whose genesis could not be built
    else if op = "genfail" then
      -- the generator could not extend a chain: on correct code this line is never generated
      let (kv, extra) := parseKV rest
      if !extra.isEmpty || d.cfg.isNone || kv.get? "x_pre" ≠ d.root then bad else (d, "ok")
    else if op = "reload" then
      let (kv, extra) := parseKV rest
      if !extra.isEmpty || d.cfg.isNone || d.root.isNone || kv.get? "x_pre" ≠ d.root then bad else
      ({ d with shadow := true }, "ok")
    else if op = "endreload" then
      if rest.isEmpty && d.cfg.isSome then ({ d with shadow := false }, "ok") else bad
    else bad
  | [] => bad

def c08Mode : Driver.Mode := Driver.stateful "c08" ({} : DState) step

end Zrnt.Beacon.Ctx
