import Zrnt.Driver.Loop
import Zrnt.Beacon.Ctx
/-!
`zmodel c08` — stateful; one chain per sequence (`reset` between chains). Every state-changing line carries
the flat state *after* the step; the answer is the context of that state computed from scratch (`ctxOf`):

```
genesis x_cfg=<id> x_n=<N> x_bal=<pattern> x_seed=<N> x_gmode=<kickstart|eth1> x_root=<H32> <CONFIG TOKENS> <FLAT STATE>
slots x_to=<slot> x_pre=<H32> x_root=<H32> <FLAT STATE>            ProcessSlots only
block x_slot=<slot> x_fork=<name> x_ssz=<hex> x_pre=<H32> x_root=<H32> <FLAT STATE>     ProcessSlots + block
genfail x_pre=<H32>     written by the generator when it could not extend a chain on the code under test;
                        the model answers `ok`, the Go side `generator-could-not-extend-chain` (a reported disagreement)
reload x_pre=<H32>      from here on a second pair (state reloaded from SSZ bytes, fresh context) runs along
endreload
```
answers: `ok root=<root> fresh=same reload=<none|same> <abbreviated ctxOf dump>`, `ok` (reload/endreload),
`bad-op` (unparseable, or `pre` is not the root of the state the sequence is at — so a deleted line silences
the rest of its chain on both sides).
-/
namespace Zrnt.Beacon.Ctx
open Zrnt.Beacon Zrnt.Beacon.Spec Zrnt.Text

structure DState where
  cfg : Option Config := none
  root : Option String := none
  shadow : Bool := false

def answer (cfg : Config) (st : State) (root : String) (shadow : Bool) : String :=
  match ctxOf cfg st with
  | .ok c => s!"ok root={root} fresh=same reload={if shadow then "same" else "none"} " ++ dumpAbbrev c
  | .error _ => s!"ok root={root} fresh=err-fresh reload={if shadow then "same" else "none"} ctx-err"

def step (d : DState) (line : String) : DState × String :=
  let bad := (d, "bad-op")
  match tokens line with
  | "genesis" :: rest =>
    let (kv, extra) := parseKV rest
    if !extra.isEmpty then bad else
    match parseConfig kv, parseState kv, kv.get? "x_root" with
    | .ok cfg, .ok st, some root => ({ cfg := some cfg, root := some root, shadow := false }, answer cfg st root false)
    | _, _, _ => bad
  | op :: rest =>
    if op = "slots" || op = "block" then
      let (kv, extra) := parseKV rest
      if !extra.isEmpty then bad else
      match d.cfg, parseState kv, kv.get? "x_pre", kv.get? "x_root" with
      | some cfg, .ok st, some pre, some root =>
        if d.root ≠ some pre then bad else
        ({ d with root := some root }, answer cfg st root d.shadow)
      | _, _, _, _ => bad
    else if op = "reload" then
      let (kv, extra) := parseKV rest
      if !extra.isEmpty || d.cfg.isNone || d.root.isNone || kv.get? "x_pre" ≠ d.root then bad else
      ({ d with shadow := true }, "ok")
    else if op = "genesisfail" then (d, "ok")   -- as `genfail`, for a chain whose genesis could not be built
    else if op = "genfail" then
      -- the generator could not extend a chain: on correct code this line is never generated
      let (kv, extra) := parseKV rest
      if !extra.isEmpty || d.cfg.isNone || kv.get? "x_pre" ≠ d.root then bad else (d, "ok")
    else if op = "endreload" then
      if rest.isEmpty && d.cfg.isSome then ({ d with shadow := false }, "ok") else bad
    else bad
  | [] => bad

def c08Mode : Driver.Mode := Driver.stateful "c08" ({} : DState) step

end Zrnt.Beacon.Ctx
