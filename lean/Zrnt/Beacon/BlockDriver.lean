import Zrnt.Driver.Loop
import Zrnt.Beacon.C02Driver
import Zrnt.Beacon.Spec.BlockTransition
import Zrnt.Beacon.Impl.BlockM
/-!
`zmodel c01` / `zmodel c03` (same line semantics; the generators differ) and `zmodel blockwhy`.

Stateful protocol; a sequence is one pre-state followed by blocks that are ALL applied to that pre-state
(the current state is not advanced by a block):

* `pre <configuration tokens> <flat state tokens> [sroots=… aggs=…]`  → `pre-ok`
    sets the current pre-state. `sroots` / `aggs` are the `process_slots` oracles of `C02Driver`
    (needed only for `mode=full` blocks).
* `blk mode=post|full tag=<free text> <flat block tokens incl. oracle tokens>` →
    `<M> | <S>`, each `ok <abbreviated flat post-state>` | `err` | `err-oracle` | `err-fuel` (`M` also `panic`);
    `M` = the code-shaped model `Zrnt/Beacon/Impl/BlockM.lean` run with the context `ctxOf` of the pre-state,
    `S` = the specification
    mode=post: the pre-state is already at the block's slot (the Go side calls `PostSlotTransition`):
               verify_block_signature + process_block + state-root check;
    mode=full: `state_transition` including `process_slots`;
    mode=payload: `process_execution_payload` alone on the pre-state (the Go side calls the fork's
               `ProcessExecutionPayload` directly: `ProcessBlock` repeats some of its checks later, in `CheckLimits`).
* `reset` forgets the pre-state. A `blk` without pre-state, or an unparseable line: `bad-op`.

`err-oracle`: the harness-supplied inputs are inconsistent with what `S` derives (attesting indices, a
missing root): a machinery error, never equal to any Go answer, so it is always reported.
`blockwhy` answers a rejected block with `err:<first failing rule>` instead (used for the per-rule
statistics in the evidence, not compared with Go).
-/
namespace Zrnt.Beacon.Block
open Zrnt Zrnt.Text Zrnt.Beacon Zrnt.Beacon.Spec

structure Pre where
  cfg : Config
  state : State
  agg : AggOracle
  roots : RootOracle

def renderRes (why : Bool) (r : SM State) : String :=
  match r with
  | .ok s => "ok " ++ printStateAbbrev s
  | .error (.invalid m) => if why then "err:" ++ m.replace " " "_" else "err"
  | .error (.overflow m) => if why then "err:overflow:" ++ m.replace " " "_" else "err"
  | .error (.fuel _) => "err-fuel"
  | .error (.oracle m) => if why then "err-oracle:" ++ m.replace " " "_" else "err-oracle"

/-- result of the code-shaped model `M` (`outOfFuel` = its oracle audit failed) -/
def renderM : Res State → String
  | .ok s => "ok " ++ printStateAbbrev s
  | .err => "err"
  | .panic => "panic"
  | .outOfFuel => "err-oracle"

def step (why : Bool) (cur : Option Pre) (line : String) : Option Pre × String :=
  let toks := tokens line
  let (kv, rest) := parseKV toks
  match rest with
  | ["pre"] =>
    match parseConfig kv, parseState kv with
    | .ok cfg, .ok s =>
      let agg := aggOracleOf ((kv.get? "aggs" >>= parseAggs).getD [])
      let roots := rootOracleOf ((kv.get? "sroots" >>= parseRoots).getD [])
      (some ⟨cfg, s, agg, roots⟩, "pre-ok")
    | _, _ => (none, "bad-op")
  | ["blk"] =>
    match cur, parseBlock kv, kv.get? "mode" with
    | some p, .ok b, some "post" =>
      let sp := renderRes why (state_transition_post_slots p.cfg p.state b)
      if why then (cur, sp) else
      (cur, renderM (BlockM.postSlotTransition p.cfg (BlockM.ctxOf p.cfg p.state) p.state b) ++ " | " ++ sp)
    | some p, .ok b, some "full" =>
      let sp := renderRes why (state_transition p.cfg p.agg p.roots p.state b)
      if why then (cur, sp) else
      -- M: slot processing is the specification's (its code-shaped model belongs to C02), then M's PostSlotTransition
      let m := match process_slots p.cfg p.agg p.roots p.state b.slot with
        | .ok s' => renderM (BlockM.postSlotTransition p.cfg (BlockM.ctxOf p.cfg s') s' b)
        | .error e => renderRes false (.error e)
      (cur, m ++ " | " ++ sp)
    | some p, .ok b, some "payload" =>
      -- the execution-payload step alone, on the pre-state (the Go side calls the fork's `ProcessExecutionPayload` directly)
      match b.execution_payload with
      | some payload =>
        -- (the payload's own type limit belongs to the step: an over-long extra_data has no header form)
        let sp := renderRes why (do
          require (payload.fields.extra_data.size ≤ p.cfg.MAX_EXTRA_DATA_BYTES) "limits.extra_data"
          process_execution_payload p.cfg p.state b payload)
        if why then (cur, sp) else
        (cur, renderM (BlockM.processExecutionPayload p.cfg p.state b payload) ++ " | " ++ sp)
      | none => (cur, "bad-op")
    | _, _, _ => (cur, "bad-op")
  | _ => (cur, "bad-op")

def c01Mode : Driver.Mode := Driver.stateful "c01" (none : Option Pre) (step false)
def c03Mode : Driver.Mode := Driver.stateful "c03" (none : Option Pre) (step false)
def blockWhyMode : Driver.Mode := Driver.stateful "blockwhy" (none : Option Pre) (step true)

end Zrnt.Beacon.Block
