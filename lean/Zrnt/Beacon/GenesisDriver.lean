import Zrnt.Driver.Loop
import Zrnt.Beacon.Genesis
/-!
`zmodel c13` — one genesis construction per line:

```
genesis mode=eth1|eth1-ignore|kickstart|kickstart-sigs case=<label> hash=<H32> time=<N>
        deps=<pubkey:wc:amount:signature:proof|-:pkok:sigdec:verok:signing_root:sk|->;…|-   <CONFIG TOKENS>
```
Answer: `<model> | <spec>` where each side is `err` or
`ok [fewvals:|noactive:]<abbreviated flat state> valid=<is_valid_genesis_state> ctx=same`
(`ctx`: the returned epochs context compared, on the Go side, with `NewEpochsContext(spec, state)` — C08's dump).
The class prefix marks result states for which zrnt cannot build an epochs context (fewer validators than
`SLOTS_PER_EPOCH`; nobody active) — the Go side prints the same prefix if it ever returns such a state.
Spec `any`: the pyspec raises a `uint64` overflow (unreachable amounts/timestamps; Go wraps).
-/
namespace Zrnt.Beacon.Genesis
open Zrnt.Beacon Zrnt.Beacon.Spec Zrnt.Text

def pDeposit (s : String) : P (DepositIn × Bytes) :=
  match s.splitOn ":" with
  | [pk, wc, amt, sig, proof, pkok, sigdec, verok, sroot, _sk] => do
    let proofBytes ← pHex proof
    let proofL : List Bytes :=
      if proofBytes.size = 0 then List.replicate (DEPOSIT_CONTRACT_TREE_DEPTH + 1) ZERO32
      else (List.range (proofBytes.size / 32)).map fun i => proofBytes.extract (32 * i) (32 * i + 32)
    if proofBytes.size ≠ 0 ∧ proofBytes.size ≠ 32 * (DEPOSIT_CONTRACT_TREE_DEPTH + 1) then throw "bad proof length"
    pure ({ pubkey := ← pHexN 48 pk, withdrawal_credentials := ← pHexN 32 wc, amount := ← pU64 amt,
            signature := ← pHexN 96 sig, proof := proofL, pkOk := ← pBool01 pkok,
            sigDecodes := ← pBool01 sigdec, verifyOk := ← pBool01 verok }, ← pHexN 32 sroot)
  | _ => throw "bad deposit"

def classPrefix (cfg : Config) (s : State) : String :=
  if s.validators.length < cfg.SLOTS_PER_EPOCH then "fewvals:"
  else if (get_active_validator_indices s GENESIS_EPOCH).isEmpty then "noactive:"
  else ""

/-- `valid`: the model column uses the code-shaped `Impl.isValidGenesisState`, the spec column `is_valid_genesis_state` -/
def render (cfg : Config) (s : State) (valid : Bool) : String :=
  "ok " ++ classPrefix cfg s ++ printStateAbbrev s ++ " valid=" ++ boolStr valid ++ " ctx=same"

def renderModel (cfg : Config) : Option State → String
  | none => "err"
  | some s => render cfg s (Impl.isValidGenesisState cfg s)

def renderSpec (cfg : Config) : SM State → String
  | .error (.overflow _) => "any"
  | .error _ => "err"
  | .ok s => render cfg s (is_valid_genesis_state cfg s)

def c13Line (line : String) : String :=
  let toks := tokens line
  match toks with
  | "genesis" :: rest =>
    let (kv, extra) := parseKV rest
    if !extra.isEmpty then "bad-op" else
    let r : P String := do
      let cfg ← parseConfig kv
      let mode ← need kv "mode"
      let hash ← pHexN 32 (← need kv "hash")
      let time ← pU64 (← need kv "time")
      let depsR ← pList ";" pDeposit (← need kv "deps")
      let deps := depsR.map (·.1)
      -- oracle audit: the harness' verdicts must be about the spec's deposit signing root
      if depsR.any (fun (d, sroot) => depositSigningRoot cfg d ≠ sroot) then return "oracle-mismatch"
      match mode with
      | "eth1" =>
        pure (renderModel cfg (Impl.genesisFromEth1 cfg hash time deps false) ++ " | " ++
              renderSpec cfg (initialize_beacon_state_from_eth1 cfg hash time deps))
      | "eth1-ignore" =>
        pure (renderModel cfg (Impl.genesisFromEth1 cfg hash time deps true) ++ " | " ++
              renderSpec cfg (initialize_beacon_state_from_eth1 cfg hash time
                (deps.map fun d => { d with verifyOk := true }) (checkProof := false)))
      | "kickstart" | "kickstart-sigs" =>
        pure (renderModel cfg (Impl.kickStart cfg hash time deps) ++ " | " ++
              renderSpec cfg (kickStartSpec cfg hash time deps))
      | _ => throw "bad mode"
    match r with
    | .ok s => s
    | .error _ => "bad-op"
  | _ => "bad-op"

def c13Mode : Driver.Mode := Driver.stateless "c13" c13Line

end Zrnt.Beacon.Genesis
