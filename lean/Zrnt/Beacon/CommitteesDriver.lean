import Zrnt.Driver.Loop
import Zrnt.Prelude.Text
import Zrnt.Sha256
import Zrnt.Beacon.Committees
/-! `zmodel committees` (property C07). Every line carries a whole flat state:

`<op> <fork> <SLOTS_PER_EPOCH> <TARGET_COMMITTEE_SIZE> <MAX_COMMITTEES_PER_SLOT> <SHUFFLE_ROUND_COUNT>
 <EPOCHS_PER_HISTORICAL_VECTOR> <MIN_SEED_LOOKAHEAD> <MAX_EFFECTIVE_BALANCE> <SYNC_COMMITTEE_SIZE> <slot> <salt> <validators>`

validators: `-` or `activation:exit:effective_balance` joined by `,` (`f` = FAR_FUTURE_EPOCH);
randao mix `i` of the state is `sha256(salt ‖ le64(i))`. Ops:

* `comms`  — `GetBeaconCommittee` for every (slot, index) of the previous, current and next epoch, plus three
  out-of-range probes; * `counts` — `GetCommitteeCountPerSlot` for previous/current/next and an epoch out of range;
* `props` — `GetBeaconProposer` for every slot of the current epoch plus two slots outside it;
* `sync` — `ComputeSyncCommitteeIndices` for the next epoch (what `ComputeNextSyncCommittee` asks for).

Answer: `<code-shaped model> | <literal spec functions>`. When the state has no validator active in the
current epoch the context cannot be built (`err`); the spec column is then `any` for committee queries. -/
namespace Zrnt.Beacon.Committees
open Zrnt Zrnt.Text

def FAR : Nat := 2 ^ 64 - 1

def parseEpochTok (s : String) : Option Nat := if s = "f" then some FAR else s.toNat?

def parseVals (s : String) : Option (Array Val) :=
  if s = "-" then some #[] else
  (s.splitOn ",").toArray.mapM fun t =>
    match t.splitOn ":" with
    | [a, e, b] => do
      let a ← parseEpochTok a
      let e ← parseEpochTok e
      let b ← b.toNat?
      pure { activation := a, exit := e, effBal := b }
    | _ => none

structure Input where
  fork : String
  cfg : Cfg
  slot : Nat
  salt : ByteArray
  vals : Array Val

def parseInput (toks : List String) : Option Input :=
  match toks with
  | [fork, spe, tcs, mcs, src, ephv, msl, meb, scs, slot, salt, vals] => do
    let spe ← spe.toNat?
    let tcs ← tcs.toNat?
    let mcs ← mcs.toNat?
    let src ← src.toNat?
    let ephv ← ephv.toNat?
    let msl ← msl.toNat?
    let meb ← meb.toNat?
    let scs ← scs.toNat?
    let cfg : Cfg := ⟨spe, tcs, mcs, src, ephv, msl, meb, scs⟩
    let saltB ← parseHex salt
    if saltB.size ≠ 32 ∨ (fork ≠ "phase0" ∧ fork ≠ "altair") then none
    if cfg.SLOTS_PER_EPOCH = 0 ∨ cfg.TARGET_COMMITTEE_SIZE = 0 ∨ cfg.EPOCHS_PER_HISTORICAL_VECTOR = 0 ∨
        cfg.SHUFFLE_ROUND_COUNT > 255 ∨ cfg.MIN_SEED_LOOKAHEAD ≥ cfg.EPOCHS_PER_HISTORICAL_VECTOR then none
    let slot ← slot.toNat?
    let vals ← parseVals vals
    pure { fork := fork, cfg := cfg, slot := slot, salt := saltB, vals := vals }
  | _ => none

def mixOf (salt : ByteArray) (i : Nat) : ByteArray := Sha256.hash (salt ++ putUint64 i)

def listStr (l : List Nat) : String := if l.isEmpty then "-" else ",".intercalate (l.map toString)
def slotStr (cs : List (List Nat)) : String := if cs.isEmpty then "none" else "/".intercalate (cs.map listStr)
def epochStr (ss : List (List (List Nat))) : String := if ss.isEmpty then "-" else ";".intercalate (ss.map slotStr)

def rs {α} (f : α → String) : Res α → String
  | .ok a => f a
  | .err => "err"
  | .panic => "panic"
  | .outOfFuel => "outOfFuel"

/-- fuel for the unbounded loops (model of the sync loop, spec loops); far beyond what real hashes need -/
def loopFuel : Nat := 200000

/-- what the harness asks about one epoch: committees at index 0,1,… until the first refusal -/
def modelEpochComms (cfg : Cfg) (c : Ctx) (epoch : Nat) : List (List (List Nat)) :=
  (List.range cfg.SLOTS_PER_EPOCH).map fun s =>
    let slot := epoch * cfg.SLOTS_PER_EPOCH + s
    let rec go : Nat → Nat → List (List Nat) → List (List Nat)
      | 0, _, acc => acc.reverse
      | k + 1, i, acc =>
        match c.getBeaconCommittee cfg slot i with
        | .ok m => go k (i + 1) (m :: acc)
        | _ => acc.reverse
    go cfg.MAX_COMMITTEES_PER_SLOT 0 []

def specEpochComms (cfg : Cfg) (vals : List Val) (mixes : Nat → ByteArray) (epoch : Nat) : Option (List (List (List Nat))) :=
  let count := Spec.get_committee_count_per_slot cfg vals epoch
  (List.range cfg.SLOTS_PER_EPOCH).mapM fun s =>
    (List.range count).mapM fun i =>
      match Spec.get_beacon_committee Sha256.hash cfg vals mixes (epoch * cfg.SLOTS_PER_EPOCH + s) i with
      | .ok m => some m
      | _ => none

/-- the hash functions of the `cpi` / `csi` ops (go/internal/committees/cutoff.go): with `d = sha256 x`,
0: `d`; 1: zero bytes become 1; 2: a zero byte stays zero only if the next byte (cyclically) is `< 8`;
3: every byte gets its top bit set -/
def hashMode (m : Nat) (x : ByteArray) : ByteArray :=
  let d := Sha256.hash x
  if m = 0 then d else
  ⟨(Array.range 32).map fun i =>
    let b := d.get! i
    if m = 1 then (if b = 0 then 1 else b)
    else if m = 2 then (if b = 0 ∧ (d.get! ((i + 1) % 32)).toNat ≥ 8 then 1 else b)
    else b ||| 0x80⟩

/-- fuel given to the specification's unbounded proposer loop on `cpi` lines: beyond the implementation's
32 000-candidate cut-off, so that "the implementation gave up, the specification is still searching" shows -/
def cpiSpecFuel : Nat := 40000

def directLine (op : String) (toks : List String) : String :=
  match toks with
  | hm :: rest =>
    match hm.toNat? with
    | none => "bad-op"
    | some m =>
      if m > 3 then "bad-op" else
      let (stateToks, seedTok) := if op = "cpi" then (rest.take 12, rest.drop 12) else (rest, [])
      match parseInput stateToks, (if op = "cpi" then (match seedTok with | [s] => parseHex s | _ => none) else some ByteArray.empty) with
      | some inp, some seed =>
        if op = "cpi" ∧ seed.size ≠ 32 then "bad-op" else
        let cfg := inp.cfg
        let H := hashMode m
        let mixes := mixOf inp.salt
        let epoch := inp.slot / cfg.SLOTS_PER_EPOCH
        if op = "cpi" then
          let active := activeIndices inp.vals epoch
          let mdl := rs (fun c => s!"ok {c}") (computeProposerIndex H cfg inp.vals active seed)
          let sp := match Spec.compute_proposer_index H cfg inp.vals.toList active.toList seed cpiSpecFuel 0 with
            | .ok c => s!"ok {c}"
            | .outOfFuel => "any"      -- still searching after 40 000 candidates: the stated divergence
            | _ => "err"
          mdl ++ " | " ++ sp
        else
          let active := activeIndices inp.vals (epoch + 1)
          let mdl := rs (fun a => "ok " ++ listStr a.toList)
            (computeSyncCommitteeIndices H cfg inp.vals mixes inp.slot (epoch + 1) active loopFuel)
          let sp := match Spec.get_next_sync_committee_indices H cfg inp.vals.toList mixes inp.slot loopFuel with
            | .ok l => "ok " ++ listStr l
            | .outOfFuel => "any"
            | _ => "err"
          mdl ++ " | " ++ sp
      | _, _ => "bad-op"
  | [] => "bad-op"

def committeesLine (line : String) : String :=
  match tokens line with
  | "cpi" :: rest => directLine "cpi" rest
  | "csi" :: rest => directLine "csi" rest
  | op :: rest =>
    match parseInput rest with
    | none => "bad-op"
    | some inp =>
      let cfg := inp.cfg
      let H := Sha256.hash
      let mixes := mixOf inp.salt
      let valsL := inp.vals.toList
      let cur := inp.slot / cfg.SLOTS_PER_EPOCH
      let prev := cur - 1
      let next := cur + 1
      let ctx := newEpochsContext H cfg inp.vals mixes inp.slot
      let anyActive := !(Spec.get_active_validator_indices valsL cur).isEmpty
      if op = "comms" then
        let m := match ctx with
          | .ok c =>
            let curStart := cur * cfg.SLOTS_PER_EPOCH
            let cnt := match c.getCommitteeCountPerSlot cur with | .ok n => n | _ => 0
            "ok P=" ++ epochStr (modelEpochComms cfg c prev) ++ " C=" ++ epochStr (modelEpochComms cfg c cur) ++
              " N=" ++ epochStr (modelEpochComms cfg c next) ++ " probes=" ++
              rs listStr (c.getBeaconCommittee cfg curStart cnt) ++ "," ++
              rs listStr (c.getBeaconCommittee cfg curStart cfg.MAX_COMMITTEES_PER_SLOT) ++ "," ++
              rs listStr (c.getBeaconCommittee cfg ((cur + 2) * cfg.SLOTS_PER_EPOCH) 0)
          | r => rs (fun _ => "") r
        let s := if !anyActive then "any" else
          match specEpochComms cfg valsL mixes prev, specEpochComms cfg valsL mixes cur, specEpochComms cfg valsL mixes next with
          | some p, some c, some n => "ok P=" ++ epochStr p ++ " C=" ++ epochStr c ++ " N=" ++ epochStr n ++ " probes=err,err,err"
          | _, _, _ => "err"
        m ++ " | " ++ s
      else if op = "counts" then
        let m := match ctx with
          | .ok c => "ok " ++ rs toString (c.getCommitteeCountPerSlot prev) ++ " " ++ rs toString (c.getCommitteeCountPerSlot cur) ++
              " " ++ rs toString (c.getCommitteeCountPerSlot next) ++ " far=" ++ rs toString (c.getCommitteeCountPerSlot (cur + 2))
          | r => rs (fun _ => "") r
        let s := if !anyActive then "any" else
          s!"ok {Spec.get_committee_count_per_slot cfg valsL prev} {Spec.get_committee_count_per_slot cfg valsL cur} {Spec.get_committee_count_per_slot cfg valsL next} far=err"
        m ++ " | " ++ s
      else if op = "props" then
        let m := match ctx with
          | .ok c =>
            let ps := (List.range cfg.SLOTS_PER_EPOCH).map fun s => rs toString (c.getBeaconProposer cfg (cur * cfg.SLOTS_PER_EPOCH + s))
            "ok " ++ ",".intercalate ps ++ " out=" ++ rs toString (c.getBeaconProposer cfg (next * cfg.SLOTS_PER_EPOCH)) ++ "," ++
              rs toString (c.getBeaconProposer cfg ((cur + 2) * cfg.SLOTS_PER_EPOCH + 1))
          | r => rs (fun _ => "") r
        let sp := (List.range cfg.SLOTS_PER_EPOCH).map fun s =>
          Spec.get_beacon_proposer_index H cfg valsL mixes (cur * cfg.SLOTS_PER_EPOCH + s) loopFuel
        let s :=
          if sp.any (fun r => match r with | .outOfFuel => true | _ => false) then "any"
          else if sp.all (fun r => match r with | .ok _ => true | _ => false) then
            "ok " ++ ",".intercalate (sp.map (rs toString)) ++ " out=err,err"
          else "err"
        m ++ " | " ++ s
      else if op = "sync" then
        let m := match ctx with
          | .ok c => rs (fun a => "ok " ++ listStr a.toList)
              (computeSyncCommitteeIndices H cfg inp.vals mixes inp.slot c.nextEpoch.epoch c.nextEpoch.activeIndices loopFuel)
          | r => rs (fun _ => "") r
        let s := if !anyActive then "err" else
          match Spec.get_next_sync_committee_indices H cfg valsL mixes inp.slot loopFuel with
          | .ok l => "ok " ++ listStr l
          | .outOfFuel => "any"
          | _ => "err"
        m ++ " | " ++ s
      else "bad-op"
  | [] => "bad-op"

def committeesMode : Driver.Mode := Driver.stateless "committees" committeesLine

end Zrnt.Beacon.Committees
