import Zrnt.Pool.GoMap
import Zrnt.Pool.Bits
/-!
# Models of the five operation pools of `eth2/pool`

Each pool is a record of Go maps (`GoMap`: association list + nil flag) and its methods follow the Go
code statement by statement. A write to a nil map, the dereference of a missing map entry and an index
out of range are explicit `Res.panic`. A method that returns `error` yields the new state together with
`true` (nil error) or `false` (non-nil error): Go code may have changed the maps before returning an error.

Attestation data is abstract: `AttData` carries the fields the pool reads (slot, committee index, target
epoch) plus a tag standing for the remaining content; the hash-tree-root of the data is modelled by the
data itself (i.e. hash-tree-root is assumed injective). Signatures are opaque numbers.

`Cfg` selects the code before (`Cfg.old`) or after (`Cfg.fixed`) the `fix:` commits in /repo; the theorems
are about `Cfg.fixed`, the witnesses of the defects about `Cfg.old`.
-/
namespace Zrnt.Pool

structure Cfg where
  /-- `NewAttestationPool` allocates `aggPerValidator` -/
  allocAggPerValidator : Bool
  /-- `Search` skips data without an `aggregate` entry instead of dereferencing nil -/
  searchSkipsMissing : Bool
  /-- `AddAttestation` compares the bit length of an aggregate with the committee size -/
  aggLenCheck : Bool
  /-- `AddAttestation` ORs the bits of an appended aggregate into `MinAggregates.Participants` -/
  orParticipants : Bool
  /-- `NewSyncCommitteePool` allocates the six buffers -/
  allocSyncMaps : Bool
  /-- `SyncCommitteeMessages.Select` skips members without a message -/
  selectSkipsMissing : Bool
  deriving Repr, DecidableEq

def Cfg.fixed : Cfg := ⟨true, true, true, true, true, true⟩
def Cfg.old : Cfg := ⟨false, false, false, false, false, false⟩

/-! ## AttestationPool -/

structure AttData where
  slot : Nat
  index : Nat
  target : Nat
  tag : Nat
  deriving Repr, DecidableEq, Inhabited

structure Att where
  data : AttData
  bits : Bits
  sig : Nat
  deriving Repr, DecidableEq

/-- `pool.Aggregate` -/
structure Agg where
  bits : Bits
  sig : Nat
  deriving Repr, DecidableEq

/-- `pool.MinAggregates` -/
structure MinAgg where
  aggregates : List Agg
  participants : Bits
  extra : List Agg
  deriving Repr, DecidableEq

/-- `pool.Assignment` = (validator index, epoch) -/
abbrev Assignment := Nat × Nat

structure AttPool where
  /-- data root ↦ (data, committee) -/
  datas : GoMap AttData (AttData × List Nat)
  /-- (validator, epoch) ↦ (data root, signature) -/
  individual : GoMap Assignment (AttData × Nat)
  aggregate : GoMap AttData MinAgg
  aggPerValidator : GoMap Assignment AttData
  maxExtra : Nat
  deriving Repr, DecidableEq

/-- `NewAttestationPool` -/
def AttPool.new (cfg : Cfg) : AttPool :=
  { datas := .make, individual := .make, aggregate := .make,
    aggPerValidator := if cfg.allocAggPerValidator then .make else .nilMap,
    maxExtra := 10 }

/-- existing data, new participants: `for i, vi := range committee { if bits.GetBit(i) { aggPerValidator[(vi, epoch)] = root } }` -/
def markLoop (bits : Bits) (d : AttData) : List Nat → Nat → GoMap Assignment AttData → Res (GoMap Assignment AttData)
  | [], _, apv => .ok apv
  | vi :: rest, i, apv =>
    match getBit bits i with
    | .ok true =>
      match apv.set (vi, d.target) d with
      | .ok apv' => markLoop bits d rest (i + 1) apv'
      | _ => .panic
    | .ok false => markLoop bits d rest (i + 1) apv
    | _ => .panic

/-- new data: mark the participants not seen this epoch yet; the flag is `hasNewAttester` -/
def newLoop (bits : Bits) (d : AttData) : List Nat → Nat → GoMap Assignment AttData → Bool → Res (GoMap Assignment AttData × Bool)
  | [], _, apv, has => .ok (apv, has)
  | vi :: rest, i, apv, has =>
    match getBit bits i with
    | .ok true =>
      match apv.get? (vi, d.target) with
      | some _ => newLoop bits d rest (i + 1) apv has
      | none =>
        match apv.set (vi, d.target) d with
        | .ok apv' => newLoop bits d rest (i + 1) apv' true
        | _ => .panic
    | .ok false => newLoop bits d rest (i + 1) apv has
    | _ => .panic

/-- `if _, ok := ap.datas[dataRoot]; !ok { ap.datas[dataRoot] = &IndexedAttData{...} }` -/
def AttPool.storeData (p : AttPool) (d : AttData) (committee : List Nat) : Res (GoMap AttData (AttData × List Nat)) :=
  match p.datas.get? d with
  | some _ => .ok p.datas
  | none => p.datas.set d (d, committee)

/-- the `count == 1` branch of `AddAttestation` -/
def AttPool.addSingle (p : AttPool) (att : Att) (committee : List Nat) : Res (AttPool × Bool) :=
  let d := att.data
  match singleParticipant att.bits committee with
  | .ok v =>
    let key : Assignment := (v, d.target)
    match p.individual.get? key with
    | some ex => if ex.1 ≠ d then .ok (p, false) else .ok (p, true)
    | none =>
      match p.individual.set key (d, att.sig) with
      | .ok ind => .ok ({ p with individual := ind }, true)
      | _ => .panic
  | .err => .ok (p, false)
  | _ => .panic

/-- the aggregate branch of `AddAttestation` (after the bit-length check) -/
def AttPool.addAggregate (cfg : Cfg) (p : AttPool) (att : Att) (committee : List Nat) : Res (AttPool × Bool) :=
  let d := att.data
  match p.aggregate.get? d with
  | some ex =>
    match covers ex.participants att.bits with
    | .ok true =>
      if ex.extra.length < p.maxExtra then
        match p.aggregate.set d { ex with extra := ex.extra ++ [⟨att.bits, att.sig⟩] } with
        | .ok ag => .ok ({ p with aggregate := ag }, true)
        | _ => .panic
      else .ok (p, true)
    | .ok false =>
      match (if cfg.orParticipants then or ex.participants att.bits else .ok ex.participants) with
      | .ok parts =>
        match p.aggregate.set d { ex with aggregates := ex.aggregates ++ [⟨att.bits, att.sig⟩], participants := parts } with
        | .ok ag =>
          match markLoop att.bits d committee 0 p.aggPerValidator with
          | .ok apv => .ok ({ p with aggregate := ag, aggPerValidator := apv }, true)
          | _ => .panic
        | _ => .panic
      | _ => .panic
    | .err => .ok (p, false)
    | _ => .panic
  | none =>
    match newLoop att.bits d committee 0 p.aggPerValidator false with
    | .ok (apv, true) =>
      match p.aggregate.set d ⟨[⟨att.bits, att.sig⟩], att.bits, []⟩ with
      | .ok ag => .ok ({ p with aggregate := ag, aggPerValidator := apv }, true)
      | _ => .panic
    | .ok (apv, false) => .ok ({ p with aggPerValidator := apv }, false)
    | _ => .panic

/-- `AttestationPool.AddAttestation`; the Boolean is `err == nil` -/
def AttPool.add (cfg : Cfg) (p : AttPool) (att : Att) (committee : List Nat) : Res (AttPool × Bool) :=
  let count := onesCount att.bits
  if count = 0 then .ok (p, false) else
  -- store data and committee
  match p.storeData att.data committee with
  | .ok datas =>
    let p := { p with datas := datas }
    if count = 1 then p.addSingle att committee
    else if cfg.aggLenCheck && bitlistLen att.bits != committee.length then .ok (p, false)
    else p.addAggregate cfg att committee
  | _ => .panic

/-- the filter of `Search` (`WithSlot`, `WithCommittee`) -/
def matchesFilter (slot? idx? : Option Nat) (d : AttData) : Bool :=
  (match slot? with | some s => d.slot = s | none => true) &&
  (match idx? with | some c => d.index = c | none => true)

def searchLoop (cfg : Cfg) (p : AttPool) (slot? idx? : Option Nat) : List (AttData × (AttData × List Nat)) → Res (List Att)
  | [] => .ok []
  | (k, d) :: rest =>
    if matchesFilter slot? idx? d.1 then
      match p.aggregate.get? k with
      | some m =>
        match searchLoop cfg p slot? idx? rest with
        | .ok out => .ok (m.aggregates.map (fun a => ⟨d.1, a.bits, a.sig⟩) ++ out)
        | r => r
      | none => if cfg.searchSkipsMissing then searchLoop cfg p slot? idx? rest else .panic
    else searchLoop cfg p slot? idx? rest

/-- `AttestationPool.Search` (the order of the result is map order in Go; compare as a multiset) -/
def AttPool.search (cfg : Cfg) (p : AttPool) (slot? idx? : Option Nat) : Res (List Att) :=
  searchLoop cfg p slot? idx? p.datas.entries

/-- `AttestationPool.Prune`; `epoch.Previous()` saturates at 0 -/
def AttPool.prune (p : AttPool) (epoch : Nat) : AttPool :=
  let min := epoch - 1
  { p with
    datas := p.datas.eraseIf (fun e => e.2.1.target < min),
    aggregate := p.aggregate.eraseIf (fun e => match p.datas.get? e.1 with | some v => v.1.target < min | none => false),
    individual := p.individual.eraseIf (fun e => e.1.2 < min),
    aggPerValidator := p.aggPerValidator.eraseIf (fun e => e.1.2 < min) }

/-! ## Slashing and exit pools: one map each, `Add` refuses a key that is present -/

structure KeyedPool (κ ν : Type) where
  items : GoMap κ ν
  deriving Repr

def KeyedPool.new {κ ν : Type} : KeyedPool κ ν := ⟨.make⟩

def KeyedPool.add {κ ν : Type} [DecidableEq κ] (p : KeyedPool κ ν) (k : κ) (v : ν) : Res (KeyedPool κ ν × Bool) :=
  match p.items.get? k with
  | some _ => .ok (p, false)
  | none =>
    match p.items.set k v with
    | .ok m => .ok (⟨m⟩, true)
    | _ => .panic

def KeyedPool.all {κ ν : Type} (p : KeyedPool κ ν) : List ν := p.items.entries.map (·.2)

/-- attester slashings are keyed by their hash-tree-root (modelled by the content `(a, b)`),
proposer slashings by proposer index, exits by validator index -/
abbrev AttesterSlashingPool := KeyedPool (Nat × Nat) (Nat × Nat)
abbrev ProposerSlashingPool := KeyedPool Nat (Nat × Nat)
abbrev VoluntaryExitPool := KeyedPool Nat (Nat × Nat)

/-! ## SyncCommitteePool -/

structure SyncMsg where
  slot : UInt64
  validator : Nat
  root : Nat
  deriving Repr, DecidableEq

structure Contrib where
  slot : UInt64
  root : Nat
  subnet : Nat
  bits : Bits
  sig : Nat
  deriving Repr, DecidableEq

abbrev MsgBuf := GoMap Nat SyncMsg
/-- root ↦ subnet ↦ contributions -/
abbrev ContribBuf := GoMap Nat (GoMap Nat (List Contrib))

structure SyncPool where
  currentSlot : UInt64
  prevMsgs : MsgBuf
  currentMsgs : MsgBuf
  nextMsgs : MsgBuf
  prevContribs : ContribBuf
  currentContribs : ContribBuf
  nextContribs : ContribBuf
  deriving Repr, DecidableEq

/-- `NewSyncCommitteePool`: `currentSlot = ^Slot(0)` -/
def SyncPool.new (cfg : Cfg) : SyncPool :=
  if cfg.allocSyncMaps then ⟨~~~ 0, .make, .make, .make, .make, .make, .make⟩
  else ⟨~~~ 0, .nilMap, .nilMap, .nilMap, .nilMap, .nilMap, .nilMap⟩

/-- which buffer a slot belongs to (the `if / else if` chain shared by both `Add…` methods); `+ 1` wraps -/
inductive Window where
  | prev | current | next | outside
  deriving Repr, DecidableEq

def window (currentSlot slot : UInt64) : Window :=
  if currentSlot = slot + 1 then .prev
  else if currentSlot = slot then .current
  else if currentSlot + 1 = slot then .next
  else .outside

/-- `AddSyncCommitteeMessage` -/
def SyncPool.addMessage (p : SyncPool) (m : SyncMsg) : Res (SyncPool × Bool) :=
  match window p.currentSlot m.slot with
  | .prev => match p.prevMsgs.set m.validator m with
    | .ok b => .ok ({ p with prevMsgs := b }, true) | _ => .panic
  | .current => match p.currentMsgs.set m.validator m with
    | .ok b => .ok ({ p with currentMsgs := b }, true) | _ => .panic
  | .next => match p.nextMsgs.set m.validator m with
    | .ok b => .ok ({ p with nextMsgs := b }, true) | _ => .panic
  | .outside => .ok (p, false)

/-- the body of `AddSyncCommitteeContribution` once the buffer is chosen -/
def contribInsert (buf : ContribBuf) (c : Contrib) : Res ContribBuf :=
  match buf.get? c.root with
  | some subs =>
    -- `subs` is the map stored in `buf`: the write is visible through `buf`
    match subs.set c.subnet ((subs.get? c.subnet).getD [] ++ [c]) with
    | .ok subs' => buf.set c.root subs'
    | _ => .panic
  | none =>
    match buf.set c.root .make with
    | .ok buf' =>
      match (GoMap.make : GoMap Nat (List Contrib)).set c.subnet [c] with
      | .ok subs' => buf'.set c.root subs'
      | _ => .panic
    | _ => .panic

/-- `AddSyncCommitteeContribution` -/
def SyncPool.addContribution (p : SyncPool) (c : Contrib) : Res (SyncPool × Bool) :=
  match window p.currentSlot c.slot with
  | .prev => match contribInsert p.prevContribs c with
    | .ok b => .ok ({ p with prevContribs := b }, true) | _ => .panic
  | .current => match contribInsert p.currentContribs c with
    | .ok b => .ok ({ p with currentContribs := b }, true) | _ => .panic
  | .next => match contribInsert p.nextContribs c with
    | .ok b => .ok ({ p with nextContribs := b }, true) | _ => .panic
  | .outside => .ok (p, false)

/-- `SyncCommitteePool.Reset` -/
def SyncPool.reset (p : SyncPool) (slot : UInt64) : SyncPool :=
  if p.currentSlot = slot + 1 then
    { currentSlot := slot,
      nextMsgs := p.currentMsgs, currentMsgs := p.prevMsgs, prevMsgs := .make,
      nextContribs := p.currentContribs, currentContribs := p.prevContribs, prevContribs := .make }
  else if p.currentSlot = slot then p
  else if p.currentSlot + 1 = slot then
    { currentSlot := slot,
      prevMsgs := p.currentMsgs, currentMsgs := p.nextMsgs, nextMsgs := .make,
      prevContribs := p.currentContribs, currentContribs := p.nextContribs, nextContribs := .make }
  else
    { currentSlot := slot, prevMsgs := .make, currentMsgs := .make, nextMsgs := .make,
      prevContribs := .make, currentContribs := .make, nextContribs := .make }

/-- `SyncCommitteeMessages.Select(root, members)`: validators (in member order) whose message is for `root` -/
def select (cfg : Cfg) (msgs : MsgBuf) (root : Nat) : List Nat → Res (List Nat)
  | [] => .ok []
  | vi :: rest =>
    match msgs.get? vi with
    | some m =>
      match select cfg msgs root rest with
      | .ok out => .ok (if m.root = root then m.validator :: out else out)
      | r => r
    | none => if cfg.selectSkipsMissing then select cfg msgs root rest else .panic

/-! ## All five pools together, and the operations the harness drives -/

structure Pools where
  att : AttPool
  asl : AttesterSlashingPool
  psl : ProposerSlashingPool
  exits : VoluntaryExitPool
  sync : SyncPool

def Pools.new (cfg : Cfg) : Pools := ⟨.new cfg, .new, .new, .new, .new cfg⟩

inductive Op where
  | att (a : Att) (committee : List Nat)
  | search (slot? idx? : Option Nat)
  | prune (epoch : Nat)
  | aslash (a b : Nat) | aslashes
  | pslash (proposer id : Nat) | pslashes
  | exit (validator epoch : Nat) | exits
  | smsg (m : SyncMsg)
  | scontrib (c : Contrib)
  | sreset (slot : UInt64)
  deriving Repr

inductive Out where
  | ok | err | panic
  | atts (l : List Att)
  | pairs (l : List (Nat × Nat))
  deriving Repr, DecidableEq

def outOfAdd {σ : Type} (old : σ) : Res (σ × Bool) → σ × Out
  | .ok (s, true) => (s, .ok)
  | .ok (s, false) => (s, .err)
  | _ => (old, .panic)

def Pools.step (cfg : Cfg) (w : Pools) : Op → Pools × Out
  | .att a c => let (p, o) := outOfAdd w.att (w.att.add cfg a c); ({ w with att := p }, o)
  | .search s i => match w.att.search cfg s i with
    | .ok l => (w, .atts l)
    | _ => (w, .panic)
  | .prune e => ({ w with att := w.att.prune e }, .ok)
  | .aslash a b => let (p, o) := outOfAdd w.asl (w.asl.add (a, b) (a, b)); ({ w with asl := p }, o)
  | .aslashes => (w, .pairs w.asl.all)
  | .pslash pr i => let (p, o) := outOfAdd w.psl (w.psl.add pr (pr, i)); ({ w with psl := p }, o)
  | .pslashes => (w, .pairs w.psl.all)
  | .exit v e => let (p, o) := outOfAdd w.exits (w.exits.add v (v, e)); ({ w with exits := p }, o)
  | .exits => (w, .pairs w.exits.all)
  | .smsg m => let (p, o) := outOfAdd w.sync (w.sync.addMessage m); ({ w with sync := p }, o)
  | .scontrib c => let (p, o) := outOfAdd w.sync (w.sync.addContribution c); ({ w with sync := p }, o)
  | .sreset s => ({ w with sync := w.sync.reset s }, .ok)

def Pools.run (cfg : Cfg) (w : Pools) : List Op → Pools × List Out
  | [] => (w, [])
  | op :: ops =>
    let (w', o) := w.step cfg op
    let (w'', os) := w'.run cfg ops
    (w'', o :: os)

end Zrnt.Pool
