import Zrnt.Prelude.Res
/-!
# `phase0.AttestationBits` and the `ztyp/bitfields` helpers it calls, over raw bytes

`Bits` is the serialized SSZ bitlist including the delimiter bit, exactly what the Go type holds.
Every function follows the Go code, including what it does on malformed input (empty byte string,
trailing zero byte) and its panics (index out of range).
-/
namespace Zrnt.Pool

abbrev Bits := List UInt8

/-- `bitfields.BitIndex`: index of the left-most 1 bit (0 for 0 and 1) -/
def bitIndex (v : UInt8) : Nat :=
  let o1 : Nat := if v &&& 0xf0 ≠ 0 then 4 else 0
  let v1 : UInt8 := if v &&& 0xf0 ≠ 0 then v >>> 4 else v
  let o2 : Nat := if v1 &&& 0x0c ≠ 0 then o1 + 2 else o1
  let v2 : UInt8 := if v1 &&& 0x0c ≠ 0 then v1 >>> 2 else v1
  if v2 &&& 0x02 ≠ 0 then o2 + 1 else o2

/-- `bitfields.BitlistLen` / `AttestationBits.BitLen` -/
def bitlistLen (b : Bits) : Nat :=
  match b.getLast? with
  | none => 0
  | some last => (b.length - 1) * 8 + bitIndex last

/-- `bitfields.GetBit`: `(b[i>>3]>>(i&7))&1 == 1`; an index beyond the bytes panics -/
def getBit (b : Bits) (i : Nat) : Res Bool :=
  match b[i / 8]? with
  | none => .panic
  | some x => .ok (x.toNat.testBit (i % 8))

/-- `bits.OnesCount8` -/
def onesCount8 (x : UInt8) : Nat := ((List.range 8).filter fun j => x.toNat.testBit j).length

/-- `bitfields.BitlistOnesCount`: ones, not counting the delimiter bit -/
def onesCount (b : Bits) : Nat :=
  match b.getLast? with
  | none => 0
  | some last =>
    let body := (b.dropLast.map onesCount8).sum
    if last = 0 then body else body + onesCount8 (last ^^^ ((1 : UInt8) <<< (UInt8.ofNat (bitIndex last))))

/-- `AttestationBits.Covers`: `.err` for a length mismatch -/
def covers (a b : Bits) : Res Bool :=
  if bitlistLen a ≠ bitlistLen b then .err
  else if a.length ≠ b.length then .err
  else .ok ((a.zip b).all fun p => p.2 &&& ~~~ p.1 = 0)

/-- `AttestationBits.Or` (in place on `a`); indexes `b` up to `len(a)` -/
def or (a b : Bits) : Res Bits :=
  if b.length < a.length then .panic else .ok (a.zipWith (· ||| ·) b)

/-- the loop of `SingleParticipant` from bit `i` on; `found` is the participant seen so far -/
def singleLoop (b : Bits) : List Nat → Nat → Option Nat → Res Nat
  | [], _, some v => .ok v
  | [], _, none => .err
  | v :: rest, i, found =>
    match getBit b i with
    | .ok true => match found with
      | none => singleLoop b rest (i + 1) (some v)
      | some _ => .err
    | .ok false => singleLoop b rest (i + 1) found
    | _ => .panic

/-- `AttestationBits.SingleParticipant` -/
def singleParticipant (b : Bits) (committee : List Nat) : Res Nat :=
  if bitlistLen b ≠ committee.length then .err else singleLoop b committee 0 none

/-! ## Specification: the bit list denoted by a well-formed SSZ bitlist -/

/-- a valid SSZ bitlist: at least the delimiter byte, and the last byte carries the delimiter bit -/
def WellFormed (b : Bits) : Prop := ∃ last, b.getLast? = some last ∧ last ≠ 0

instance (b : Bits) : Decidable (WellFormed b) :=
  match h : b.getLast? with
  | none => isFalse (by rintro ⟨l, hl, _⟩; simp [h] at hl)
  | some l => if h0 : l = 0 then isFalse (by rintro ⟨l', hl, hn⟩; simp [h] at hl; subst hl; exact hn h0)
              else isTrue ⟨l, h, h0⟩

/-- bit `i` of the byte string: byte `i / 8`, bit `i % 8` (SSZ little-endian bit order) -/
def bitAt (b : Bits) (i : Nat) : Bool := (b.getD (i / 8) 0).toNat.testBit (i % 8)

/-- the bits below the delimiter -/
def toBools (b : Bits) : List Bool := (List.range (bitlistLen b)).map (bitAt b)

namespace BitSpec
def covers (A B : List Bool) : Res Bool :=
  if A.length ≠ B.length then .err else .ok ((A.zip B).all fun p => !p.2 || p.1)

def onesCount (A : List Bool) : Nat := (A.filter id).length

def singleParticipant (A : List Bool) (committee : List Nat) : Res Nat :=
  if A.length ≠ committee.length then .err
  else match (A.zip committee).filter (·.1) with
    | [(_, v)] => .ok v
    | _ => .err
end BitSpec

end Zrnt.Pool
