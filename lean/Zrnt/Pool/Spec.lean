import Zrnt.Pool.Model
/-!
# Specification of the pools: what was added, minus what pruning removes

The specification keeps no maps. Each pool is described by the list of items it has accepted so far
(oldest first); whether a new item is accepted is decided by looking at that list; queries filter it;
pruning filters it by target epoch. The answers are compared with the map-based model (and with Go) as
multisets.
-/
namespace Zrnt.Pool.Spec
open Zrnt.Pool

/-! ## AttestationPool -/

/-- an accepted item -/
inductive Ev where
  | single (v : Nat) (d : AttData) (sig : Nat)
  | agg (d : AttData) (bits : Bits) (sig : Nat) (committee : List Nat)
  deriving Repr, DecidableEq

def Ev.target : Ev → Nat
  | .single _ d _ => d.target
  | .agg d _ _ _ => d.target

abbrev AttSpec := List Ev

/-- members of the committee whose bit is set -/
def participants (bits : Bits) (committee : List Nat) : List Nat :=
  (committee.zipIdx).filterMap fun p => if bitAt bits p.2 then some p.1 else none

/-- the data the accepted individual attestation of `(v, epoch)` votes for -/
def singleVote (log : AttSpec) (v epoch : Nat) : Option AttData :=
  log.findSome? fun
    | .single v' d _ => if v' = v ∧ d.target = epoch then some d else none
    | _ => none

/-- the accepted aggregates for data `d`, oldest first -/
def aggsFor (log : AttSpec) (d : AttData) : List Agg :=
  log.filterMap fun
    | .agg d' bits sig _ => if d' = d then some ⟨bits, sig⟩ else none
    | _ => none

/-- `v` takes part in an accepted aggregate with target epoch `epoch` -/
def votedAgg (log : AttSpec) (v epoch : Nat) : Bool :=
  log.any fun
    | .agg d bits _ committee => d.target = epoch && (participants bits committee).contains v
    | _ => false

/-- OR of the participant bits of the accepted aggregates -/
def unionBits (first : Bits) (rest : List Agg) : Bits :=
  rest.foldl (fun u a => match or u a.bits with | .ok r => r | _ => u) first

/-- `AddAttestation`: new list of accepted items and `err == nil` -/
def add (log : AttSpec) (att : Att) (committee : List Nat) : AttSpec × Bool :=
  let count := onesCount att.bits
  let d := att.data
  if count = 0 then (log, false)
  else if count = 1 then
    match singleParticipant att.bits committee with
    | .ok v =>
      match singleVote log v d.target with
      | some d' => (log, d' = d)                    -- exact duplicate absorbed; double vote reported
      | none => (log ++ [.single v d att.sig], true)
    | _ => (log, false)
  else if bitlistLen att.bits ≠ committee.length then (log, false)
  else
    match aggsFor log d with
    | first :: rest =>
      match covers (unionBits first.bits rest) att.bits with
      | .ok true => (log, true)                      -- nothing new: absorbed
      | .ok false => (log ++ [.agg d att.bits att.sig committee], true)
      | _ => (log, false)
    | [] =>
      if (participants att.bits committee).any (fun v => !votedAgg log v d.target) then
        (log ++ [.agg d att.bits att.sig committee], true)
      else (log, false)                               -- every participant already voted this epoch: reported

def search (log : AttSpec) (slot? idx? : Option Nat) : List Att :=
  log.filterMap fun
    | .agg d bits sig _ => if matchesFilter slot? idx? d then some ⟨d, bits, sig⟩ else none
    | _ => none

/-- items whose target epoch is `< epoch - 1` can no longer be included -/
def prune (log : AttSpec) (epoch : Nat) : AttSpec := log.filter fun e => !(e.target < epoch - 1)

/-! ## Slashing and exit pools: the history of `Add` calls; the first call per key wins -/

abbrev KeyedSpec (κ ν : Type) := List (κ × ν)

def keyedAdd {κ ν : Type} [DecidableEq κ] (h : KeyedSpec κ ν) (k : κ) (v : ν) : KeyedSpec κ ν × Bool :=
  (h ++ [(k, v)], !(h.map (·.1)).contains k)

/-- values of the first call for each key -/
def keyedAll {κ ν : Type} [DecidableEq κ] : KeyedSpec κ ν → List κ → List ν
  | [], _ => []
  | (k, v) :: rest, seen => if seen.contains k then keyedAll rest seen else v :: keyedAll rest (k :: seen)

/-! ## SyncCommitteePool: a window of three slots around `cur` (64-bit wrap-around) -/

structure SyncSpec where
  cur : UInt64
  msgs : List SyncMsg
  contribs : List Contrib
  deriving Repr, DecidableEq

def SyncSpec.new : SyncSpec := ⟨0 - 1, [], []⟩

def inWindow (cur slot : UInt64) : Bool := slot = cur - 1 || slot = cur || slot = cur + 1

/-- latest message per (slot, validator) wins -/
def SyncSpec.addMessage (s : SyncSpec) (m : SyncMsg) : SyncSpec × Bool :=
  if inWindow s.cur m.slot then
    ({ s with msgs := m :: s.msgs.filter (fun x => !(x.slot = m.slot && x.validator = m.validator)) }, true)
  else (s, false)

def SyncSpec.addContribution (s : SyncSpec) (c : Contrib) : SyncSpec × Bool :=
  if inWindow s.cur c.slot then ({ s with contribs := s.contribs ++ [c] }, true) else (s, false)

/-- moving by one slot keeps what is still inside the new window; any other move clears the pool -/
def SyncSpec.reset (s : SyncSpec) (slot : UInt64) : SyncSpec :=
  if inWindow s.cur slot then
    { cur := slot, msgs := s.msgs.filter (fun m => inWindow slot m.slot && inWindow s.cur m.slot),
      contribs := s.contribs.filter (fun c => inWindow slot c.slot && inWindow s.cur c.slot) }
  else ⟨slot, [], []⟩

def select (msgs : List SyncMsg) (root : Nat) (members : List Nat) : List Nat :=
  members.filter fun v => msgs.any fun m => m.validator = v && m.root = root

/-! ## The five pools together -/

structure SPools where
  att : AttSpec
  asl : KeyedSpec (Nat × Nat) (Nat × Nat)
  psl : KeyedSpec Nat (Nat × Nat)
  exits : KeyedSpec Nat (Nat × Nat)
  sync : SyncSpec

def SPools.new : SPools := ⟨[], [], [], [], .new⟩

def outOfBool (b : Bool) : Out := if b then .ok else .err

def SPools.step (w : SPools) : Op → SPools × Out
  | .att a c => let (l, b) := add w.att a c; ({ w with att := l }, outOfBool b)
  | .search s i => (w, .atts (search w.att s i))
  | .prune e => ({ w with att := prune w.att e }, .ok)
  | .aslash a b => let (h, r) := keyedAdd w.asl (a, b) (a, b); ({ w with asl := h }, outOfBool r)
  | .aslashes => (w, .pairs (keyedAll w.asl []))
  | .pslash pr i => let (h, r) := keyedAdd w.psl pr (pr, i); ({ w with psl := h }, outOfBool r)
  | .pslashes => (w, .pairs (keyedAll w.psl []))
  | .exit v e => let (h, r) := keyedAdd w.exits v (v, e); ({ w with exits := h }, outOfBool r)
  | .exits => (w, .pairs (keyedAll w.exits []))
  | .smsg m => let (s, b) := w.sync.addMessage m; ({ w with sync := s }, outOfBool b)
  | .scontrib c => let (s, b) := w.sync.addContribution c; ({ w with sync := s }, outOfBool b)
  | .sreset s => ({ w with sync := w.sync.reset s }, .ok)

def SPools.run (w : SPools) : List Op → SPools × List Out
  | [] => (w, [])
  | op :: ops =>
    let (w', o) := w.step op
    let (w'', os) := w'.run ops
    (w'', o :: os)

/-- answers agree: Go map iteration order is not observable, so lists that come out of a map are compared
as multisets; everything else must be equal -/
def OutEquiv : Out → Out → Prop
  | .atts a, .atts b => a.Perm b
  | .pairs a, .pairs b => a.Perm b
  | a, b => a = b

/-- two answer streams agree position by position -/
inductive OutsEquiv : List Out → List Out → Prop
  | nil : OutsEquiv [] []
  | cons {a b : Out} {l₁ l₂ : List Out} : OutEquiv a b → OutsEquiv l₁ l₂ → OutsEquiv (a :: l₁) (b :: l₂)

end Zrnt.Pool.Spec
