import Zrnt.Driver.Loop
import Zrnt.Prelude.Text
import Zrnt.Pool.Spec
/-! `zmodel c20`: the map-based pool models (`Cfg.fixed`) and the list-based specification side by side;
every answer is `<model> | <spec>`. Multiset-valued answers are sorted. -/
namespace Zrnt.Pool.Driver
open Zrnt Zrnt.Text Zrnt.Pool

def parseNat (s : String) : Option Nat := (parseU64 s).map (·.toNat)

def parseList (s : String) : Option (List Nat) :=
  if s = "-" then some [] else (s.splitOn ",").mapM parseNat

def isLowerHex (s : String) : Bool := s.all fun c => ('0' ≤ c ∧ c ≤ '9') ∨ ('a' ≤ c ∧ c ≤ 'f')

def parseBits (s : String) : Option Bits :=
  if s = "-" then some [] else
  if isLowerHex s then (parseHex s).map (·.data.toList) else none

def bitsHex (b : Bits) : String := toHex ⟨b.toArray⟩

def renderAtt (a : Att) : String :=
  s!"{a.data.slot}.{a.data.index}.{a.data.target}.{a.data.tag}:{bitsHex a.bits}:{a.sig}"

def joined (items : List String) : String :=
  let sorted := items.mergeSort (fun a b => decide (a ≤ b))
  if sorted.isEmpty then "ok 0" else s!"ok {sorted.length} " ++ ";".intercalate sorted

def renderOut : Out → String
  | .ok => "ok" | .err => "err" | .panic => "panic"
  | .atts l => joined (l.map renderAtt)
  | .pairs l => joined (l.map fun p => s!"{p.1}.{p.2}")

def renderRes {α : Type} (f : α → String) : Res α → String
  | .ok a => "ok " ++ f a
  | .err => "err" | .panic => "panic" | .outOfFuel => "outOfFuel"

def natList (l : List Nat) : String := if l.isEmpty then "-" else ",".intercalate (l.map toString)

inductive Cmd where
  | op (o : Op)
  | sdump
  /-- recreate the pools with another preset: the pools' behaviour does not depend on it -/
  | spec
  | pure (model spec : String)
  | bad

def parseStar (s : String) : Option (Option Nat) := if s = "*" then some none else (parseNat s).map some

def parseMsgs (s : String) : Option (List SyncMsg) :=
  if s = "-" then some [] else
  (s.splitOn ",").mapM fun t =>
    match t.splitOn ":" with
    | [v, r] => match parseNat v, parseNat r with
      | some v, some r => some ⟨1, v, r % 65536⟩
      | _, _ => none
    | _ => none

/-- the Go map built by the harness: later entries for the same validator replace earlier ones -/
def msgBuf (l : List SyncMsg) : MsgBuf :=
  l.foldl (fun b m => match b.set m.validator m with | .ok b' => b' | _ => b) .make

/-- what the `select` line denotes for the specification: the last message per validator -/
def lastPerValidator (l : List SyncMsg) : List SyncMsg :=
  l.foldl (fun acc m => acc.filter (fun x => x.validator ≠ m.validator) ++ [m]) []

def parseCmd (line : String) : Cmd :=
  match tokens line with
  | ["att", a, b, c, d, e, f, g] =>
    match parseNat a, parseNat b, parseNat c, parseNat d, parseBits e, parseNat f, parseList g with
    | some slot, some idx, some tgt, some tag, some bits, some sig, some comm =>
      if sig ≥ 65536 ∨ tag ≥ 65536 then .bad else .op (.att ⟨⟨slot, idx, tgt, tag⟩, bits, sig⟩ comm)
    | _, _, _, _, _, _, _ => .bad
  | ["search", a, b] =>
    match parseStar a, parseStar b with
    | some s, some i => .op (.search s i)
    | _, _ => .bad
  | ["prune", a] => match parseNat a with | some e => .op (.prune e) | none => .bad
  | ["aslash", a, b] => match parseNat a, parseNat b with | some a, some b => .op (.aslash a b) | _, _ => .bad
  | ["aslashes"] => .op .aslashes
  | ["pslash", a, b] => match parseNat a, parseNat b with | some a, some b => .op (.pslash a b) | _, _ => .bad
  | ["pslashes"] => .op .pslashes
  | ["exit", a, b] => match parseNat a, parseNat b with | some a, some b => .op (.exit a b) | _, _ => .bad
  | ["exits"] => .op .exits
  | ["smsg", a, b, c] =>
    match parseU64 a, parseNat b, parseNat c with
    | some s, some v, some r => .op (.smsg ⟨s, v, r % 65536⟩)
    | _, _, _ => .bad
  | ["scontrib", a, b, c, d, e] =>
    match parseU64 a, parseNat b, parseNat c, parseBits d, parseNat e with
    | some s, some r, some sub, some bits, some sig => .op (.scontrib ⟨s, r % 65536, sub, bits, sig % 65536⟩)
    | _, _, _, _, _ => .bad
  | ["sreset", a] => match parseU64 a with | some s => .op (.sreset s) | none => .bad
  | ["sdump"] => .sdump
  | ["spec", a, b, c, d, e, f, g, h] =>
    match parseNat a, parseNat b, [c, d, e, f, g, h].mapM parseNat with
    | some size, some mvpc, some _ => if size > 4096 ∨ mvpc < 1 ∨ mvpc > 1048576 then .bad else .spec
    | _, _, _ => .bad
  | ["select", a, b, c] =>
    match parseNat a, parseList b, parseMsgs c with
    | some root, some members, some msgs =>
      .pure (renderRes natList (select Cfg.fixed (msgBuf msgs) (root % 65536) members))
            ("ok " ++ natList (Spec.select (lastPerValidator msgs) (root % 65536) members))
    | _, _, _ => .bad
  | ["covers", a, b] =>
    match parseBits a, parseBits b with
    | some a, some b =>
      .pure (renderRes boolStr (covers a b))
            (if WellFormed a ∧ WellFormed b then renderRes boolStr (BitSpec.covers (toBools a) (toBools b)) else "any")
    | _, _ => .bad
  | ["single", a, b] =>
    match parseBits a, parseList b with
    | some a, some c =>
      .pure (renderRes toString (singleParticipant a c))
            (if WellFormed a then renderRes toString (BitSpec.singleParticipant (toBools a) c) else "any")
    | _, _ => .bad
  | ["ones", a] =>
    match parseBits a with
    | some a => .pure s!"ok {onesCount a}" (if WellFormed a then s!"ok {BitSpec.onesCount (toBools a)}" else "any")
    | none => .bad
  | ["bitlen", a] =>
    match parseBits a with
    | some a => .pure s!"ok {bitlistLen a}" (if WellFormed a then s!"ok {(toBools a).length}" else "any")
    | none => .bad
  | ["getbit", a, b] =>
    match parseBits a, parseNat b with
    | some a, some i => .pure (renderRes boolStr (getBit a i)) (if i / 8 < a.length then s!"ok {boolStr (bitAt a i)}" else "panic")
    | _, _ => .bad
  | _ => .bad

def sortedSet (items : List String) : String :=
  "{" ++ ",".intercalate (items.mergeSort (fun a b => decide (a ≤ b))) ++ "}"

def renderMsg (m : SyncMsg) : String := s!"{m.slot.toNat}.{m.validator}.{m.root}"

/-- the six buffers of the model, as the `verif` hook of /repo reports them -/
def renderSyncModel (p : SyncPool) : String :=
  let mb (b : MsgBuf) : String := if b.alloc then sortedSet (b.entries.map fun e => renderMsg e.2) else "-"
  let cb (b : ContribBuf) : String :=
    if b.alloc then
      sortedSet (b.entries.flatMap fun r => r.2.entries.flatMap fun sn =>
        sn.2.map fun c => s!"{r.1}.{sn.1}.{bitsHex c.bits}.{c.sig}")
    else "-"
  let keys := [p.prevMsgs, p.currentMsgs, p.nextMsgs].all fun b => b.entries.all fun e => e.1 = e.2.validator
  s!"ok cur={p.currentSlot.toNat} m=[{mb p.prevMsgs}|{mb p.currentMsgs}|{mb p.nextMsgs}] " ++
    s!"c=[{cb p.prevContribs}|{cb p.currentContribs}|{cb p.nextContribs}] keys={boolStr keys}"

/-- what the specification says the buffers hold: the accepted items of slot cur−1, cur, cur+1 -/
def renderSyncSpec (s : Spec.SyncSpec) : String :=
  let mb (slot : UInt64) : String := sortedSet ((s.msgs.filter fun m => m.slot = slot).map renderMsg)
  let cb (slot : UInt64) : String :=
    sortedSet ((s.contribs.filter fun c => c.slot = slot).map fun c => s!"{c.root}.{c.subnet}.{bitsHex c.bits}.{c.sig}")
  s!"ok cur={s.cur.toNat} m=[{mb (s.cur - 1)}|{mb s.cur}|{mb (s.cur + 1)}] " ++
    s!"c=[{cb (s.cur - 1)}|{cb s.cur}|{cb (s.cur + 1)}] keys=true"

def step (st : Pools × Spec.SPools) (line : String) : (Pools × Spec.SPools) × String :=
  match parseCmd line with
  | .bad => (st, "bad-op")
  | .sdump => (st, renderSyncModel st.1.sync ++ " | " ++ renderSyncSpec st.2.sync)
  | .spec => ((Pools.new Cfg.fixed, Spec.SPools.new), "ok | ok")
  | .pure m s => (st, m ++ " | " ++ s)
  | .op o =>
    let (m', a) := st.1.step Cfg.fixed o
    let (s', b) := st.2.step o
    ((m', s'), renderOut a ++ " | " ++ renderOut b)

def c20Mode : Zrnt.Driver.Mode := Zrnt.Driver.stateful "c20" (Pools.new Cfg.fixed, Spec.SPools.new) step

end Zrnt.Pool.Driver
