import Zrnt.Prelude.Res
/-!
# Go maps as association lists

`alloc = false` is the nil map: reads find nothing, deletes do nothing, a write panics
(`assignment to entry in nil map`). Keys are unique in `entries` (a write replaces).
Iteration order is never observed (every output derived from an iteration is sorted or a set).
-/
namespace Zrnt.Pool

structure GoMap (κ ν : Type) where
  alloc : Bool
  entries : List (κ × ν)
  deriving Repr, DecidableEq

namespace GoMap
variable {κ ν : Type}

/-- the zero value of a map type: nil -/
def nilMap : GoMap κ ν := ⟨false, []⟩
/-- `make(map[K]V)` -/
def make : GoMap κ ν := ⟨true, []⟩

variable [DecidableEq κ]

/-- `v, ok := m[k]` -/
def get? (m : GoMap κ ν) (k : κ) : Option ν := (m.entries.find? (fun e => e.1 = k)).map (·.2)

/-- `m[k] = v` -/
def set (m : GoMap κ ν) (k : κ) (v : ν) : Res (GoMap κ ν) :=
  if m.alloc then .ok ⟨true, (k, v) :: m.entries.filter (fun e => e.1 ≠ k)⟩ else .panic

/-- `for k, v := range m { if p(k, v) { delete(m, k) } }` -/
def eraseIf (m : GoMap κ ν) (p : κ × ν → Bool) : GoMap κ ν := ⟨m.alloc, m.entries.filter (fun e => !p e)⟩

def keys (m : GoMap κ ν) : List κ := m.entries.map (·.1)

end GoMap
end Zrnt.Pool
