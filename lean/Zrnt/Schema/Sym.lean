import Zrnt.SSZ.Type
/-! Symbolic SSZ schemas: types whose lengths and limits are expressions over named configuration
constants (`MAX_DEPOSITS`, `SLOTS_PER_EPOCH`, …). `STy.eval` instantiates a schema at a configuration.
The consensus-spec schemas (`Zrnt.Schema.Spec*`) and the facts extracted from the Go source
(`Zrnt.Gen.SszFacts`) are both written in this language, so that they can be compared for *all*
configurations at once (syntactically, after normalisation) rather than at a few presets. -/
namespace Zrnt.Schema
open Zrnt.SSZ

/-- a configuration: the value of every named constant -/
abbrev Config := String → Nat

inductive LExpr where
  | lit (n : Nat)
  | const (name : String)
  | mul (a b : LExpr)
  | add (a b : LExpr)
  | div (a b : LExpr)
  deriving DecidableEq, Repr, Inhabited

def LExpr.eval (c : Config) : LExpr → Nat
  | .lit n => n
  | .const s => c s
  | .mul a b => a.eval c * b.eval c
  | .add a b => a.eval c + b.eval c
  | .div a b => a.eval c / b.eval c

instance : OfNat LExpr n := ⟨.lit n⟩
instance : Mul LExpr := ⟨.mul⟩
instance : Add LExpr := ⟨.add⟩
instance : Div LExpr := ⟨.div⟩
/-- `c "MAX_DEPOSITS"`: a configuration constant -/
abbrev c (name : String) : LExpr := .const name

mutual
inductive STy where
  | uint (k : Nat)
  | bool
  | bytesN (n : LExpr)
  | vector (t : STy) (n : LExpr)
  | list (t : STy) (limit : LExpr)
  | bitvector (n : LExpr)
  | bitlist (limit : LExpr)
  | byteList (limit : LExpr)
  | container (fs : SFields)
inductive SFields where
  | nil
  | cons (name : String) (t : STy) (rest : SFields)
end

instance : Inhabited STy := ⟨.bool⟩

def SFields.ofList : List (String × STy) → SFields
  | [] => .nil
  | (n, t) :: r => .cons n t (SFields.ofList r)

def SFields.toList : SFields → List (String × STy)
  | .nil => []
  | .cons n t r => (n, t) :: r.toList

def STy.struct (fs : List (String × STy)) : STy := .container (SFields.ofList fs)

mutual
def STy.eval (c : Config) : STy → Ty
  | .uint k => .uint k
  | .bool => .bool
  | .bytesN n => .bytesN (n.eval c)
  | .vector t n => .vector (t.eval c) (n.eval c)
  | .list t l => .list (t.eval c) (l.eval c)
  | .bitvector n => .bitvector (n.eval c)
  | .bitlist l => .bitlist (l.eval c)
  | .byteList l => .byteList (l.eval c)
  | .container fs => .container (fs.eval c)
def SFields.eval (c : Config) : SFields → Fields
  | .nil => .nil
  | .cons n t r => .cons n (t.eval c) (r.eval c)
end

mutual
def STy.beq : STy → STy → Bool
  | .uint a, .uint b => a == b
  | .bool, .bool => true
  | .bytesN a, .bytesN b => a == b
  | .vector t a, .vector u b => t.beq u && a == b
  | .list t a, .list u b => t.beq u && a == b
  | .bitvector a, .bitvector b => a == b
  | .bitlist a, .bitlist b => a == b
  | .byteList a, .byteList b => a == b
  | .container f, .container g => f.beq g
  | _, _ => false
def SFields.beq : SFields → SFields → Bool
  | .nil, .nil => true
  | .cons n t r, .cons m u s => n == m && t.beq u && r.beq s
  | _, _ => false
end

end Zrnt.Schema
