import Zrnt.SSZ.Type
/-! Symbolic SSZ schemas: types whose lengths and limits are expressions over named configuration
constants (`MAX_DEPOSITS`, `SLOTS_PER_EPOCH`, …). `STy.eval` instantiates a schema at a configuration.
The consensus-spec schemas (`Zrnt.Schema.Spec*`) and the facts extracted from the Go source
(`Zrnt.Gen.SszFacts`) are both written in this language, so that they can be compared for *all*
configurations at once (syntactically, after normalisation) rather than at a few presets. -/
namespace Zrnt.Schema
open Zrnt.SSZ

/-- Names (of fields, constants, types) are stored as numbers: the bytes of the identifier read as a
base-256 numeral. The kernel compares number literals natively, whereas comparing `String`s inside
`decide` costs milliseconds each; the per-type obligations over the regenerated tables do tens of thousands of
name comparisons. `n!"slot"` is the literal of the name `slot`. -/
abbrev Name := Nat

def Name.ofString (s : String) : Name := s.toList.foldl (fun acc c => acc * 256 + c.toNat) 0

partial def Name.toString (n : Name) : String :=
  let rec go (n : Nat) (acc : List Char) : List Char :=
    if n = 0 then acc else go (n / 256) (Char.ofNat (n % 256) :: acc)
  String.ofList (go n [])

open Lean in
macro:max "n!" s:str : term => do
  let v := s.getString.toList.foldl (fun acc c => acc * 256 + c.toNat) 0
  return Syntax.mkNumLit (toString v)

/-- a configuration: the value of every named constant -/
abbrev Config := Name → Nat

inductive LExpr where
  | lit (n : Nat)
  | const (name : Name)
  | mul (a b : LExpr)
  | add (a b : LExpr)
  | div (a b : LExpr)
  deriving DecidableEq, Repr, Inhabited

def LExpr.eval (c : Config) : LExpr → Nat
  | .lit n => n
  | .const s => c s
  | .mul a b => a.eval c * b.eval c
  | .add a b => a.eval c + b.eval c
  | .div a b => a.eval c / b.eval c

instance : OfNat LExpr n := ⟨.lit n⟩
instance : Mul LExpr := ⟨.mul⟩
instance : Add LExpr := ⟨.add⟩
instance : Div LExpr := ⟨.div⟩
/-- `c "MAX_DEPOSITS"`: a configuration constant -/
abbrev c (name : Name) : LExpr := .const name

mutual
inductive STy where
  | uint (k : Nat)
  | bool
  | bytesN (n : LExpr)
  | vector (t : STy) (n : LExpr)
  | list (t : STy) (limit : LExpr)
  | bitvector (n : LExpr)
  | bitlist (limit : LExpr)
  | byteList (limit : LExpr)
  | container (fs : SFields)
inductive SFields where
  | nil
  | cons (name : Name) (t : STy) (rest : SFields)
end

instance : Inhabited STy := ⟨.bool⟩

def SFields.ofList : List (Name × STy) → SFields
  | [] => .nil
  | (n, t) :: r => .cons n t (SFields.ofList r)

def SFields.toList : SFields → List (Name × STy)
  | .nil => []
  | .cons n t r => (n, t) :: r.toList

def STy.struct (fs : List (Name × STy)) : STy := .container (SFields.ofList fs)

mutual
def STy.eval (c : Config) : STy → Ty
  | .uint k => .uint k
  | .bool => .bool
  | .bytesN n => .bytesN (n.eval c)
  | .vector t n => .vector (t.eval c) (n.eval c)
  | .list t l => .list (t.eval c) (l.eval c)
  | .bitvector n => .bitvector (n.eval c)
  | .bitlist l => .bitlist (l.eval c)
  | .byteList l => .byteList (l.eval c)
  | .container fs => .container (fs.eval c)
def SFields.eval (c : Config) : SFields → Fields
  | .nil => .nil
  | .cons n t r => .cons (Name.toString n) (t.eval c) (r.eval c)
end

mutual
def STy.beq : STy → STy → Bool
  | .uint a, .uint b => a == b
  | .bool, .bool => true
  | .bytesN a, .bytesN b => a == b
  | .vector t a, .vector u b => t.beq u && a == b
  | .list t a, .list u b => t.beq u && a == b
  | .bitvector a, .bitvector b => a == b
  | .bitlist a, .bitlist b => a == b
  | .byteList a, .byteList b => a == b
  | .container f, .container g => f.beq g
  | _, _ => false
def SFields.beq : SFields → SFields → Bool
  | .nil, .nil => true
  | .cons n t r, .cons m u s => n == m && t.beq u && r.beq s
  | _, _ => false
end

end Zrnt.Schema
