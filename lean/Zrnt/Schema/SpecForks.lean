import Zrnt.Schema.SpecCommon
/-! Consensus-specification SSZ schemas per fork: phase0, altair, bellatrix, capella, deneb, electra
(`<fork>/beacon-chain.md`, `<fork>/validator.md`, `altair/light-client/sync-protocol.md`).
Hand transcription of the published documents, independent of the Go source. -/
namespace Zrnt.Schema.Spec
open Zrnt.Schema STy

/-! ## phase0 -/
namespace P0
def AttestationBits : STy := .bitlist (c "MAX_VALIDATORS_PER_COMMITTEE")
def CommitteeIndices : STy := .list ValidatorIndex (c "MAX_VALIDATORS_PER_COMMITTEE")
def IndexedAttestation := struct [
  ("attesting_indices", CommitteeIndices), ("data", AttestationData), ("signature", BLSSignature)]
def PendingAttestation := struct [
  ("aggregation_bits", AttestationBits), ("data", AttestationData), ("inclusion_delay", Slot),
  ("proposer_index", ValidatorIndex)]
def BatchRoots : STy := .vector Root (c "SLOTS_PER_HISTORICAL_ROOT")
def HistoricalBatch := struct [("block_roots", BatchRoots), ("state_roots", BatchRoots)]
def ProposerSlashing := struct [
  ("signed_header_1", SignedBeaconBlockHeader), ("signed_header_2", SignedBeaconBlockHeader)]
def AttesterSlashing := struct [("attestation_1", IndexedAttestation), ("attestation_2", IndexedAttestation)]
def Attestation := struct [
  ("aggregation_bits", AttestationBits), ("data", AttestationData), ("signature", BLSSignature)]
def VoluntaryExit := struct [("epoch", Epoch), ("validator_index", ValidatorIndex)]
def SignedVoluntaryExit := struct [("message", VoluntaryExit), ("signature", BLSSignature)]
def ProposerSlashings : STy := .list ProposerSlashing (c "MAX_PROPOSER_SLASHINGS")
def AttesterSlashings : STy := .list AttesterSlashing (c "MAX_ATTESTER_SLASHINGS")
def Attestations : STy := .list Attestation (c "MAX_ATTESTATIONS")
def Deposits : STy := .list Deposit (c "MAX_DEPOSITS")
def VoluntaryExits : STy := .list SignedVoluntaryExit (c "MAX_VOLUNTARY_EXITS")
def bodyFields : List (String × STy) := [
  ("randao_reveal", BLSSignature), ("eth1_data", Eth1Data), ("graffiti", Bytes32),
  ("proposer_slashings", ProposerSlashings), ("attester_slashings", AttesterSlashings),
  ("attestations", Attestations), ("deposits", Deposits), ("voluntary_exits", VoluntaryExits)]
def BeaconBlockBody := struct bodyFields
def blockOf (body : STy) := struct [
  ("slot", Slot), ("proposer_index", ValidatorIndex), ("parent_root", Root), ("state_root", Root), ("body", body)]
def signedOf (msg : STy) := struct [("message", msg), ("signature", BLSSignature)]
def BeaconBlock := blockOf BeaconBlockBody
def SignedBeaconBlock := signedOf BeaconBlock
def HistoricalRoots : STy := .list Root (c "HISTORICAL_ROOTS_LIMIT")
def Eth1DataVotes : STy := .list Eth1Data (c "EPOCHS_PER_ETH1_VOTING_PERIOD" * c "SLOTS_PER_EPOCH")
def ValidatorRegistry : STy := .list Validator (c "VALIDATOR_REGISTRY_LIMIT")
def Balances : STy := .list Gwei (c "VALIDATOR_REGISTRY_LIMIT")
def RandaoMixes : STy := .vector Bytes32 (c "EPOCHS_PER_HISTORICAL_VECTOR")
def Slashings : STy := .vector Gwei (c "EPOCHS_PER_SLASHINGS_VECTOR")
def PendingAttestations : STy := .list PendingAttestation (c "MAX_ATTESTATIONS" * c "SLOTS_PER_EPOCH")
/-- the fields every fork's state starts with, up to and including `slashings` -/
def stateHead : List (String × STy) := [
  ("genesis_time", uint64), ("genesis_validators_root", Root), ("slot", Slot), ("fork", Fork),
  ("latest_block_header", BeaconBlockHeader), ("block_roots", BatchRoots), ("state_roots", BatchRoots),
  ("historical_roots", HistoricalRoots),
  ("eth1_data", Eth1Data), ("eth1_data_votes", Eth1DataVotes), ("eth1_deposit_index", uint64),
  ("validators", ValidatorRegistry), ("balances", Balances),
  ("randao_mixes", RandaoMixes), ("slashings", Slashings)]
def stateFinality : List (String × STy) := [
  ("justification_bits", JustificationBits),
  ("previous_justified_checkpoint", Checkpoint), ("current_justified_checkpoint", Checkpoint),
  ("finalized_checkpoint", Checkpoint)]
def BeaconState := struct (stateHead ++ [
  ("previous_epoch_attestations", PendingAttestations), ("current_epoch_attestations", PendingAttestations)]
  ++ stateFinality)
-- phase0/validator.md
def AggregateAndProof := struct [
  ("aggregator_index", ValidatorIndex), ("aggregate", Attestation), ("selection_proof", BLSSignature)]
def SignedAggregateAndProof := signedOf AggregateAndProof
end P0

def phase0Table : List (String × STy) := [
  ("phase0.SignedAggregateAndProof", P0.SignedAggregateAndProof), ("phase0.AggregateAndProof", P0.AggregateAndProof),
  ("phase0.Attestation", P0.Attestation), ("phase0.Attestations", P0.Attestations),
  ("phase0.AttestationBits", P0.AttestationBits),
  ("phase0.AttesterSlashing", P0.AttesterSlashing), ("phase0.AttesterSlashings", P0.AttesterSlashings),
  ("phase0.Balances", P0.Balances),
  ("phase0.SignedBeaconBlock", P0.SignedBeaconBlock), ("phase0.BeaconBlock", P0.BeaconBlock),
  ("phase0.BeaconBlockBody", P0.BeaconBlockBody),
  ("phase0.Deposits", P0.Deposits), ("phase0.Eth1DataVotes", P0.Eth1DataVotes),
  ("phase0.HistoricalBatchRoots", P0.BatchRoots), ("phase0.HistoricalBatch", P0.HistoricalBatch),
  ("phase0.HistoricalRoots", P0.HistoricalRoots),
  ("phase0.IndexedAttestation", P0.IndexedAttestation),
  ("phase0.PendingAttestation", P0.PendingAttestation), ("phase0.AttestationData", AttestationData),
  ("phase0.PendingAttestations", P0.PendingAttestations),
  ("phase0.ProposerSlashing", P0.ProposerSlashing), ("phase0.ProposerSlashings", P0.ProposerSlashings),
  ("phase0.RandaoMixes", P0.RandaoMixes),
  -- helper: a list of validator indices over the whole registry
  ("phase0.RegistryIndices", .list ValidatorIndex (c "VALIDATOR_REGISTRY_LIMIT")),
  ("phase0.ValidatorRegistry", P0.ValidatorRegistry), ("phase0.SlashingsHistory", P0.Slashings),
  ("phase0.BeaconState", P0.BeaconState), ("phase0.Validator", Validator),
  ("phase0.VoluntaryExits", P0.VoluntaryExits), ("phase0.VoluntaryExit", P0.VoluntaryExit),
  ("phase0.SignedVoluntaryExit", P0.SignedVoluntaryExit)
]

/-! ## altair -/
namespace Alt
def SyncCommitteeBits : STy := .bitvector (c "SYNC_COMMITTEE_SIZE")
def SyncAggregate := struct [
  ("sync_committee_bits", SyncCommitteeBits), ("sync_committee_signature", BLSSignature)]
def bodyFields := P0.bodyFields ++ [("sync_aggregate", SyncAggregate)]
def BeaconBlockBody := struct bodyFields
def BeaconBlock := P0.blockOf BeaconBlockBody
def SignedBeaconBlock := P0.signedOf BeaconBlock
def ParticipationRegistry : STy := .list ParticipationFlags (c "VALIDATOR_REGISTRY_LIMIT")
def InactivityScores : STy := .list uint64 (c "VALIDATOR_REGISTRY_LIMIT")
def stateMid : List (String × STy) := [
  ("previous_epoch_participation", ParticipationRegistry), ("current_epoch_participation", ParticipationRegistry)]
  ++ P0.stateFinality ++ [
  ("inactivity_scores", InactivityScores),
  ("current_sync_committee", SyncCommittee), ("next_sync_committee", SyncCommittee)]
def BeaconState := struct (P0.stateHead ++ stateMid)
-- altair/validator.md
def SyncCommitteeMessage := struct [
  ("slot", Slot), ("beacon_block_root", Root), ("validator_index", ValidatorIndex), ("signature", BLSSignature)]
def SyncCommitteeSubnetBits : STy := .bitvector (c "SYNC_COMMITTEE_SIZE" / SYNC_COMMITTEE_SUBNET_COUNT)
def SyncCommitteeContribution := struct [
  ("slot", Slot), ("beacon_block_root", Root), ("subcommittee_index", uint64),
  ("aggregation_bits", SyncCommitteeSubnetBits), ("signature", BLSSignature)]
def ContributionAndProof := struct [
  ("aggregator_index", ValidatorIndex), ("contribution", SyncCommitteeContribution), ("selection_proof", BLSSignature)]
def SignedContributionAndProof := P0.signedOf ContributionAndProof
def SyncAggregatorSelectionData := struct [("slot", Slot), ("subcommittee_index", uint64)]
-- altair/light-client/sync-protocol.md. `LightClientSnapshot` is the v1.1.x container, `LightClientUpdate`
-- the v1.2.0 container (before `LightClientHeader` was introduced); generalized indices 55 and 105.
def NEXT_SYNC_COMMITTEE_INDEX_LOG2 : LExpr := 5   -- floorlog2(55)
def FINALIZED_ROOT_INDEX_LOG2 : LExpr := 6        -- floorlog2(105)
def SyncCommitteeProofBranch : STy := .vector Bytes32 NEXT_SYNC_COMMITTEE_INDEX_LOG2
def FinalizedRootProofBranch : STy := .vector Bytes32 FINALIZED_ROOT_INDEX_LOG2
def LightClientSnapshot := struct [
  ("header", BeaconBlockHeader), ("current_sync_committee", SyncCommittee), ("next_sync_committee", SyncCommittee)]
def LightClientUpdate := struct [
  ("attested_header", BeaconBlockHeader), ("next_sync_committee", SyncCommittee),
  ("next_sync_committee_branch", SyncCommitteeProofBranch),
  ("finalized_header", BeaconBlockHeader), ("finality_branch", FinalizedRootProofBranch),
  ("sync_aggregate", SyncAggregate), ("signature_slot", Slot)]
end Alt

def altairTable : List (String × STy) := [
  ("altair.SignedBeaconBlock", Alt.SignedBeaconBlock), ("altair.BeaconBlock", Alt.BeaconBlock),
  ("altair.BeaconBlockBody", Alt.BeaconBlockBody),
  ("altair.InactivityScores", Alt.InactivityScores),
  ("altair.LightClientSnapshot", Alt.LightClientSnapshot),
  ("altair.SyncCommitteeProofBranch", Alt.SyncCommitteeProofBranch),
  ("altair.FinalizedRootProofBranch", Alt.FinalizedRootProofBranch),
  ("altair.LightClientUpdate", Alt.LightClientUpdate),
  ("altair.ParticipationFlags", ParticipationFlags), ("altair.ParticipationRegistry", Alt.ParticipationRegistry),
  ("altair.BeaconState", Alt.BeaconState), ("altair.SyncAggregate", Alt.SyncAggregate),
  ("altair.SyncAggregatorSelectionData", Alt.SyncAggregatorSelectionData),
  ("altair.SyncCommitteeSubnetBits", Alt.SyncCommitteeSubnetBits), ("altair.SyncCommitteeBits", Alt.SyncCommitteeBits),
  ("altair.SyncCommitteeContribution", Alt.SyncCommitteeContribution),
  ("altair.ContributionAndProof", Alt.ContributionAndProof),
  ("altair.SignedContributionAndProof", Alt.SignedContributionAndProof),
  ("altair.SyncCommitteeMessage", Alt.SyncCommitteeMessage)
]

/-! ## bellatrix -/
namespace Bel
def payloadHead : List (String × STy) := [
  ("parent_hash", Hash32), ("fee_recipient", ExecutionAddress), ("state_root", Bytes32), ("receipts_root", Bytes32),
  ("logs_bloom", LogsBloom), ("prev_randao", Bytes32), ("block_number", uint64), ("gas_limit", uint64),
  ("gas_used", uint64), ("timestamp", uint64), ("extra_data", ExtraData), ("base_fee_per_gas", uint256),
  ("block_hash", Hash32)]
def ExecutionPayload := struct (payloadHead ++ [("transactions", PayloadTransactions)])
def ExecutionPayloadHeader := struct (payloadHead ++ [("transactions_root", Root)])
def bodyFields := Alt.bodyFields ++ [("execution_payload", ExecutionPayload)]
def BeaconBlockBody := struct bodyFields
/-- helper (not a specification container): the body with the payload replaced by its hash-tree-root -/
def BeaconBlockBodyShallow := struct (Alt.bodyFields ++ [("execution_payload_root", Root)])
def BeaconBlock := P0.blockOf BeaconBlockBody
def SignedBeaconBlock := P0.signedOf BeaconBlock
def BeaconState := struct (P0.stateHead ++ Alt.stateMid ++ [("latest_execution_payload_header", ExecutionPayloadHeader)])
end Bel

def bellatrixTable : List (String × STy) := [
  ("bellatrix.SignedBeaconBlock", Bel.SignedBeaconBlock), ("bellatrix.BeaconBlock", Bel.BeaconBlock),
  ("bellatrix.BeaconBlockBody", Bel.BeaconBlockBody), ("bellatrix.BeaconBlockBodyShallow", Bel.BeaconBlockBodyShallow),
  ("bellatrix.ExecutionPayloadHeader", Bel.ExecutionPayloadHeader), ("bellatrix.ExecutionPayload", Bel.ExecutionPayload),
  ("bellatrix.BeaconState", Bel.BeaconState)
]

/-! ## capella -/
namespace Cap
def ExecutionPayload := struct (Bel.payloadHead ++ [("transactions", PayloadTransactions), ("withdrawals", Withdrawals)])
def ExecutionPayloadHeader := struct (Bel.payloadHead ++ [("transactions_root", Root), ("withdrawals_root", Root)])
def HistoricalSummary := struct [("block_summary_root", Root), ("state_summary_root", Root)]
def HistoricalSummaries : STy := .list HistoricalSummary (c "HISTORICAL_ROOTS_LIMIT")
def bodyOf (payloadField : String × STy) :=
  Alt.bodyFields ++ [payloadField, ("bls_to_execution_changes", SignedBLSToExecutionChanges)]
def BeaconBlockBody := struct (bodyOf ("execution_payload", ExecutionPayload))
def BeaconBlockBodyShallow := struct (bodyOf ("execution_payload_root", Root))
def BeaconBlock := P0.blockOf BeaconBlockBody
def SignedBeaconBlock := P0.signedOf BeaconBlock
def stateTail (header : STy) : List (String × STy) := [
  ("latest_execution_payload_header", header),
  ("next_withdrawal_index", WithdrawalIndex), ("next_withdrawal_validator_index", ValidatorIndex),
  ("historical_summaries", HistoricalSummaries)]
def BeaconState := struct (P0.stateHead ++ Alt.stateMid ++ stateTail ExecutionPayloadHeader)
end Cap

def capellaTable : List (String × STy) := [
  ("capella.SignedBeaconBlock", Cap.SignedBeaconBlock), ("capella.BeaconBlock", Cap.BeaconBlock),
  ("capella.BeaconBlockBody", Cap.BeaconBlockBody), ("capella.BeaconBlockBodyShallow", Cap.BeaconBlockBodyShallow),
  ("capella.ExecutionPayloadHeader", Cap.ExecutionPayloadHeader), ("capella.ExecutionPayload", Cap.ExecutionPayload),
  ("capella.HistoricalSummary", Cap.HistoricalSummary), ("capella.HistoricalSummaries", Cap.HistoricalSummaries),
  ("capella.BeaconState", Cap.BeaconState)
]

/-! ## deneb -/
namespace Den
def blobGas : List (String × STy) := [("blob_gas_used", uint64), ("excess_blob_gas", uint64)]
def ExecutionPayload := struct (Bel.payloadHead ++
  [("transactions", PayloadTransactions), ("withdrawals", Withdrawals)] ++ blobGas)
def ExecutionPayloadHeader := struct (Bel.payloadHead ++
  [("transactions_root", Root), ("withdrawals_root", Root)] ++ blobGas)
def KZGCommitments : STy := .list KZGCommitment (c "MAX_BLOB_COMMITMENTS_PER_BLOCK")
def bodyOf (payloadField : String × STy) :=
  Cap.bodyOf payloadField ++ [("blob_kzg_commitments", KZGCommitments)]
def BeaconBlockBody := struct (bodyOf ("execution_payload", ExecutionPayload))
def BeaconBlockBodyShallow := struct (bodyOf ("execution_payload_root", Root))
def BeaconBlock := P0.blockOf BeaconBlockBody
def SignedBeaconBlock := P0.signedOf BeaconBlock
def BeaconState := struct (P0.stateHead ++ Alt.stateMid ++ Cap.stateTail ExecutionPayloadHeader)
end Den

def denebTable : List (String × STy) := [
  ("deneb.SignedBeaconBlock", Den.SignedBeaconBlock), ("deneb.BeaconBlock", Den.BeaconBlock),
  ("deneb.BeaconBlockBody", Den.BeaconBlockBody), ("deneb.BeaconBlockBodyShallow", Den.BeaconBlockBodyShallow),
  ("deneb.KZGCommitments", Den.KZGCommitments),
  ("deneb.ExecutionPayloadHeader", Den.ExecutionPayloadHeader), ("deneb.ExecutionPayload", Den.ExecutionPayload),
  ("deneb.BeaconState", Den.BeaconState)
]

/-! ## electra -/
namespace Ele
def AttestationBits : STy := .bitlist (c "MAX_VALIDATORS_PER_COMMITTEE" * c "MAX_COMMITTEES_PER_SLOT")
def CommitteeBits : STy := .bitvector (c "MAX_COMMITTEES_PER_SLOT")
def Attestation := struct [
  ("aggregation_bits", AttestationBits), ("data", AttestationData), ("signature", BLSSignature),
  ("committee_bits", CommitteeBits)]
def IndexedAttestation := struct [
  ("attesting_indices", .list ValidatorIndex (c "MAX_VALIDATORS_PER_COMMITTEE" * c "MAX_COMMITTEES_PER_SLOT")),
  ("data", AttestationData), ("signature", BLSSignature)]
def SingleAttestation := struct [
  ("committee_index", CommitteeIndex), ("attester_index", ValidatorIndex), ("data", AttestationData),
  ("signature", BLSSignature)]
def AttesterSlashing := struct [("attestation_1", IndexedAttestation), ("attestation_2", IndexedAttestation)]
def AttesterSlashings : STy := .list AttesterSlashing (c "MAX_ATTESTER_SLASHINGS_ELECTRA")
def Attestations : STy := .list Attestation (c "MAX_ATTESTATIONS_ELECTRA")
def ExecutionRequests := struct [
  ("deposits", DepositRequests), ("withdrawals", WithdrawalRequests), ("consolidations", ConsolidationRequests)]
def bodyOf (payloadField : String × STy) : List (String × STy) := [
  ("randao_reveal", BLSSignature), ("eth1_data", Eth1Data), ("graffiti", Bytes32),
  ("proposer_slashings", P0.ProposerSlashings), ("attester_slashings", AttesterSlashings),
  ("attestations", Attestations), ("deposits", P0.Deposits), ("voluntary_exits", P0.VoluntaryExits),
  ("sync_aggregate", Alt.SyncAggregate), payloadField,
  ("bls_to_execution_changes", SignedBLSToExecutionChanges), ("blob_kzg_commitments", Den.KZGCommitments),
  ("execution_requests", ExecutionRequests)]
def BeaconBlockBody := struct (bodyOf ("execution_payload", Den.ExecutionPayload))
def BeaconBlockBodyShallow := struct (bodyOf ("execution_payload_root", Root))
def BeaconBlock := P0.blockOf BeaconBlockBody
def SignedBeaconBlock := P0.signedOf BeaconBlock
def BeaconState := struct (P0.stateHead ++ Alt.stateMid ++ Cap.stateTail Den.ExecutionPayloadHeader ++ [
  ("deposit_requests_start_index", uint64), ("deposit_balance_to_consume", Gwei),
  ("exit_balance_to_consume", Gwei), ("earliest_exit_epoch", Epoch),
  ("consolidation_balance_to_consume", Gwei), ("earliest_consolidation_epoch", Epoch),
  ("pending_deposits", PendingDeposits), ("pending_partial_withdrawals", PendingPartialWithdrawals),
  ("pending_consolidations", PendingConsolidations)])
-- electra/validator.md
def AggregateAndProof := struct [
  ("aggregator_index", ValidatorIndex), ("aggregate", Attestation), ("selection_proof", BLSSignature)]
def SignedAggregateAndProof := P0.signedOf AggregateAndProof
end Ele

def electraTable : List (String × STy) := [
  ("electra.SignedAggregateAndProof", Ele.SignedAggregateAndProof), ("electra.AggregateAndProof", Ele.AggregateAndProof),
  ("electra.SingleAttestation", Ele.SingleAttestation), ("electra.Attestation", Ele.Attestation),
  ("electra.IndexedAttestation", Ele.IndexedAttestation), ("electra.Attestations", Ele.Attestations),
  ("electra.AttestationBits", Ele.AttestationBits),
  ("electra.AttesterSlashing", Ele.AttesterSlashing), ("electra.AttesterSlashings", Ele.AttesterSlashings),
  ("electra.SignedBeaconBlock", Ele.SignedBeaconBlock), ("electra.BeaconBlock", Ele.BeaconBlock),
  ("electra.BeaconBlockBody", Ele.BeaconBlockBody), ("electra.BeaconBlockBodyShallow", Ele.BeaconBlockBodyShallow),
  ("electra.CommitteeBits", Ele.CommitteeBits), ("electra.ExecutionRequests", Ele.ExecutionRequests),
  ("electra.BeaconState", Ele.BeaconState)
]

end Zrnt.Schema.Spec
