import Zrnt.Schema.SpecCommon
/-! Consensus-specification SSZ schemas per fork: phase0, altair, bellatrix, capella, deneb, electra
(`<fork>/beacon-chain.md`, `<fork>/validator.md`, `altair/light-client/sync-protocol.md`).
Hand transcription of the published documents, independent of the Go source. -/
namespace Zrnt.Schema.Spec
open Zrnt.Schema STy

/-! ## phase0 -/
namespace P0
def AttestationBits : STy := .bitlist (c n!"MAX_VALIDATORS_PER_COMMITTEE")
def CommitteeIndices : STy := .list ValidatorIndex (c n!"MAX_VALIDATORS_PER_COMMITTEE")
def IndexedAttestation := struct [
  (n!"attesting_indices", CommitteeIndices), (n!"data", AttestationData), (n!"signature", BLSSignature)]
def PendingAttestation := struct [
  (n!"aggregation_bits", AttestationBits), (n!"data", AttestationData), (n!"inclusion_delay", Slot),
  (n!"proposer_index", ValidatorIndex)]
def BatchRoots : STy := .vector Root (c n!"SLOTS_PER_HISTORICAL_ROOT")
def HistoricalBatch := struct [(n!"block_roots", BatchRoots), (n!"state_roots", BatchRoots)]
def ProposerSlashing := struct [
  (n!"signed_header_1", SignedBeaconBlockHeader), (n!"signed_header_2", SignedBeaconBlockHeader)]
def AttesterSlashing := struct [(n!"attestation_1", IndexedAttestation), (n!"attestation_2", IndexedAttestation)]
def Attestation := struct [
  (n!"aggregation_bits", AttestationBits), (n!"data", AttestationData), (n!"signature", BLSSignature)]
def VoluntaryExit := struct [(n!"epoch", Epoch), (n!"validator_index", ValidatorIndex)]
def SignedVoluntaryExit := struct [(n!"message", VoluntaryExit), (n!"signature", BLSSignature)]
def ProposerSlashings : STy := .list ProposerSlashing (c n!"MAX_PROPOSER_SLASHINGS")
def AttesterSlashings : STy := .list AttesterSlashing (c n!"MAX_ATTESTER_SLASHINGS")
def Attestations : STy := .list Attestation (c n!"MAX_ATTESTATIONS")
def Deposits : STy := .list Deposit (c n!"MAX_DEPOSITS")
def VoluntaryExits : STy := .list SignedVoluntaryExit (c n!"MAX_VOLUNTARY_EXITS")
def bodyFields : List (Name × STy) := [
  (n!"randao_reveal", BLSSignature), (n!"eth1_data", Eth1Data), (n!"graffiti", Bytes32),
  (n!"proposer_slashings", ProposerSlashings), (n!"attester_slashings", AttesterSlashings),
  (n!"attestations", Attestations), (n!"deposits", Deposits), (n!"voluntary_exits", VoluntaryExits)]
def BeaconBlockBody := struct bodyFields
def blockOf (body : STy) := struct [
  (n!"slot", Slot), (n!"proposer_index", ValidatorIndex), (n!"parent_root", Root), (n!"state_root", Root), (n!"body", body)]
def signedOf (msg : STy) := struct [(n!"message", msg), (n!"signature", BLSSignature)]
def BeaconBlock := blockOf BeaconBlockBody
def SignedBeaconBlock := signedOf BeaconBlock
def HistoricalRoots : STy := .list Root (c n!"HISTORICAL_ROOTS_LIMIT")
def Eth1DataVotes : STy := .list Eth1Data (c n!"EPOCHS_PER_ETH1_VOTING_PERIOD" * c n!"SLOTS_PER_EPOCH")
def ValidatorRegistry : STy := .list Validator (c n!"VALIDATOR_REGISTRY_LIMIT")
def Balances : STy := .list Gwei (c n!"VALIDATOR_REGISTRY_LIMIT")
def RandaoMixes : STy := .vector Bytes32 (c n!"EPOCHS_PER_HISTORICAL_VECTOR")
def Slashings : STy := .vector Gwei (c n!"EPOCHS_PER_SLASHINGS_VECTOR")
def PendingAttestations : STy := .list PendingAttestation (c n!"MAX_ATTESTATIONS" * c n!"SLOTS_PER_EPOCH")
/-- the fields every fork's state starts with, up to and including `slashings` -/
def stateHead : List (Name × STy) := [
  (n!"genesis_time", uint64), (n!"genesis_validators_root", Root), (n!"slot", Slot), (n!"fork", Fork),
  (n!"latest_block_header", BeaconBlockHeader), (n!"block_roots", BatchRoots), (n!"state_roots", BatchRoots),
  (n!"historical_roots", HistoricalRoots),
  (n!"eth1_data", Eth1Data), (n!"eth1_data_votes", Eth1DataVotes), (n!"eth1_deposit_index", uint64),
  (n!"validators", ValidatorRegistry), (n!"balances", Balances),
  (n!"randao_mixes", RandaoMixes), (n!"slashings", Slashings)]
def stateFinality : List (Name × STy) := [
  (n!"justification_bits", JustificationBits),
  (n!"previous_justified_checkpoint", Checkpoint), (n!"current_justified_checkpoint", Checkpoint),
  (n!"finalized_checkpoint", Checkpoint)]
def BeaconState := struct (stateHead ++ [
  (n!"previous_epoch_attestations", PendingAttestations), (n!"current_epoch_attestations", PendingAttestations)]
  ++ stateFinality)
-- phase0/validator.md
def AggregateAndProof := struct [
  (n!"aggregator_index", ValidatorIndex), (n!"aggregate", Attestation), (n!"selection_proof", BLSSignature)]
def SignedAggregateAndProof := signedOf AggregateAndProof
end P0

def phase0Table : List (Name × STy) := [
  (n!"phase0.SignedAggregateAndProof", P0.SignedAggregateAndProof), (n!"phase0.AggregateAndProof", P0.AggregateAndProof),
  (n!"phase0.Attestation", P0.Attestation), (n!"phase0.Attestations", P0.Attestations),
  (n!"phase0.AttestationBits", P0.AttestationBits),
  (n!"phase0.AttesterSlashing", P0.AttesterSlashing), (n!"phase0.AttesterSlashings", P0.AttesterSlashings),
  (n!"phase0.Balances", P0.Balances),
  (n!"phase0.SignedBeaconBlock", P0.SignedBeaconBlock), (n!"phase0.BeaconBlock", P0.BeaconBlock),
  (n!"phase0.BeaconBlockBody", P0.BeaconBlockBody),
  (n!"phase0.Deposits", P0.Deposits), (n!"phase0.Eth1DataVotes", P0.Eth1DataVotes),
  (n!"phase0.HistoricalBatchRoots", P0.BatchRoots), (n!"phase0.HistoricalBatch", P0.HistoricalBatch),
  (n!"phase0.HistoricalRoots", P0.HistoricalRoots),
  (n!"phase0.IndexedAttestation", P0.IndexedAttestation),
  (n!"phase0.PendingAttestation", P0.PendingAttestation), (n!"phase0.AttestationData", AttestationData),
  (n!"phase0.PendingAttestations", P0.PendingAttestations),
  (n!"phase0.ProposerSlashing", P0.ProposerSlashing), (n!"phase0.ProposerSlashings", P0.ProposerSlashings),
  (n!"phase0.RandaoMixes", P0.RandaoMixes),
  -- helper: a list of validator indices over the whole registry
  (n!"phase0.RegistryIndices", .list ValidatorIndex (c n!"VALIDATOR_REGISTRY_LIMIT")),
  (n!"phase0.ValidatorRegistry", P0.ValidatorRegistry), (n!"phase0.SlashingsHistory", P0.Slashings),
  (n!"phase0.BeaconState", P0.BeaconState), (n!"phase0.Validator", Validator),
  (n!"phase0.VoluntaryExits", P0.VoluntaryExits), (n!"phase0.VoluntaryExit", P0.VoluntaryExit),
  (n!"phase0.SignedVoluntaryExit", P0.SignedVoluntaryExit)
]

/-! ## altair -/
namespace Alt
def SyncCommitteeBits : STy := .bitvector (c n!"SYNC_COMMITTEE_SIZE")
def SyncAggregate := struct [
  (n!"sync_committee_bits", SyncCommitteeBits), (n!"sync_committee_signature", BLSSignature)]
def bodyFields := P0.bodyFields ++ [(n!"sync_aggregate", SyncAggregate)]
def BeaconBlockBody := struct bodyFields
def BeaconBlock := P0.blockOf BeaconBlockBody
def SignedBeaconBlock := P0.signedOf BeaconBlock
def ParticipationRegistry : STy := .list ParticipationFlags (c n!"VALIDATOR_REGISTRY_LIMIT")
def InactivityScores : STy := .list uint64 (c n!"VALIDATOR_REGISTRY_LIMIT")
def stateMid : List (Name × STy) := [
  (n!"previous_epoch_participation", ParticipationRegistry), (n!"current_epoch_participation", ParticipationRegistry)]
  ++ P0.stateFinality ++ [
  (n!"inactivity_scores", InactivityScores),
  (n!"current_sync_committee", SyncCommittee), (n!"next_sync_committee", SyncCommittee)]
def BeaconState := struct (P0.stateHead ++ stateMid)
-- altair/validator.md
def SyncCommitteeMessage := struct [
  (n!"slot", Slot), (n!"beacon_block_root", Root), (n!"validator_index", ValidatorIndex), (n!"signature", BLSSignature)]
def SyncCommitteeSubnetBits : STy := .bitvector (c n!"SYNC_COMMITTEE_SIZE" / SYNC_COMMITTEE_SUBNET_COUNT)
def SyncCommitteeContribution := struct [
  (n!"slot", Slot), (n!"beacon_block_root", Root), (n!"subcommittee_index", uint64),
  (n!"aggregation_bits", SyncCommitteeSubnetBits), (n!"signature", BLSSignature)]
def ContributionAndProof := struct [
  (n!"aggregator_index", ValidatorIndex), (n!"contribution", SyncCommitteeContribution), (n!"selection_proof", BLSSignature)]
def SignedContributionAndProof := P0.signedOf ContributionAndProof
def SyncAggregatorSelectionData := struct [(n!"slot", Slot), (n!"subcommittee_index", uint64)]
-- altair/light-client/sync-protocol.md. `LightClientSnapshot` is the v1.1.x container, `LightClientUpdate`
-- the v1.2.0 container (before `LightClientHeader` was introduced); generalized indices 55 and 105.
def NEXT_SYNC_COMMITTEE_INDEX_LOG2 : LExpr := 5   -- floorlog2(55)
def FINALIZED_ROOT_INDEX_LOG2 : LExpr := 6        -- floorlog2(105)
def SyncCommitteeProofBranch : STy := .vector Bytes32 NEXT_SYNC_COMMITTEE_INDEX_LOG2
def FinalizedRootProofBranch : STy := .vector Bytes32 FINALIZED_ROOT_INDEX_LOG2
def LightClientSnapshot := struct [
  (n!"header", BeaconBlockHeader), (n!"current_sync_committee", SyncCommittee), (n!"next_sync_committee", SyncCommittee)]
def LightClientUpdate := struct [
  (n!"attested_header", BeaconBlockHeader), (n!"next_sync_committee", SyncCommittee),
  (n!"next_sync_committee_branch", SyncCommitteeProofBranch),
  (n!"finalized_header", BeaconBlockHeader), (n!"finality_branch", FinalizedRootProofBranch),
  (n!"sync_aggregate", SyncAggregate), (n!"signature_slot", Slot)]
end Alt

def altairTable : List (Name × STy) := [
  (n!"altair.SignedBeaconBlock", Alt.SignedBeaconBlock), (n!"altair.BeaconBlock", Alt.BeaconBlock),
  (n!"altair.BeaconBlockBody", Alt.BeaconBlockBody),
  (n!"altair.InactivityScores", Alt.InactivityScores),
  (n!"altair.LightClientSnapshot", Alt.LightClientSnapshot),
  (n!"altair.SyncCommitteeProofBranch", Alt.SyncCommitteeProofBranch),
  (n!"altair.FinalizedRootProofBranch", Alt.FinalizedRootProofBranch),
  (n!"altair.LightClientUpdate", Alt.LightClientUpdate),
  (n!"altair.ParticipationFlags", ParticipationFlags), (n!"altair.ParticipationRegistry", Alt.ParticipationRegistry),
  (n!"altair.BeaconState", Alt.BeaconState), (n!"altair.SyncAggregate", Alt.SyncAggregate),
  (n!"altair.SyncAggregatorSelectionData", Alt.SyncAggregatorSelectionData),
  (n!"altair.SyncCommitteeSubnetBits", Alt.SyncCommitteeSubnetBits), (n!"altair.SyncCommitteeBits", Alt.SyncCommitteeBits),
  (n!"altair.SyncCommitteeContribution", Alt.SyncCommitteeContribution),
  (n!"altair.ContributionAndProof", Alt.ContributionAndProof),
  (n!"altair.SignedContributionAndProof", Alt.SignedContributionAndProof),
  (n!"altair.SyncCommitteeMessage", Alt.SyncCommitteeMessage)
]

/-! ## bellatrix -/
namespace Bel
def payloadHead : List (Name × STy) := [
  (n!"parent_hash", Hash32), (n!"fee_recipient", ExecutionAddress), (n!"state_root", Bytes32), (n!"receipts_root", Bytes32),
  (n!"logs_bloom", LogsBloom), (n!"prev_randao", Bytes32), (n!"block_number", uint64), (n!"gas_limit", uint64),
  (n!"gas_used", uint64), (n!"timestamp", uint64), (n!"extra_data", ExtraData), (n!"base_fee_per_gas", uint256),
  (n!"block_hash", Hash32)]
def ExecutionPayload := struct (payloadHead ++ [(n!"transactions", PayloadTransactions)])
def ExecutionPayloadHeader := struct (payloadHead ++ [(n!"transactions_root", Root)])
def bodyFields := Alt.bodyFields ++ [(n!"execution_payload", ExecutionPayload)]
def BeaconBlockBody := struct bodyFields
/-- helper (not a specification container): the body with the payload replaced by its hash-tree-root -/
def BeaconBlockBodyShallow := struct (Alt.bodyFields ++ [(n!"execution_payload_root", Root)])
def BeaconBlock := P0.blockOf BeaconBlockBody
def SignedBeaconBlock := P0.signedOf BeaconBlock
def BeaconState := struct (P0.stateHead ++ Alt.stateMid ++ [(n!"latest_execution_payload_header", ExecutionPayloadHeader)])
end Bel

def bellatrixTable : List (Name × STy) := [
  (n!"bellatrix.SignedBeaconBlock", Bel.SignedBeaconBlock), (n!"bellatrix.BeaconBlock", Bel.BeaconBlock),
  (n!"bellatrix.BeaconBlockBody", Bel.BeaconBlockBody), (n!"bellatrix.BeaconBlockBodyShallow", Bel.BeaconBlockBodyShallow),
  (n!"bellatrix.ExecutionPayloadHeader", Bel.ExecutionPayloadHeader), (n!"bellatrix.ExecutionPayload", Bel.ExecutionPayload),
  (n!"bellatrix.BeaconState", Bel.BeaconState)
]

/-! ## capella -/
namespace Cap
def ExecutionPayload := struct (Bel.payloadHead ++ [(n!"transactions", PayloadTransactions), (n!"withdrawals", Withdrawals)])
def ExecutionPayloadHeader := struct (Bel.payloadHead ++ [(n!"transactions_root", Root), (n!"withdrawals_root", Root)])
def HistoricalSummary := struct [(n!"block_summary_root", Root), (n!"state_summary_root", Root)]
def HistoricalSummaries : STy := .list HistoricalSummary (c n!"HISTORICAL_ROOTS_LIMIT")
def bodyOf (payloadField : Name × STy) :=
  Alt.bodyFields ++ [payloadField, (n!"bls_to_execution_changes", SignedBLSToExecutionChanges)]
def BeaconBlockBody := struct (bodyOf (n!"execution_payload", ExecutionPayload))
def BeaconBlockBodyShallow := struct (bodyOf (n!"execution_payload_root", Root))
def BeaconBlock := P0.blockOf BeaconBlockBody
def SignedBeaconBlock := P0.signedOf BeaconBlock
def stateTail (header : STy) : List (Name × STy) := [
  (n!"latest_execution_payload_header", header),
  (n!"next_withdrawal_index", WithdrawalIndex), (n!"next_withdrawal_validator_index", ValidatorIndex),
  (n!"historical_summaries", HistoricalSummaries)]
def BeaconState := struct (P0.stateHead ++ Alt.stateMid ++ stateTail ExecutionPayloadHeader)
end Cap

def capellaTable : List (Name × STy) := [
  (n!"capella.SignedBeaconBlock", Cap.SignedBeaconBlock), (n!"capella.BeaconBlock", Cap.BeaconBlock),
  (n!"capella.BeaconBlockBody", Cap.BeaconBlockBody), (n!"capella.BeaconBlockBodyShallow", Cap.BeaconBlockBodyShallow),
  (n!"capella.ExecutionPayloadHeader", Cap.ExecutionPayloadHeader), (n!"capella.ExecutionPayload", Cap.ExecutionPayload),
  (n!"capella.HistoricalSummary", Cap.HistoricalSummary), (n!"capella.HistoricalSummaries", Cap.HistoricalSummaries),
  (n!"capella.BeaconState", Cap.BeaconState)
]

/-! ## deneb -/
namespace Den
def blobGas : List (Name × STy) := [(n!"blob_gas_used", uint64), (n!"excess_blob_gas", uint64)]
def ExecutionPayload := struct (Bel.payloadHead ++
  [(n!"transactions", PayloadTransactions), (n!"withdrawals", Withdrawals)] ++ blobGas)
def ExecutionPayloadHeader := struct (Bel.payloadHead ++
  [(n!"transactions_root", Root), (n!"withdrawals_root", Root)] ++ blobGas)
def KZGCommitments : STy := .list KZGCommitment (c n!"MAX_BLOB_COMMITMENTS_PER_BLOCK")
def bodyOf (payloadField : Name × STy) :=
  Cap.bodyOf payloadField ++ [(n!"blob_kzg_commitments", KZGCommitments)]
def BeaconBlockBody := struct (bodyOf (n!"execution_payload", ExecutionPayload))
def BeaconBlockBodyShallow := struct (bodyOf (n!"execution_payload_root", Root))
def BeaconBlock := P0.blockOf BeaconBlockBody
def SignedBeaconBlock := P0.signedOf BeaconBlock
def BeaconState := struct (P0.stateHead ++ Alt.stateMid ++ Cap.stateTail ExecutionPayloadHeader)
end Den

def denebTable : List (Name × STy) := [
  (n!"deneb.SignedBeaconBlock", Den.SignedBeaconBlock), (n!"deneb.BeaconBlock", Den.BeaconBlock),
  (n!"deneb.BeaconBlockBody", Den.BeaconBlockBody), (n!"deneb.BeaconBlockBodyShallow", Den.BeaconBlockBodyShallow),
  (n!"deneb.KZGCommitments", Den.KZGCommitments),
  (n!"deneb.ExecutionPayloadHeader", Den.ExecutionPayloadHeader), (n!"deneb.ExecutionPayload", Den.ExecutionPayload),
  (n!"deneb.BeaconState", Den.BeaconState)
]

/-! ## electra -/
namespace Ele
def AttestationBits : STy := .bitlist (c n!"MAX_VALIDATORS_PER_COMMITTEE" * c n!"MAX_COMMITTEES_PER_SLOT")
def CommitteeBits : STy := .bitvector (c n!"MAX_COMMITTEES_PER_SLOT")
def Attestation := struct [
  (n!"aggregation_bits", AttestationBits), (n!"data", AttestationData), (n!"signature", BLSSignature),
  (n!"committee_bits", CommitteeBits)]
def IndexedAttestation := struct [
  (n!"attesting_indices", .list ValidatorIndex (c n!"MAX_VALIDATORS_PER_COMMITTEE" * c n!"MAX_COMMITTEES_PER_SLOT")),
  (n!"data", AttestationData), (n!"signature", BLSSignature)]
def SingleAttestation := struct [
  (n!"committee_index", CommitteeIndex), (n!"attester_index", ValidatorIndex), (n!"data", AttestationData),
  (n!"signature", BLSSignature)]
def AttesterSlashing := struct [(n!"attestation_1", IndexedAttestation), (n!"attestation_2", IndexedAttestation)]
def AttesterSlashings : STy := .list AttesterSlashing (c n!"MAX_ATTESTER_SLASHINGS_ELECTRA")
def Attestations : STy := .list Attestation (c n!"MAX_ATTESTATIONS_ELECTRA")
def ExecutionRequests := struct [
  (n!"deposits", DepositRequests), (n!"withdrawals", WithdrawalRequests), (n!"consolidations", ConsolidationRequests)]
def bodyOf (payloadField : Name × STy) : List (Name × STy) := [
  (n!"randao_reveal", BLSSignature), (n!"eth1_data", Eth1Data), (n!"graffiti", Bytes32),
  (n!"proposer_slashings", P0.ProposerSlashings), (n!"attester_slashings", AttesterSlashings),
  (n!"attestations", Attestations), (n!"deposits", P0.Deposits), (n!"voluntary_exits", P0.VoluntaryExits),
  (n!"sync_aggregate", Alt.SyncAggregate), payloadField,
  (n!"bls_to_execution_changes", SignedBLSToExecutionChanges), (n!"blob_kzg_commitments", Den.KZGCommitments),
  (n!"execution_requests", ExecutionRequests)]
def BeaconBlockBody := struct (bodyOf (n!"execution_payload", Den.ExecutionPayload))
def BeaconBlockBodyShallow := struct (bodyOf (n!"execution_payload_root", Root))
def BeaconBlock := P0.blockOf BeaconBlockBody
def SignedBeaconBlock := P0.signedOf BeaconBlock
def BeaconState := struct (P0.stateHead ++ Alt.stateMid ++ Cap.stateTail Den.ExecutionPayloadHeader ++ [
  (n!"deposit_requests_start_index", uint64), (n!"deposit_balance_to_consume", Gwei),
  (n!"exit_balance_to_consume", Gwei), (n!"earliest_exit_epoch", Epoch),
  (n!"consolidation_balance_to_consume", Gwei), (n!"earliest_consolidation_epoch", Epoch),
  (n!"pending_deposits", PendingDeposits), (n!"pending_partial_withdrawals", PendingPartialWithdrawals),
  (n!"pending_consolidations", PendingConsolidations)])
-- electra/validator.md
def AggregateAndProof := struct [
  (n!"aggregator_index", ValidatorIndex), (n!"aggregate", Attestation), (n!"selection_proof", BLSSignature)]
def SignedAggregateAndProof := P0.signedOf AggregateAndProof
end Ele

def electraTable : List (Name × STy) := [
  (n!"electra.SignedAggregateAndProof", Ele.SignedAggregateAndProof), (n!"electra.AggregateAndProof", Ele.AggregateAndProof),
  (n!"electra.SingleAttestation", Ele.SingleAttestation), (n!"electra.Attestation", Ele.Attestation),
  (n!"electra.IndexedAttestation", Ele.IndexedAttestation), (n!"electra.Attestations", Ele.Attestations),
  (n!"electra.AttestationBits", Ele.AttestationBits),
  (n!"electra.AttesterSlashing", Ele.AttesterSlashing), (n!"electra.AttesterSlashings", Ele.AttesterSlashings),
  (n!"electra.SignedBeaconBlock", Ele.SignedBeaconBlock), (n!"electra.BeaconBlock", Ele.BeaconBlock),
  (n!"electra.BeaconBlockBody", Ele.BeaconBlockBody), (n!"electra.BeaconBlockBodyShallow", Ele.BeaconBlockBodyShallow),
  (n!"electra.CommitteeBits", Ele.CommitteeBits), (n!"electra.ExecutionRequests", Ele.ExecutionRequests),
  (n!"electra.BeaconState", Ele.BeaconState)
]

end Zrnt.Schema.Spec
