import Zrnt.Schema.SpecForks
/-! The complete specification schema table and lookup. -/
namespace Zrnt.Schema.Spec
open Zrnt.Schema

def table : List (String × STy) :=
  commonTable ++ phase0Table ++ altairTable ++ bellatrixTable ++ capellaTable ++ denebTable ++ electraTable

def lookup (name : String) : Option STy := (table.find? (·.1 == name)).map (·.2)

/-- the configuration constants that occur in some schema, in the order used on `zmodel` op lines -/
def configKeys : List String := [
  "MAX_COMMITTEES_PER_SLOT", "MAX_VALIDATORS_PER_COMMITTEE", "SLOTS_PER_EPOCH", "EPOCHS_PER_ETH1_VOTING_PERIOD",
  "SLOTS_PER_HISTORICAL_ROOT", "EPOCHS_PER_HISTORICAL_VECTOR", "EPOCHS_PER_SLASHINGS_VECTOR",
  "HISTORICAL_ROOTS_LIMIT", "VALIDATOR_REGISTRY_LIMIT",
  "MAX_PROPOSER_SLASHINGS", "MAX_ATTESTER_SLASHINGS", "MAX_ATTESTATIONS", "MAX_DEPOSITS", "MAX_VOLUNTARY_EXITS",
  "SYNC_COMMITTEE_SIZE",
  "MAX_BYTES_PER_TRANSACTION", "MAX_TRANSACTIONS_PER_PAYLOAD",
  "MAX_BLS_TO_EXECUTION_CHANGES", "MAX_WITHDRAWALS_PER_PAYLOAD",
  "MAX_BLOB_COMMITMENTS_PER_BLOCK",
  "PENDING_DEPOSITS_LIMIT", "PENDING_PARTIAL_WITHDRAWALS_LIMIT", "PENDING_CONSOLIDATIONS_LIMIT",
  "MAX_ATTESTER_SLASHINGS_ELECTRA", "MAX_ATTESTATIONS_ELECTRA",
  "MAX_CONSOLIDATION_REQUESTS_PER_PAYLOAD", "MAX_DEPOSIT_REQUESTS_PER_PAYLOAD", "MAX_WITHDRAWAL_REQUESTS_PER_PAYLOAD"]

/-- configuration from the positional value list of an op line -/
def configOf (vals : List Nat) : Config := fun k =>
  match (configKeys.zip vals).find? (·.1 == k) with
  | some (_, v) => v
  | none => 0

end Zrnt.Schema.Spec
