import Zrnt.Schema.SpecForks
/-! The complete specification schema table and lookup. -/
namespace Zrnt.Schema.Spec
open Zrnt.Schema

def table : List (Name × STy) :=
  commonTable ++ phase0Table ++ altairTable ++ bellatrixTable ++ capellaTable ++ denebTable ++ electraTable

def lookup (name : Name) : Option STy := (table.find? (·.1 == name)).map (·.2)

/-- the configuration constants that occur in some schema, in the order used on `zmodel` op lines -/
def configKeys : List Name := [
  n!"MAX_COMMITTEES_PER_SLOT", n!"MAX_VALIDATORS_PER_COMMITTEE", n!"SLOTS_PER_EPOCH", n!"EPOCHS_PER_ETH1_VOTING_PERIOD",
  n!"SLOTS_PER_HISTORICAL_ROOT", n!"EPOCHS_PER_HISTORICAL_VECTOR", n!"EPOCHS_PER_SLASHINGS_VECTOR",
  n!"HISTORICAL_ROOTS_LIMIT", n!"VALIDATOR_REGISTRY_LIMIT",
  n!"MAX_PROPOSER_SLASHINGS", n!"MAX_ATTESTER_SLASHINGS", n!"MAX_ATTESTATIONS", n!"MAX_DEPOSITS", n!"MAX_VOLUNTARY_EXITS",
  n!"SYNC_COMMITTEE_SIZE",
  n!"MAX_BYTES_PER_TRANSACTION", n!"MAX_TRANSACTIONS_PER_PAYLOAD",
  n!"MAX_BLS_TO_EXECUTION_CHANGES", n!"MAX_WITHDRAWALS_PER_PAYLOAD",
  n!"MAX_BLOB_COMMITMENTS_PER_BLOCK",
  n!"PENDING_DEPOSITS_LIMIT", n!"PENDING_PARTIAL_WITHDRAWALS_LIMIT", n!"PENDING_CONSOLIDATIONS_LIMIT",
  n!"MAX_ATTESTER_SLASHINGS_ELECTRA", n!"MAX_ATTESTATIONS_ELECTRA",
  n!"MAX_CONSOLIDATION_REQUESTS_PER_PAYLOAD", n!"MAX_DEPOSIT_REQUESTS_PER_PAYLOAD", n!"MAX_WITHDRAWAL_REQUESTS_PER_PAYLOAD",
  n!"MAX_EXTRA_DATA_BYTES", n!"BYTES_PER_LOGS_BLOOM"]

/-- configuration from the positional value list of an op line -/
def configOf (vals : List Nat) : Config := fun k =>
  match (configKeys.zip vals).find? (·.1 == k) with
  | some (_, v) => v
  | none => 0

end Zrnt.Schema.Spec
