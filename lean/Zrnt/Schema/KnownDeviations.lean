import Zrnt.Schema.Facts
/-! Rows of the regenerated facts table whose disagreement with the specification schema is a recorded finding
(`/verif/known_findings.jsonl`). An entry exempts exactly one (type, reason) pair: if the row starts to disagree
for another reason, or another row disagrees, the per-row obligation fails. -/
namespace Zrnt.Schema.Facts

/-- (Go type, the reason `checkType` reports) -/
def knownDeviations : List (Name × String) := [
  -- `ExtraDataType = BasicListType(Uint8Type, MAX_EXTRA_DATA_BYTES)` with the package constant 32: the bellatrix preset
  -- value `MAX_EXTRA_DATA_BYTES` of the configuration is ignored
  (n!"common.ExtraData", "view type definition differs from the specification schema"),
  -- `LogsBloom [BYTES_PER_LOGS_BLOOM]byte` with the package constant 256: the preset value is ignored
  (n!"common.LogsBloom", "view type definition differs from the specification schema")]

/-- the per-row obligation: the row agrees with the schema, or disagrees exactly as recorded -/
def rowOk (owners : Owners) (views : List ViewDef) (part : Part) (T : GoType) : Bool :=
  match checkType owners views part T with
  | none => true
  | some r => knownDeviations.any fun d => d.1 == T.name && d.2 == r

end Zrnt.Schema.Facts
