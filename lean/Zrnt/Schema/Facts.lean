import Zrnt.Schema.Spec
/-! The language of the facts that `extract sszfacts` regenerates from the Go source on every run
(`Zrnt.Gen.SszFacts`), and the decision procedure `checkType` that compares one Go type's declaration,
its five SSZ method bodies and its tree-view type definition with the specification schema.

`checkType` is *compositional*: a field of Go type `common.Fork` is compared with the specification entry
`common.Fork` (which has its own row), a view-type reference `common.ForkType` with the entry of the Go type
whose view it is. Limits and lengths are compared symbolically (`LExpr.norm`), i.e. for all configurations. -/
namespace Zrnt.Schema.Facts
open Zrnt.Schema

/-! ## symbolic length expressions: normal form -/

/-- lexicographic order on lists of numbers -/
def lexLe : List Nat → List Nat → Bool
  | [], _ => true
  | _ :: _, [] => false
  | a :: as, b :: bs => a < b || (a == b && lexLe as bs)

/-- an atom of a monomial: a configuration constant, or a quotient that cannot be simplified (its numerator and
denominator kept in normalised form) -/
inductive Atom where
  | c (n : Name)
  | q (num den : LExpr)
  deriving DecidableEq, Repr

/-- prefix serialisation of an expression (only used to order atoms deterministically) -/
def serL : LExpr → List Nat
  | .lit n => [0, n]
  | .const s => [1, s]
  | .mul a b => 2 :: (serL a ++ serL b)
  | .add a b => 3 :: (serL a ++ serL b)
  | .div a b => 4 :: (serL a ++ serL b)

def Atom.key : Atom → List Nat
  | .c n => [0, n]
  | .q a b => 1 :: (serL a ++ serL b)

def atomLe (a b : Atom) : Bool := lexLe a.key b.key

def atomsKey (xs : List Atom) : List Nat := xs.flatMap fun a => a.key.length :: a.key

/-- a monomial: coefficient × product of atoms, atoms sorted -/
abbrev Mono := Nat × List Atom
/-- a polynomial: monomials sorted by their atom lists, no duplicates, no zero coefficients -/
abbrev Poly := List Mono

def insertSorted (a : Atom) : List Atom → List Atom
  | [] => [a]
  | b :: r => if atomLe a b then a :: b :: r else b :: insertSorted a r

def mulAtoms (xs ys : List Atom) : List Atom := xs.foldl (fun acc x => insertSorted x acc) ys

def addMono (m : Mono) : Poly → Poly
  | [] => if m.1 == 0 then [] else [m]
  | n :: r =>
    if m.2 == n.2 then (if m.1 + n.1 == 0 then r else (m.1 + n.1, n.2) :: r)
    else if lexLe (atomsKey m.2) (atomsKey n.2) then (if m.1 == 0 then n :: r else m :: n :: r)
    else n :: addMono m r

def addPoly (p q : Poly) : Poly := p.foldl (fun acc m => addMono m acc) q

def mulPoly (p q : Poly) : Poly :=
  p.foldl (fun acc m => q.foldl (fun acc2 n => addMono (m.1 * n.1, mulAtoms m.2 n.2) acc2) acc) []

def reifyAtom : Atom → LExpr
  | .c n => .const n
  | .q a b => .div a b

def reifyAtoms : List Atom → LExpr
  | [] => .lit 1
  | a :: r => .mul (reifyAtom a) (reifyAtoms r)

/-- a normal form back as an expression (canonical representative) -/
def reify : Poly → LExpr
  | [] => .lit 0
  | m :: r => .add (.mul (.lit m.1) (reifyAtoms m.2)) (reify r)

/-- polynomial normal form; a quotient that is not a quotient of literals becomes an atom whose numerator and
denominator are the canonical representatives of their normal forms -/
def polyNF : LExpr → Poly
  | .lit n => if n == 0 then [] else [(n, [])]
  | .const s => [(1, [.c s])]
  | .mul a b => mulPoly (polyNF a) (polyNF b)
  | .add a b => addPoly (polyNF a) (polyNF b)
  | .div a b =>
    match polyNF a, polyNF b with
    | [(x, [])], [(y, [])] => if x / y == 0 then [] else [(x / y, [])]
    | p, q => [(1, [.q (reify p) (reify q)])]

/-- two "generic" configurations (a different small value for every name) -/
def generic1 : Config := fun k => k % 1009 + 2
def generic2 : Config := fun k => k % 1013 + 5

/-- Equality of length expressions for all configurations: equal polynomial normal forms. Sound:
`sameLen a b → ∀ c, a.eval c = b.eval c` (`Proofs.Lemmas.SSZPolyNF.sameLen_sound`, including quotients). The
evaluation at two generic configurations is redundant (kept as a cheap cross-check of the normaliser). -/
def sameLen (a b : LExpr) : Bool :=
  polyNF a == polyNF b && a.eval generic1 == b.eval generic1 && a.eval generic2 == b.eval generic2

/-- the expression is the literal `n` after normalisation -/
def isLit (e : LExpr) (n : Nat) : Bool := polyNF e == polyNF (.lit n)

/-- the expression mentions no configuration constant -/
def closed : LExpr → Bool
  | .lit _ => true
  | .const _ => false
  | .mul a b | .add a b | .div a b => closed a && closed b

mutual
/-- symbolic fixed length: `some e` for fixed-size schemas -/
def fixedLenS : STy → Option LExpr
  | .uint k => some (.lit k)
  | .bool => some (.lit 1)
  | .bytesN n => some n
  | .vector t n => match fixedLenS t with
    | some s => some (.mul n s)
    | none => none
  | .list _ _ => none
  | .bitvector n => some (.div (.add n (.lit 7)) (.lit 8))
  | .bitlist _ => none
  | .byteList _ => none
  | .container fs => fixedLenSF fs
def fixedLenSF : SFields → Option LExpr
  | .nil => some (.lit 0)
  | .cons _ t r => match fixedLenS t, fixedLenSF r with
    | some a, some b => some (.add a b)
    | _, _ => none
end

def isFixedS (t : STy) : Bool := (fixedLenS t).isSome

/-! ## facts -/

structure GoField where
  name : Name     -- Go field name
  goType : Name   -- Go type as written, package-qualified: "common.Fork", "tree.Root", "view.Uint64View"
  json : Name
  yaml : Name
  deriving Repr

inductive Decl where
  | struct (fields : List GoField)
  | named (underlying : String)
  deriving Repr

/-- a size argument of a codec call -/
inductive SizeE where
  | lit (n : Nat)
  | typeByteLength (view : Name)     -- `XType.TypeByteLength()` / `XType(spec).TypeByteLength()`
  | other (src : String)
  deriving Repr

/-- a hand-written hash tree over slices `[lo, hi)` of a byte array -/
inductive HT where
  | leaf (lo hi : Nat)
  | zero
  | node (l r : HT)
  deriving Repr, DecidableEq

/-- arithmetic over literals, configuration constants and `XType.TypeByteLength()` -/
inductive AExpr where
  | l (e : LExpr)
  | sizeOf (view : Name)
  | mul (a b : AExpr)
  | add (a b : AExpr)
  deriving Repr

/-- recognised shape of one method body -/
inductive Method where
  /-- `dr.Container / w.Container / codec.ContainerLength / hFn.HashTreeRoot` over these struct fields, in this order -/
  | fields (variant : Name) (args : List Name)
  /-- `dr.List(add, size, limit)`, `w.List(item, size, len)`, `hFn.ComplexListHTR(…, limit)`, `hFn.Uint64ListHTR(…, limit)` … -/
  | list (variant : Name) (size : Option SizeE) (limit : Option LExpr)
  /-- `dr.Vector`, `w.Vector`, `hFn.ComplexVectorHTR(…, length)` … -/
  | vector (variant : Name) (size : Option SizeE) (length : Option LExpr)
  /-- `dr.BitList(dst, limit)`, `hFn.BitListHTR(bits, limit)`, `dr.ByteList`, `hFn.ByteListHTR`, `dr.BitVector(dst, n)` … -/
  | bits (variant : Name) (limit : Option LExpr)
  /-- `return XType.TypeByteLength()` -/
  | typeByteLength (view : Name)
  /-- `return <constant arithmetic>` -/
  | const (e : LExpr)
  /-- `return size * uint64(len(a))` -/
  | lenTimes (size : SizeE)
  /-- `return uint64(len(a))` -/
  | len
  /-- whole-array byte access of an `[n]byte` receiver: `ReadAll` (`dr.Read(p[:])`), `Write` (`w.Write(p[:])`),
  `ReadPadChecked` (read, then refuse when `last byte >> k ≠ 0`) -/
  | raw (variant : Name) (n : Nat) (k : Nat)
  /-- delegation to ztyp's `UintNView`/`BoolView` of `k` bytes: `ViewDeserialize`, `ViewHashTreeRoot`, `WriteUint` -/
  | basic (variant : Name) (k : Nat)
  /-- hand-written merkleization of an `[n]byte` receiver -/
  | htrTree (n : Nat) (t : HT)
  /-- `for _, v := range a { out += v.ByteLength(spec) + OFFSET_SIZE }` -/
  | sumOffsets
  /-- `k*OFFSET_SIZE + a.F1.ByteLength(spec) + … ` -/
  | fieldSum (k : Nat) (args : List Name)
  /-- `return <arithmetic with XType.TypeByteLength()>` -/
  | constA (e : AExpr)
  | opaque (why : String)
  deriving Repr

structure GoType where
  name : Name
  decl : Decl
  specful : Bool
  mixedSignatures : Bool
  deserialize : Method
  serialize : Method
  byteLength : Method
  fixedLength : Method
  hashTreeRoot : Method
  /-- "pkg.XType" of the tree-view type definition, if the type has one -/
  view : Option Name
  deriving Repr

/-- a view type expression as written in Go -/
inductive VExpr where
  | ref (name : Name)                       -- `common.ForkType`, `Uint64Type`, `BatchRootsType(spec)`
  | container (fields : List (Name × VExpr))
  | list (variant : Name) (elem : VExpr) (limit : LExpr)
  | vector (variant : Name) (elem : VExpr) (length : LExpr)
  | bitlist (limit : LExpr)
  | bitvector (n : LExpr)
  | smallBytes (n : Nat)
  | other (src : String)
  deriving Repr

structure ViewDef where
  name : Name
  expr : VExpr
  deriving Repr

/-! ## meaning of names -/

/-- association list of names -/
def assoc {α : Type} (tbl : List (Name × α)) (n : Name) : Option α :=
  match tbl.find? (·.1 == n) with
  | some (_, v) => some v
  | none => none

/-- ztyp's built-in view types -/
def builtinViews : List (Name × STy) := [
  (n!"Uint8Type", .uint 1), (n!"ByteType", .uint 1), (n!"view.Uint8Type", .uint 1), (n!"view.ByteType", .uint 1),
  (n!"Uint16Type", .uint 2), (n!"view.Uint16Type", .uint 2), (n!"Uint32Type", .uint 4), (n!"view.Uint32Type", .uint 4),
  (n!"Uint64Type", .uint 8), (n!"view.Uint64Type", .uint 8), (n!"Uint128Type", .uint 16), (n!"view.Uint128Type", .uint 16),
  (n!"Uint256Type", .uint 32), (n!"view.Uint256Type", .uint 32), (n!"BoolType", .bool), (n!"view.BoolType", .bool),
  (n!"RootType", .bytesN 32), (n!"view.RootType", .bytesN 32), (n!"Bytes4Type", .bytesN 4), (n!"view.Bytes4Type", .bytesN 4),
  (n!"Bytes8Type", .bytesN 8), (n!"view.Bytes8Type", .bytesN 8), (n!"Bytes16Type", .bytesN 16), (n!"view.Bytes16Type", .bytesN 16)]

/-- Go value types that are not SSZ types of the repository (aliases of ztyp types) -/
def builtinGoTypes : List (Name × STy) := [
  (n!"common.Root", .bytesN 32), (n!"tree.Root", .bytesN 32), (n!"common.Bytes32", .bytesN 32), (n!"common.Hash32", .bytesN 32),
  (n!"Root", .bytesN 32), (n!"Bytes32", .bytesN 32), (n!"Hash32", .bytesN 32),
  (n!"Uint8View", .uint 1), (n!"view.Uint8View", .uint 1), (n!"Uint64View", .uint 8), (n!"view.Uint64View", .uint 8),
  (n!"Uint256View", .uint 32), (n!"view.Uint256View", .uint 32), (n!"BoolView", .bool), (n!"view.BoolView", .bool),
  (n!"bool", .bool)]

def goTypeSTy (n : Name) : Option STy :=
  match assoc builtinGoTypes n with
  | some t => some t
  | none => Spec.lookup n

/-- `owners`: which Go type a view type definition belongs to (generated: inverse of `GoType.view`) -/
abbrev Owners := List (Name × Name)

mutual
/-- Denotation of a view-type name: a ztyp builtin; or the specification entry of the Go type that owns the
view (compositional: that type has its own row); or, for a view type without owner (an alias such as
`Bytes32Type = RootType`, or a helper like `BatchRootsType`), the denotation of its defining expression. -/
def viewSTy (owners : Owners) (views : List ViewDef) : Nat → Name → Option STy
  | 0, _ => none
  | fuel + 1, n =>
    match assoc builtinViews n with
    | some t => some t
    | none =>
      match assoc owners n with
      | some ty => Spec.lookup ty
      | none =>
        match views.find? (·.name == n) with
        | some vd => denoteV owners views fuel vd.expr
        | none => none
def denoteV (owners : Owners) (views : List ViewDef) : Nat → VExpr → Option STy
  | 0, _ => none
  | fuel + 1, .ref n => viewSTy owners views fuel n
  | fuel + 1, .container fs => (denoteVF owners views fuel fs).map .container
  | fuel + 1, .list _ e l => (denoteV owners views fuel e).map fun t => .list t l
  | fuel + 1, .vector _ e n => (denoteV owners views fuel e).map fun t => .vector t n
  | _ + 1, .bitlist l => some (.bitlist l)
  | _ + 1, .bitvector n => some (.bitvector n)
  | _ + 1, .smallBytes n => some (.bytesN (.lit n))
  | _ + 1, .other _ => none
def denoteVF (owners : Owners) (views : List ViewDef) : Nat → List (Name × VExpr) → Option SFields
  | 0, _ => none
  | _ + 1, [] => some .nil
  | fuel + 1, (n, e) :: r =>
    match denoteV owners views fuel e, denoteVF owners views fuel r with
    | some t, some fs => some (.cons n t fs)
    | _, _ => none
end

def viewFuel : Nat := 64

mutual
/-- equality of schemas up to the normal form of the length expressions; `ByteVector[n]`/`ByteList[n]` are
`Vector[uint8, n]`/`List[uint8, n]` (the code base writes both) -/
def sameSTy : STy → STy → Bool
  | .uint a, .uint b => a == b
  | .bool, .bool => true
  | .bytesN a, .bytesN b => sameLen a b
  | .bytesN a, .vector (.uint 1) b => sameLen a b
  | .vector (.uint 1) a, .bytesN b => sameLen a b
  | .vector t a, .vector u b => sameSTy t u && sameLen a b
  | .list t a, .list u b => sameSTy t u && sameLen a b
  | .byteList a, .list (.uint 1) b => sameLen a b
  | .list (.uint 1) a, .byteList b => sameLen a b
  | .bitvector a, .bitvector b => sameLen a b
  | .bitlist a, .bitlist b => sameLen a b
  | .byteList a, .byteList b => sameLen a b
  | .container f, .container g => sameSF f g
  | _, _ => false
def sameSF : SFields → SFields → Bool
  | .nil, .nil => true
  | .cons n t r, .cons m u s => n == m && sameSTy t u && sameSF r s
  | _, _ => false
end

/-! ## the per-type check -/

def Method.isOpaque : Method → Bool
  | .opaque _ => true
  | _ => false

/-- `e` is the fixed length of the schema (symbolically) -/
def isFixedLenOf (sty : STy) (e : LExpr) : Bool :=
  match fixedLenS sty with
  | some s => sameLen s e
  | none => false

/-- a size argument denotes the fixed size of the element schema (0 for variable-size elements) -/
def sizeOk (owners : Owners) (views : List ViewDef) (elem : STy) : Option SizeE → Bool
  | some (.lit n) =>
    match fixedLenS elem with
    | some e => isLit e n && n != 0
    | none => n == 0
  | some (.typeByteLength v) =>
    -- `XType.TypeByteLength()`: only the number matters — the fixed length of what the view type denotes must be
    -- the fixed length of the element schema
    match viewSTy owners views viewFuel v with
    | some t =>
      (match fixedLenS t, fixedLenS elem with
       | some a, some b => sameLen a b
       | _, _ => false)
    | none => false
  | _ => false

def limitOk (want : LExpr) : Option LExpr → Bool
  | some l => sameLen l want
  | none => false

/-- the struct's fields, by Go name, must be listed exactly in declaration order -/
def argsOk (fields : List GoField) (args : List Name) : Bool := args == fields.map (·.name)

/-- declaration against a container schema: same number of fields, field types agree. (The json/yaml tags are the
text form's business: `tagsOk` below, a separate obligation — bytes and roots do not depend on them.) -/
def structOk : List GoField → SFields → Bool
  | [], .nil => true
  | f :: fs, .cons _ t r =>
    -- the field's Go type names the very schema the specification gives the field (syntactic identity: both are
    -- entries / aliases of the same transcription)
    (match goTypeSTy f.goType with
     | some u => u.beq t
     | none => false) && structOk fs r
  | _, _ => false

/-- text form of a struct: the json and the yaml tag of every field are the specification's field name (so the tags are
pairwise distinct and `encoding/json` / yaml emit and accept every field under the name the API uses) -/
def tagsOk : List GoField → SFields → Bool
  | [], .nil => true
  | f :: fs, .cons n _ r => f.json == n && f.yaml == n && tagsOk fs r
  | _, _ => false

/-- `XType.TypeByteLength()` replaced by the symbolic fixed length of the schema the view denotes -/
def AExpr.toLExpr (owners : Owners) (views : List ViewDef) : AExpr → Option LExpr
  | .l e => some e
  | .sizeOf v =>
    match viewSTy owners views viewFuel v with
    | some t => fixedLenS t
    | none => none
  | .mul a b =>
    match a.toLExpr owners views, b.toLExpr owners views with
    | some x, some y => some (.mul x y)
    | _, _ => none
  | .add a b =>
    match a.toLExpr owners views, b.toLExpr owners views with
    | some x, some y => some (.add x y)
    | _, _ => none

/-! hand-written hash trees -/

def HT.depth? : HT → Option Nat
  | .leaf _ _ => some 0
  | .zero => some 0
  | .node l r =>
    match l.depth?, r.depth? with
    | some a, some b => if a == b then some (a + 1) else none
    | _, _ => none

/-- the leaves, left to right: `some (lo, hi)` for a slice, `none` for a zero chunk -/
def HT.leaves : HT → List (Option (Nat × Nat))
  | .leaf lo hi => [some (lo, hi)]
  | .zero => [none]
  | .node l r => l.leaves ++ r.leaves

/-- the leaves of the canonical merkleization of `n` bytes in a tree of `2^d` leaves -/
def expectedLeaves (n d : Nat) : List (Option (Nat × Nat)) :=
  (List.range (2 ^ d)).map fun i => if 32 * i < n then some (32 * i, min (32 * i + 32) n) else none

/-- the tree is the merkleization of the `n`-byte array: perfect, of the depth of `ceil(n/32)` chunks, leaves in order -/
def htOk (n : Nat) (t : HT) : Bool :=
  match t.depth? with
  | some d => d == Zrnt.SSZ.ceilLog2 ((n + 31) / 32) && t.leaves == expectedLeaves n d
  | none => false

/-- a `return <arithmetic>` or `return XType.TypeByteLength()` body of ByteLength / FixedLength -/
def lengthMethodOk (owners : Owners) (views : List ViewDef) (sty : STy) (isFixedLen : Bool) : Method → Bool
  | .typeByteLength v =>
    -- `XType.TypeByteLength()`: the fixed length of what the view type denotes (0 when it is variable-size) must be
    -- the schema's fixed length; a variable-size schema may only report it (as 0) from FixedLength
    match viewSTy owners views viewFuel v with
    | some t =>
      (match fixedLenS t, fixedLenS sty with
       | some a, some b => sameLen a b
       | none, none => isFixedLen
       | _, _ => false)
    | none => false
  | .const e =>
    match fixedLenS sty with
    | some s => sameLen s e && !isLit e 0
    | none => isFixedLen && isLit e 0
  | .constA a =>
    match a.toLExpr owners views, fixedLenS sty with
    | some e, some s => sameLen s e && !isLit e 0
    | _, _ => false
  | _ => false

/-- all field schemas are variable-size -/
def allVariable : SFields → Bool
  | .nil => true
  | .cons _ t r => !isFixedS t && allVariable r

def sfLength : SFields → Nat
  | .nil => 0
  | .cons _ _ r => sfLength r + 1

/-- one method of a container type -/
def containerMethodOk (owners : Owners) (views : List ViewDef) (fields : List GoField) (sty : STy)
    (which : Name) : Method → Bool
  | .fields variant args =>
    argsOk fields args &&
      (match which with
       | n!"Deserialize" | n!"Serialize" =>
         variant == n!"Container" || (variant == n!"FixedLenContainer" && isFixedS sty)
       | n!"ByteLength" => variant == n!"ContainerLength"
       | n!"FixedLength" => variant == n!"ContainerLength" && isFixedS sty
       | n!"HashTreeRoot" => variant == n!"HashTreeRoot"
       | _ => false)
  -- `k*OFFSET_SIZE + Σ field.ByteLength()`: the container length when every field is variable-size
  | .fieldSum k args =>
    which == n!"ByteLength" && argsOk fields args && k == fields.length &&
      (match sty with
       | .container fs => allVariable fs
       | _ => false)
  | .opaque _ => true
  | m => (which == n!"ByteLength" || which == n!"FixedLength") &&
      lengthMethodOk owners views sty (which == n!"FixedLength") m

def isBasicS : STy → Bool
  | .uint _ => true
  | .bool => true
  | _ => false

def listMethodOk (owners : Owners) (views : List ViewDef) (sty elem : STy) (lim : LExpr) (which : Name) : Method → Bool
  | .list variant size limit =>
    match which with
    | n!"Deserialize" =>
      ((variant == n!"List") || (variant == n!"ReadRootsLimited" && sameSTy elem (.bytesN 32))) &&
        sizeOk owners views elem size && limitOk lim limit
    | n!"Serialize" =>
      ((variant == n!"List") || (variant == n!"WriteRoots" && sameSTy elem (.bytesN 32))) && sizeOk owners views elem size
    | n!"HashTreeRoot" =>
      limitOk lim limit &&
        ((variant == n!"ComplexListHTR" && !isBasicS elem) ||
         (variant == n!"Uint64ListHTR" && sameSTy elem (.uint 8)) ||
         (variant == n!"Uint8ListHTR" && sameSTy elem (.uint 1)))
    | _ => false
  | .lenTimes size => which == n!"ByteLength" && isFixedS elem && sizeOk owners views elem (some size)
  -- Σ (element.ByteLength + OFFSET_SIZE): the list length for variable-size elements
  | .sumOffsets => which == n!"ByteLength" && !isFixedS elem
  | .opaque _ => true
  | m => which == n!"FixedLength" && lengthMethodOk owners views sty true m

def bitsMethodOk (owners : Owners) (views : List ViewDef) (sty : STy) (kind : Name) (lim : LExpr) (which : Name) :
    Method → Bool
  | .bits variant limit =>
    if which == n!"Deserialize" then
      -- (ztyp's own `dr.BitList` is not accepted: it refuses a full-length bitlist whose limit is a multiple of 8)
      (kind == n!"bitlist" && variant == n!"ReadBitList" && limitOk lim limit) ||
      (kind == n!"bitvector" && variant == n!"BitVector" && limitOk lim limit) ||
      (kind == n!"bytelist" && variant == n!"ByteList" && limitOk lim limit)
    else if which == n!"Serialize" then
      (kind == n!"bitlist" && variant == n!"BitList") ||
      (kind == n!"bitvector" && (variant == n!"BitVector" || variant == n!"Write")) ||
      (kind == n!"bytelist" && variant == n!"Write")
    else if which == n!"HashTreeRoot" then
      (kind == n!"bitlist" && variant == n!"BitListHTR" && limitOk lim limit) ||
      (kind == n!"bitvector" && variant == n!"BitVectorHTR") ||
      (kind == n!"bytelist" && variant == n!"ByteListHTR" && limitOk lim limit)
    else false
  | .len => which == n!"ByteLength" && kind != n!"bitvector"
  -- a bitvector held in a fixed byte array: all `n` bytes are read/written; the unused bits of the last byte
  -- (`lim mod 8` used ones) are checked to be zero, unless the bit length is a multiple of 8
  | .raw variant n k =>
    kind == n!"bitvector" && isFixedLenOf sty (.lit n) &&
      ((which == n!"Serialize" && variant == n!"Write") ||
       (which == n!"Deserialize" &&
         ((variant == n!"ReadPadChecked" && sameLen lim (.add (.mul (.lit 8) (.lit (n - 1))) (.lit k)) && 0 < k && k < 8) ||
          (variant == n!"ReadAll" && sameLen lim (.mul (.lit 8) (.lit n))))))
  | .htrTree n t => which == n!"HashTreeRoot" && kind == n!"bitvector" && isFixedLenOf sty (.lit n) && htOk n t
  | .opaque _ => true
  | m => (which == n!"ByteLength" || which == n!"FixedLength") &&
      lengthMethodOk owners views sty (which == n!"FixedLength") m

def vectorMethodOk (owners : Owners) (views : List ViewDef) (sty elem : STy) (len : LExpr) (which : Name) : Method → Bool
  | .vector variant size length =>
    -- a missing length stands for `len(receiver)`: the slice/array behind a vector type holds exactly `len` elements
    let lenOk := match length with
      | some l => sameLen l len
      | none => which != n!"Deserialize"
    if which == n!"Deserialize" || which == n!"Serialize" then
      ((variant == n!"Vector") || (variant == n!"ReadRoots" && sameSTy elem (.bytesN 32))) &&
        sizeOk owners views elem size && lenOk
    else which == n!"HashTreeRoot" && lenOk &&
      ((variant == n!"ComplexVectorHTR" && !isBasicS elem) || (variant == n!"Uint64VectorHTR" && sameSTy elem (.uint 8)) ||
       (variant == n!"ChunksHTR" && sameSTy elem (.bytesN 32)))
  -- `tree.WriteRoots(w, a)` is recorded as a list shape: all roots of the slice
  | .list variant size _ =>
    which == n!"Serialize" && variant == n!"WriteRoots" && sameSTy elem (.bytesN 32) && sizeOk owners views elem size
  -- `len(a) * size`: the slice behind a vector type holds exactly `len` elements
  | .lenTimes size => which == n!"ByteLength" && isFixedS elem && sizeOk owners views elem (some size)
  | .opaque _ => true
  | m => (which == n!"ByteLength" || which == n!"FixedLength") &&
      lengthMethodOk owners views sty (which == n!"FixedLength") m

/-- leaf types (integers, byte vectors): bodies are bespoke; only length reports are compared -/
def leafMethodOk (owners : Owners) (views : List ViewDef) (sty : STy) (which : Name) : Method → Bool
  | .const e => (which == n!"ByteLength" || which == n!"FixedLength") && isFixedLenOf sty e
  | .typeByteLength v => (which == n!"ByteLength" || which == n!"FixedLength") &&
      lengthMethodOk owners views sty (which == n!"FixedLength") (.typeByteLength v)
  -- integer aliases: delegation to ztyp's view of the same width
  | .basic variant k =>
    (match sty with
     | .uint w => w == k
     | .bool => k == 1
     | _ => false) &&
    ((which == n!"Deserialize" && variant == n!"ViewDeserialize") || (which == n!"Serialize" && variant == n!"WriteUint") ||
     (which == n!"HashTreeRoot" && variant == n!"ViewHashTreeRoot"))
  -- byte arrays: the whole array is read / written / merkleized
  | .raw variant n _ =>
    (match sty with
     | .bytesN e => isLit e n
     | _ => false) &&
    ((which == n!"Deserialize" && variant == n!"ReadAll") || (which == n!"Serialize" && variant == n!"Write"))
  | .bits variant _ => which == n!"Serialize" && variant == n!"Write"
  | .htrTree n t =>
    which == n!"HashTreeRoot" && htOk n t &&
      (match sty with
       | .bytesN e => isLit e n
       | _ => false)
  | .opaque _ => true
  | _ => false

/-- which methods a row obligation is about: the four encoding methods (property C04) or `HashTreeRoot` (property C05).
The declaration (field list and field types) and the view type definition matter to both and are checked by both. -/
inductive Part where
  | codec
  | root
  deriving DecidableEq, Repr

/-- Result of checking one Go type: `none` = agrees; `some reason` names the offending method. -/
def checkType (owners : Owners) (views : List ViewDef) (part : Part) (T : GoType) : Option String :=
  if T.mixedSignatures then some "methods mix signatures with and without *Spec" else
  match Spec.lookup T.name with
  | none => some "no specification schema entry of this name"
  | some sty =>
    -- the view type definition denotes the specification schema
    let viewBad : Option String :=
      match T.view with
      | none => none
      | some v =>
        match views.find? (·.name == v) with
        | none => some "view type definition not found"
        | some vd =>
          -- the definition itself (not the owner shortcut) must denote the schema
          match denoteV (owners.filter (·.1 != v)) views viewFuel vd.expr with
          | some t => if sameSTy t sty then none else some "view type definition differs from the specification schema"
          | none => some "view type definition has an unrecognised shape or an unresolved reference"
    match viewBad with
    | some r => some r
    | none =>
      let ms : List (Name × String × Method) :=
        match part with
        | .codec => [
          (n!"Deserialize", "Deserialize", T.deserialize), (n!"Serialize", "Serialize", T.serialize),
          (n!"ByteLength", "ByteLength", T.byteLength), (n!"FixedLength", "FixedLength", T.fixedLength)]
        | .root => [(n!"HashTreeRoot", "HashTreeRoot", T.hashTreeRoot)]
      let bad (ok : Name → Method → Bool) : Option String :=
        (ms.find? fun (n, _, m) => !ok n m).map fun (_, s, _) => s ++ " disagrees with the specification schema"
      match sty, T.decl with
      | .container fs, .struct fields =>
        if !structOk fields fs then some "struct declaration (field list or field types) disagrees with the specification schema"
        else bad fun n m => containerMethodOk owners views fields sty n m
      | .container _, .named _ => some "specification schema is a container but the Go type is not a struct"
      | .list elem lim, _ => bad fun n m => listMethodOk owners views sty elem lim n m
      | .bitlist lim, _ => bad fun n m => bitsMethodOk owners views sty n!"bitlist" lim n m
      | .bitvector n', _ => bad fun n m => bitsMethodOk owners views sty n!"bitvector" n' n m
      | .byteList lim, _ => bad fun n m => bitsMethodOk owners views sty n!"bytelist" lim n m
      | .vector elem len, _ => bad fun n m => vectorMethodOk owners views sty elem len n m
      | _, _ => bad fun n m => leafMethodOk owners views sty n m

/-- the text-form obligation of a row (property C04 only): struct types carry the specification's field names as tags -/
def checkTags (T : GoType) : Option String :=
  match Spec.lookup T.name, T.decl with
  | some (.container fs), .struct fields =>
    if tagsOk fields fs then none else some "json/yaml tags of the struct declaration differ from the specification's field names"
  | _, _ => none

def tagsRowOk (T : GoType) : Bool := (checkTags T).isNone

def GoType.opaqueMethods (T : GoType) : List String :=
  ([("Deserialize", T.deserialize), ("Serialize", T.serialize), ("ByteLength", T.byteLength),
    ("FixedLength", T.fixedLength), ("HashTreeRoot", T.hashTreeRoot)].filter (·.2.isOpaque)).map (·.1)

/-- some encoding method (one of the four of property C04) has a body outside the recognised shapes -/
def GoType.codecOpaque (T : GoType) : Bool :=
  T.deserialize.isOpaque || T.serialize.isOpaque || T.byteLength.isOpaque || T.fixedLength.isOpaque

/-- the schema kind of a row: one of the eight kinds the soundness theorems (C04: encoding methods, C05: root) cover -/
def rowKindCovered (T : GoType) : Bool :=
  match Spec.lookup T.name, T.decl with
  | some (.container _), .struct _ => true
  | some (.list _ _), _ | some (.vector _ _), _ | some (.bitlist _), _ | some (.bitvector _), _ | some (.byteList _), _
  | some (.uint _), _ | some (.bytesN _), _ => true
  | _, _ => false

end Zrnt.Schema.Facts
