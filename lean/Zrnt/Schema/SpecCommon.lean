import Zrnt.Schema.Sym
/-! Consensus-specification SSZ schemas — shared custom types, phase0 containers, networking and
electra request containers (the Go code keeps those in package `common`).

Hand transcription of the published specification documents (consensus-specs: `phase0/beacon-chain.md`,
`phase0/validator.md`, `phase0/p2p-interface.md`, `altair/p2p-interface.md`, `capella/beacon-chain.md`,
`electra/beacon-chain.md`). It does NOT look at the Go source: this is the oracle of C04/C05.
Entries are keyed `<go package>.<go type>` only to name them; the content is the specification's. -/
namespace Zrnt.Schema.Spec
open Zrnt.Schema STy

-- custom types of phase0/beacon-chain.md "Custom types"
def uint8 : STy := .uint 1
def uint64 : STy := .uint 8
def uint256 : STy := .uint 32
def Slot := uint64
def Epoch := uint64
def CommitteeIndex := uint64
def ValidatorIndex := uint64
def Gwei := uint64
def Root : STy := .bytesN 32
def Hash32 : STy := .bytesN 32
def Bytes32 : STy := .bytesN 32
def Version : STy := .bytesN 4
def DomainType : STy := .bytesN 4
def ForkDigest : STy := .bytesN 4
def Domain : STy := .bytesN 32
def BLSPubkey : STy := .bytesN 48
def BLSSignature : STy := .bytesN 96
def ExecutionAddress : STy := .bytesN 20        -- bellatrix
def WithdrawalIndex := uint64                   -- capella
def KZGCommitment : STy := .bytesN 48           -- deneb
def ParticipationFlags := uint8                 -- altair

-- constants of the specification that are not configurable
def DEPOSIT_CONTRACT_TREE_DEPTH : LExpr := 32
def JUSTIFICATION_BITS_LENGTH : LExpr := 4
def ATTESTATION_SUBNET_COUNT : LExpr := 64
def SYNC_COMMITTEE_SUBNET_COUNT : LExpr := 4
-- bellatrix preset values (256 and 32 in both published presets). zrnt hard-codes them as package constants and
-- ignores the Spec fields of the same name: see `Zrnt.Schema.KnownDeviations` and the `xdata` preset of the harness.
def BYTES_PER_LOGS_BLOOM : LExpr := c n!"BYTES_PER_LOGS_BLOOM"
def MAX_EXTRA_DATA_BYTES : LExpr := c n!"MAX_EXTRA_DATA_BYTES"

-- phase0/beacon-chain.md, "Misc dependencies"
def Fork := struct [(n!"previous_version", Version), (n!"current_version", Version), (n!"epoch", Epoch)]
def ForkData := struct [(n!"current_version", Version), (n!"genesis_validators_root", Root)]
def Checkpoint := struct [(n!"epoch", Epoch), (n!"root", Root)]
def Validator := struct [
  (n!"pubkey", BLSPubkey), (n!"withdrawal_credentials", Bytes32), (n!"effective_balance", Gwei), (n!"slashed", .bool),
  (n!"activation_eligibility_epoch", Epoch), (n!"activation_epoch", Epoch), (n!"exit_epoch", Epoch),
  (n!"withdrawable_epoch", Epoch)]
def AttestationData := struct [
  (n!"slot", Slot), (n!"index", CommitteeIndex), (n!"beacon_block_root", Root), (n!"source", Checkpoint), (n!"target", Checkpoint)]
def Eth1Data := struct [(n!"deposit_root", Root), (n!"deposit_count", uint64), (n!"block_hash", Hash32)]
def DepositMessage := struct [(n!"pubkey", BLSPubkey), (n!"withdrawal_credentials", Bytes32), (n!"amount", Gwei)]
def DepositData := struct [
  (n!"pubkey", BLSPubkey), (n!"withdrawal_credentials", Bytes32), (n!"amount", Gwei), (n!"signature", BLSSignature)]
def BeaconBlockHeader := struct [
  (n!"slot", Slot), (n!"proposer_index", ValidatorIndex), (n!"parent_root", Root), (n!"state_root", Root), (n!"body_root", Root)]
def SigningData := struct [(n!"object_root", Root), (n!"domain", Domain)]
def SignedBeaconBlockHeader := struct [(n!"message", BeaconBlockHeader), (n!"signature", BLSSignature)]
def DepositProof : STy := .vector Bytes32 (DEPOSIT_CONTRACT_TREE_DEPTH + 1)
def Deposit := struct [(n!"proof", DepositProof), (n!"data", DepositData)]
def JustificationBits : STy := .bitvector JUSTIFICATION_BITS_LENGTH

-- phase0/p2p-interface.md (+ altair/p2p-interface.md for MetaData)
def ENRForkID := struct [(n!"fork_digest", ForkDigest), (n!"next_fork_version", Version), (n!"next_fork_epoch", Epoch)]
def AttnetBits : STy := .bitvector ATTESTATION_SUBNET_COUNT
def SyncnetBits : STy := .bitvector SYNC_COMMITTEE_SUBNET_COUNT
def MetaData := struct [(n!"seq_number", uint64), (n!"attnets", AttnetBits), (n!"syncnets", SyncnetBits)]
def Status := struct [
  (n!"fork_digest", ForkDigest), (n!"finalized_root", Root), (n!"finalized_epoch", Epoch), (n!"head_root", Root), (n!"head_slot", Slot)]

-- altair/beacon-chain.md
def SyncCommitteePubkeys : STy := .vector BLSPubkey (c n!"SYNC_COMMITTEE_SIZE")
def SyncCommittee := struct [(n!"pubkeys", SyncCommitteePubkeys), (n!"aggregate_pubkey", BLSPubkey)]

-- bellatrix/beacon-chain.md
def Transaction : STy := .byteList (c n!"MAX_BYTES_PER_TRANSACTION")
def PayloadTransactions : STy := .list Transaction (c n!"MAX_TRANSACTIONS_PER_PAYLOAD")
def LogsBloom : STy := .bytesN BYTES_PER_LOGS_BLOOM
def ExtraData : STy := .byteList MAX_EXTRA_DATA_BYTES

-- capella/beacon-chain.md
def Withdrawal := struct [
  (n!"index", WithdrawalIndex), (n!"validator_index", ValidatorIndex), (n!"address", ExecutionAddress), (n!"amount", Gwei)]
def Withdrawals : STy := .list Withdrawal (c n!"MAX_WITHDRAWALS_PER_PAYLOAD")
def BLSToExecutionChange := struct [
  (n!"validator_index", ValidatorIndex), (n!"from_bls_pubkey", BLSPubkey), (n!"to_execution_address", ExecutionAddress)]
def SignedBLSToExecutionChange := struct [(n!"message", BLSToExecutionChange), (n!"signature", BLSSignature)]
def SignedBLSToExecutionChanges : STy := .list SignedBLSToExecutionChange (c n!"MAX_BLS_TO_EXECUTION_CHANGES")

-- electra/beacon-chain.md
def DepositRequest := struct [
  (n!"pubkey", BLSPubkey), (n!"withdrawal_credentials", Bytes32), (n!"amount", Gwei), (n!"signature", BLSSignature),
  (n!"index", uint64)]
def WithdrawalRequest := struct [
  (n!"source_address", ExecutionAddress), (n!"validator_pubkey", BLSPubkey), (n!"amount", Gwei)]
def ConsolidationRequest := struct [
  (n!"source_address", ExecutionAddress), (n!"source_pubkey", BLSPubkey), (n!"target_pubkey", BLSPubkey)]
def DepositRequests : STy := .list DepositRequest (c n!"MAX_DEPOSIT_REQUESTS_PER_PAYLOAD")
def WithdrawalRequests : STy := .list WithdrawalRequest (c n!"MAX_WITHDRAWAL_REQUESTS_PER_PAYLOAD")
def ConsolidationRequests : STy := .list ConsolidationRequest (c n!"MAX_CONSOLIDATION_REQUESTS_PER_PAYLOAD")
def PendingDeposit := struct [
  (n!"pubkey", BLSPubkey), (n!"withdrawal_credentials", Bytes32), (n!"amount", Gwei), (n!"signature", BLSSignature),
  (n!"slot", Slot)]
def PendingPartialWithdrawal := struct [
  (n!"validator_index", ValidatorIndex), (n!"amount", Gwei), (n!"withdrawable_epoch", Epoch)]
def PendingConsolidation := struct [(n!"source_index", ValidatorIndex), (n!"target_index", ValidatorIndex)]
def PendingDeposits : STy := .list PendingDeposit (c n!"PENDING_DEPOSITS_LIMIT")
def PendingPartialWithdrawals : STy := .list PendingPartialWithdrawal (c n!"PENDING_PARTIAL_WITHDRAWALS_LIMIT")
def PendingConsolidations : STy := .list PendingConsolidation (c n!"PENDING_CONSOLIDATIONS_LIMIT")

/-- Entries of Go package `common`. `helper` marks names that are not containers/aliases of the
specification documents but list wrappers or library helpers whose SSZ type is nevertheless fixed
by how the specification uses them (the field type they stand for). -/
def commonTable : List (Name × STy) := [
  (n!"common.BLSPubkey", BLSPubkey), (n!"common.BLSSignature", BLSSignature),
  (n!"common.BLSDomainType", DomainType), (n!"common.BLSDomain", Domain), (n!"common.SigningData", SigningData),
  (n!"common.DepositData", DepositData), (n!"common.DepositMessage", DepositMessage),
  (n!"common.DepositProof", DepositProof), (n!"common.Deposit", Deposit),
  (n!"common.Eth1Address", ExecutionAddress), (n!"common.Eth1Data", Eth1Data),
  (n!"common.ExtraData", ExtraData),
  (n!"common.CommitteeIndex", CommitteeIndex), (n!"common.Gwei", Gwei), (n!"common.Checkpoint", Checkpoint),
  (n!"common.BeaconBlockHeader", BeaconBlockHeader), (n!"common.SignedBeaconBlockHeader", SignedBeaconBlockHeader),
  (n!"common.JustificationBits", JustificationBits),
  (n!"common.KZGCommitment", KZGCommitment), (n!"common.LogsBloom", LogsBloom),
  (n!"common.Eth2Data", ENRForkID), (n!"common.AttnetBits", AttnetBits), (n!"common.SyncnetBits", SyncnetBits),
  (n!"common.SeqNr", uint64), (n!"common.Ping", uint64), (n!"common.Pong", uint64),
  (n!"common.MetaData", MetaData), (n!"common.Status", Status), (n!"common.Goodbye", uint64),
  (n!"common.DepositRequest", DepositRequest), (n!"common.WithdrawalRequest", WithdrawalRequest),
  (n!"common.ConsolidationRequest", ConsolidationRequest),
  (n!"common.DepositRequests", DepositRequests), (n!"common.WithdrawalRequests", WithdrawalRequests),
  (n!"common.ConsolidationRequests", ConsolidationRequests),
  (n!"common.PendingDeposit", PendingDeposit), (n!"common.PendingPartialWithdrawal", PendingPartialWithdrawal),
  (n!"common.PendingConsolidation", PendingConsolidation),
  (n!"common.PendingDeposits", PendingDeposits), (n!"common.PendingPartialWithdrawals", PendingPartialWithdrawals),
  (n!"common.PendingConsolidations", PendingConsolidations),
  (n!"common.SyncCommitteePubkeys", SyncCommitteePubkeys), (n!"common.SyncCommittee", SyncCommittee),
  (n!"common.Timestamp", uint64), (n!"common.DepositIndex", uint64), (n!"common.Slot", Slot), (n!"common.Epoch", Epoch),
  (n!"common.PayloadTransactions", PayloadTransactions), (n!"common.Transaction", Transaction),
  (n!"common.ValidatorIndex", ValidatorIndex),
  (n!"common.Version", Version), (n!"common.ForkDigest", ForkDigest), (n!"common.ForkData", ForkData), (n!"common.Fork", Fork),
  (n!"common.NetworkMessageDomain", DomainType),
  (n!"common.WithdrawalIndex", WithdrawalIndex), (n!"common.Withdrawal", Withdrawal), (n!"common.Withdrawals", Withdrawals),
  (n!"common.BLSToExecutionChange", BLSToExecutionChange),
  (n!"common.SignedBLSToExecutionChange", SignedBLSToExecutionChange),
  (n!"common.SignedBLSToExecutionChanges", SignedBLSToExecutionChanges),
  -- helpers: lists over the validator registry / a committee (phase0 `get_beacon_committee` results, balance deltas)
  (n!"common.GweiList", .list Gwei (c n!"VALIDATOR_REGISTRY_LIMIT")),
  (n!"common.Deltas", struct [(n!"rewards", .list Gwei (c n!"VALIDATOR_REGISTRY_LIMIT")),
                            (n!"penalties", .list Gwei (c n!"VALIDATOR_REGISTRY_LIMIT"))]),
  (n!"common.CommitteeIndices", .list ValidatorIndex (c n!"MAX_VALIDATORS_PER_COMMITTEE")),
  (n!"common.SlotCommitteeIndices", .list ValidatorIndex (c n!"MAX_VALIDATORS_PER_COMMITTEE" * c n!"MAX_COMMITTEES_PER_SLOT"))
]

end Zrnt.Schema.Spec
