import Zrnt.Schema.Sym
/-! Consensus-specification SSZ schemas — shared custom types, phase0 containers, networking and
electra request containers (the Go code keeps those in package `common`).

Hand transcription of the published specification documents (consensus-specs: `phase0/beacon-chain.md`,
`phase0/validator.md`, `phase0/p2p-interface.md`, `altair/p2p-interface.md`, `capella/beacon-chain.md`,
`electra/beacon-chain.md`). It does NOT look at the Go source: this is the oracle of C04/C05.
Entries are keyed `<go package>.<go type>` only to name them; the content is the specification's. -/
namespace Zrnt.Schema.Spec
open Zrnt.Schema STy

-- custom types of phase0/beacon-chain.md "Custom types"
def uint8 : STy := .uint 1
def uint64 : STy := .uint 8
def uint256 : STy := .uint 32
def Slot := uint64
def Epoch := uint64
def CommitteeIndex := uint64
def ValidatorIndex := uint64
def Gwei := uint64
def Root : STy := .bytesN 32
def Hash32 : STy := .bytesN 32
def Bytes32 : STy := .bytesN 32
def Version : STy := .bytesN 4
def DomainType : STy := .bytesN 4
def ForkDigest : STy := .bytesN 4
def Domain : STy := .bytesN 32
def BLSPubkey : STy := .bytesN 48
def BLSSignature : STy := .bytesN 96
def ExecutionAddress : STy := .bytesN 20        -- bellatrix
def WithdrawalIndex := uint64                   -- capella
def KZGCommitment : STy := .bytesN 48           -- deneb
def ParticipationFlags := uint8                 -- altair

-- constants of the specification that are not configurable
def DEPOSIT_CONTRACT_TREE_DEPTH : LExpr := 32
def JUSTIFICATION_BITS_LENGTH : LExpr := 4
def ATTESTATION_SUBNET_COUNT : LExpr := 64
def SYNC_COMMITTEE_SUBNET_COUNT : LExpr := 4
def BYTES_PER_LOGS_BLOOM : LExpr := 256
def MAX_EXTRA_DATA_BYTES : LExpr := 32

-- phase0/beacon-chain.md, "Misc dependencies"
def Fork := struct [("previous_version", Version), ("current_version", Version), ("epoch", Epoch)]
def ForkData := struct [("current_version", Version), ("genesis_validators_root", Root)]
def Checkpoint := struct [("epoch", Epoch), ("root", Root)]
def Validator := struct [
  ("pubkey", BLSPubkey), ("withdrawal_credentials", Bytes32), ("effective_balance", Gwei), ("slashed", .bool),
  ("activation_eligibility_epoch", Epoch), ("activation_epoch", Epoch), ("exit_epoch", Epoch),
  ("withdrawable_epoch", Epoch)]
def AttestationData := struct [
  ("slot", Slot), ("index", CommitteeIndex), ("beacon_block_root", Root), ("source", Checkpoint), ("target", Checkpoint)]
def Eth1Data := struct [("deposit_root", Root), ("deposit_count", uint64), ("block_hash", Hash32)]
def DepositMessage := struct [("pubkey", BLSPubkey), ("withdrawal_credentials", Bytes32), ("amount", Gwei)]
def DepositData := struct [
  ("pubkey", BLSPubkey), ("withdrawal_credentials", Bytes32), ("amount", Gwei), ("signature", BLSSignature)]
def BeaconBlockHeader := struct [
  ("slot", Slot), ("proposer_index", ValidatorIndex), ("parent_root", Root), ("state_root", Root), ("body_root", Root)]
def SigningData := struct [("object_root", Root), ("domain", Domain)]
def SignedBeaconBlockHeader := struct [("message", BeaconBlockHeader), ("signature", BLSSignature)]
def DepositProof : STy := .vector Bytes32 (DEPOSIT_CONTRACT_TREE_DEPTH + 1)
def Deposit := struct [("proof", DepositProof), ("data", DepositData)]
def JustificationBits : STy := .bitvector JUSTIFICATION_BITS_LENGTH

-- phase0/p2p-interface.md (+ altair/p2p-interface.md for MetaData)
def ENRForkID := struct [("fork_digest", ForkDigest), ("next_fork_version", Version), ("next_fork_epoch", Epoch)]
def AttnetBits : STy := .bitvector ATTESTATION_SUBNET_COUNT
def SyncnetBits : STy := .bitvector SYNC_COMMITTEE_SUBNET_COUNT
def MetaData := struct [("seq_number", uint64), ("attnets", AttnetBits), ("syncnets", SyncnetBits)]
def Status := struct [
  ("fork_digest", ForkDigest), ("finalized_root", Root), ("finalized_epoch", Epoch), ("head_root", Root), ("head_slot", Slot)]

-- altair/beacon-chain.md
def SyncCommitteePubkeys : STy := .vector BLSPubkey (c "SYNC_COMMITTEE_SIZE")
def SyncCommittee := struct [("pubkeys", SyncCommitteePubkeys), ("aggregate_pubkey", BLSPubkey)]

-- bellatrix/beacon-chain.md
def Transaction : STy := .byteList (c "MAX_BYTES_PER_TRANSACTION")
def PayloadTransactions : STy := .list Transaction (c "MAX_TRANSACTIONS_PER_PAYLOAD")
def LogsBloom : STy := .bytesN BYTES_PER_LOGS_BLOOM
def ExtraData : STy := .byteList MAX_EXTRA_DATA_BYTES

-- capella/beacon-chain.md
def Withdrawal := struct [
  ("index", WithdrawalIndex), ("validator_index", ValidatorIndex), ("address", ExecutionAddress), ("amount", Gwei)]
def Withdrawals : STy := .list Withdrawal (c "MAX_WITHDRAWALS_PER_PAYLOAD")
def BLSToExecutionChange := struct [
  ("validator_index", ValidatorIndex), ("from_bls_pubkey", BLSPubkey), ("to_execution_address", ExecutionAddress)]
def SignedBLSToExecutionChange := struct [("message", BLSToExecutionChange), ("signature", BLSSignature)]
def SignedBLSToExecutionChanges : STy := .list SignedBLSToExecutionChange (c "MAX_BLS_TO_EXECUTION_CHANGES")

-- electra/beacon-chain.md
def DepositRequest := struct [
  ("pubkey", BLSPubkey), ("withdrawal_credentials", Bytes32), ("amount", Gwei), ("signature", BLSSignature),
  ("index", uint64)]
def WithdrawalRequest := struct [
  ("source_address", ExecutionAddress), ("validator_pubkey", BLSPubkey), ("amount", Gwei)]
def ConsolidationRequest := struct [
  ("source_address", ExecutionAddress), ("source_pubkey", BLSPubkey), ("target_pubkey", BLSPubkey)]
def DepositRequests : STy := .list DepositRequest (c "MAX_DEPOSIT_REQUESTS_PER_PAYLOAD")
def WithdrawalRequests : STy := .list WithdrawalRequest (c "MAX_WITHDRAWAL_REQUESTS_PER_PAYLOAD")
def ConsolidationRequests : STy := .list ConsolidationRequest (c "MAX_CONSOLIDATION_REQUESTS_PER_PAYLOAD")
def PendingDeposit := struct [
  ("pubkey", BLSPubkey), ("withdrawal_credentials", Bytes32), ("amount", Gwei), ("signature", BLSSignature),
  ("slot", Slot)]
def PendingPartialWithdrawal := struct [
  ("validator_index", ValidatorIndex), ("amount", Gwei), ("withdrawable_epoch", Epoch)]
def PendingConsolidation := struct [("source_index", ValidatorIndex), ("target_index", ValidatorIndex)]
def PendingDeposits : STy := .list PendingDeposit (c "PENDING_DEPOSITS_LIMIT")
def PendingPartialWithdrawals : STy := .list PendingPartialWithdrawal (c "PENDING_PARTIAL_WITHDRAWALS_LIMIT")
def PendingConsolidations : STy := .list PendingConsolidation (c "PENDING_CONSOLIDATIONS_LIMIT")

/-- Entries of Go package `common`. `helper` marks names that are not containers/aliases of the
specification documents but list wrappers or library helpers whose SSZ type is nevertheless fixed
by how the specification uses them (the field type they stand for). -/
def commonTable : List (String × STy) := [
  ("common.BLSPubkey", BLSPubkey), ("common.BLSSignature", BLSSignature),
  ("common.BLSDomainType", DomainType), ("common.BLSDomain", Domain), ("common.SigningData", SigningData),
  ("common.DepositData", DepositData), ("common.DepositMessage", DepositMessage),
  ("common.DepositProof", DepositProof), ("common.Deposit", Deposit),
  ("common.Eth1Address", ExecutionAddress), ("common.Eth1Data", Eth1Data),
  ("common.ExtraData", ExtraData),
  ("common.CommitteeIndex", CommitteeIndex), ("common.Gwei", Gwei), ("common.Checkpoint", Checkpoint),
  ("common.BeaconBlockHeader", BeaconBlockHeader), ("common.SignedBeaconBlockHeader", SignedBeaconBlockHeader),
  ("common.JustificationBits", JustificationBits),
  ("common.KZGCommitment", KZGCommitment), ("common.LogsBloom", LogsBloom),
  ("common.Eth2Data", ENRForkID), ("common.AttnetBits", AttnetBits), ("common.SyncnetBits", SyncnetBits),
  ("common.SeqNr", uint64), ("common.Ping", uint64), ("common.Pong", uint64),
  ("common.MetaData", MetaData), ("common.Status", Status), ("common.Goodbye", uint64),
  ("common.DepositRequest", DepositRequest), ("common.WithdrawalRequest", WithdrawalRequest),
  ("common.ConsolidationRequest", ConsolidationRequest),
  ("common.DepositRequests", DepositRequests), ("common.WithdrawalRequests", WithdrawalRequests),
  ("common.ConsolidationRequests", ConsolidationRequests),
  ("common.PendingDeposit", PendingDeposit), ("common.PendingPartialWithdrawal", PendingPartialWithdrawal),
  ("common.PendingConsolidation", PendingConsolidation),
  ("common.PendingDeposits", PendingDeposits), ("common.PendingPartialWithdrawals", PendingPartialWithdrawals),
  ("common.PendingConsolidations", PendingConsolidations),
  ("common.SyncCommitteePubkeys", SyncCommitteePubkeys), ("common.SyncCommittee", SyncCommittee),
  ("common.Timestamp", uint64), ("common.DepositIndex", uint64), ("common.Slot", Slot), ("common.Epoch", Epoch),
  ("common.PayloadTransactions", PayloadTransactions), ("common.Transaction", Transaction),
  ("common.ValidatorIndex", ValidatorIndex),
  ("common.Version", Version), ("common.ForkDigest", ForkDigest), ("common.ForkData", ForkData), ("common.Fork", Fork),
  ("common.NetworkMessageDomain", DomainType),
  ("common.WithdrawalIndex", WithdrawalIndex), ("common.Withdrawal", Withdrawal), ("common.Withdrawals", Withdrawals),
  ("common.BLSToExecutionChange", BLSToExecutionChange),
  ("common.SignedBLSToExecutionChange", SignedBLSToExecutionChange),
  ("common.SignedBLSToExecutionChanges", SignedBLSToExecutionChanges),
  -- helpers: lists over the validator registry / a committee (phase0 `get_beacon_committee` results, balance deltas)
  ("common.GweiList", .list Gwei (c "VALIDATOR_REGISTRY_LIMIT")),
  ("common.Deltas", struct [("rewards", .list Gwei (c "VALIDATOR_REGISTRY_LIMIT")),
                            ("penalties", .list Gwei (c "VALIDATOR_REGISTRY_LIMIT"))]),
  ("common.CommitteeIndices", .list ValidatorIndex (c "MAX_VALIDATORS_PER_COMMITTEE")),
  ("common.SlotCommitteeIndices", .list ValidatorIndex (c "MAX_VALIDATORS_PER_COMMITTEE" * c "MAX_COMMITTEES_PER_SLOT"))
]

end Zrnt.Schema.Spec
