import Zrnt.Schema.Facts
import Zrnt.SSZ.Impl
/-! Denotation of the recognised method-body shapes: what the Go method computes, in terms of the models of the
ztyp combinators (`Zrnt.SSZ.Impl`) applied to the implementations of the field / element types.
`Proofs.Properties.C04.checkType_sound_*` relate it to the generic specification. -/
namespace Zrnt.Schema.Facts
open Zrnt.SSZ

/-- what a hand-written merkleization computes: `copy` of the slices into zeroed roots, combined with the hash function -/
def htEval (H : Hash2) (bs : Bytes) : HT → Chunk
  | .leaf lo hi => padTo32 ((bs.drop lo).take (hi - lo))
  | .zero => zeroChunk
  | .node l r => H (htEval H bs l) (htEval H bs r)

/-- the implementation of every Go type, by (package-qualified) name -/
abbrev Env := Name → Impl

/-- the arguments of a `Container(...)`-style call name exactly the struct's fields in declaration order -/
def fieldImpls (env : Env) (fields : List GoField) (args : List Name) : Option (List Impl) :=
  if args == fields.map (·.name) then some (fields.map fun f => env f.goType) else none

/-- value of a length-report body (`return <arithmetic>` / `return XType.TypeByteLength()`) under a configuration -/
def denoteLen (c : Config) (owners : Owners) (views : List ViewDef) : Method → Option Nat
  | .const e => some (e.eval c)
  | .constA a => (a.toLExpr owners views).map (·.eval c)
  | .typeByteLength v =>
    -- ztyp: the fixed byte length of the view type, 0 when it is not fixed-size
    (viewSTy owners views viewFuel v).map fun t => ((fixedLenS t).map (·.eval c)).getD 0
  | _ => none

def sumBlen : List Impl → List Val → Nat
  | f :: fs, v :: vs => f.blen v + sumBlen fs vs
  | _, _ => 0

def structSer (env : Env) (fields : List GoField) : Method → Option (Val → Bytes)
  | .fields v args =>
    (fieldImpls env fields args).bind fun is =>
      if v == n!"Container" then some (containerSer is)
      else if v == n!"FixedLenContainer" then some (fixedContainerSer is) else none
  | _ => none

def structDes (env : Env) (fields : List GoField) : Method → Option (Bytes → Option Val)
  | .fields v args =>
    (fieldImpls env fields args).bind fun is =>
      if v == n!"Container" then some (containerDes is)
      else if v == n!"FixedLenContainer" then some (fixedContainerDes is) else none
  | _ => none

def offsetsPlusLens (k : Nat) (is : List Impl) : Val → Nat
  | .seq vs => 4 * k + sumBlen is vs
  | _ => 0

def structBlen (c : Config) (owners : Owners) (views : List ViewDef) (env : Env) (fields : List GoField) :
    Method → Option (Val → Nat)
  | .fields v args =>
    (fieldImpls env fields args).bind fun is => if v == n!"ContainerLength" then some (containerLength is) else none
  | .fieldSum k args => (fieldImpls env fields args).map fun is => offsetsPlusLens k is
  | m => (denoteLen c owners views m).map fun n => fun _ => n

def structFlen (c : Config) (owners : Owners) (views : List ViewDef) (env : Env) (fields : List GoField) :
    Method → Option Nat
  | .fields v args =>
    (fieldImpls env fields args).bind fun is => if v == n!"ContainerLength" then some (is.map (·.flen)).sum else none
  | m => denoteLen c owners views m

def structRoot (H : Hash2) (env : Env) (fields : List GoField) : Method → Option (Val → Chunk)
  | .fields v args =>
    (fieldImpls env fields args).bind fun is => if v == n!"HashTreeRoot" then some (fieldsRoot H is) else none
  | _ => none

/-- denotation of the four encoding methods of a struct type (the root is `structRoot`, apart) -/
def denoteStructCodec (c : Config) (owners : Owners) (views : List ViewDef) (env : Env)
    (fields : List GoField) (T : GoType) : Option Codec :=
  match structSer env fields T.serialize, structDes env fields T.deserialize,
    structBlen c owners views env fields T.byteLength, structFlen c owners views env fields T.fixedLength with
  | some s, some d, some b, some f => some ⟨s, d, b, f⟩
  | _, _, _, _ => none

/-- size argument of a `List`/`Vector` call under a configuration -/
def denoteSize (c : Config) (owners : Owners) (views : List ViewDef) : Option SizeE → Option Nat
  | some (.lit n) => some n
  | some (.typeByteLength v) =>
    (viewSTy owners views viewFuel v).map fun t => ((fixedLenS t).map (·.eval c)).getD 0
  | _ => none

def listSer (c : Config) (owners : Owners) (views : List ViewDef) (e : Impl) : Method → Option (Val → Bytes)
  | .list _ size _ => (denoteSize c owners views size).map fun s => seqSer e s
  | _ => none

def listDesM (c : Config) (owners : Owners) (views : List ViewDef) (e : Impl) : Method → Option (Bytes → Option Val)
  | .list _ size (some lim) => (denoteSize c owners views size).map fun s => listDes e s (lim.eval c)
  | _ => none

def lenTimesFn (s : Nat) : Val → Nat
  | .seq vs => vs.length * s
  | _ => 0

def sumOffsetsFn (e : Impl) : Val → Nat
  | .seq vs => (vs.map fun v => 4 + e.blen v).sum
  | _ => 0

def listBlen (c : Config) (owners : Owners) (views : List ViewDef) (e : Impl) : Method → Option (Val → Nat)
  | .lenTimes size => (denoteSize c owners views (some size)).map lenTimesFn
  | .sumOffsets => some (sumOffsetsFn e)
  | _ => none

def listRoot (H : Hash2) (c : Config) (e : Impl) : Method → Option (Val → Chunk)
  | .list v _ (some lim) =>
    if v == n!"ComplexListHTR" then some (complexListRoot H e (lim.eval c))
    else if v == n!"Uint64ListHTR" then some (uintListRoot H e 8 (lim.eval c))
    else if v == n!"Uint8ListHTR" then some (uintListRoot H e 1 (lim.eval c))
    else none
  | _ => none

/-- denotation of the encoding methods of a list wrapper type (`type Xs []X`) over the implementation `e` of its element type (root: `listRoot`) -/
def denoteListCodec (c : Config) (owners : Owners) (views : List ViewDef) (e : Impl) (T : GoType) : Option Codec :=
  match listSer c owners views e T.serialize, listDesM c owners views e T.deserialize,
    listBlen c owners views e T.byteLength, denoteLen c owners views T.fixedLength with
  | some s, some d, some b, some f => some ⟨s, d, b, f⟩
  | _, _, _, _ => none

/-! ### vector wrapper types (`type RandaoMixes []Root`, `type DepositProof [33]Root`) -/

def vecSer (c : Config) (owners : Owners) (views : List ViewDef) (e : Impl) : Method → Option (Val → Bytes)
  | .vector _ size _ => (denoteSize c owners views size).map fun s => seqSer e s
  | .list _ size _ => (denoteSize c owners views size).map fun s => seqSer e s   -- `tree.WriteRoots(w, a)`
  | _ => none

def vecDes (c : Config) (owners : Owners) (views : List ViewDef) (e : Impl) : Method → Option (Bytes → Option Val)
  | .vector _ size (some len) => (denoteSize c owners views size).map fun s => vectorDes e s (len.eval c)
  | _ => none

def vecBlen (c : Config) (owners : Owners) (views : List ViewDef) : Method → Option (Val → Nat)
  | .lenTimes size => (denoteSize c owners views (some size)).map lenTimesFn
  | m => (denoteLen c owners views m).map fun n => fun _ => n

/-- the merkleization helpers with the length taken from the receiver (`len(a)`) -/
def complexVectorRootLen (H : Hash2) (e : Impl) : Val → Chunk
  | .seq vs => merkleize H (vs.map e.root) (ceilLog2 vs.length)
  | _ => zeroChunk

def uintVectorRootLen (H : Hash2) (e : Impl) (k : Nat) : Val → Chunk
  | .seq vs => merkleize H (pack (vs.map e.ser).flatten) (ceilLog2 (chunkCount vs.length k))
  | _ => zeroChunk

def vecRoot (H : Hash2) (c : Config) (e : Impl) : Method → Option (Val → Chunk)
  | .vector v _ len =>
    if v == n!"ComplexVectorHTR" || v == n!"ChunksHTR" then
      some (match len with
        | some l => complexVectorRoot H e (l.eval c)
        | none => complexVectorRootLen H e)
    else if v == n!"Uint64VectorHTR" then
      some (match len with
        | some l => uintVectorRoot H e 8 (l.eval c)
        | none => uintVectorRootLen H e 8)
    else none
  | _ => none

/-- denotation of the encoding methods of a vector wrapper type over the implementation `e` of its element type (root: `vecRoot`) -/
def denoteVectorCodec (c : Config) (owners : Owners) (views : List ViewDef) (e : Impl) (T : GoType) : Option Codec :=
  match vecSer c owners views e T.serialize, vecDes c owners views e T.deserialize,
    vecBlen c owners views T.byteLength, denoteLen c owners views T.fixedLength with
  | some s, some d, some b, some f => some ⟨s, d, b, f⟩
  | _, _, _, _ => none

/-! ### leaf and bitfield rows: functions of the raw representation -/

def leafDes (c : Config) : Method → Option (Bytes → Option Bytes)
  | .raw v n k =>
    if v == n!"ReadAll" then some (goReadExact n)
    else if v == n!"ReadPadChecked" then some (goReadBitVector (8 * (n - 1) + k))
    else none
  | .basic v k => if v == n!"ViewDeserialize" then some (goReadExact k) else none
  | .bits v (some lim) =>
    if v == n!"BitVector" then some (goReadBitVector (lim.eval c))
    else if v == n!"ReadBitList" then some (fun bs => if goReadBitList (lim.eval c) bs then some bs else none)
    else if v == n!"ByteList" then some (goReadByteList (lim.eval c))
    else none
  | _ => none

/-- every recognised serializer of a leaf writes the raw bytes as they are (`w.Write`, `w.WriteUint64`, `w.BitVector`,
`w.BitList`; the latter two return an error instead for raw bytes that are no bitfield at all) -/
def leafSer : Method → Option (Bytes → Bytes)
  | .raw v _ _ => if v == n!"Write" then some id else none
  | .basic v _ => if v == n!"WriteUint" then some id else none
  | .bits v _ => if v == n!"Write" || v == n!"BitVector" || v == n!"BitList" then some id else none
  | _ => none

def leafBlen (c : Config) (owners : Owners) (views : List ViewDef) : Method → Option (Bytes → Nat)
  | .len => some List.length
  | m => (denoteLen c owners views m).map fun n => fun _ => n

def leafRoot (H : Hash2) (c : Config) : Method → Option (Bytes → Chunk)
  | .htrTree _ t => some fun raw => htEval H raw t
  | .basic v _ => if v == n!"ViewHashTreeRoot" then some padTo32 else none
  | .bits v lim =>
    if v == n!"BitVectorHTR" then some (goBytesRoot H)
    else match lim with
      | some l =>
        if v == n!"BitListHTR" then some (goBitListRoot H (l.eval c))
        else if v == n!"ByteListHTR" then some (goByteListRoot H (l.eval c))
        else none
      | none => none
  | _ => none

/-- denotation of a leaf / bitfield type's four encoding methods (root: `leafRoot`) -/
def denoteLeafCodec (c : Config) (owners : Owners) (views : List ViewDef) (T : GoType) : Option LeafCodec :=
  match leafDes c T.deserialize, leafSer T.serialize, leafBlen c owners views T.byteLength,
    denoteLen c owners views T.fixedLength with
  | some d, some s, some b, some f => some ⟨d, s, b, f⟩
  | _, _, _, _ => none

end Zrnt.Schema.Facts
