/-! Line-protocol loops for `zmodel`: one input line in, one output line out. -/
namespace Zrnt.Driver

structure Mode where
  name : String
  run : IO.FS.Stream → IO.FS.Stream → IO Unit

partial def statelessLoop (f : String → String) (i o : IO.FS.Stream) : IO Unit := do
  let line ← i.getLine
  if line.isEmpty then o.flush; return ()
  o.putStrLn (f line.trimAscii.toString)
  statelessLoop f i o

/-- A stateful loop. The line `reset` re-initialises the state (and is answered by `reset`). -/
partial def statefulLoop {σ : Type} (init : σ) (step : σ → String → σ × String)
    (i o : IO.FS.Stream) : IO Unit :=
  go init
where
  go (s : σ) : IO Unit := do
    let line ← i.getLine
    if line.isEmpty then o.flush; return ()
    let l := line.trimAscii.toString
    if l = "reset" then
      o.putStrLn "reset"
      go init
    else
      let (s', out) := step s l
      o.putStrLn out
      go s'

def stateless (name : String) (f : String → String) : Mode := ⟨name, statelessLoop f⟩
def stateful {σ : Type} (name : String) (init : σ) (step : σ → String → σ × String) : Mode :=
  ⟨name, statefulLoop init step⟩

end Zrnt.Driver
