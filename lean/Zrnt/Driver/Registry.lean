import Zrnt.Driver.Loop
import Zrnt.Util.C19Driver
import Zrnt.PubkeyCache.Driver
import Zrnt.Pool.Driver
import Zrnt.Config.C14Driver
import Zrnt.State.C15Driver
import Zrnt.Fault.Driver
import Zrnt.Beacon.C02Driver
import Zrnt.Beacon.BlockDriver
import Zrnt.Beacon.BlockPiecesDriver
import Zrnt.Beacon.GenesisDriver
import Zrnt.Beacon.CtxDriver
import Zrnt.Gossip.Driver
import Zrnt.SSZ.Driver
import Zrnt.Shuffle.Driver
import Zrnt.Beacon.CommitteesDriver
import Zrnt.Beacon.CommitteesChain
import Zrnt.ForkChoice.Driver
/-! Registry of `zmodel` modes. One line per component: `import` above, entry in `modes` below. -/
namespace Zrnt.Driver

def modes : List Mode := [
  Zrnt.ForkChoice.Driver.fc09Mode, Zrnt.ForkChoice.Driver.fc10Mode, Zrnt.ForkChoice.Driver.fc11Mode,
  Zrnt.Util.c19Mode,
  Zrnt.PubkeyCache.c16Mode,
  Zrnt.Pool.Driver.c20Mode,
  Zrnt.Config.c14Mode,
  Zrnt.State.c15Mode,
  Zrnt.Fault.c18Mode,
  Zrnt.Beacon.c02Mode,
  Zrnt.Beacon.Block.c01Mode, Zrnt.Beacon.Block.c03Mode, Zrnt.Beacon.Block.blockWhyMode, Zrnt.Beacon.BlockPieces.piecesMode,
  Zrnt.Beacon.Genesis.c13Mode,
  Zrnt.Beacon.Ctx.c08Mode,
  Zrnt.Gossip.Driver.c12Mode,
  Zrnt.SSZ.Driver.sszMode,
  Zrnt.SSZ.Driver.sszStateMode,
  Zrnt.Shuffle.shuffleMode,
  Zrnt.Beacon.Committees.committeesMode,
  Zrnt.Beacon.Committees.chainMode
]

def run (args : List String) : IO UInt32 := do
  match args with
  | [m] =>
    match modes.find? (·.name = m) with
    | some mode =>
      mode.run (← IO.getStdin) (← IO.getStdout)
      return 0
    | none => IO.eprintln s!"zmodel: unknown mode {m}"; return 2
  | _ =>
    IO.eprintln ("usage: zmodel <mode>   modes: " ++ " ".intercalate (modes.map (·.name)))
    return 2

end Zrnt.Driver
