/-!
# Monitor: interleaving semantics of threads calling operations of one lock-guarded object (C17)

A shared object has a state `σ` and one mutex / RW-mutex. Each thread performs one call; its code is a list
of instructions `acq m | rel | act a`, where an `act` is one access to a guarded field: it reads the shared
state and the thread's local state and produces new ones. A configuration is the shared state, the lock
(one writer or a multiset of readers), the threads (remaining code + local state) and, as a ghost, the order
in which the threads acquired the lock. One step = one instruction of one thread:

* `acq w` is enabled when nobody holds the lock, `acq r` when no writer holds it (readers share). The lock is
  NOT re-entrant (as in Go): a thread that executes `acq` while it holds the lock itself is not enabled.
* `rel` is enabled for a holder; `act` is always enabled (nothing in the semantics forces an access to be
  inside a critical section — that is a premise, `WellFormed`, not a built-in).

The sequential specification runs the whole code of one thread atomically (`execAtomic`).
Writer preference of Go's `RWMutex` (a blocked writer blocks later readers) is not modelled: it only
removes interleavings and adds no blocking to well-formed code, where no thread acquires twice.
Core Lean only.
-/
namespace Zrnt.Conc.Monitor

inductive Mode | r | w
  deriving DecidableEq, Repr

/-- one access to a guarded field -/
structure Act (σ ℓ : Type) where
  field : Nat
  write : Bool
  run : σ → ℓ → σ × ℓ

inductive Instr (σ ℓ : Type)
  | acq (m : Mode)
  | rel
  | act (a : Act σ ℓ)

abbrev Code (σ ℓ : Type) := List (Instr σ ℓ)

structure Thread (σ ℓ : Type) where
  code : Code σ ℓ
  loc : ℓ

structure Lock where
  writer : Option Nat
  readers : List Nat
  deriving DecidableEq, Repr

def Lock.free : Lock := ⟨none, []⟩

def Lock.holds (l : Lock) (i : Nat) : Prop := l.writer = some i ∨ i ∈ l.readers

instance (l : Lock) (i : Nat) : Decidable (l.holds i) := by unfold Lock.holds; exact inferInstance

structure Config (σ ℓ : Type) where
  sh : σ
  lock : Lock
  ths : Nat → Thread σ ℓ
  /-- ghost: thread ids in the order of their acquisitions -/
  order : List Nat

/-- replace thread `i` -/
def upd {α : Type} (f : Nat → α) (i : Nat) (x : α) : Nat → α := fun j => if j = i then x else f j

@[simp] theorem upd_same {α : Type} (f : Nat → α) (i : Nat) (x : α) : upd f i x i = x := by simp [upd]
theorem upd_other {α : Type} (f : Nat → α) {i j : Nat} (x : α) (h : j ≠ i) : upd f i x j = f j := by simp [upd, h]

/-- one instruction of thread `i`, if enabled -/
def step? {σ ℓ : Type} (c : Config σ ℓ) (i : Nat) : Option (Config σ ℓ) :=
  match (c.ths i).code with
  | [] => none
  | .acq .w :: rest =>
    if c.lock.writer = none ∧ c.lock.readers = [] then
      some { c with lock := ⟨some i, []⟩, ths := upd c.ths i ⟨rest, (c.ths i).loc⟩, order := c.order ++ [i] }
    else none
  | .acq .r :: rest =>
    if c.lock.writer = none then
      some { c with lock := ⟨none, i :: c.lock.readers⟩, ths := upd c.ths i ⟨rest, (c.ths i).loc⟩, order := c.order ++ [i] }
    else none
  | .rel :: rest =>
    if c.lock.writer = some i then
      some { c with lock := ⟨none, c.lock.readers⟩, ths := upd c.ths i ⟨rest, (c.ths i).loc⟩ }
    else if i ∈ c.lock.readers then
      some { c with lock := ⟨c.lock.writer, c.lock.readers.erase i⟩, ths := upd c.ths i ⟨rest, (c.ths i).loc⟩ }
    else none
  | .act a :: rest =>
    let r := a.run c.sh (c.ths i).loc
    some { c with sh := r.1, ths := upd c.ths i ⟨rest, r.2⟩ }

def Step {σ ℓ : Type} (c c' : Config σ ℓ) : Prop := ∃ i, step? c i = some c'

/-- reflexive-transitive closure of `Step` (executions) -/
inductive Reach {σ ℓ : Type} : Config σ ℓ → Config σ ℓ → Prop
  | refl (c) : Reach c c
  | tail {a b c} : Reach a b → Step b c → Reach a c

theorem Reach.trans {σ ℓ : Type} {a b c : Config σ ℓ} (h1 : Reach a b) (h2 : Reach b c) : Reach a c := by
  induction h2 with
  | refl => exact h1
  | tail _ s ih => exact .tail ih s

/-- follow a schedule (a list of thread ids); `none` when some scheduled thread is not enabled -/
def runSchedule {σ ℓ : Type} : List Nat → Config σ ℓ → Option (Config σ ℓ)
  | [], c => some c
  | i :: s, c => match step? c i with
    | some c' => runSchedule s c'
    | none => none

theorem runSchedule_reach {σ ℓ : Type} : ∀ (s : List Nat) (c c' : Config σ ℓ), runSchedule s c = some c' → Reach c c'
  | [], c, c', h => by simp [runSchedule] at h; subst h; exact .refl _
  | i :: s, c, c', h => by
    simp only [runSchedule] at h
    cases hs : step? c i with
    | none => simp [hs] at h
    | some c1 =>
      simp only [hs] at h
      have h1 : Reach c c1 := .tail (.refl _) ⟨i, hs⟩
      exact h1.trans (runSchedule_reach s c1 c' h)

def init {σ ℓ : Type} (s0 : σ) (sys : Nat → Thread σ ℓ) : Config σ ℓ := ⟨s0, Lock.free, sys, []⟩

def allDone {σ ℓ : Type} (c : Config σ ℓ) : Prop := ∀ i, (c.ths i).code = []

/-- the next instruction of thread `i` is an access -/
def nextAct {σ ℓ : Type} (c : Config σ ℓ) (i : Nat) : Option (Act σ ℓ) :=
  match (c.ths i).code with
  | .act a :: _ => some a
  | _ => none

/-- a data race: two different threads are both about to access the same field, at least one writing, and
nothing orders them (both accesses are enabled in the same configuration) -/
def Race {σ ℓ : Type} (c : Config σ ℓ) : Prop :=
  ∃ i j a b, i ≠ j ∧ nextAct c i = some a ∧ nextAct c j = some b ∧ a.field = b.field ∧ (a.write = true ∨ b.write = true)

/-! ## Sequential specification -/

/-- run the accesses of a code fragment on (shared, local), ignoring lock instructions -/
def runActs {σ ℓ : Type} : Code σ ℓ → σ × ℓ → σ × ℓ
  | [], p => p
  | .act a :: rest, p => runActs rest (a.run p.1 p.2)
  | _ :: rest, p => runActs rest p

/-- the whole call of thread `i` executed atomically -/
def execAtomic {σ ℓ : Type} (p : σ × (Nat → Thread σ ℓ)) (i : Nat) : σ × (Nat → Thread σ ℓ) :=
  let r := runActs (p.2 i).code (p.1, (p.2 i).loc)
  (r.1, upd p.2 i ⟨[], r.2⟩)

/-- the calls executed one after the other in the given order -/
def seqExec {σ ℓ : Type} (order : List Nat) (p : σ × (Nat → Thread σ ℓ)) : σ × (Nat → Thread σ ℓ) :=
  order.foldl execAtomic p

/-! ## The premises -/

/-- the write flag of an access is honest: an access not flagged as a write leaves the shared state alone -/
def Act.honest {σ ℓ : Type} (a : Act σ ℓ) : Prop := a.write = false → ∀ s l, (a.run s l).1 = s

/-- `acts m body`: the accesses of a critical section in mode `m`: flags honest, and a read-locked body writes nothing -/
def BodyOk {σ ℓ : Type} (m : Mode) (body : List (Act σ ℓ)) : Prop :=
  (∀ a ∈ body, a.honest) ∧ (m = .r → ∀ a ∈ body, a.write = false)

/-- the code of an exported operation: empty (touches no guarded state), or exactly ONE critical section
`acq m; accesses…; rel` — so the body is finite (terminates), contains no `acq` (does not re-acquire), all
accesses are inside the section, and a read-locked body writes nothing. -/
def WellFormed {σ ℓ : Type} (code : Code σ ℓ) : Prop :=
  code = [] ∨ ∃ m body, code = .acq m :: (body.map .act ++ [.rel]) ∧ BodyOk m body

/-- number of instructions still to run in threads `0..n-1` -/
def remaining {σ ℓ : Type} (n : Nat) (c : Config σ ℓ) : Nat :=
  ((List.range n).map (fun i => (c.ths i).code.length)).sum

end Zrnt.Conc.Monitor
