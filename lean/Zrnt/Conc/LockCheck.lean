import Zrnt.Conc.LockTypes
/-!
# Lock discipline predicates over the regenerated lock facts (C17)

Closure over the direct facts of `Zrnt.Gen.LockFacts` (transitive accesses through same-receiver calls,
methods reached while the lock is held, purity of the implementation behind an interface field) and the
five discipline predicates, each the syntactic counterpart of a premise of `monitor_linearizable` /
`monitor_race_free` (Zrnt/Conc/Monitor.lean):

* `noReentry`       — while holding the receiver's lock the call never reaches an acquire of that lock
                      (`Monitor.WellFormed`: the body contains no `acq`);
* `guardedAccess`   — every access to a field that some method writes happens with the lock held
                      (`Monitor.WellFormed`: all acts lie between `acq` and `rel`);
* `readersPure`     — nothing is written while the lock is only read-held;
* `singleSection`   — an exported method is at most one critical section, released on every path;
* `noHandout`       — no exported method returns an alias of guarded memory that is written in place, nor keeps
                      using one after it released the lock (`Handout.escape`);
* `crossInstanceLocked` — a method called on another instance of the type (`pc.parent.…`) locks that instance.

All functions are total and evaluated by `decide` on each regenerated row. Core Lean only.
-/
namespace Zrnt.Conc

def getT (all : List TypeFacts) (ti : Nat) : TypeFacts := all.getD ti default
def getM (t : TypeFacts) (mi : Nat) : Method := t.methods.getD mi default

/-- effective lock state of something that happens inside a callee entered in state `outer` -/
def eff (outer inner : Held) : Held := if inner = .n then outer else inner

/-- fuel that suffices for every closure below: one more than the number of methods of the type
(any longer call path repeats a method) -/
def fuelOf (t : TypeFacts) : Nat := t.methods.length + 1

/-- does the method (transitively through same-receiver calls) acquire the receiver's lock? -/
def acquires (t : TypeFacts) : Nat → Nat → Bool
  | 0, _ => false
  | fuel + 1, mi =>
    let m := getM t mi
    !m.sections.isEmpty || m.calls.any (fun c => c.via == .own && acquires t fuel c.callee)

/-- does a method of an implementation type write receiver state (transitively)? -/
def implWrites (t : TypeFacts) : Nat → Nat → Bool
  | 0, _ => true
  | fuel + 1, mi =>
    let m := getM t mi
    m.acc.any (·.write) || m.calls.any (fun c => c.via == .own && implWrites t fuel c.callee)

/-- an access with its effective lock state -/
structure EAcc where
  field : Option Nat
  write : Bool
  depth : Nat
  held : Held
  line : Nat
  deriving Repr, Inhabited

/-- all accesses performed by one call of method `mi` entered in lock state `outer`: its own, those of
same-receiver callees, and one access per call through an interface field (a write iff the implementation
method writes its own state). Calls on other objects (`parent`, `fresh`) touch other objects. -/
def effAcc (all : List TypeFacts) (t : TypeFacts) : Nat → Nat → Held → List EAcc
  | 0, _, _ => []
  | fuel + 1, mi, outer =>
    let m := getM t mi
    m.acc.map (fun a => { field := a.field, write := a.write, depth := a.depth, held := eff outer a.held, line := a.line }) ++
    m.calls.flatMap (fun c =>
      match c.via with
      | .own => effAcc all t fuel c.callee (eff outer c.held)
      | .impl =>
        let it := getT all c.type
        [{ field := c.field, write := implWrites it (fuelOf it) c.callee, depth := 1, held := eff outer c.held, line := c.line }]
      | _ => [])

/-- accesses of every method of the type, each entered without the lock (used to decide which fields are guarded) -/
def allAcc (all : List TypeFacts) (t : TypeFacts) : List EAcc :=
  (List.range t.methods.length).flatMap (fun mi => effAcc all t 1 mi .n)

/-- a field is *guarded* when some (non-constructor) method writes it or its content; receiver state of
unknown origin (`none`) always is -/
def guarded (all : List TypeFacts) (t : TypeFacts) : Option Nat → Bool
  | none => true
  | some f => (allAcc all t).any (fun a => a.write && (a.field == some f || a.field == none))

/-- methods entered while the lock is held (effective state ≠ n), transitively -/
def heldCallees (t : TypeFacts) : Nat → Nat → Held → List Nat
  | 0, _, _ => []
  | fuel + 1, mi, outer =>
    (getM t mi).calls.flatMap (fun c =>
      if c.via == .own then
        let h := eff outer c.held
        (if h ≠ .n then [c.callee] else []) ++ heldCallees t fuel c.callee h
      else [])

/-- does a method (of a child object) reach, through `parent` calls, a locking method of its parent? -/
def locksParent (t : TypeFacts) : Nat → Nat → Bool
  | 0, _ => false
  | fuel + 1, mi =>
    (getM t mi).calls.any (fun c =>
      (c.via == .parent && acquires t (fuelOf t) c.callee) ||
      ((c.via == .own || c.via == .fresh) && locksParent t fuel c.callee))

/-- calls on a fresh child object made while the receiver's lock is held -/
def heldFreshCallees (t : TypeFacts) : Nat → Nat → Held → List Nat
  | 0, _, _ => []
  | fuel + 1, mi, outer =>
    (getM t mi).calls.flatMap (fun c =>
      let h := eff outer c.held
      if c.via == .fresh then (if h ≠ .n then [c.callee] else [])
      else if c.via == .own then heldFreshCallees t fuel c.callee h
      else [])

/-- methods called on ANOTHER instance of the same type (the `parent` object, a `fresh` child), reached from
`mi` through same-receiver calls, whatever lock of the calling receiver is held -/
def crossCallees (t : TypeFacts) : Nat → Nat → List Nat
  | 0, _ => []
  | fuel + 1, mi =>
    (getM t mi).calls.flatMap (fun c =>
      if c.via == .parent || c.via == .fresh then [c.callee]
      else if c.via == .own then crossCallees t fuel c.callee
      else [])

/-- The lock of the calling receiver does not protect another instance: a method invoked on another instance
must take THAT instance's lock itself around every access to its guarded fields — i.e. entered without the
lock, all its guarded accesses are lock-held (an `unsafe*` helper called on `pc.parent` is not). -/
def crossInstanceLocked (all : List TypeFacts) (t : TypeFacts) (mi : Nat) : Bool :=
  (crossCallees t (fuelOf t) mi).all (fun k =>
    (effAcc all t (fuelOf t) k .n).all (fun a => !(guarded all t a.field) || a.held != .n))

def noReentry (t : TypeFacts) (mi : Nat) : Bool :=
  let m := getM t mi
  m.sections.all (fun s => !s.nested) &&
  (heldCallees t (fuelOf t) mi .n).all (fun k => !(acquires t (fuelOf t) k)) &&
  (heldFreshCallees t (fuelOf t) mi .n).all (fun k => !(locksParent t (fuelOf t) k))

def guardedAccess (all : List TypeFacts) (t : TypeFacts) (mi : Nat) : Bool :=
  (effAcc all t (fuelOf t) mi .n).all (fun a => !(guarded all t a.field) || a.held != .n)

def readersPure (all : List TypeFacts) (t : TypeFacts) (mi : Nat) : Bool :=
  (effAcc all t (fuelOf t) mi .n).all (fun a => !a.write || a.held != .r)

/-- modes of the critical sections on the receiver's lock that one call executes (own sections, then those
of same-receiver callees entered without the lock; a static upper bound). An acquire reached while the lock
is already held is a re-entry (`noReentry`), not a further section. -/
def sectionModes (t : TypeFacts) : Nat → Nat → List Held
  | 0, _ => [.w, .w]
  | fuel + 1, mi =>
    let m := getM t mi
    m.sections.map (·.mode) ++
      m.calls.flatMap (fun c => if c.via == .own && c.held == .n then sectionModes t fuel c.callee else [])

def sectionCount (t : TypeFacts) (fuel mi : Nat) : Nat := (sectionModes t fuel mi).length

def releasesOk (t : TypeFacts) : Nat → Nat → Bool
  | 0, _ => false
  | fuel + 1, mi =>
    let m := getM t mi
    m.sections.all (fun s => s.release != .leak) &&
    m.calls.all (fun c => c.via != .own || releasesOk t fuel c.callee)

def singleSection (t : TypeFacts) (mi : Nat) : Bool :=
  sectionCount t (fuelOf t) mi ≤ 1 && releasesOk t (fuelOf t) mi

/-- aliases of receiver memory returned by one call: its own and those of same-receiver callees whose
result it returns -/
def effHandouts (t : TypeFacts) : Nat → Nat → List Handout
  | 0, _ => []
  | fuel + 1, mi =>
    let m := getM t mi
    m.handouts ++ m.calls.flatMap (fun c => if c.via == .own && c.ret then effHandouts t fuel c.callee else [])

def isRef : FieldKind → Bool
  | .ptr | .slice | .map | .iface => true
  | _ => false

/-- is the handed-out alias harmless? -/
def handoutOk (all : List TypeFacts) (t : TypeFacts) (h : Handout) : Bool :=
  let f := t.fields.getD h.field default
  let acc := allAcc all t
  let written (minDepth : Nat) := acc.any (fun a => a.write && a.depth ≥ minDepth && (a.field == some h.field || a.field == none))
  match h.kind with
  | .addr => !(guarded all t (some h.field))
  | .whole =>
    match f.kind with
    | .ptr => !(written 1)                       -- the pointee is never written in place: replaced wholesale only
    | .slice | .map | .iface => !(guarded all t (some h.field))
    | _ => true
  | .elem => !(isRef f.elemKind) || f.elemShared || !(written 2)

def noHandout (all : List TypeFacts) (t : TypeFacts) (mi : Nat) : Bool :=
  (effHandouts t (fuelOf t) mi).all (handoutOk all t)

/-- accesses of one call to guarded fields, with effective lock states -/
def guardedAccs (all : List TypeFacts) (t : TypeFacts) (mi : Nat) : List EAcc :=
  (effAcc all t (fuelOf t) mi .n).filter (fun a => guarded all t a.field)

/-- the facts of a row are self-consistent: accesses labelled "lock held" carry the mode of the call's first
critical section (a sanity condition on the extractor's output, needed to read a row as monitor code) -/
def factsConsistent (all : List TypeFacts) (t : TypeFacts) (mi : Nat) : Bool :=
  ((guardedAccs all t mi).filter (fun a => a.held != .n)).all
    (fun a => (sectionModes t (fuelOf t) mi).head? == some a.held)

/-- the discipline of one method. Unexported helpers are judged inside their exported callers (through the
closures above); on their own they only must not leak or nest a section. -/
def methodOkT (all : List TypeFacts) (t : TypeFacts) (mi : Nat) : Bool :=
  let m := getM t mi
  if m.exported then
    noReentry t mi && guardedAccess all t mi && readersPure all t mi && singleSection t mi && noHandout all t mi &&
      factsConsistent all t mi && crossInstanceLocked all t mi
  else
    m.sections.all (fun s => !s.nested && s.release != .leak)

def methodOk (all : List TypeFacts) (ti mi : Nat) : Bool := methodOkT all (getT all ti) mi

/-- (type index, method index) of every method of every shared type, in table order -/
def sharedRows (all : List TypeFacts) : List (Nat × Nat) :=
  (List.range all.length).flatMap (fun ti =>
    let t := getT all ti
    if t.role == .shared then (List.range t.methods.length).map (fun mi => (ti, mi)) else [])

/-! ## Reporting: which predicate fails on which row, and the schedule the Monitor model derives from it -/

def fieldName (t : TypeFacts) : Option Nat → String
  | none => "?"
  | some f => (t.fields.getD f default).name

structure Failure where
  type : String
  method : String
  theorem_ : String
  /-- schedule kind: `deadlock` (one call re-acquires), `race` (two calls, conflicting accesses to `field`),
  `nonlin` (two-section operation interleaved with `other`), `handout` (alias used while `other` writes) -/
  kind : String
  field : String
  other : String
  line : Nat
  deriving Repr

/-- some method of `t` that writes field `f` (for the race partner), preferring exported ones -/
def writerOf (all : List TypeFacts) (t : TypeFacts) (f : Option Nat) : String :=
  let cands := (List.range t.methods.length).filter (fun mi =>
    (getM t mi).exported && (effAcc all t (fuelOf t) mi .n).any (fun a => a.write && a.field == f))
  match cands with
  | mi :: _ => (getM t mi).name
  | [] => ""

def failuresOf (all : List TypeFacts) (ti mi : Nat) : List Failure :=
  let t := getT all ti
  let m := getM t mi
  if !m.exported then
    (if m.sections.all (fun s => !s.nested && s.release != .leak) then [] else
      [{ type := t.name, method := m.name, theorem_ := "single_section", kind := "deadlock", field := "", other := "", line := 0 }])
  else
    let accs := effAcc all t (fuelOf t) mi .n
    (if noReentry t mi then [] else
      let k := ((heldCallees t (fuelOf t) mi .n).filter (fun k => acquires t (fuelOf t) k)).head?
      [{ type := t.name, method := m.name, theorem_ := "no_reentry", kind := "deadlock", field := "",
         other := match k with | some k => (getM t k).name | none => m.name, line := 0 }]) ++
    ((accs.filter (fun a => guarded all t a.field && a.held == .n)).map (fun a =>
      { type := t.name, method := m.name, theorem_ := "guarded_access", kind := "race", field := fieldName t a.field,
        other := (if a.write then m.name else writerOf all t a.field), line := a.line })).take 1 ++
    ((accs.filter (fun a => a.write && a.held == .r)).map (fun a =>
      { type := t.name, method := m.name, theorem_ := "readers_pure", kind := "race", field := fieldName t a.field,
        other := m.name, line := a.line })).take 1 ++
    (if singleSection t mi then [] else
      [{ type := t.name, method := m.name, theorem_ := "single_section",
         kind := (if releasesOk t (fuelOf t) mi then "nonlin" else "deadlock"), field := "", other := m.name, line := 0 }]) ++
    (if crossInstanceLocked all t mi then [] else
      let k := ((crossCallees t (fuelOf t) mi).filter (fun k =>
        !((effAcc all t (fuelOf t) k .n).all (fun a => !(guarded all t a.field) || a.held != .n)))).head?
      let kn := match k with | some k => (getM t k).name | none => ""
      let fld : Option Nat := match k with
        | some k => (((effAcc all t (fuelOf t) k .n).filter (fun (a : EAcc) => guarded all t a.field && a.held == Held.n)).map
                      (fun (a : EAcc) => a.field)).head?.getD none
        | none => none
      [{ type := t.name, method := m.name, theorem_ := "cross_instance_calls_locked", kind := "crossrace",
         field := fieldName t fld, other := kn, line := 0 }]) ++
    (((effHandouts t (fuelOf t) mi).filter (fun h => !(handoutOk all t h))).map (fun h =>
      { type := t.name, method := m.name, theorem_ := "no_unsynchronised_handout", kind := "handout",
        field := fieldName t (some h.field), other := writerOf all t (some h.field), line := h.line })).take 1

def failures (all : List TypeFacts) : List Failure :=
  (sharedRows all).flatMap (fun r => failuresOf all r.1 r.2)

def Failure.render (f : Failure) : String :=
  s!"FAIL theorem={f.theorem_} type={f.type} method={f.method} kind={f.kind} field={f.field} other={f.other} line={f.line}"

end Zrnt.Conc
