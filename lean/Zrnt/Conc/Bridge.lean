import Zrnt.Conc.LockCheck
import Zrnt.Conc.Monitor
/-!
# From lock facts to monitor code (C17)

`modelCode all t mi` is the monitor code that the regenerated facts of one exported method describe: its
accesses to guarded fields that happen without the lock come first (outside any section), then — if the call
executes critical sections at all — `acq m`, the accesses made with the lock held, an extra `acq` if the call
re-enters, `rel`, and one further `acq; rel` per additional section. The definition does not look at the
discipline predicates except `noReentry` (to place the re-entrant acquire); `Proofs.Properties.C17.modelCode_wellFormed`
shows that `methodOk` makes this code `Monitor.WellFormed`, so the monitor theorems apply to every system whose
threads run regenerated rows. Core Lean only.
-/
namespace Zrnt.Conc
open Monitor

def toAct (a : EAcc) : Act Unit Unit :=
  ⟨match a.field with | some f => f + 1 | none => 0, a.write, fun s l => (s, l)⟩

def modeOf (t : TypeFacts) (mi : Nat) : Mode :=
  if (sectionModes t (fuelOf t) mi).head? == some .r then .r else .w

def modelCode (all : List TypeFacts) (t : TypeFacts) (mi : Nat) : Code Unit Unit :=
  let accs := guardedAccs all t mi
  let pre : Code Unit Unit := (accs.filter (fun a => a.held == .n)).map (fun a => .act (toAct a))
  let inner : List (Act Unit Unit) := (accs.filter (fun a => a.held != .n)).map toAct
  let k := (sectionModes t (fuelOf t) mi).length
  let reent : Code Unit Unit := if noReentry t mi then [] else [.acq .w]
  if k = 0 then pre ++ inner.map .act
  else pre ++ (.acq (modeOf t mi) :: (inner.map .act ++ (reent ++ (.rel :: (List.replicate (k - 1) [Instr.acq .w, Instr.rel]).flatten))))

end Zrnt.Conc
