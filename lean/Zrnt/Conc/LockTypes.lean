/-!
# Lock facts: the row types of `Zrnt.Gen.LockFacts` (C17, tie R-fact)

`go/cmd/extract/lockfacts.go` emits, for every method of a shared component, the *direct* facts defined
here: critical sections on the receiver's own lock, field accesses with the lock state at that point, calls
(same receiver / parent object / fresh child object / implementation behind an interface field) and
returned aliases of receiver memory. Core Lean only.
-/
namespace Zrnt.Conc

inductive LockKind | none | mutex | rw
  deriving DecidableEq, Repr, Inhabited

/-- lock state of the calling goroutine w.r.t. the receiver's lock: not held / read-held / write-held -/
inductive Held | n | r | w
  deriving DecidableEq, Repr, Inhabited

inductive FieldKind | value | ptr | slice | map | iface | fn | lock
  deriving DecidableEq, Repr, Inhabited

inductive Release | deferred | explicit | leak
  deriving DecidableEq, Repr, Inhabited

/-- `own`: `recv.m()`; `parent`: `recv.<field of the same type>.m()` (another, older object);
`fresh`: `x.m()` with `x := &T{..}` created in this method (a new child object);
`impl`: `recv.<interface field>.m()` resolved to the implementation type in the table. -/
inductive Via | own | parent | fresh | impl
  deriving DecidableEq, Repr, Inhabited

inductive Role | shared | impl
  deriving DecidableEq, Repr, Inhabited

inductive HandKind | whole | elem | addr
  deriving DecidableEq, Repr, Inhabited

structure Field where
  name : String
  kind : FieldKind
  /-- kind of the slice element / map value -/
  elemKind : FieldKind := .value
  /-- the element / pointee type is itself one of the shared (self-synchronised) types of the table -/
  elemShared : Bool := false
  deriving Repr, Inhabited

structure Access where
  /-- index into `fields`; `none` = receiver state reached through a derived local whose origin is not a
  single field (always treated as guarded) -/
  field : Option Nat
  write : Bool
  /-- 0 = the field itself, 1 = its content (`recv.f[k] = v`, `delete`, `recv.f.x = v`), 2 = through an element
  or a derived local -/
  depth : Nat
  held : Held
  line : Nat
  deriving Repr, Inhabited

structure Call where
  via : Via
  field : Option Nat
  /-- index of the target type in the table -/
  type : Nat
  /-- index of the callee in the target type's `methods` -/
  callee : Nat
  held : Held
  /-- the call is a result expression of a `return` (its handouts are passed on) -/
  ret : Bool := false
  line : Nat
  deriving Repr, Inhabited

structure Section where
  mode : Held
  release : Release
  /-- acquired while this call already held the lock -/
  nested : Bool
  line : Nat
  deriving Repr, Inhabited

structure Handout where
  kind : HandKind
  field : Nat
  /-- not returned to the caller, but used by the method itself after it released the lock (the alias was
  obtained inside the critical section and escapes it) -/
  escape : Bool := false
  line : Nat
  deriving Repr, Inhabited

structure Method where
  name : String
  exported : Bool
  sections : List Section
  acc : List Access
  calls : List Call
  handouts : List Handout
  deriving Repr, Inhabited

structure TypeFacts where
  name : String
  role : Role
  lock : LockKind
  fields : List Field
  methods : List Method
  deriving Repr, Inhabited

end Zrnt.Conc
