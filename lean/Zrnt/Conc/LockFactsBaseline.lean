/- FROZEN copy of the table `go/cmd/extract` (lockfacts.go) generated from /repo at commit 381eb87 ("snapshot"),
   i.e. BEFORE the concurrency `fix:` commits (22ec15f, 342ed7c, f2c08a6, f71df86, and fc's a6501c8). It is not
   regenerated: it records what the discipline theorems said about the unchanged tree, so that the negations
   proved in Proofs/Properties/C17.lean (`baseline_*`) keep documenting the defects and their schedules.
   The live table is Zrnt/Gen/LockFacts.lean. -/
import Zrnt.Conc.LockTypes

namespace Zrnt.Conc.Baseline
open Zrnt.Conc

/-- `eth2/forkchoice.ProtoForkChoice` (shared) -/
def ProtoForkChoice : TypeFacts where
  name := "ProtoForkChoice"
  role := .shared
  lock := .rw
  fields := [
    { name := "mu", kind := .lock, elemKind := .value, elemShared := false },
    { name := "protoArray", kind := .iface, elemKind := .value, elemShared := false },
    { name := "voteStore", kind := .iface, elemKind := .value, elemShared := false },
    { name := "balances", kind := .slice, elemKind := .value, elemShared := false },
    { name := "pin", kind := .ptr, elemKind := .value, elemShared := false },
    { name := "justified", kind := .value, elemKind := .value, elemShared := false },
    { name := "finalized", kind := .value, elemKind := .value, elemShared := false },
    { name := "spec", kind := .ptr, elemKind := .value, elemShared := false }
  ]
  methods := [
    { name := "Pin", exported := true,
      sections := [{ mode := .r, release := .deferred, nested := false, line := 50 }],
      acc := [{ field := some 4, write := false, depth := 0, held := .r, line := 52 }],
      calls := [],
      handouts := [{ kind := .whole, field := 4, line := 52 }] },
    { name := "SetPin", exported := true,
      sections := [{ mode := .w, release := .deferred, nested := false, line := 56 }],
      acc := [{ field := some 1, write := false, depth := 0, held := .w, line := 59 }, { field := some 4, write := true, depth := 0, held := .w, line := 66 }],
      calls := [{ via := .impl, field := some 1, type := 8, callee := 3, held := .w, ret := false, line := 59 }],
      handouts := [] },
    { name := "UpdateJustified", exported := true,
      sections := [{ mode := .w, release := .deferred, nested := false, line := 78 }],
      acc := [{ field := some 5, write := false, depth := 0, held := .w, line := 81 }, { field := some 6, write := false, depth := 0, held := .w, line := 81 }, { field := some 4, write := false, depth := 0, held := .w, line := 84 }, { field := some 4, write := false, depth := 0, held := .w, line := 84 }, { field := some 4, write := false, depth := 0, held := .w, line := 86 }, { field := some 6, write := false, depth := 0, held := .w, line := 93 }, { field := some 4, write := true, depth := 0, held := .w, line := 101 }, { field := some 7, write := false, depth := 0, held := .w, line := 102 }, { field := some 1, write := false, depth := 0, held := .w, line := 103 }],
      calls := [{ via := .own, field := none, type := 0, callee := 11, held := .w, ret := false, line := 86 }, { via := .own, field := none, type := 0, callee := 3, held := .w, ret := false, line := 95 }, { via := .impl, field := some 1, type := 8, callee := 14, held := .w, ret := false, line := 103 }],
      handouts := [] },
    { name := "updateJustified", exported := false,
      sections := [],
      acc := [{ field := some 6, write := false, depth := 0, held := .n, line := 117 }, { field := some 6, write := false, depth := 0, held := .n, line := 118 }, { field := some 6, write := false, depth := 0, held := .n, line := 120 }, { field := some 6, write := false, depth := 0, held := .n, line := 122 }, { field := some 5, write := false, depth := 0, held := .n, line := 125 }, { field := some 6, write := false, depth := 0, held := .n, line := 126 }, { field := some 6, write := false, depth := 0, held := .n, line := 128 }, { field := some 6, write := false, depth := 0, held := .n, line := 130 }, { field := some 3, write := false, depth := 0, held := .n, line := 134 }, { field := some 2, write := false, depth := 0, held := .n, line := 140 }, { field := some 1, write := false, depth := 0, held := .n, line := 140 }, { field := some 1, write := false, depth := 0, held := .n, line := 142 }, { field := some 3, write := true, depth := 0, held := .n, line := 146 }, { field := some 5, write := true, depth := 0, held := .n, line := 147 }, { field := some 6, write := true, depth := 0, held := .n, line := 148 }],
      calls := [{ via := .own, field := none, type := 0, callee := 11, held := .n, ret := false, line := 118 }, { via := .own, field := none, type := 0, callee := 11, held := .n, ret := false, line := 126 }, { via := .impl, field := some 2, type := 9, callee := 2, held := .n, ret := false, line := 140 }, { via := .impl, field := some 1, type := 8, callee := 1, held := .n, ret := false, line := 140 }, { via := .impl, field := some 1, type := 8, callee := 7, held := .n, ret := false, line := 142 }],
      handouts := [] },
    { name := "updateVotesMaybe", exported := false,
      sections := [],
      acc := [{ field := some 2, write := false, depth := 0, held := .n, line := 157 }, { field := some 2, write := false, depth := 0, held := .n, line := 161 }, { field := some 1, write := false, depth := 0, held := .n, line := 161 }, { field := some 3, write := false, depth := 0, held := .n, line := 161 }, { field := some 3, write := false, depth := 0, held := .n, line := 161 }, { field := some 1, write := false, depth := 0, held := .n, line := 163 }, { field := some 5, write := false, depth := 0, held := .n, line := 163 }, { field := some 6, write := false, depth := 0, held := .n, line := 163 }],
      calls := [{ via := .impl, field := some 2, type := 9, callee := 1, held := .n, ret := false, line := 157 }, { via := .impl, field := some 2, type := 9, callee := 2, held := .n, ret := false, line := 161 }, { via := .impl, field := some 1, type := 8, callee := 1, held := .n, ret := false, line := 161 }, { via := .impl, field := some 1, type := 8, callee := 7, held := .n, ret := false, line := 163 }],
      handouts := [] },
    { name := "Justified", exported := true,
      sections := [{ mode := .r, release := .deferred, nested := false, line := 167 }],
      acc := [{ field := some 5, write := false, depth := 0, held := .r, line := 169 }],
      calls := [],
      handouts := [] },
    { name := "Finalized", exported := true,
      sections := [{ mode := .r, release := .deferred, nested := false, line := 173 }],
      acc := [{ field := some 6, write := false, depth := 0, held := .r, line := 175 }],
      calls := [],
      handouts := [] },
    { name := "ProcessAttestation", exported := true,
      sections := [{ mode := .w, release := .deferred, nested := false, line := 179 }],
      acc := [{ field := some 1, write := false, depth := 0, held := .w, line := 182 }, { field := some 2, write := false, depth := 0, held := .w, line := 186 }],
      calls := [{ via := .impl, field := some 1, type := 8, callee := 5, held := .w, ret := false, line := 182 }, { via := .impl, field := some 2, type := 9, callee := 0, held := .w, ret := false, line := 186 }],
      handouts := [] },
    { name := "CanonicalChain", exported := true,
      sections := [{ mode := .w, release := .deferred, nested := false, line := 190 }],
      acc := [{ field := some 1, write := false, depth := 0, held := .w, line := 192 }],
      calls := [{ via := .impl, field := some 1, type := 8, callee := 2, held := .w, ret := false, line := 192 }],
      handouts := [] },
    { name := "ProcessSlot", exported := true,
      sections := [{ mode := .w, release := .deferred, nested := false, line := 196 }],
      acc := [{ field := some 1, write := false, depth := 0, held := .w, line := 198 }],
      calls := [{ via := .impl, field := some 1, type := 8, callee := 9, held := .w, ret := false, line := 198 }],
      handouts := [] },
    { name := "ProcessBlock", exported := true,
      sections := [{ mode := .w, release := .deferred, nested := false, line := 202 }],
      acc := [{ field := some 1, write := false, depth := 0, held := .w, line := 204 }],
      calls := [{ via := .impl, field := some 1, type := 8, callee := 10, held := .w, ret := false, line := 204 }],
      handouts := [] },
    { name := "InSubtree", exported := true,
      sections := [{ mode := .w, release := .deferred, nested := false, line := 208 }],
      acc := [{ field := some 1, write := false, depth := 0, held := .w, line := 210 }],
      calls := [{ via := .impl, field := some 1, type := 8, callee := 12, held := .w, ret := false, line := 210 }],
      handouts := [] },
    { name := "Search", exported := true,
      sections := [{ mode := .w, release := .deferred, nested := false, line := 214 }],
      acc := [{ field := some 1, write := false, depth := 0, held := .w, line := 216 }],
      calls := [{ via := .impl, field := some 1, type := 8, callee := 6, held := .w, ret := false, line := 216 }],
      handouts := [] },
    { name := "ClosestToSlot", exported := true,
      sections := [{ mode := .w, release := .deferred, nested := false, line := 220 }],
      acc := [{ field := some 1, write := false, depth := 0, held := .w, line := 222 }],
      calls := [{ via := .impl, field := some 1, type := 8, callee := 3, held := .w, ret := false, line := 222 }],
      handouts := [] },
    { name := "CanonAtSlot", exported := true,
      sections := [{ mode := .w, release := .deferred, nested := false, line := 226 }],
      acc := [{ field := some 1, write := false, depth := 0, held := .w, line := 228 }],
      calls := [{ via := .impl, field := some 1, type := 8, callee := 4, held := .w, ret := false, line := 228 }],
      handouts := [] },
    { name := "GetSlot", exported := true,
      sections := [{ mode := .r, release := .deferred, nested := false, line := 232 }],
      acc := [{ field := some 1, write := false, depth := 0, held := .r, line := 234 }],
      calls := [{ via := .impl, field := some 1, type := 8, callee := 5, held := .r, ret := false, line := 234 }],
      handouts := [] },
    { name := "FindHead", exported := true,
      sections := [{ mode := .w, release := .deferred, nested := false, line := 238 }],
      acc := [{ field := some 1, write := false, depth := 0, held := .w, line := 243 }],
      calls := [{ via := .own, field := none, type := 0, callee := 4, held := .w, ret := false, line := 240 }, { via := .impl, field := some 1, type := 8, callee := 11, held := .w, ret := false, line := 243 }],
      handouts := [] },
    { name := "Head", exported := true,
      sections := [{ mode := .w, release := .deferred, nested := false, line := 247 }],
      acc := [{ field := some 5, write := false, depth := 0, held := .w, line := 252 }, { field := some 7, write := false, depth := 0, held := .w, line := 253 }, { field := some 5, write := false, depth := 0, held := .w, line := 253 }, { field := some 4, write := false, depth := 0, held := .w, line := 254 }, { field := some 4, write := false, depth := 0, held := .w, line := 255 }, { field := some 4, write := false, depth := 0, held := .w, line := 256 }, { field := some 1, write := false, depth := 0, held := .w, line := 258 }],
      calls := [{ via := .own, field := none, type := 0, callee := 4, held := .w, ret := false, line := 249 }, { via := .impl, field := some 1, type := 8, callee := 11, held := .w, ret := false, line := 258 }],
      handouts := [] }
  ]

/-- `eth2/beacon/common.PubkeyCache` (shared) -/
def PubkeyCache : TypeFacts where
  name := "PubkeyCache"
  role := .shared
  lock := .rw
  fields := [
    { name := "parent", kind := .ptr, elemKind := .value, elemShared := false },
    { name := "trustedParentCount", kind := .value, elemKind := .value, elemShared := false },
    { name := "pub2idx", kind := .map, elemKind := .value, elemShared := false },
    { name := "idx2pub", kind := .slice, elemKind := .value, elemShared := false },
    { name := "rwLock", kind := .lock, elemKind := .value, elemShared := false }
  ]
  methods := [
    { name := "Pubkey", exported := true,
      sections := [{ mode := .r, release := .deferred, nested := false, line := 62 }],
      acc := [],
      calls := [{ via := .own, field := none, type := 1, callee := 1, held := .r, ret := true, line := 64 }],
      handouts := [] },
    { name := "unsafePubkey", exported := false,
      sections := [],
      acc := [{ field := some 1, write := false, depth := 0, held := .n, line := 68 }, { field := some 1, write := false, depth := 0, held := .n, line := 69 }, { field := some 3, write := false, depth := 0, held := .n, line := 69 }, { field := some 3, write := false, depth := 0, held := .n, line := 72 }, { field := some 1, write := false, depth := 0, held := .n, line := 72 }, { field := some 0, write := false, depth := 0, held := .n, line := 73 }, { field := some 0, write := false, depth := 0, held := .n, line := 74 }],
      calls := [{ via := .parent, field := some 0, type := 1, callee := 0, held := .n, ret := false, line := 74 }],
      handouts := [{ kind := .addr, field := 3, line := 72 }] },
    { name := "ValidatorIndex", exported := true,
      sections := [{ mode := .r, release := .deferred, nested := false, line := 85 }],
      acc := [],
      calls := [{ via := .own, field := none, type := 1, callee := 3, held := .r, ret := true, line := 87 }],
      handouts := [] },
    { name := "unsafeValidatorIndex", exported := false,
      sections := [],
      acc := [{ field := some 2, write := false, depth := 0, held := .n, line := 91 }, { field := some 0, write := false, depth := 0, held := .n, line := 92 }, { field := some 0, write := false, depth := 0, held := .n, line := 93 }],
      calls := [{ via := .parent, field := some 0, type := 1, callee := 2, held := .n, ret := false, line := 93 }],
      handouts := [{ kind := .elem, field := 2, line := 95 }] },
    { name := "AddValidator", exported := true,
      sections := [{ mode := .w, release := .deferred, nested := false, line := 148 }],
      acc := [{ field := some 1, write := false, depth := 0, held := .w, line := 150 }, { field := some 3, write := false, depth := 0, held := .w, line := 150 }, { field := some 3, write := false, depth := 0, held := .w, line := 154 }, { field := some 3, write := true, depth := 0, held := .w, line := 154 }, { field := some 2, write := true, depth := 1, held := .w, line := 155 }],
      calls := [{ via := .own, field := none, type := 1, callee := 2, held := .n, ret := false, line := 101 }, { via := .own, field := none, type := 1, callee := 0, held := .n, ret := false, line := 102 }, { via := .fresh, field := none, type := 1, callee := 4, held := .n, ret := false, line := 115 }, { via := .fresh, field := none, type := 1, callee := 4, held := .n, ret := false, line := 128 }, { via := .fresh, field := none, type := 1, callee := 4, held := .n, ret := false, line := 145 }],
      handouts := [] }
  ]

/-- `eth2/beacon/common.CachedPubkey` (shared) -/
def CachedPubkey : TypeFacts where
  name := "CachedPubkey"
  role := .shared
  lock := .none
  fields := [
    { name := "Compressed", kind := .value, elemKind := .value, elemShared := false },
    { name := "decompressed", kind := .ptr, elemKind := .value, elemShared := false }
  ]
  methods := [
    { name := "Pubkey", exported := true,
      sections := [],
      acc := [{ field := some 1, write := false, depth := 0, held := .n, line := 80 }, { field := some 0, write := false, depth := 0, held := .n, line := 81 }, { field := some 1, write := true, depth := 0, held := .n, line := 85 }, { field := some 1, write := false, depth := 0, held := .n, line := 87 }],
      calls := [],
      handouts := [{ kind := .whole, field := 1, line := 87 }] }
  ]

/-- `eth2/pool.AttestationPool` (shared) -/
def AttestationPool : TypeFacts where
  name := "AttestationPool"
  role := .shared
  lock := .rw
  fields := [
    { name := "RWMutex", kind := .lock, elemKind := .value, elemShared := false },
    { name := "spec", kind := .ptr, elemKind := .value, elemShared := false },
    { name := "datas", kind := .map, elemKind := .ptr, elemShared := false },
    { name := "individual", kind := .map, elemKind := .ptr, elemShared := false },
    { name := "aggregate", kind := .map, elemKind := .ptr, elemShared := false },
    { name := "aggPerValidator", kind := .map, elemKind := .value, elemShared := false },
    { name := "maxExtraAggregates", kind := .value, elemKind := .value, elemShared := false }
  ]
  methods := [
    { name := "AddAttestation", exported := true,
      sections := [{ mode := .w, release := .deferred, nested := false, line := 72 }],
      acc := [{ field := some 2, write := false, depth := 0, held := .w, line := 82 }, { field := some 2, write := true, depth := 1, held := .w, line := 83 }, { field := some 3, write := false, depth := 0, held := .w, line := 96 }, { field := some 3, write := true, depth := 1, held := .w, line := 105 }, { field := some 4, write := false, depth := 0, held := .w, line := 112 }, { field := some 6, write := false, depth := 0, held := .w, line := 119 }, { field := some 4, write := true, depth := 2, held := .w, line := 120 }, { field := some 4, write := true, depth := 2, held := .w, line := 126 }, { field := some 5, write := true, depth := 1, held := .w, line := 134 }, { field := some 5, write := false, depth := 0, held := .w, line := 146 }, { field := some 5, write := true, depth := 1, held := .w, line := 148 }, { field := some 4, write := true, depth := 1, held := .w, line := 153 }],
      calls := [],
      handouts := [] },
    { name := "Search", exported := true,
      sections := [],
      acc := [{ field := some 2, write := false, depth := 0, held := .n, line := 190 }, { field := some 4, write := false, depth := 0, held := .n, line := 197 }],
      calls := [],
      handouts := [] },
    { name := "Prune", exported := true,
      sections := [],
      acc := [{ field := some 2, write := false, depth := 0, held := .n, line := 209 }, { field := some 2, write := true, depth := 1, held := .n, line := 211 }, { field := some 4, write := true, depth := 1, held := .n, line := 212 }, { field := some 3, write := false, depth := 0, held := .n, line := 215 }, { field := some 3, write := true, depth := 1, held := .n, line := 217 }, { field := some 5, write := false, depth := 0, held := .n, line := 220 }, { field := some 5, write := true, depth := 1, held := .n, line := 222 }],
      calls := [],
      handouts := [] },
    { name := "Packing", exported := true,
      sections := [],
      acc := [],
      calls := [],
      handouts := [] }
  ]

/-- `eth2/pool.AttesterSlashingPool` (shared) -/
def AttesterSlashingPool : TypeFacts where
  name := "AttesterSlashingPool"
  role := .shared
  lock := .rw
  fields := [
    { name := "RWMutex", kind := .lock, elemKind := .value, elemShared := false },
    { name := "spec", kind := .ptr, elemKind := .value, elemShared := false },
    { name := "slashings", kind := .map, elemKind := .ptr, elemShared := false }
  ]
  methods := [
    { name := "AddAttesterSlashing", exported := true,
      sections := [{ mode := .w, release := .deferred, nested := false, line := 30 }],
      acc := [{ field := some 1, write := false, depth := 0, held := .n, line := 29 }, { field := some 2, write := false, depth := 0, held := .w, line := 32 }, { field := some 2, write := true, depth := 1, held := .w, line := 35 }],
      calls := [],
      handouts := [] },
    { name := "All", exported := true,
      sections := [{ mode := .r, release := .deferred, nested := false, line := 40 }],
      acc := [{ field := some 2, write := false, depth := 0, held := .r, line := 42 }, { field := some 2, write := false, depth := 0, held := .r, line := 43 }],
      calls := [],
      handouts := [{ kind := .elem, field := 2, line := 46 }] },
    { name := "Pack", exported := true,
      sections := [],
      acc := [],
      calls := [],
      handouts := [] }
  ]

/-- `eth2/pool.ProposerSlashingPool` (shared) -/
def ProposerSlashingPool : TypeFacts where
  name := "ProposerSlashingPool"
  role := .shared
  lock := .rw
  fields := [
    { name := "RWMutex", kind := .lock, elemKind := .value, elemShared := false },
    { name := "spec", kind := .ptr, elemKind := .value, elemShared := false },
    { name := "slashings", kind := .map, elemKind := .ptr, elemShared := false }
  ]
  methods := [
    { name := "AddProposerSlashing", exported := true,
      sections := [{ mode := .w, release := .deferred, nested := false, line := 26 }],
      acc := [{ field := some 2, write := false, depth := 0, held := .w, line := 30 }, { field := some 2, write := true, depth := 1, held := .w, line := 33 }],
      calls := [],
      handouts := [] },
    { name := "All", exported := true,
      sections := [{ mode := .r, release := .deferred, nested := false, line := 38 }],
      acc := [{ field := some 2, write := false, depth := 0, held := .r, line := 40 }, { field := some 2, write := false, depth := 0, held := .r, line := 41 }],
      calls := [],
      handouts := [{ kind := .elem, field := 2, line := 44 }] },
    { name := "Pack", exported := true,
      sections := [],
      acc := [],
      calls := [],
      handouts := [] }
  ]

/-- `eth2/pool.SyncCommitteePool` (shared) -/
def SyncCommitteePool : TypeFacts where
  name := "SyncCommitteePool"
  role := .shared
  lock := .mutex
  fields := [
    { name := "Mutex", kind := .lock, elemKind := .value, elemShared := false },
    { name := "spec", kind := .ptr, elemKind := .value, elemShared := false },
    { name := "currentSlot", kind := .value, elemKind := .value, elemShared := false },
    { name := "prevContribs", kind := .map, elemKind := .map, elemShared := false },
    { name := "currentContribs", kind := .map, elemKind := .map, elemShared := false },
    { name := "nextContribs", kind := .map, elemKind := .map, elemShared := false },
    { name := "prevMsgs", kind := .map, elemKind := .ptr, elemShared := false },
    { name := "currentMsgs", kind := .map, elemKind := .ptr, elemShared := false },
    { name := "nextMsgs", kind := .map, elemKind := .ptr, elemShared := false }
  ]
  methods := [
    { name := "AddSyncCommitteeContribution", exported := true,
      sections := [{ mode := .w, release := .deferred, nested := false, line := 66 }],
      acc := [{ field := some 2, write := false, depth := 0, held := .w, line := 69 }, { field := some 3, write := false, depth := 0, held := .w, line := 70 }, { field := some 2, write := false, depth := 0, held := .w, line := 71 }, { field := some 4, write := false, depth := 0, held := .w, line := 72 }, { field := some 2, write := false, depth := 0, held := .w, line := 73 }, { field := some 5, write := false, depth := 0, held := .w, line := 74 }, { field := some 2, write := false, depth := 0, held := .w, line := 76 }, { field := none, write := true, depth := 2, held := .w, line := 81 }, { field := none, write := true, depth := 2, held := .w, line := 83 }],
      calls := [],
      handouts := [] },
    { name := "AddSyncCommitteeMessage", exported := true,
      sections := [{ mode := .w, release := .deferred, nested := false, line := 91 }],
      acc := [{ field := some 2, write := false, depth := 0, held := .w, line := 93 }, { field := some 6, write := true, depth := 1, held := .w, line := 94 }, { field := some 2, write := false, depth := 0, held := .w, line := 95 }, { field := some 7, write := true, depth := 1, held := .w, line := 96 }, { field := some 2, write := false, depth := 0, held := .w, line := 97 }, { field := some 8, write := true, depth := 1, held := .w, line := 98 }, { field := some 2, write := false, depth := 0, held := .w, line := 100 }],
      calls := [],
      handouts := [] },
    { name := "PackContribution", exported := true,
      sections := [{ mode := .w, release := .deferred, nested := false, line := 106 }],
      acc := [],
      calls := [],
      handouts := [] },
    { name := "PackAggregate", exported := true,
      sections := [{ mode := .w, release := .deferred, nested := false, line := 113 }],
      acc := [],
      calls := [],
      handouts := [] },
    { name := "Reset", exported := true,
      sections := [],
      acc := [{ field := some 2, write := false, depth := 0, held := .n, line := 120 }, { field := some 7, write := false, depth := 0, held := .n, line := 121 }, { field := some 8, write := true, depth := 0, held := .n, line := 121 }, { field := some 6, write := false, depth := 0, held := .n, line := 122 }, { field := some 7, write := true, depth := 0, held := .n, line := 122 }, { field := some 1, write := false, depth := 0, held := .n, line := 123 }, { field := some 6, write := true, depth := 0, held := .n, line := 123 }, { field := some 4, write := false, depth := 0, held := .n, line := 125 }, { field := some 5, write := true, depth := 0, held := .n, line := 125 }, { field := some 3, write := false, depth := 0, held := .n, line := 126 }, { field := some 4, write := true, depth := 0, held := .n, line := 126 }, { field := some 3, write := true, depth := 0, held := .n, line := 127 }, { field := some 2, write := false, depth := 0, held := .n, line := 128 }, { field := some 2, write := false, depth := 0, held := .n, line := 130 }, { field := some 7, write := false, depth := 0, held := .n, line := 131 }, { field := some 6, write := true, depth := 0, held := .n, line := 131 }, { field := some 8, write := false, depth := 0, held := .n, line := 132 }, { field := some 7, write := true, depth := 0, held := .n, line := 132 }, { field := some 1, write := false, depth := 0, held := .n, line := 133 }, { field := some 8, write := true, depth := 0, held := .n, line := 133 }, { field := some 4, write := false, depth := 0, held := .n, line := 135 }, { field := some 3, write := true, depth := 0, held := .n, line := 135 }, { field := some 5, write := false, depth := 0, held := .n, line := 136 }, { field := some 4, write := true, depth := 0, held := .n, line := 136 }, { field := some 5, write := true, depth := 0, held := .n, line := 137 }, { field := some 1, write := false, depth := 0, held := .n, line := 139 }, { field := some 6, write := true, depth := 0, held := .n, line := 139 }, { field := some 1, write := false, depth := 0, held := .n, line := 140 }, { field := some 7, write := true, depth := 0, held := .n, line := 140 }, { field := some 1, write := false, depth := 0, held := .n, line := 141 }, { field := some 8, write := true, depth := 0, held := .n, line := 141 }, { field := some 3, write := true, depth := 0, held := .n, line := 143 }, { field := some 4, write := true, depth := 0, held := .n, line := 144 }, { field := some 5, write := true, depth := 0, held := .n, line := 145 }, { field := some 2, write := true, depth := 0, held := .n, line := 147 }],
      calls := [],
      handouts := [] }
  ]

/-- `eth2/pool.VoluntaryExitPool` (shared) -/
def VoluntaryExitPool : TypeFacts where
  name := "VoluntaryExitPool"
  role := .shared
  lock := .rw
  fields := [
    { name := "RWMutex", kind := .lock, elemKind := .value, elemShared := false },
    { name := "spec", kind := .ptr, elemKind := .value, elemShared := false },
    { name := "exits", kind := .map, elemKind := .ptr, elemShared := false }
  ]
  methods := [
    { name := "AddVoluntaryExit", exported := true,
      sections := [{ mode := .w, release := .deferred, nested := false, line := 26 }],
      acc := [{ field := some 2, write := false, depth := 0, held := .w, line := 29 }, { field := some 2, write := true, depth := 1, held := .w, line := 32 }],
      calls := [],
      handouts := [] },
    { name := "All", exported := true,
      sections := [{ mode := .r, release := .deferred, nested := false, line := 37 }],
      acc := [{ field := some 2, write := false, depth := 0, held := .r, line := 39 }, { field := some 2, write := false, depth := 0, held := .r, line := 40 }],
      calls := [],
      handouts := [{ kind := .elem, field := 2, line := 43 }] },
    { name := "Pack", exported := true,
      sections := [],
      acc := [],
      calls := [],
      handouts := [] }
  ]

/-- `eth2/forkchoice/proto.ProtoArray` (impl) -/
def ProtoArray : TypeFacts where
  name := "ProtoArray"
  role := .impl
  lock := .none
  fields := [
    { name := "sink", kind := .iface, elemKind := .value, elemShared := false },
    { name := "indexOffset", kind := .value, elemKind := .value, elemShared := false },
    { name := "justifiedEpoch", kind := .value, elemKind := .value, elemShared := false },
    { name := "finalizedEpoch", kind := .value, elemKind := .value, elemShared := false },
    { name := "nodes", kind := .slice, elemKind := .value, elemShared := false },
    { name := "indices", kind := .map, elemKind := .value, elemShared := false },
    { name := "blockSlots", kind := .map, elemKind := .value, elemShared := false },
    { name := "updatedConnections", kind := .value, elemKind := .value, elemShared := false }
  ]
  methods := [
    { name := "getNode", exported := false,
      sections := [],
      acc := [{ field := some 1, write := false, depth := 0, held := .n, line := 94 }, { field := some 1, write := false, depth := 0, held := .n, line := 97 }, { field := some 4, write := false, depth := 0, held := .n, line := 98 }, { field := some 4, write := false, depth := 0, held := .n, line := 101 }],
      calls := [],
      handouts := [{ kind := .addr, field := 4, line := 101 }] },
    { name := "Indices", exported := true,
      sections := [],
      acc := [{ field := some 5, write := false, depth := 0, held := .n, line := 105 }],
      calls := [],
      handouts := [{ kind := .whole, field := 5, line := 105 }] },
    { name := "CanonicalChain", exported := true,
      sections := [],
      acc := [{ field := some 4, write := false, depth := 0, held := .n, line := 115 }, { field := some 5, write := false, depth := 0, held := .n, line := 116 }, { field := some 1, write := false, depth := 0, held := .n, line := 117 }],
      calls := [{ via := .own, field := none, type := 8, callee := 11, held := .n, ret := false, line := 111 }, { via := .own, field := none, type := 8, callee := 0, held := .n, ret := false, line := 118 }],
      handouts := [] },
    { name := "ClosestToSlot", exported := true,
      sections := [],
      acc := [{ field := some 5, write := false, depth := 0, held := .n, line := 132 }, { field := some 6, write := false, depth := 0, held := .n, line := 136 }, { field := some 5, write := false, depth := 0, held := .n, line := 155 }, { field := some 6, write := true, depth := 2, held := .n, line := 156 }],
      calls := [],
      handouts := [] },
    { name := "CanonAtSlot", exported := true,
      sections := [],
      acc := [{ field := some 6, write := false, depth := 0, held := .n, line := 170 }, { field := some 5, write := false, depth := 0, held := .n, line := 182 }, { field := some 4, write := false, depth := 0, held := .n, line := 186 }, { field := some 5, write := false, depth := 0, held := .n, line := 203 }, { field := some 1, write := false, depth := 0, held := .n, line := 205 }],
      calls := [{ via := .own, field := none, type := 8, callee := 11, held := .n, ret := false, line := 194 }, { via := .own, field := none, type := 8, callee := 0, held := .n, ret := false, line := 206 }],
      handouts := [] },
    { name := "GetSlot", exported := true,
      sections := [],
      acc := [{ field := some 6, write := false, depth := 0, held := .n, line := 231 }],
      calls := [],
      handouts := [{ kind := .elem, field := 6, line := 232 }] },
    { name := "Search", exported := true,
      sections := [],
      acc := [{ field := some 5, write := false, depth := 0, held := .n, line := 243 }, { field := some 5, write := false, depth := 0, held := .n, line := 244 }, { field := some 4, write := false, depth := 0, held := .n, line := 245 }, { field := some 4, write := false, depth := 0, held := .n, line := 246 }, { field := some 4, write := false, depth := 0, held := .n, line := 256 }, { field := some 5, write := false, depth := 0, held := .n, line := 270 }],
      calls := [{ via := .own, field := none, type := 8, callee := 11, held := .n, ret := false, line := 239 }, { via := .own, field := none, type := 8, callee := 13, held := .n, ret := false, line := 271 }],
      handouts := [] },
    { name := "ApplyScoreChanges", exported := true,
      sections := [],
      acc := [{ field := some 4, write := false, depth := 0, held := .n, line := 300 }, { field := some 2, write := false, depth := 0, held := .n, line := 303 }, { field := some 3, write := false, depth := 0, held := .n, line := 303 }, { field := some 2, write := true, depth := 0, held := .n, line := 304 }, { field := some 3, write := true, depth := 0, held := .n, line := 305 }, { field := some 4, write := false, depth := 0, held := .n, line := 307 }, { field := some 4, write := false, depth := 0, held := .n, line := 309 }, { field := some 4, write := true, depth := 2, held := .n, line := 310 }, { field := some 1, write := false, depth := 0, held := .n, line := 312 }, { field := some 4, write := false, depth := 0, held := .n, line := 315 }, { field := some 4, write := false, depth := 0, held := .n, line := 316 }, { field := some 1, write := false, depth := 0, held := .n, line := 318 }, { field := some 7, write := true, depth := 0, held := .n, line := 323 }],
      calls := [{ via := .own, field := none, type := 8, callee := 15, held := .n, ret := false, line := 318 }],
      handouts := [] },
    { name := "updateConnections", exported := false,
      sections := [],
      acc := [{ field := some 4, write := false, depth := 0, held := .n, line := 328 }, { field := some 4, write := false, depth := 0, held := .n, line := 329 }, { field := some 1, write := false, depth := 0, held := .n, line := 331 }, { field := some 7, write := true, depth := 0, held := .n, line := 336 }],
      calls := [{ via := .own, field := none, type := 8, callee := 15, held := .n, ret := false, line := 331 }],
      handouts := [] },
    { name := "ProcessSlot", exported := true,
      sections := [],
      acc := [{ field := some 5, write := false, depth := 0, held := .n, line := 347 }, { field := some 6, write := false, depth := 0, held := .n, line := 352 }, { field := some 5, write := false, depth := 0, held := .n, line := 354 }, { field := some 5, write := false, depth := 0, held := .n, line := 358 }, { field := some 1, write := false, depth := 0, held := .n, line := 365 }, { field := some 4, write := false, depth := 0, held := .n, line := 365 }, { field := some 5, write := true, depth := 1, held := .n, line := 366 }, { field := some 4, write := false, depth := 0, held := .n, line := 367 }, { field := some 4, write := true, depth := 0, held := .n, line := 367 }, { field := some 1, write := false, depth := 0, held := .n, line := 383 }, { field := some 4, write := false, depth := 0, held := .n, line := 383 }, { field := some 5, write := true, depth := 1, held := .n, line := 384 }, { field := some 4, write := false, depth := 0, held := .n, line := 385 }, { field := some 4, write := true, depth := 0, held := .n, line := 385 }, { field := some 7, write := true, depth := 0, held := .n, line := 397 }],
      calls := [],
      handouts := [] },
    { name := "ProcessBlock", exported := true,
      sections := [],
      acc := [{ field := some 5, write := false, depth := 0, held := .n, line := 407 }, { field := some 6, write := false, depth := 0, held := .n, line := 410 }, { field := some 6, write := false, depth := 0, held := .n, line := 415 }, { field := some 5, write := false, depth := 0, held := .n, line := 423 }, { field := some 5, write := false, depth := 0, held := .n, line := 428 }, { field := some 1, write := false, depth := 0, held := .n, line := 432 }, { field := some 4, write := false, depth := 0, held := .n, line := 432 }, { field := some 6, write := true, depth := 1, held := .n, line := 433 }, { field := some 5, write := true, depth := 1, held := .n, line := 434 }, { field := some 4, write := false, depth := 0, held := .n, line := 435 }, { field := some 4, write := true, depth := 0, held := .n, line := 435 }, { field := some 7, write := true, depth := 0, held := .n, line := 447 }],
      calls := [{ via := .own, field := none, type := 8, callee := 9, held := .n, ret := false, line := 419 }],
      handouts := [] },
    { name := "FindHead", exported := true,
      sections := [],
      acc := [{ field := some 7, write := false, depth := 0, held := .n, line := 463 }, { field := some 5, write := false, depth := 0, held := .n, line := 469 }],
      calls := [{ via := .own, field := none, type := 8, callee := 8, held := .n, ret := false, line := 464 }, { via := .own, field := none, type := 8, callee := 0, held := .n, ret := false, line := 473 }, { via := .own, field := none, type := 8, callee := 0, held := .n, ret := false, line := 481 }, { via := .own, field := none, type := 8, callee := 17, held := .n, ret := false, line := 485 }],
      handouts := [] },
    { name := "InSubtree", exported := true,
      sections := [],
      acc := [{ field := some 7, write := false, depth := 0, held := .n, line := 498 }, { field := some 6, write := false, depth := 0, held := .n, line := 503 }, { field := some 5, write := false, depth := 0, held := .n, line := 508 }, { field := some 6, write := false, depth := 0, held := .n, line := 512 }, { field := some 5, write := false, depth := 0, held := .n, line := 517 }],
      calls := [{ via := .own, field := none, type := 8, callee := 8, held := .n, ret := false, line := 499 }, { via := .own, field := none, type := 8, callee := 13, held := .n, ret := true, line := 521 }],
      handouts := [] },
    { name := "inSubtree", exported := false,
      sections := [],
      acc := [{ field := some 4, write := false, depth := 0, held := .n, line := 554 }],
      calls := [{ via := .own, field := none, type := 8, callee := 0, held := .n, ret := false, line := 530 }, { via := .own, field := none, type := 8, callee := 0, held := .n, ret := false, line := 534 }],
      handouts := [] },
    { name := "OnPrune", exported := true,
      sections := [],
      acc := [{ field := some 5, write := false, depth := 0, held := .n, line := 578 }, { field := some 1, write := false, depth := 0, held := .n, line := 583 }, { field := some 5, write := false, depth := 0, held := .n, line := 592 }, { field := some 1, write := false, depth := 0, held := .n, line := 599 }, { field := some 4, write := false, depth := 0, held := .n, line := 600 }, { field := some 0, write := false, depth := 0, held := .n, line := 601 }, { field := some 0, write := false, depth := 0, held := .n, line := 610 }, { field := some 6, write := true, depth := 1, held := .n, line := 616 }, { field := some 5, write := true, depth := 1, held := .n, line := 618 }, { field := some 6, write := true, depth := 1, held := .n, line := 620 }, { field := some 4, write := false, depth := 0, held := .n, line := 622 }, { field := some 4, write := true, depth := 0, held := .n, line := 622 }, { field := some 1, write := true, depth := 0, held := .n, line := 624 }, { field := some 1, write := false, depth := 0, held := .n, line := 624 }],
      calls := [{ via := .own, field := none, type := 8, callee := 11, held := .n, ret := false, line := 588 }],
      handouts := [] },
    { name := "maybeUpdateBestChildAndDescendant", exported := false,
      sections := [],
      acc := [{ field := none, write := true, depth := 2, held := .n, line := 653 }, { field := none, write := true, depth := 2, held := .n, line := 654 }, { field := none, write := true, depth := 2, held := .n, line := 658 }, { field := none, write := true, depth := 2, held := .n, line := 660 }, { field := none, write := true, depth := 2, held := .n, line := 662 }],
      calls := [{ via := .own, field := none, type := 8, callee := 0, held := .n, ret := false, line := 639 }, { via := .own, field := none, type := 8, callee := 0, held := .n, ret := false, line := 643 }, { via := .own, field := none, type := 8, callee := 16, held := .n, ret := false, line := 647 }, { via := .own, field := none, type := 8, callee := 0, held := .n, ret := false, line := 677 }, { via := .own, field := none, type := 8, callee := 16, held := .n, ret := false, line := 681 }],
      handouts := [] },
    { name := "nodeLeadsToViableHead", exported := false,
      sections := [],
      acc := [],
      calls := [{ via := .own, field := none, type := 8, callee := 0, held := .n, ret := false, line := 722 }, { via := .own, field := none, type := 8, callee := 17, held := .n, ret := true, line := 726 }, { via := .own, field := none, type := 8, callee := 17, held := .n, ret := true, line := 728 }],
      handouts := [] },
    { name := "isNodeViableForHead", exported := false,
      sections := [],
      acc := [{ field := some 2, write := false, depth := 0, held := .n, line := 738 }, { field := some 2, write := false, depth := 0, held := .n, line := 738 }, { field := some 3, write := false, depth := 0, held := .n, line := 739 }, { field := some 3, write := false, depth := 0, held := .n, line := 739 }],
      calls := [],
      handouts := [] }
  ]

/-- `eth2/forkchoice/proto.ProtoVoteStore` (impl) -/
def ProtoVoteStore : TypeFacts where
  name := "ProtoVoteStore"
  role := .impl
  lock := .none
  fields := [
    { name := "spec", kind := .ptr, elemKind := .value, elemShared := false },
    { name := "votes", kind := .slice, elemKind := .value, elemShared := false },
    { name := "changed", kind := .value, elemKind := .value, elemShared := false }
  ]
  methods := [
    { name := "ProcessAttestation", exported := true,
      sections := [],
      acc := [{ field := some 1, write := false, depth := 0, held := .n, line := 29 }, { field := some 1, write := false, depth := 0, held := .n, line := 30 }, { field := some 1, write := false, depth := 0, held := .n, line := 31 }, { field := some 1, write := true, depth := 0, held := .n, line := 31 }, { field := some 1, write := false, depth := 0, held := .n, line := 33 }, { field := some 1, write := false, depth := 0, held := .n, line := 34 }, { field := some 1, write := true, depth := 0, held := .n, line := 34 }, { field := some 1, write := false, depth := 0, held := .n, line := 37 }, { field := some 0, write := false, depth := 0, held := .n, line := 38 }, { field := some 1, write := true, depth := 2, held := .n, line := 41 }, { field := some 1, write := true, depth := 2, held := .n, line := 42 }, { field := some 2, write := true, depth := 0, held := .n, line := 43 }],
      calls := [],
      handouts := [] },
    { name := "HasChanges", exported := true,
      sections := [],
      acc := [{ field := some 2, write := false, depth := 0, held := .n, line := 50 }],
      calls := [],
      handouts := [] },
    { name := "ComputeDeltas", exported := true,
      sections := [],
      acc := [{ field := some 1, write := false, depth := 0, held := .n, line := 58 }, { field := some 1, write := false, depth := 0, held := .n, line := 59 }, { field := some 1, write := true, depth := 2, held := .n, line := 84 }, { field := some 1, write := true, depth := 2, held := .n, line := 85 }, { field := some 2, write := true, depth := 0, held := .n, line := 89 }],
      calls := [],
      handouts := [] }
  ]

/-- every analysed type; `Call.type` indexes this list -/
def all : List TypeFacts := [ProtoForkChoice, PubkeyCache, CachedPubkey, AttestationPool, AttesterSlashingPool, ProposerSlashingPool, SyncCommitteePool, VoluntaryExitPool, ProtoArray, ProtoVoteStore]

end Zrnt.Conc.Baseline
