import Zrnt.Driver.Loop
import Zrnt.Prelude.Text
import Zrnt.Gen.GoFuns
import Zrnt.Util.Merkle
import Zrnt.Util.MathSpec
import Zrnt.Util.Prysm
import Zrnt.Sha256
/-! `zmodel c19`: each line names a helper and its arguments; the answer is
`<regenerated model result> | <Nat-level specification result>`. -/
namespace Zrnt.Util
open Zrnt Zrnt.Text Zrnt.Gen.GoFuns

/-- fuel handed to translated loops by the driver (theorems show far less suffices) -/
def driverFuel : Nat := 2 ^ 64 + 2

def rU (r : Res UInt64) : String := r.render (fun v => toString v.toNat)
def rB (r : Res Bool) : String := r.render boolStr
/-- a specification value; `any` when it is not representable in 64 bits and the helper has no error result -/
def okN (n : Nat) : String := if n < 2 ^ 64 then s!"ok {n}" else "any"
def optN : Option Nat → String
  | some n => s!"ok {n}"
  | none => "err"

def mkSpec (spe sps target maxc lookahead minChurn quot : UInt64) : Spec :=
  { (default : Spec) with
    CHURN_LIMIT_QUOTIENT := quot, MAX_COMMITTEES_PER_SLOT := maxc, MAX_SEED_LOOKAHEAD := lookahead,
    MIN_PER_EPOCH_CHURN_LIMIT := minChurn, SECONDS_PER_SLOT := sps, SLOTS_PER_EPOCH := spe,
    TARGET_COMMITTEE_SIZE := target }

def sha2 (a b : ByteArray) : ByteArray := Sha256.hash (a ++ b)

instance : DecidableEq ByteArray := fun a b =>
  if h : a.data = b.data then isTrue (by cases a; cases b; simp_all) else isFalse (by intro e; exact h (by rw [e]))

def chunks32 (b : ByteArray) : List ByteArray :=
  (List.range (b.size / 32)).map (fun i => b.extract (32 * i) (32 * i + 32))

def c19Line (line : String) : String :=
  let toks := tokens line
  let nums := toks.drop 1 |>.filterMap parseU64
  let bad := "bad-op"
  match toks.head?, nums with
  | some "isqrt", [n] => rU (IntegerSquareroot driverFuel n) ++ " | " ++ okN (Spec.isqrt n.toNat)
  | some "isqrtp", [n] =>
    rU (Prysm.integerSquareRootPrysmWith Prysm.floatEstimate driverFuel n) ++ " | " ++ okN (Spec.isqrt n.toNat)
  | some "subnet", [spe, cps, slot, ci] =>
    let lim := cps.toNat * spe.toNat
    rU (ComputeSubnetForAttestation (mkSpec spe 1 1 1 1 1 1) cps slot ci) ++ " | " ++
      (if lim < 2 ^ 64 then
        (if ci.toNat < lim then okN (Spec.subnetForAttestation spe.toNat cps.toNat slot.toNat ci.toNat) else "err")
       else "any")
  | some "ispow2", [n] => rB (.ok (IsPowerOfTwo n)) ++ " | ok " ++ boolStr (Spec.isPow2 n.toNat)
  | some "nextpow2", [n] => rU (.ok (NextPowerOfTwo n)) ++ " | " ++ okN (Spec.nextPow2U64 n.toNat)
  | some "maxu64", [a, b] => rU (.ok (MaxU64 a b)) ++ " | " ++ okN (max a.toNat b.toNat)
  | some "minu64", [a, b] => rU (.ok (MinU64 a b)) ++ " | " ++ okN (min a.toNat b.toNat)
  | some "timetoslot", [sps, t, g] =>
    rU (TimeToSlot (mkSpec 1 sps 1 1 1 1 1) t g) ++ " | " ++ okN (Spec.timeToSlot sps.toNat t.toNat g.toNat)
  | some "timeatslot", [sps, s, g] =>
    rU (TimeAtSlot (mkSpec 1 sps 1 1 1 1 1) s g) ++ " | " ++ optN (Spec.timeAtSlot sps.toNat s.toNat g.toNat)
  | some "slottoepoch", [spe, s] =>
    rU (SlotToEpoch (mkSpec spe 1 1 1 1 1 1) s) ++ " | " ++ okN (Spec.slotToEpoch spe.toNat s.toNat)
  | some "epochstart", [spe, e] =>
    rU (EpochStartSlot (mkSpec spe 1 1 1 1 1 1) e) ++ " | " ++ optN (Spec.epochStartSlot spe.toNat e.toNat)
  | some "actexit", [la, e] =>
    rU (.ok (ComputeActivationExitEpoch (mkSpec 1 1 1 1 la 1 1) e)) ++ " | " ++
      okN (Spec.activationExitEpoch la.toNat e.toNat)
  | some "churn", [mc, q, n] =>
    rU (GetChurnLimit (mkSpec 1 1 1 1 1 mc q) n) ++ " | " ++ okN (Spec.churnLimit mc.toNat q.toNat n.toNat)
  | some "slotprev", [s] => rU (.ok (SlotPrevious s)) ++ " | " ++ okN (s.toNat - 1)
  | some "epochprev", [e] => rU (.ok (EpochPrevious e)) ++ " | " ++ okN (e.toNat - 1)
  | some "committeecount", [spe, target, maxc, n] =>
    rU (CommitteeCount (mkSpec spe 1 target maxc 1 1 1) n) ++ " | " ++
      okN (Spec.committeeCount spe.toNat target.toNat maxc.toNat n.toNat)
  | some "slotspan", [minS, maxS, slot, span] =>
    let r := CheckSlotSpan (fun d => if d < 0 then minS else maxS) slot span
    let want := decide (slot.toNat + span.toNat < 2 ^ 64) && decide (minS.toNat ≤ slot.toNat + span.toNat) &&
      decide (slot.toNat ≤ maxS.toNat)
    (r.render fun _ => "nil") ++ " | " ++ (if want then "ok nil" else "err")
  | some "merkle", _ =>
    -- merkle <leaf> <branch bytes> <depth> <index> <root>
    match toks with
    | [_, leafH, brH, dS, iS, rootH] =>
      match parseHex leafH, parseHex brH, parseU64 dS, parseU64 iS, parseHex rootH with
      | some leaf, some br, some d, some idx, some root =>
        let branch := chunks32 br
        let m := Merkle.verifyMerkleBranch sha2 leaf branch d.toNat idx.toNat root
        let s : String :=
          if branch.length < d.toNat then "panic"
          else "ok " ++ boolStr (decide (Merkle.specRoot sha2 leaf (idx.toNat % 2 ^ d.toNat) (branch.take d.toNat) = root))
        rB m ++ " | " ++ s
      | _, _, _, _, _ => bad
    | _ => bad
  | some "sha256", _ =>
    match toks with
    | [_, h] => match parseHex h with
      | some b => toHex (Sha256.hash b)
      | none => bad
    | _ => bad
  | _, _ => bad

def c19Mode : Driver.Mode := Driver.stateless "c19" c19Line

end Zrnt.Util
