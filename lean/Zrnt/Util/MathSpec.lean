/-! Exact `Nat`-level specifications of the numeric/time helpers (the oracles of C19).
`none` = "not representable in 64 bits / error result". -/
namespace Zrnt.Util.Spec

def U64 : Nat := 2 ^ 64

/-- floor square root -/
def isqrt (n : Nat) : Nat := Nat.sqrt n

def isPow2 (n : Nat) : Bool := decide (∃ k, k < 64 ∧ n = 2 ^ k)

/-- least power of two ≥ n, searched upwards from 1 -/
def nextPow2Aux (n : Nat) : Nat → Nat → Nat
  | 0, p => p
  | fuel + 1, p => if n ≤ p then p else nextPow2Aux n fuel (2 * p)
def nextPow2 (n : Nat) : Nat := nextPow2Aux n 65 1

/-- `NextPowerOfTwo` as the repository's own test pins it: 0 ↦ 0; otherwise the least power of two ≥ n
(which is 2^64, not representable, for n > 2^63) -/
def nextPow2U64 (n : Nat) : Nat := if n = 0 then 0 else nextPow2 n

def timeToSlot (sps t g : Nat) : Nat := if t < g then 0 else (t - g) / sps

def timeAtSlot (sps slot g : Nat) : Option Nat :=
  let v := slot * sps + g
  if v < U64 then some v else none

def slotToEpoch (spe s : Nat) : Nat := s / spe

def epochStartSlot (spe e : Nat) : Option Nat :=
  let v := e * spe
  if v < U64 then some v else none

/-- compute_activation_exit_epoch (the spec function itself is in uint64 and would overflow-error) -/
def activationExitEpoch (lookahead e : Nat) : Nat := e + 1 + lookahead

def churnLimit (minChurn quot active : Nat) : Nat := max minChurn (active / quot)

def committeeCount (spe target maxc active : Nat) : Nat :=
  max 1 (min maxc (active / spe / target))

/-- compute_subnet_for_attestation with ATTESTATION_SUBNET_COUNT = 64 -/
def subnetForAttestation (spe committeesPerSlot slot committeeIndex : Nat) : Nat :=
  (committeesPerSlot * (slot % spe) + committeeIndex) % 64

/-- get_validator_activation_churn_limit (deneb), given get_validator_churn_limit -/
def activationChurnLimit (maxActivationChurn churn : Nat) : Nat := min maxActivationChurn churn

end Zrnt.Util.Spec
