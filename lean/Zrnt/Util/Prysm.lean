import Zrnt.Gen.GoFuns
/-! Hand model of `IntegerSquareRootPrysm` (math_util.go): a lookup table of eleven perfect squares, then a
floating-point estimate corrected by `floorSquareRootFrom` (the latter **regenerated** from the source).
The estimate is a parameter: the theorem holds for every estimate function, so nothing about IEEE
arithmetic is trusted; the driver instantiates it with Lean's native `Float` (same IEEE-754 double
operations as Go's `uint64(math.Sqrt(float64(n)))`) and the correspondence compares the results. -/
namespace Zrnt.Util.Prysm
open Zrnt Zrnt.Gen.GoFuns

/-- transcription of `squareRootTable` -/
def squareRootTable : List (UInt64 × UInt64) :=
  [(4, 2), (16, 4), (64, 8), (256, 16), (1024, 32), (4096, 64), (16384, 128), (65536, 256),
   (262144, 512), (1048576, 1024), (4194304, 2048)]

def integerSquareRootPrysmWith (est : UInt64 → UInt64) (fuel : Nat) (n : UInt64) : Res UInt64 :=
  match squareRootTable.lookup n with
  | some v => .ok v
  | none => FloorSquareRootFrom fuel n (est n)

/-- `uint64(math.Sqrt(float64(n)))` -/
def floatEstimate (n : UInt64) : UInt64 := (Float.sqrt n.toFloat).toUInt64

end Zrnt.Util.Prysm
