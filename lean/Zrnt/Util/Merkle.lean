import Zrnt.Prelude.Res
/-! Hand model of `merkle.VerifyMerkleBranch` (eth2/util/merkle/crypto_util.go), parametric in the
hash of two 32-byte nodes. `branch[i]` with `i ≥ len(branch)` is a Go index-out-of-range panic. -/
namespace Zrnt.Util.Merkle
open Zrnt

variable {α : Type} [DecidableEq α]

/-- one step of the loop at level `i`, given the sibling -/
@[inline] def stepNode (H : α → α → α) (index : Nat) (i : Nat) (value sib : α) : α :=
  if (index >>> i) % 2 = 1 then H sib value else H value sib

/-- the loop `for i := 0; i < depth; i++` as a structural recursion on the remaining depth -/
def fold (H : α → α → α) (branch : List α) (index : Nat) : (rem : Nat) → (i : Nat) → α → Res α
  | 0, _, value => .ok value
  | rem + 1, i, value =>
    match branch[i]? with
    | none => .panic
    | some sib => fold H branch index rem (i + 1) (stepNode H index i value sib)

def verifyMerkleBranch (H : α → α → α) (leaf : α) (branch : List α) (depth index : Nat) (root : α) :
    Res Bool :=
  match fold H branch index depth 0 leaf with
  | .ok v => .ok (decide (v = root))
  | .err => .err | .panic => .panic | .outOfFuel => .outOfFuel

/-- Specification: the root obtained by hashing `leaf` up `depth` levels with the siblings
`branch[0..depth)`, the bit `i` of `index` telling whether the node is a right child. -/
def specRoot (H : α → α → α) (leaf : α) (index : Nat) : List α → α
  | [] => leaf
  | sib :: rest =>
    specRoot H (if index % 2 = 1 then H sib leaf else H leaf sib) (index / 2) rest

/-- a binary Merkle tree (used to state completeness of branch verification) -/
inductive Tree (α : Type) where
  | leaf : α → Tree α
  | node : Tree α → Tree α → Tree α

def Tree.root (H : α → α → α) : Tree α → α
  | .leaf v => v
  | .node l r => H (l.root H) (r.root H)

/-- the leaf at `index` of a perfect tree of depth `d` with its siblings bottom-up (what a Merkle proof carries) -/
def Tree.proof (H : α → α → α) : Tree α → (d : Nat) → (index : Nat) → Option (α × List α)
  | .leaf v, 0, _ => some (v, [])
  | .node l r, d + 1, idx =>
    if (idx >>> d) % 2 = 1 then
      (Tree.proof H r d idx).map (fun p => (p.1, p.2 ++ [l.root H]))
    else
      (Tree.proof H l d idx).map (fun p => (p.1, p.2 ++ [r.root H]))
  | _, _, _ => none

end Zrnt.Util.Merkle
