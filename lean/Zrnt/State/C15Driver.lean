import Zrnt.Driver.Loop
import Zrnt.Prelude.Text
import Zrnt.Sha256
import Zrnt.State.Accessors
/-!
`zmodel c15` (stateful). A sequence starts with `new <viewKey> name=hex …`: the fields of one container
value (a beacon state of some fork, or a sub-container) as the Go *struct* side serialises them, in the
order of the struct. Then accessors of the *view* side are exercised:

    get M                read through accessor M; answer `ok <bytes>`
    set M hex            write through setter M; answer `ok <changed field>=<bytes> …`
    call M [hex]         IncrementDepositIndex / IncrementNextWithdrawalIndex / MakeSlashed / RotateSyncCommittee / SeedRandao
    elem G M idx [hex]   element accessors of a typed sub-view reached through state getter G
    velem i M [hex]      accessor M of validator i (reached through Validators().Validator(i))
    raw                  digest of all fields as `Raw()` reports them
    methods              the methods the view type declares

Every answer is `<model> | <spec>`: the model column follows the positional accesses **regenerated from the
source** (`Gen.StateFacts`): which index a method touches and through which typed wrapper; the spec column
follows the hand-written expectation `accessorField` (the field the accessor's *name* denotes).
Long byte strings are printed as `#<sha256>`.

The second family of sequences exercises copies (`live/copy/mut/adv/append/obs`): see `copyStep`.
-/
namespace Zrnt.State
open Zrnt Zrnt.Text Zrnt.Gen.StateFacts

abbrev Fields := List (String × ByteArray)

structure CopyWorld where
  /-- handle ↦ version stamp; a mutation gives the handle a fresh stamp, a copy inherits the stamp -/
  handles : List (String × Nat) := []
  next : Nat := 1
  /-- stamp of the value the kept-aside block of a `chain` handle was built for -/
  pristine : Nat := 0
  /-- handle ↦ how its value was made: constructor line and the mutations applied since (values are a
  function of this term: nothing that happens to other handles can matter) -/
  terms : List (String × List String) := []

structure St where
  key : String := ""
  fields : Fields := []
  world : CopyWorld := {}

def short (b : ByteArray) : String :=
  if b.size > 64 then "#" ++ toHex (Sha256.hash b) else toHex b

def le64 (n : Nat) : ByteArray :=
  ByteArray.mk ((List.range 8).map (fun i => UInt8.ofNat ((n >>> (8 * i)) % 256))).toArray

def readLe (b : ByteArray) : Nat := (List.range b.size).foldl (fun acc i => acc + (b.get! i).toNat <<< (8 * i)) 0

def findView (key : String) : Option View := views.find? (fun v => v.key == key)

def fieldAt (fs : Fields) (i : Nat) : Option (String × ByteArray) := fs[i]?

def setField (fs : Fields) (name : String) (b : ByteArray) : Fields :=
  fs.map (fun f => if f.1 == name then (f.1, b) else f)

def getField (fs : Fields) (name : String) : Option ByteArray := (fs.find? (·.1 == name)).map (·.2)

/-- changed fields between two records, in field order -/
def diffStr (old new : Fields) : String :=
  let ch := (old.zip new).filter (fun (a, b) => a.2.data != b.2.data)
  "ok" ++ String.join (ch.map (fun (_, b) => " " ++ b.1 ++ "=" ++ short b.2))

/-- the expectation row of a method -/
def expectRow (key m : String) : Option (String × List String) :=
  (lookupS accessorField key).bind (fun rows => (rows.find? (·.1 == m)).map (·.2))

def genMethod (v : View) (m : String) : Option Method := v.methods.find? (·.name == m)

/-- model of a read: the (single) index the regenerated method reads, through its wrapper -/
def modelRead (v : View) (fs : Fields) (m : String) : String :=
  match genMethod v m with
  | none => "unknown-method"
  | some gm =>
    match gm.accesses.filter (fun a => !isWrite a) with
    | [] => "unknown-method"
    | a :: rest =>
      if !(rest.all (fun b => b.index == a.index)) then "unmodelled" else
      match v.fieldType a.index, fieldAt fs a.index with
      | some ty, some f => if wrapOk ty a.wrap then "ok " ++ short f.2 else "err"
      | _, _ => "err"

def specRead (key : String) (fs : Fields) (m : String) : String :=
  match expectRow key m with
  | some ("get", [f]) => match getField fs f with | some b => "ok " ++ short b | none => "no-such-field"
  | _ => "no-expectation"

/-- target field of a write according to the regenerated accesses: every access of the method hits one index -/
def modelTarget (v : View) (m : String) : Option String :=
  match genMethod v m with
  | some gm =>
    match gm.accesses with
    | a :: rest => if rest.all (fun b => b.index == a.index) then v.fieldName a.index else none
    | [] => none
  | none => none

def specTarget (key m : String) : Option String :=
  match expectRow key m with
  | some ("set", [f]) => some f
  | _ => none

def writeAnswer (fs : Fields) (tgt : Option String) (b : ByteArray) : String × Fields :=
  match tgt with
  | some f => if (getField fs f).isSome then let fs' := setField fs f b; (diffStr fs fs', fs') else ("no-such-field", fs)
  | none => ("unmodelled", fs)

/-- vector/list element geometry of the typed sub-views reached through a state getter -/
def elemSize (getter : String) : Option (String × Nat × Bool) :=   -- field, element size, index taken modulo length
  match getter with
  | "BlockRoots" => some ("block_roots", 32, true)
  | "StateRoots" => some ("state_roots", 32, true)
  | "RandaoMixes" => some ("randao_mixes", 32, true)
  | "Slashings" => some ("slashings", 8, true)
  | "Balances" => some ("balances", 8, false)
  | "InactivityScores" => some ("inactivity_scores", 8, false)
  | "PreviousEpochParticipation" => some ("previous_epoch_participation", 1, false)
  | "CurrentEpochParticipation" => some ("current_epoch_participation", 1, false)
  | "HistoricalRoots" => some ("historical_roots", 32, false)
  | "Eth1DataVotes" => some ("eth1_data_votes", 72, false)
  | _ => none

def validatorSizes : List Nat := [48, 32, 8, 1, 8, 8, 8, 8]
def validatorSize : Nat := 121

def splice (b : ByteArray) (off : Nat) (v : ByteArray) : ByteArray :=
  b.extract 0 off ++ v ++ b.extract (off + v.size) b.size

def digestFields (fs : Fields) : String :=
  toHex (Sha256.hash (String.join (fs.map (fun f => f.1 ++ "=" ++ toHex f.2 ++ ";"))).toUTF8)

def sortStrings (l : List String) : List String := (l.toArray.qsort (· < ·)).toList

/-! ## copies: the value model

Handles name states (with their contexts). In the model a state is a *value*: `copy a b` binds `b` to the
value of `a`; any mutation of a handle rebinds that handle only. So after every operation the observable
content (bytes, root, context dump) of every **other** live handle is unchanged — that is what the answer
of each mutating line lists, and what the Go side measures on the real objects. -/
def CopyWorld.term (w : CopyWorld) (h : String) : List String := ((w.terms.find? (·.1 == h)).map (·.2)).getD []
def CopyWorld.setTerm (w : CopyWorld) (h : String) (t : List String) : CopyWorld :=
  { w with terms := (w.terms.filter (·.1 != h)) ++ [(h, t)] }

def copyStep (w : CopyWorld) (toks : List String) : Option (CopyWorld × String) :=
  let others (h : String) := sortStrings ((w.handles.filter (·.1 != h)).map (·.1))
  let has (h : String) := w.handles.any (·.1 == h)
  match toks with
  | ["live", h, fork, seed] =>
    some (({ w with handles := (w.handles.filter (·.1 != h)) ++ [(h, w.next)], next := w.next + 1 } : CopyWorld).setTerm h
            [" ".intercalate ["live", fork, seed]], "ok")
  | ["chain", h, _cfg, _n, _policy, _seed, _warm] =>
    some ({ handles := (w.handles.filter (·.1 != h)) ++ [(h, w.next)], next := w.next + 1, pristine := w.next }, "ok")
  | ["copy", a, b] =>
    match w.handles.find? (·.1 == a) with
    | some (_, s) =>
      if a == b then some (w, "bad-op") else
      some (({ w with handles := (w.handles.filter (·.1 != b)) ++ [(b, s)] } : CopyWorld).setTerm b (w.term a), "ok same-as=" ++ a)
    | none => some (w, "bad-op")
  | ["fresh", a, b] =>
    -- a copy whose context is computed from scratch: the same value as `a`
    match w.handles.find? (·.1 == a) with
    | some (_, s) =>
      if a == b then some (w, "bad-op") else
      some (({ w with handles := (w.handles.filter (·.1 != b)) ++ [(b, s)] } : CopyWorld).setTerm b (w.term a), "ok")
    | none => some (w, "bad-op")
  | ["same", a, b] =>
    if has a && has b then
      some (w, if w.term a == w.term b then "ok equal" else "ok incomparable")
    else some (w, "bad-op")
  | "mut" :: h :: rest =>
    let arity : Option Nat := match rest.head? with
      | some "block" => some 1
      | some k => if ["mutant", "mutantvalid", "slots", "slot", "checkpoint", "header", "addval", "eth1vote", "histroot"].contains k then some 2
                  else if ["balance", "exit", "root", "mix", "dep"].contains k then some 3 else none
      | none => none
    if arity != some rest.length then some (w, "bad-op") else
    if has h then
      -- a valid block (the chain's own next block, or a still-valid variant of it) is accepted exactly by the
      -- value it was built for: any earlier change of that handle changes the state root the block commits to
      let verdict := match rest with
        | ["block"] | ["mutantvalid", _] =>
          if (w.handles.find? (·.1 == h)).map (·.2) == some w.pristine then " applied" else " refused"
        | _ => ""
      some (({ w with handles := w.handles.map (fun x => if x.1 == h then (h, w.next) else x), next := w.next + 1 } : CopyWorld).setTerm h
              (w.term h ++ [" ".intercalate rest]),
            "ok unchanged=" ++ ",".intercalate (others h) ++ verdict)
    else some (w, "bad-op")
  | _ => none

def c15Step (s : St) (line : String) : St × String :=
  let toks := tokens line
  let bad := (s, "bad-op")
  match copyStep s.world toks with
  | some (w, out) => ({ s with world := w }, out)
  | none =>
  match toks with
  | ["preset", id] =>
    -- the Go side switches the preset the containers are built with; the record model needs no preset: every
    -- vector's geometry is read off the bytes the struct side reports
    if s.key != "" || !(id == "minimal" || id == "odd") then bad else (s, "ok")
  | "new" :: key :: rest =>
    let parsed := rest.mapM (fun t =>
      match t.splitOn "=" with
      | [n, h] => (parseHex h).map (fun b => (n, b))
      | _ => none)
    match parsed with
    | none => bad
    | some fs =>
      let names := fs.map (·.1)
      let m := match findView key with
        | some v => if v.fields.map (·.1) == names then "ok" else "field-list-differs"
        | none => "unknown-view"
      let sp := match lookupS specFields key with
        | some want => if want == names then "ok" else "field-list-differs"
        | none => "unknown-view"
      ({ s with key := key, fields := fs }, m ++ " | " ++ sp)
  | ["get", m] =>
    match findView s.key with
    | some v => (s, modelRead v s.fields m ++ " | " ++ specRead s.key s.fields m)
    | none => bad
  | ["set", m, h] =>
    match findView s.key, parseHex h with
    | some v, some b =>
      let (ma, fs') := writeAnswer s.fields (modelTarget v m) b
      let (sa, _) := writeAnswer s.fields (specTarget s.key m) b
      ({ s with fields := fs' }, ma ++ " | " ++ sa)
    | _, _ => bad
  | "call" :: m :: args =>
    match findView s.key with
    | none => bad
    | some v =>
      -- value transformation of the special methods (what they are meant to write), target by model / by spec
      let tgtM := modelTarget v m
      let row := expectRow s.key m
      let tgtS := match row with | some ("set", [f]) => some f | _ => none
      let old (t : Option String) : ByteArray := (t.bind (getField s.fields)).getD ByteArray.empty
      match m, args with
      | "IncrementDepositIndex", [] | "IncrementNextWithdrawalIndex", [] =>
        let f (t : Option String) := writeAnswer s.fields t (le64 ((readLe (old t) + 1) % 2^64))
        let (ma, fs') := f tgtM
        ({ s with fields := fs' }, ma ++ " | " ++ (f tgtS).1)
      | "MakeSlashed", [] =>
        let f (t : Option String) := writeAnswer s.fields t (ByteArray.mk #[1])
        let (ma, fs') := f tgtM
        ({ s with fields := fs' }, ma ++ " | " ++ (f tgtS).1)
      | "Set", [h] =>
        -- CheckpointView.Set: the whole value is replaced (fixed-size fields: epoch 8 bytes, root 32 bytes)
        match parseHex h with
        | some b =>
          if s.key != "common.CheckpointView" || b.size != 40 then bad else
          let fs' : Fields := [("epoch", b.extract 0 8), ("root", b.extract 8 40)]
          let a := diffStr s.fields fs'
          ({ s with fields := fs' }, a ++ " | " ++ a)
        | none => bad
      | "SeedRandao", [h] =>
        match parseHex h with
        | some seed =>
          let f (t : Option String) :=
            let n := (old t).size / 32
            writeAnswer s.fields t ((List.range n).foldl (fun acc _ => acc ++ seed) ByteArray.empty)
          let (ma, fs') := f tgtM
          ({ s with fields := fs' }, ma ++ " | " ++ (f tgtS).1)
        | none => bad
      | "AddValidator", [pubH, credH, balH] =>
        -- add_validator_to_registry: a fresh validator record and its balance are appended; since Altair also a
        -- zero participation flag in both epochs and a zero inactivity score (minimal/mainnet presets:
        -- EFFECTIVE_BALANCE_INCREMENT = 10^9, MAX_EFFECTIVE_BALANCE = 32 * 10^9)
        match parseHex pubH, parseHex credH, parseHex balH with
        | some pub, some cred, some bal =>
          if pub.size != 48 || cred.size != 32 || bal.size != 8 then bad else
          let b := readLe bal
          let eff := Nat.min (b - b % 1000000000) 32000000000
          let far := le64 (2^64 - 1)
          let rec_ := pub ++ cred ++ le64 eff ++ ByteArray.mk #[0] ++ far ++ far ++ far ++ far
          let app (fs : Fields) (f : String) (x : ByteArray) : Fields :=
            match getField fs f with | some o => setField fs f (o ++ x) | none => fs
          let fs1 := app (app s.fields "validators" rec_) "balances" bal
          let fs2 := app (app (app fs1 "previous_epoch_participation" (ByteArray.mk #[0]))
                        "current_epoch_participation" (ByteArray.mk #[0])) "inactivity_scores" (le64 0)
          -- the model follows the regenerated fact that the method reaches `validators` through its own index
          let okModel := modelTarget v "AddValidator" == some "validators" && modelTarget v "Balances" == some "balances"
          ({ s with fields := fs2 }, (if okModel then diffStr s.fields fs2 else "unmodelled") ++ " | " ++ diffStr s.fields fs2)
        | _, _, _ => bad
      | "RotateSyncCommittee", [h] =>
        match parseHex h with
        | some nxt =>
          -- model: follow the regenerated access sequence r i ; w j ; w k
          let modelFs : Option Fields :=
            match genMethod v m with
            | some gm =>
              match gm.accesses with
              | [r, w1, w2] =>
                if isWrite r || !isWrite w1 || !isWrite w2 then none else
                match fieldAt s.fields r.index, v.fieldName w1.index, v.fieldName w2.index with
                | some src, some f1, some f2 => some (setField (setField s.fields f1 src.2) f2 nxt)
                | _, _, _ => none
              | _ => none
            | none => none
          let specFs : Option Fields :=
            match row, getField s.fields "next_sync_committee" with
            | some ("seq", ["r:next_sync_committee", "w:current_sync_committee", "w:next_sync_committee"]), some src =>
              some (setField (setField s.fields "current_sync_committee" src) "next_sync_committee" nxt)
            | _, _ => none
          let ans (o : Option Fields) := match o with | some fs' => diffStr s.fields fs' | none => "unmodelled"
          ({ s with fields := modelFs.getD s.fields }, ans modelFs ++ " | " ++ ans specFs)
        | none => bad
      | _, _ => bad
  | "elem" :: g :: m :: idx :: args =>
    match elemSize g, idx.toNat?, findView s.key with
    | some (fname, sz, modulo), some i, some v =>
      -- the state getter must itself lead to the right field (model: regenerated index; spec: expectation)
      let viaModel := modelTarget v g
      let viaSpec := match expectRow s.key g with | some ("get", [f]) => some f | _ => none
      let run (via : Option String) : String × Fields :=
        match via.bind (fun f => (getField s.fields f).map (fun b => (f, b))) with
        | none => ("unmodelled", s.fields)
        | some (f, b) =>
          if f != fname then
            -- the getter leads elsewhere: whatever geometry that field has, it is not this sub-view's
            ("err", s.fields)
          else
          let n := b.size / sz
          -- whole-list operations of the list sub-views
          if m == "Append" || m == "AppendBalance" then
            match args with
            | [h] => match parseHex h with
              | some nb => if nb.size != sz then ("bad-op", s.fields) else
                  let fs' := setField s.fields f (b ++ nb); (diffStr s.fields fs', fs')
              | none => ("bad-op", s.fields)
            | _ => ("bad-op", s.fields)
          else if m == "Reset" then
            (if args.isEmpty then let fs' := setField s.fields f ByteArray.empty; (diffStr s.fields fs', fs') else ("bad-op", s.fields))
          else if m == "Length" then
            (if args.isEmpty then ("ok " ++ toHex (le64 n), s.fields) else ("bad-op", s.fields))
          else
          if n == 0 then ("err", s.fields) else
          let j := if modulo then i % n else i
          if j ≥ n then ("err", s.fields) else
          let cur := b.extract (j * sz) (j * sz + sz)
          match m, args with
          | "GetRoot", [] | "GetRandomMix", [] | "GetBalance", [] | "GetSlashingsValue", [] | "GetScore", [] | "GetFlags", [] =>
            ("ok " ++ toHex cur, s.fields)
          | "SetRoot", [h] | "SetRandomMix", [h] | "SetBalance", [h] | "SetScore", [h] | "SetFlags", [h] =>
            match parseHex h with
            | some nb => if nb.size != sz then ("bad-op", s.fields) else
                let fs' := setField s.fields f (splice b (j * sz) nb); (diffStr s.fields fs', fs')
            | none => ("bad-op", s.fields)
          | "ResetSlashings", [] => let fs' := setField s.fields f (splice b (j * sz) (le64 0)); (diffStr s.fields fs', fs')
          | "AddSlashing", [h] =>
            match parseHex h with
            | some nb => let fs' := setField s.fields f (splice b (j * sz) (le64 ((readLe cur + readLe nb) % 2^64))); (diffStr s.fields fs', fs')
            | none => ("bad-op", s.fields)
          | _, _ => ("bad-op", s.fields)
      let (ma, fs') := run viaModel
      let (sa, _) := run viaSpec
      if ma == "bad-op" then bad else ({ s with fields := fs' }, ma ++ " | " ++ sa)
    | _, _, _ => bad
  | "velem" :: idx :: m :: args =>
    -- accessor `m` of validator `idx`: the regenerated ValidatorView facts give the position inside the element
    match idx.toNat?, findView s.key, findView "phase0.ValidatorView" with
    | some i, some v, some vv =>
      let viaModel := modelTarget v "Validators"
      let viaSpec := match expectRow s.key "Validators" with | some ("get", [f]) => some f | _ => none
      let posModel : Option Nat := (genMethod vv m).bind (fun gm => match gm.accesses with
        | a :: rest => if rest.all (fun b => b.index == a.index) then some a.index else none
        | [] => none)
      let wrapFine : Bool := match genMethod vv m with
        | some gm => gm.accesses.all (fun a => match vv.fieldType a.index with
            | some ty => if isWrite a then setOk vv.pkg ty a.wrap else wrapOk ty a.wrap
            | none => false)
        | none => false
      let posSpec : Option Nat := match expectRow "phase0.ValidatorView" m with
        | some (_, [f]) => (vv.fields.map (·.1)).idxOf? f
        | _ => none
      let run (via : Option String) (pos : Option Nat) (wrapsOk : Bool) : String × Fields :=
        match via.bind (fun f => (getField s.fields f).map (fun b => (f, b))), pos with
        | some (f, b), some p =>
          if f != "validators" then ("err", s.fields) else
          if (i + 1) * validatorSize > b.size then ("err", s.fields) else
          if !wrapsOk then ("err", s.fields) else
          let off := i * validatorSize + (validatorSizes.take p).foldl (· + ·) 0
          let sz := validatorSizes.getD p 0
          let cur := b.extract off (off + sz)
          match args with
          | [] =>
            if m == "MakeSlashed" then let fs' := setField s.fields f (splice b off (ByteArray.mk #[1])); (diffStr s.fields fs', fs')
            else ("ok " ++ toHex cur, s.fields)
          | [h] =>
            match parseHex h with
            | some nb => if nb.size != sz then ("bad-op", s.fields) else
                let fs' := setField s.fields f (splice b off nb); (diffStr s.fields fs', fs')
            | none => ("bad-op", s.fields)
          | _ => ("bad-op", s.fields)
        | _, _ => ("unmodelled", s.fields)
      let (ma, fs') := run viaModel posModel wrapFine
      let (sa, _) := run viaSpec posSpec true
      if ma == "bad-op" then bad else ({ s with fields := fs' }, ma ++ " | " ++ sa)
    | _, _, _ => bad
  | ["held", _m, ln, seed] =>
    -- a result the caller holds is a value: later reads (anywhere) cannot change it
    match findView s.key, ln.toNat?, seed.toNat? with
    | some _, some n, some _ => if n ≤ 32 then (s, "ok held") else bad
    | _, _, _ => bad
  | ["raw"] =>
    match findView s.key with
    | some v =>
      -- model: `Raw` reads what the regenerated facts say it reads (sub-views: positional; states: re-decoding)
      let m := match genMethod v "Raw" with
        | some gm =>
          let picked := gm.accesses.filterMap (fun a => fieldAt s.fields a.index)
          if gm.accesses.all (fun a => match v.fieldType a.index with | some ty => wrapOk ty a.wrap | none => false)
          then "ok " ++ digestFields picked else "err"
        | none => "ok " ++ digestFields s.fields
      (s, m ++ " | ok " ++ digestFields s.fields)
    | none => bad
  | ["unclassified", _] => (s, "ok not-driven")
  | ["methods"] =>
    match allMethods.find? (fun r => r.1 ++ "." ++ r.2.1 == s.key) with
    | some r => (s, "ok " ++ ",".intercalate (sortStrings r.2.2))
    | none => bad
  | _ => bad

def c15Mode : Driver.Mode := Driver.stateful "c15" ({} : St) c15Step

end Zrnt.State
