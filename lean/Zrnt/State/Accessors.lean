import Zrnt.Gen.StateFacts
/-!
# State accessors (property C15): record-of-fields model and expectations

* `Rec`: a container value as the list of its fields' values, by position (what a `ContainerView` is);
  `Rec.get` / `Rec.set` are `Get(i)` / `Set(i, v)`. The generic laws `get_set_same` / `get_set_other`
  are proved in `Proofs/Properties/C15.lean`.
* **Expectations (hand-written, independent of the code's index arithmetic):**
  `specFields` — the field names of each container in the order the consensus specification declares
  them, per fork; `accessorField` — for every accessor of every view type the field(s) its *name* denotes;
  `wrapOk` / `setOk` — which typed wrapper / value shape is acceptable for which field type;
  `constName` — the index constant that belongs to each field.
* Check functions relating the regenerated facts `Zrnt.Gen.StateFacts` to the expectations; the theorems of
  C15 are `∀ view ∈ Gen.views, check view = true`.
Core Lean only (the `zmodel c15` driver uses the same tables).
-/
namespace Zrnt.State
open Zrnt.Gen.StateFacts

/-! ## Record-of-fields model -/

/-- a container value: its fields' values by position -/
abbrev Rec (α : Type) := List α

def Rec.get {α} (r : Rec α) (i : Nat) : Option α := r[i]?
def Rec.set {α} (r : Rec α) (i : Nat) (v : α) : Option (Rec α) := if i < r.length then some (List.set r i v) else none

/-! ## The specification's containers (field names in declaration order) -/

def phase0State : List String := [
  "genesis_time", "genesis_validators_root", "slot", "fork",
  "latest_block_header", "block_roots", "state_roots", "historical_roots",
  "eth1_data", "eth1_data_votes", "eth1_deposit_index",
  "validators", "balances", "randao_mixes", "slashings",
  "previous_epoch_attestations", "current_epoch_attestations",
  "justification_bits", "previous_justified_checkpoint", "current_justified_checkpoint", "finalized_checkpoint"]

/-- Altair: attestations replaced by participation flags; inactivity scores and sync committees appended -/
def altairState : List String :=
  (phase0State.take 15) ++ ["previous_epoch_participation", "current_epoch_participation"] ++ (phase0State.drop 17) ++
  ["inactivity_scores", "current_sync_committee", "next_sync_committee"]

def bellatrixState : List String := altairState ++ ["latest_execution_payload_header"]

def capellaState : List String :=
  bellatrixState ++ ["next_withdrawal_index", "next_withdrawal_validator_index", "historical_summaries"]

def denebState : List String := capellaState

def electraState : List String :=
  denebState ++ ["deposit_requests_start_index", "deposit_balance_to_consume", "exit_balance_to_consume",
    "earliest_exit_epoch", "consolidation_balance_to_consume", "earliest_consolidation_epoch",
    "pending_deposits", "pending_partial_withdrawals", "pending_consolidations"]

def bellatrixHeader : List String := [
  "parent_hash", "fee_recipient", "state_root", "receipts_root", "logs_bloom", "prev_randao", "block_number",
  "gas_limit", "gas_used", "timestamp", "extra_data", "base_fee_per_gas", "block_hash", "transactions_root"]
def bellatrixPayload : List String := bellatrixHeader.take 13 ++ ["transactions"]

/-- view type ↦ the specification's field list of the container it is a view of -/
def specFields : List (String × List String) := [
  ("phase0.BeaconStateView", phase0State),
  ("altair.BeaconStateView", altairState),
  ("bellatrix.BeaconStateView", bellatrixState),
  ("capella.BeaconStateView", capellaState),
  ("deneb.BeaconStateView", denebState),
  ("electra.BeaconStateView", electraState),
  ("common.CheckpointView", ["epoch", "root"]),
  ("common.ForkView", ["previous_version", "current_version", "epoch"]),
  ("common.BeaconBlockHeaderView", ["slot", "proposer_index", "parent_root", "state_root", "body_root"]),
  ("common.Eth1DataView", ["deposit_root", "deposit_count", "block_hash"]),
  ("common.SyncCommitteeView", ["pubkeys", "aggregate_pubkey"]),
  ("common.WithdrawalView", ["index", "validator_index", "address", "amount"]),
  ("common.BLSToExecutionChangeView", ["validator_index", "from_bls_pubkey", "to_execution_address"]),
  ("common.SignedBLSToExecutionChangeView", ["message", "signature"]),
  ("phase0.ValidatorView", ["pubkey", "withdrawal_credentials", "effective_balance", "slashed",
     "activation_eligibility_epoch", "activation_epoch", "exit_epoch", "withdrawable_epoch"]),
  ("phase0.AttestationDataView", ["slot", "index", "beacon_block_root", "source", "target"]),
  ("phase0.PendingAttestationView", ["aggregation_bits", "data", "inclusion_delay", "proposer_index"]),
  ("phase0.HistoricalBatchView", ["block_roots", "state_roots"]),
  ("altair.SyncAggregateView", ["sync_committee_bits", "sync_committee_signature"]),
  ("altair.SyncCommitteeMessageView", ["slot", "beacon_block_root", "validator_index", "signature"]),
  ("altair.SyncCommitteeContributionView", ["slot", "beacon_block_root", "subcommittee_index", "aggregation_bits", "signature"]),
  ("altair.ContributionAndProofView", ["aggregator_index", "contribution", "selection_proof"]),
  ("altair.SignedContributionAndProofView", ["message", "signature"]),
  ("bellatrix.ExecutionPayloadHeaderView", bellatrixHeader),
  ("capella.ExecutionPayloadHeaderView", bellatrixHeader ++ ["withdrawals_root"]),
  ("deneb.ExecutionPayloadHeaderView", bellatrixHeader ++ ["withdrawals_root", "blob_gas_used", "excess_blob_gas"]),
  ("bellatrix.ExecutionPayloadView", bellatrixPayload),
  ("capella.ExecutionPayloadView", bellatrixPayload ++ ["withdrawals"]),
  ("deneb.ExecutionPayloadView", bellatrixPayload ++ ["withdrawals", "blob_gas_used", "excess_blob_gas"])]

/-! ## Which field does an accessor's name denote

`(view type, [(method, mode, fields)])`:
`get`  — every positional access of the method reads the one named field (and the method has one);
`set`  — every positional access of the method reads or writes the one named field;
`seq`  — exactly this sequence of reads (`r:`) / writes (`w:`);
`all`  — reads every field of the container exactly once, in order (`Raw`). -/
def accessorField : List (String × List (String × String × List String)) := [
  ("common.BLSToExecutionChangeView", [
    ("FromBLSPubKey", "get", ["from_bls_pubkey"]),
    ("Raw", "all", []),
    ("ToExecutionAddress", "get", ["to_execution_address"]),
    ("ValidatorIndex", "get", ["validator_index"])]),
  ("common.BeaconBlockHeaderView", [
    ("BodyRoot", "get", ["body_root"]),
    ("ParentRoot", "get", ["parent_root"]),
    ("ProposerIndex", "get", ["proposer_index"]),
    ("SetStateRoot", "set", ["state_root"]),
    ("Slot", "get", ["slot"]),
    ("StateRoot", "get", ["state_root"])]),
  ("common.CheckpointView", [
    ("Epoch", "get", ["epoch"]),
    ("Raw", "all", []),
    ("Root", "get", ["root"])]),
  ("common.Eth1DataView", [
    ("BlockHash", "get", ["block_hash"]),
    ("DepositCount", "get", ["deposit_count"]),
    ("DepositRoot", "get", ["deposit_root"]),
    ("SetDepositRoot", "set", ["deposit_root"])]),
  ("common.ForkView", [
    ("CurrentVersion", "get", ["current_version"]),
    ("Epoch", "get", ["epoch"]),
    ("PreviousVersion", "get", ["previous_version"])]),
  ("common.SignedBLSToExecutionChangeView", [
    ("BLSToExecutionChange", "get", ["message"]),
    ("Raw", "all", []),
    ("Signature", "get", ["signature"])]),
  ("common.SyncCommitteeView", [
    ("AggregatePubkey", "get", ["aggregate_pubkey"]),
    ("Pubkeys", "get", ["pubkeys"])]),
  ("common.WithdrawalView", [
    ("Address", "get", ["address"]),
    ("Amount", "get", ["amount"]),
    ("Index", "get", ["index"]),
    ("Raw", "all", []),
    ("ValidatorIndex", "get", ["validator_index"])]),
  ("phase0.AttestationDataView", [
    ("Raw", "all", [])]),
  ("phase0.BeaconStateView", [
    ("AddValidator", "get", ["validators"]),
    ("Balances", "get", ["balances"]),
    ("BlockRoots", "get", ["block_roots"]),
    ("CurrentEpochAttestations", "get", ["current_epoch_attestations"]),
    ("CurrentJustifiedCheckpoint", "get", ["current_justified_checkpoint"]),
    ("Eth1Data", "get", ["eth1_data"]),
    ("Eth1DataVotes", "get", ["eth1_data_votes"]),
    ("Eth1DepositIndex", "get", ["eth1_deposit_index"]),
    ("FinalizedCheckpoint", "get", ["finalized_checkpoint"]),
    ("Fork", "get", ["fork"]),
    ("GenesisTime", "get", ["genesis_time"]),
    ("GenesisValidatorsRoot", "get", ["genesis_validators_root"]),
    ("HistoricalRoots", "get", ["historical_roots"]),
    ("IncrementDepositIndex", "set", ["eth1_deposit_index"]),
    ("JustificationBits", "get", ["justification_bits"]),
    ("LatestBlockHeader", "get", ["latest_block_header"]),
    ("PreviousEpochAttestations", "get", ["previous_epoch_attestations"]),
    ("PreviousJustifiedCheckpoint", "get", ["previous_justified_checkpoint"]),
    ("RandaoMixes", "get", ["randao_mixes"]),
    ("SeedRandao", "set", ["randao_mixes"]),
    ("SetBalances", "set", ["balances"]),
    ("SetCurrentJustifiedCheckpoint", "set", ["current_justified_checkpoint"]),
    ("SetEth1Data", "set", ["eth1_data"]),
    ("SetFinalizedCheckpoint", "set", ["finalized_checkpoint"]),
    ("SetFork", "set", ["fork"]),
    ("SetGenesisTime", "set", ["genesis_time"]),
    ("SetGenesisValidatorsRoot", "set", ["genesis_validators_root"]),
    ("SetJustificationBits", "set", ["justification_bits"]),
    ("SetLatestBlockHeader", "set", ["latest_block_header"]),
    ("SetPreviousJustifiedCheckpoint", "set", ["previous_justified_checkpoint"]),
    ("SetSlot", "set", ["slot"]),
    ("Slashings", "get", ["slashings"]),
    ("Slot", "get", ["slot"]),
    ("StateRoots", "get", ["state_roots"]),
    ("Validators", "get", ["validators"])]),
  ("phase0.HistoricalBatchView", [
    ("BlockRoots", "get", ["block_roots"]),
    ("StateRoots", "get", ["state_roots"])]),
  ("phase0.PendingAttestationView", [
    ("Raw", "all", [])]),
  ("phase0.ValidatorView", [
    ("ActivationEligibilityEpoch", "get", ["activation_eligibility_epoch"]),
    ("ActivationEpoch", "get", ["activation_epoch"]),
    ("EffectiveBalance", "get", ["effective_balance"]),
    ("ExitEpoch", "get", ["exit_epoch"]),
    ("Flatten", "seq", ["r:effective_balance", "r:slashed", "r:activation_eligibility_epoch", "r:activation_epoch", "r:exit_epoch", "r:withdrawable_epoch"]),
    ("MakeSlashed", "set", ["slashed"]),
    ("Pubkey", "get", ["pubkey"]),
    ("SetActivationEligibilityEpoch", "set", ["activation_eligibility_epoch"]),
    ("SetActivationEpoch", "set", ["activation_epoch"]),
    ("SetEffectiveBalance", "set", ["effective_balance"]),
    ("SetExitEpoch", "set", ["exit_epoch"]),
    ("SetWithdrawableEpoch", "set", ["withdrawable_epoch"]),
    ("SetWithdrawalCredentials", "set", ["withdrawal_credentials"]),
    ("Slashed", "get", ["slashed"]),
    ("WithdrawableEpoch", "get", ["withdrawable_epoch"]),
    ("WithdrawalCredentials", "get", ["withdrawal_credentials"])]),
  ("altair.BeaconStateView", [
    ("AddValidator", "get", ["validators"]),
    ("Balances", "get", ["balances"]),
    ("BlockRoots", "get", ["block_roots"]),
    ("CurrentEpochParticipation", "get", ["current_epoch_participation"]),
    ("CurrentJustifiedCheckpoint", "get", ["current_justified_checkpoint"]),
    ("CurrentSyncCommittee", "get", ["current_sync_committee"]),
    ("Eth1Data", "get", ["eth1_data"]),
    ("Eth1DataVotes", "get", ["eth1_data_votes"]),
    ("Eth1DepositIndex", "get", ["eth1_deposit_index"]),
    ("FinalizedCheckpoint", "get", ["finalized_checkpoint"]),
    ("Fork", "get", ["fork"]),
    ("GenesisTime", "get", ["genesis_time"]),
    ("GenesisValidatorsRoot", "get", ["genesis_validators_root"]),
    ("HistoricalRoots", "get", ["historical_roots"]),
    ("InactivityScores", "get", ["inactivity_scores"]),
    ("IncrementDepositIndex", "set", ["eth1_deposit_index"]),
    ("JustificationBits", "get", ["justification_bits"]),
    ("LatestBlockHeader", "get", ["latest_block_header"]),
    ("NextSyncCommittee", "get", ["next_sync_committee"]),
    ("PreviousEpochParticipation", "get", ["previous_epoch_participation"]),
    ("PreviousJustifiedCheckpoint", "get", ["previous_justified_checkpoint"]),
    ("RandaoMixes", "get", ["randao_mixes"]),
    ("RotateSyncCommittee", "seq", ["r:next_sync_committee", "w:current_sync_committee", "w:next_sync_committee"]),
    ("SeedRandao", "set", ["randao_mixes"]),
    ("SetBalances", "set", ["balances"]),
    ("SetCurrentJustifiedCheckpoint", "set", ["current_justified_checkpoint"]),
    ("SetCurrentSyncCommittee", "set", ["current_sync_committee"]),
    ("SetEth1Data", "set", ["eth1_data"]),
    ("SetFinalizedCheckpoint", "set", ["finalized_checkpoint"]),
    ("SetFork", "set", ["fork"]),
    ("SetGenesisTime", "set", ["genesis_time"]),
    ("SetGenesisValidatorsRoot", "set", ["genesis_validators_root"]),
    ("SetJustificationBits", "set", ["justification_bits"]),
    ("SetLatestBlockHeader", "set", ["latest_block_header"]),
    ("SetNextSyncCommittee", "set", ["next_sync_committee"]),
    ("SetPreviousJustifiedCheckpoint", "set", ["previous_justified_checkpoint"]),
    ("SetSlot", "set", ["slot"]),
    ("Slashings", "get", ["slashings"]),
    ("Slot", "get", ["slot"]),
    ("StateRoots", "get", ["state_roots"]),
    ("Validators", "get", ["validators"])]),
  ("bellatrix.BeaconStateView", [
    ("AddValidator", "get", ["validators"]),
    ("Balances", "get", ["balances"]),
    ("BlockRoots", "get", ["block_roots"]),
    ("CurrentEpochParticipation", "get", ["current_epoch_participation"]),
    ("CurrentJustifiedCheckpoint", "get", ["current_justified_checkpoint"]),
    ("CurrentSyncCommittee", "get", ["current_sync_committee"]),
    ("Eth1Data", "get", ["eth1_data"]),
    ("Eth1DataVotes", "get", ["eth1_data_votes"]),
    ("Eth1DepositIndex", "get", ["eth1_deposit_index"]),
    ("FinalizedCheckpoint", "get", ["finalized_checkpoint"]),
    ("Fork", "get", ["fork"]),
    ("GenesisTime", "get", ["genesis_time"]),
    ("GenesisValidatorsRoot", "get", ["genesis_validators_root"]),
    ("HistoricalRoots", "get", ["historical_roots"]),
    ("InactivityScores", "get", ["inactivity_scores"]),
    ("IncrementDepositIndex", "set", ["eth1_deposit_index"]),
    ("JustificationBits", "get", ["justification_bits"]),
    ("LatestBlockHeader", "get", ["latest_block_header"]),
    ("LatestExecutionPayloadHeader", "get", ["latest_execution_payload_header"]),
    ("NextSyncCommittee", "get", ["next_sync_committee"]),
    ("PreviousEpochParticipation", "get", ["previous_epoch_participation"]),
    ("PreviousJustifiedCheckpoint", "get", ["previous_justified_checkpoint"]),
    ("RandaoMixes", "get", ["randao_mixes"]),
    ("RotateSyncCommittee", "seq", ["r:next_sync_committee", "w:current_sync_committee", "w:next_sync_committee"]),
    ("SeedRandao", "set", ["randao_mixes"]),
    ("SetBalances", "set", ["balances"]),
    ("SetCurrentJustifiedCheckpoint", "set", ["current_justified_checkpoint"]),
    ("SetCurrentSyncCommittee", "set", ["current_sync_committee"]),
    ("SetEth1Data", "set", ["eth1_data"]),
    ("SetFinalizedCheckpoint", "set", ["finalized_checkpoint"]),
    ("SetFork", "set", ["fork"]),
    ("SetGenesisTime", "set", ["genesis_time"]),
    ("SetGenesisValidatorsRoot", "set", ["genesis_validators_root"]),
    ("SetJustificationBits", "set", ["justification_bits"]),
    ("SetLatestBlockHeader", "set", ["latest_block_header"]),
    ("SetLatestExecutionPayloadHeader", "set", ["latest_execution_payload_header"]),
    ("SetNextSyncCommittee", "set", ["next_sync_committee"]),
    ("SetPreviousJustifiedCheckpoint", "set", ["previous_justified_checkpoint"]),
    ("SetSlot", "set", ["slot"]),
    ("Slashings", "get", ["slashings"]),
    ("Slot", "get", ["slot"]),
    ("StateRoots", "get", ["state_roots"]),
    ("Validators", "get", ["validators"])]),
  ("bellatrix.ExecutionPayloadHeaderView", [
    ("BaseFeePerGas", "get", ["base_fee_per_gas"]),
    ("BlockHash", "get", ["block_hash"]),
    ("BlockNumber", "get", ["block_number"]),
    ("FeeRecipient", "get", ["fee_recipient"]),
    ("GasLimit", "get", ["gas_limit"]),
    ("GasUsed", "get", ["gas_used"]),
    ("LogsBloom", "get", ["logs_bloom"]),
    ("ParentHash", "get", ["parent_hash"]),
    ("Random", "get", ["prev_randao"]),
    ("Raw", "all", []),
    ("ReceiptRoot", "get", ["receipts_root"]),
    ("StateRoot", "get", ["state_root"]),
    ("Timestamp", "get", ["timestamp"]),
    ("TransactionsRoot", "get", ["transactions_root"])]),
  ("capella.BeaconStateView", [
    ("AddValidator", "get", ["validators"]),
    ("Balances", "get", ["balances"]),
    ("BlockRoots", "get", ["block_roots"]),
    ("CurrentEpochParticipation", "get", ["current_epoch_participation"]),
    ("CurrentJustifiedCheckpoint", "get", ["current_justified_checkpoint"]),
    ("CurrentSyncCommittee", "get", ["current_sync_committee"]),
    ("Eth1Data", "get", ["eth1_data"]),
    ("Eth1DataVotes", "get", ["eth1_data_votes"]),
    ("Eth1DepositIndex", "get", ["eth1_deposit_index"]),
    ("FinalizedCheckpoint", "get", ["finalized_checkpoint"]),
    ("Fork", "get", ["fork"]),
    ("GenesisTime", "get", ["genesis_time"]),
    ("GenesisValidatorsRoot", "get", ["genesis_validators_root"]),
    ("HistoricalRoots", "get", ["historical_roots"]),
    ("HistoricalSummaries", "get", ["historical_summaries"]),
    ("InactivityScores", "get", ["inactivity_scores"]),
    ("IncrementDepositIndex", "set", ["eth1_deposit_index"]),
    ("IncrementNextWithdrawalIndex", "set", ["next_withdrawal_index"]),
    ("JustificationBits", "get", ["justification_bits"]),
    ("LatestBlockHeader", "get", ["latest_block_header"]),
    ("LatestExecutionPayloadHeader", "get", ["latest_execution_payload_header"]),
    ("NextSyncCommittee", "get", ["next_sync_committee"]),
    ("NextWithdrawalIndex", "get", ["next_withdrawal_index"]),
    ("NextWithdrawalValidatorIndex", "get", ["next_withdrawal_validator_index"]),
    ("PreviousEpochParticipation", "get", ["previous_epoch_participation"]),
    ("PreviousJustifiedCheckpoint", "get", ["previous_justified_checkpoint"]),
    ("RandaoMixes", "get", ["randao_mixes"]),
    ("RotateSyncCommittee", "seq", ["r:next_sync_committee", "w:current_sync_committee", "w:next_sync_committee"]),
    ("SeedRandao", "set", ["randao_mixes"]),
    ("SetBalances", "set", ["balances"]),
    ("SetCurrentJustifiedCheckpoint", "set", ["current_justified_checkpoint"]),
    ("SetCurrentSyncCommittee", "set", ["current_sync_committee"]),
    ("SetEth1Data", "set", ["eth1_data"]),
    ("SetFinalizedCheckpoint", "set", ["finalized_checkpoint"]),
    ("SetFork", "set", ["fork"]),
    ("SetGenesisTime", "set", ["genesis_time"]),
    ("SetGenesisValidatorsRoot", "set", ["genesis_validators_root"]),
    ("SetJustificationBits", "set", ["justification_bits"]),
    ("SetLatestBlockHeader", "set", ["latest_block_header"]),
    ("SetLatestExecutionPayloadHeader", "set", ["latest_execution_payload_header"]),
    ("SetNextSyncCommittee", "set", ["next_sync_committee"]),
    ("SetNextWithdrawalIndex", "set", ["next_withdrawal_index"]),
    ("SetNextWithdrawalValidatorIndex", "set", ["next_withdrawal_validator_index"]),
    ("SetPreviousJustifiedCheckpoint", "set", ["previous_justified_checkpoint"]),
    ("SetSlot", "set", ["slot"]),
    ("Slashings", "get", ["slashings"]),
    ("Slot", "get", ["slot"]),
    ("StateRoots", "get", ["state_roots"]),
    ("Validators", "get", ["validators"])]),
  ("capella.ExecutionPayloadHeaderView", [
    ("BaseFeePerGas", "get", ["base_fee_per_gas"]),
    ("BlockHash", "get", ["block_hash"]),
    ("BlockNumber", "get", ["block_number"]),
    ("FeeRecipient", "get", ["fee_recipient"]),
    ("GasLimit", "get", ["gas_limit"]),
    ("GasUsed", "get", ["gas_used"]),
    ("LogsBloom", "get", ["logs_bloom"]),
    ("ParentHash", "get", ["parent_hash"]),
    ("Random", "get", ["prev_randao"]),
    ("Raw", "all", []),
    ("ReceiptRoot", "get", ["receipts_root"]),
    ("StateRoot", "get", ["state_root"]),
    ("Timestamp", "get", ["timestamp"]),
    ("TransactionsRoot", "get", ["transactions_root"])]),
  ("deneb.BeaconStateView", [
    ("AddValidator", "get", ["validators"]),
    ("Balances", "get", ["balances"]),
    ("BlockRoots", "get", ["block_roots"]),
    ("CurrentEpochParticipation", "get", ["current_epoch_participation"]),
    ("CurrentJustifiedCheckpoint", "get", ["current_justified_checkpoint"]),
    ("CurrentSyncCommittee", "get", ["current_sync_committee"]),
    ("Eth1Data", "get", ["eth1_data"]),
    ("Eth1DataVotes", "get", ["eth1_data_votes"]),
    ("Eth1DepositIndex", "get", ["eth1_deposit_index"]),
    ("FinalizedCheckpoint", "get", ["finalized_checkpoint"]),
    ("Fork", "get", ["fork"]),
    ("GenesisTime", "get", ["genesis_time"]),
    ("GenesisValidatorsRoot", "get", ["genesis_validators_root"]),
    ("HistoricalRoots", "get", ["historical_roots"]),
    ("HistoricalSummaries", "get", ["historical_summaries"]),
    ("InactivityScores", "get", ["inactivity_scores"]),
    ("IncrementDepositIndex", "set", ["eth1_deposit_index"]),
    ("IncrementNextWithdrawalIndex", "set", ["next_withdrawal_index"]),
    ("JustificationBits", "get", ["justification_bits"]),
    ("LatestBlockHeader", "get", ["latest_block_header"]),
    ("LatestExecutionPayloadHeader", "get", ["latest_execution_payload_header"]),
    ("NextSyncCommittee", "get", ["next_sync_committee"]),
    ("NextWithdrawalIndex", "get", ["next_withdrawal_index"]),
    ("NextWithdrawalValidatorIndex", "get", ["next_withdrawal_validator_index"]),
    ("PreviousEpochParticipation", "get", ["previous_epoch_participation"]),
    ("PreviousJustifiedCheckpoint", "get", ["previous_justified_checkpoint"]),
    ("RandaoMixes", "get", ["randao_mixes"]),
    ("RotateSyncCommittee", "seq", ["r:next_sync_committee", "w:current_sync_committee", "w:next_sync_committee"]),
    ("SeedRandao", "set", ["randao_mixes"]),
    ("SetBalances", "set", ["balances"]),
    ("SetCurrentJustifiedCheckpoint", "set", ["current_justified_checkpoint"]),
    ("SetCurrentSyncCommittee", "set", ["current_sync_committee"]),
    ("SetEth1Data", "set", ["eth1_data"]),
    ("SetFinalizedCheckpoint", "set", ["finalized_checkpoint"]),
    ("SetFork", "set", ["fork"]),
    ("SetGenesisTime", "set", ["genesis_time"]),
    ("SetGenesisValidatorsRoot", "set", ["genesis_validators_root"]),
    ("SetJustificationBits", "set", ["justification_bits"]),
    ("SetLatestBlockHeader", "set", ["latest_block_header"]),
    ("SetLatestExecutionPayloadHeader", "set", ["latest_execution_payload_header"]),
    ("SetNextSyncCommittee", "set", ["next_sync_committee"]),
    ("SetNextWithdrawalIndex", "set", ["next_withdrawal_index"]),
    ("SetNextWithdrawalValidatorIndex", "set", ["next_withdrawal_validator_index"]),
    ("SetPreviousJustifiedCheckpoint", "set", ["previous_justified_checkpoint"]),
    ("SetSlot", "set", ["slot"]),
    ("Slashings", "get", ["slashings"]),
    ("Slot", "get", ["slot"]),
    ("StateRoots", "get", ["state_roots"]),
    ("Validators", "get", ["validators"])]),
  ("deneb.ExecutionPayloadHeaderView", [
    ("BaseFeePerGas", "get", ["base_fee_per_gas"]),
    ("BlobGasUsed", "get", ["blob_gas_used"]),
    ("BlockHash", "get", ["block_hash"]),
    ("BlockNumber", "get", ["block_number"]),
    ("ExcessBlobGas", "get", ["excess_blob_gas"]),
    ("FeeRecipient", "get", ["fee_recipient"]),
    ("GasLimit", "get", ["gas_limit"]),
    ("GasUsed", "get", ["gas_used"]),
    ("LogsBloom", "get", ["logs_bloom"]),
    ("ParentHash", "get", ["parent_hash"]),
    ("Random", "get", ["prev_randao"]),
    ("Raw", "all", []),
    ("ReceiptRoot", "get", ["receipts_root"]),
    ("StateRoot", "get", ["state_root"]),
    ("Timestamp", "get", ["timestamp"]),
    ("TransactionsRoot", "get", ["transactions_root"])]),
  ("electra.BeaconStateView", [
    ("AddValidator", "get", ["validators"]),
    ("Balances", "get", ["balances"]),
    ("BlockRoots", "get", ["block_roots"]),
    ("ConsolidationBalanceToConsume", "get", ["consolidation_balance_to_consume"]),
    ("CurrentEpochParticipation", "get", ["current_epoch_participation"]),
    ("CurrentJustifiedCheckpoint", "get", ["current_justified_checkpoint"]),
    ("CurrentSyncCommittee", "get", ["current_sync_committee"]),
    ("DepositBalanceToConsume", "get", ["deposit_balance_to_consume"]),
    ("DepositRequestsStartIndex", "get", ["deposit_requests_start_index"]),
    ("EarliestConsolidationEpoch", "get", ["earliest_consolidation_epoch"]),
    ("EarliestExitEpoch", "get", ["earliest_exit_epoch"]),
    ("Eth1Data", "get", ["eth1_data"]),
    ("Eth1DataVotes", "get", ["eth1_data_votes"]),
    ("Eth1DepositIndex", "get", ["eth1_deposit_index"]),
    ("ExitBalanceToConsume", "get", ["exit_balance_to_consume"]),
    ("FinalizedCheckpoint", "get", ["finalized_checkpoint"]),
    ("Fork", "get", ["fork"]),
    ("GenesisTime", "get", ["genesis_time"]),
    ("GenesisValidatorsRoot", "get", ["genesis_validators_root"]),
    ("HistoricalRoots", "get", ["historical_roots"]),
    ("HistoricalSummaries", "get", ["historical_summaries"]),
    ("InactivityScores", "get", ["inactivity_scores"]),
    ("IncrementDepositIndex", "set", ["eth1_deposit_index"]),
    ("IncrementNextWithdrawalIndex", "set", ["next_withdrawal_index"]),
    ("JustificationBits", "get", ["justification_bits"]),
    ("LatestBlockHeader", "get", ["latest_block_header"]),
    ("LatestExecutionPayloadHeader", "get", ["latest_execution_payload_header"]),
    ("NextSyncCommittee", "get", ["next_sync_committee"]),
    ("NextWithdrawalIndex", "get", ["next_withdrawal_index"]),
    ("NextWithdrawalValidatorIndex", "get", ["next_withdrawal_validator_index"]),
    ("PreviousEpochParticipation", "get", ["previous_epoch_participation"]),
    ("PreviousJustifiedCheckpoint", "get", ["previous_justified_checkpoint"]),
    ("RandaoMixes", "get", ["randao_mixes"]),
    ("RotateSyncCommittee", "seq", ["r:next_sync_committee", "w:current_sync_committee", "w:next_sync_committee"]),
    ("SeedRandao", "set", ["randao_mixes"]),
    ("SetBalances", "set", ["balances"]),
    ("SetConsolidationBalanceToConsume", "set", ["consolidation_balance_to_consume"]),
    ("SetCurrentJustifiedCheckpoint", "set", ["current_justified_checkpoint"]),
    ("SetCurrentSyncCommittee", "set", ["current_sync_committee"]),
    ("SetDepositBalanceToConsume", "set", ["deposit_balance_to_consume"]),
    ("SetDepositRequestsStartIndex", "set", ["deposit_requests_start_index"]),
    ("SetEarliestConsolidationEpoch", "set", ["earliest_consolidation_epoch"]),
    ("SetEarliestExitEpoch", "set", ["earliest_exit_epoch"]),
    ("SetEth1Data", "set", ["eth1_data"]),
    ("SetExitBalanceToConsume", "set", ["exit_balance_to_consume"]),
    ("SetFinalizedCheckpoint", "set", ["finalized_checkpoint"]),
    ("SetFork", "set", ["fork"]),
    ("SetGenesisTime", "set", ["genesis_time"]),
    ("SetGenesisValidatorsRoot", "set", ["genesis_validators_root"]),
    ("SetJustificationBits", "set", ["justification_bits"]),
    ("SetLatestBlockHeader", "set", ["latest_block_header"]),
    ("SetLatestExecutionPayloadHeader", "set", ["latest_execution_payload_header"]),
    ("SetNextSyncCommittee", "set", ["next_sync_committee"]),
    ("SetNextWithdrawalIndex", "set", ["next_withdrawal_index"]),
    ("SetNextWithdrawalValidatorIndex", "set", ["next_withdrawal_validator_index"]),
    ("SetPreviousJustifiedCheckpoint", "set", ["previous_justified_checkpoint"]),
    ("SetSlot", "set", ["slot"]),
    ("Slashings", "get", ["slashings"]),
    ("Slot", "get", ["slot"]),
    ("StateRoots", "get", ["state_roots"]),
    ("Validators", "get", ["validators"])])]

/-! ## Field type ↦ acceptable typed wrapper of a read -/

def uint64Types : List String := ["Uint64Type", "common.SlotType", "common.EpochType", "common.GweiType",
  "common.TimestampType", "common.ValidatorIndexType", "common.WithdrawalIndexType", "common.CommitteeIndexType"]
def rootTypes : List String := ["RootType", "common.Bytes32Type", "common.Hash32Type"]

/-- a wrapper that reads a 64-bit integer basic view (and converts it to a named integer type) -/
def uint64Wrappers : List String := ["AsUint64", "common.AsSlot", "common.AsEpoch", "common.AsGwei", "common.AsTimestamp",
  "common.AsValidatorIndex", "common.AsWithdrawalIndex", "common.AsCommitteeIndex", "common.AsDepositIndex"]

/-- the wrapper belonging to each composite / non-integer type expression -/
def typedWrapper : List (String × String) := [
  ("BoolType", "AsBool"), ("Uint256Type", "AsUint256"),
  ("common.VersionType", "common.AsVersion"), ("common.BLSPubkeyType", "common.AsBLSPubkey"),
  ("common.BLSSignatureType", "common.AsBLSSignature"), ("common.Eth1AddressType", "common.AsEth1Address"),
  ("common.LogsBloomType", "common.AsLogsBloom"), ("common.ExtraDataType", "common.AsExtraData"),
  ("common.ForkType", "common.AsFork"), ("common.CheckpointType", "common.AsCheckPoint"),
  ("common.BeaconBlockHeaderType", "common.AsBeaconBlockHeader"), ("common.Eth1DataType", "common.AsEth1Data"),
  ("common.JustificationBitsType", "common.AsJustificationBits"),
  ("common.SyncCommitteeType(spec)", "common.AsSyncCommittee"),
  ("common.SyncCommitteePubkeysType(spec)", "common.AsSyncCommitteePubkeys"),
  ("common.BLSToExecutionChangeType", "common.AsBLSToExecutionChange"),
  ("phase0.BatchRootsType(spec)", "phase0.AsBatchRoots"), ("phase0.HistoricalRootsType(spec)", "phase0.AsHistoricalRoots"),
  ("phase0.Eth1DataVotesType(spec)", "phase0.AsEth1DataVotes"), ("phase0.ValidatorsRegistryType(spec)", "phase0.AsValidatorsRegistry"),
  ("phase0.RegistryBalancesType(spec)", "phase0.AsRegistryBalances"), ("phase0.RandaoMixesType(spec)", "phase0.AsRandaoMixes"),
  ("phase0.SlashingsType(spec)", "phase0.AsSlashings"), ("phase0.PendingAttestationsType(spec)", "phase0.AsPendingAttestations"),
  ("phase0.AttestationBitsType(spec)", "phase0.AsAttestationBits"), ("phase0.AttestationDataType", "phase0.AsAttestationData"),
  ("altair.ParticipationRegistryType(spec)", "altair.AsParticipationRegistry"),
  ("altair.InactivityScoresType(spec)", "altair.AsInactivityScores"),
  ("bellatrix.ExecutionPayloadHeaderType", "bellatrix.AsExecutionPayloadHeader"),
  ("capella.ExecutionPayloadHeaderType", "capella.AsExecutionPayloadHeader"),
  ("deneb.ExecutionPayloadHeaderType", "deneb.AsExecutionPayloadHeader"),
  ("capella.HistoricalSummariesType(spec)", "capella.AsHistoricalSummaries")]

/-- a read through wrapper `w` fits a field of type expression `ty` (`raw` = the untyped view is passed on) -/
def wrapOk (ty w : String) : Bool :=
  w == "raw" || w == "" ||
  (uint64Types.contains ty && uint64Wrappers.contains w) ||
  (rootTypes.contains ty && w == "AsRoot") ||
  typedWrapper.contains (ty, w)

/-- field type ↦ acceptable shape of the value handed to `Set` (`param:T` = a parameter of Go type `T`) -/
def setShapes : List (String × String) := [
  ("BoolType", "BoolView(true)"),
  ("RootType", "&RootView(param:common.Root)"), ("common.Bytes32Type", "&RootView(param:common.Root)"),
  ("Uint64Type", "&param:Uint64View"), ("Uint64Type", "Uint64View(depIndex + 1)"),
  ("Uint64Type", "Uint64View(param:common.Timestamp)"),
  ("common.SlotType", "Uint64View(param:common.Slot)"), ("common.EpochType", "Uint64View(param:common.Epoch)"),
  ("common.GweiType", "Uint64View(param:common.Gwei)"), ("common.GweiType", "(*Uint64View)(&param:common.Gwei)"),
  ("common.ValidatorIndexType", "Uint64View(param:common.ValidatorIndex)"),
  ("common.WithdrawalIndexType", "Uint64View(param:common.WithdrawalIndex)"),
  ("common.WithdrawalIndexType", "Uint64View(nextIndex + 1)"),
  ("common.ForkType", "param:common.Fork.View()"), ("common.Eth1DataType", "param:common.Eth1Data.View()"),
  ("common.BeaconBlockHeaderType", "param:*common.BeaconBlockHeader.View()"),
  ("bellatrix.ExecutionPayloadHeaderType", "param:*bellatrix.ExecutionPayloadHeader.View()"),
  ("capella.ExecutionPayloadHeaderType", "param:*capella.ExecutionPayloadHeader.View()"),
  ("deneb.ExecutionPayloadHeaderType", "param:*deneb.ExecutionPayloadHeader.View()"),
  ("common.SyncCommitteeType(spec)", "param:*common.SyncCommitteeView"),
  ("phase0.RandaoMixesType(spec)", "phase0.SeedRandao(param:*common.Spec, param:common.Root)"),
  ("phase0.RegistryBalancesType(spec)", "phase0.Balances(param:[]common.Gwei).View()")]

def setOk (pkg ty shape : String) : Bool :=
  setShapes.contains (ty, shape) ||
  -- RotateSyncCommittee hands the view it just read from `next_sync_committee` to `current_sync_committee`
  (ty == "common.SyncCommitteeType(spec)" && shape == "state.Get(" ++ pkg ++ "._nextSyncCommittee)")

/-! ## Index constants -/

/-- field ↦ the Go index constant that belongs to it (one table for all forks and views: the names are reused) -/
def constName : List (String × String) := [
  ("genesis_time", "_stateGenesisTime"), ("genesis_validators_root", "_stateGenesisValidatorsRoot"), ("slot", "_stateSlot"),
  ("fork", "_stateFork"), ("latest_block_header", "_stateLatestBlockHeader"), ("block_roots", "_stateBlockRoots"),
  ("state_roots", "_stateStateRoots"), ("historical_roots", "_stateHistoricalRoots"), ("eth1_data", "_stateEth1Data"),
  ("eth1_data_votes", "_stateEth1DataVotes"), ("eth1_deposit_index", "_stateEth1DepositIndex"),
  ("validators", "_stateValidators"), ("balances", "_stateBalances"), ("randao_mixes", "_stateRandaoMixes"),
  ("slashings", "_stateSlashings"), ("previous_epoch_attestations", "_statePreviousEpochAttestations"),
  ("current_epoch_attestations", "_stateCurrentEpochAttestations"),
  ("previous_epoch_participation", "_statePreviousEpochParticipation"),
  ("current_epoch_participation", "_stateCurrentEpochParticipation"),
  ("justification_bits", "_stateJustificationBits"),
  ("previous_justified_checkpoint", "_statePreviousJustifiedCheckpoint"),
  ("current_justified_checkpoint", "_stateCurrentJustifiedCheckpoint"), ("finalized_checkpoint", "_stateFinalizedCheckpoint"),
  ("inactivity_scores", "_inactivityScores"), ("current_sync_committee", "_currentSyncCommittee"),
  ("next_sync_committee", "_nextSyncCommittee"), ("latest_execution_payload_header", "_latestExecutionPayloadHeader"),
  ("next_withdrawal_index", "_nextWithdrawalIndex"), ("next_withdrawal_validator_index", "_nextWithdrawalValidatorIndex"),
  ("historical_summaries", "_historicalSummaries"), ("deposit_requests_start_index", "_depositRequestsStartIndex"),
  ("deposit_balance_to_consume", "_depositBalanceToConsume"), ("exit_balance_to_consume", "_exitBalanceToConsume"),
  ("earliest_exit_epoch", "_earliestExitEpoch"), ("consolidation_balance_to_consume", "_consolidationBalanceToConsume"),
  ("earliest_consolidation_epoch", "_earliestConsolidationEpoch"), ("pending_deposits", "_pendingDeposits"),
  ("pending_partial_withdrawals", "_pendingPartialWithdrawals"), ("pending_consolidations", "_pendingConsolidations"),
  -- validator
  ("pubkey", "_validatorPubkey"), ("withdrawal_credentials", "_validatorWithdrawalCredentials"),
  ("effective_balance", "_validatorEffectiveBalance"), ("slashed", "_validatorSlashed"),
  ("activation_eligibility_epoch", "_validatorActivationEligibilityEpoch"), ("activation_epoch", "_validatorActivationEpoch"),
  ("exit_epoch", "_validatorExitEpoch"), ("withdrawable_epoch", "_validatorWithdrawableEpoch"),
  -- execution payload (header)
  ("parent_hash", "__parentHash"), ("fee_recipient", "__feeRecipient"), ("state_root", "__stateRoot"),
  ("receipts_root", "__receiptsRoot"), ("logs_bloom", "__logsBloom"), ("prev_randao", "__prevRandao"),
  ("block_number", "__blockNumber"), ("gas_limit", "__gasLimit"), ("gas_used", "__gasUsed"), ("timestamp", "__timestamp"),
  ("extra_data", "__extraData"), ("base_fee_per_gas", "__baseFeePerGas"), ("block_hash", "__blockHash"),
  ("transactions_root", "__transactionsRoot"), ("withdrawals_root", "__withdrawalsRoot"),
  ("blob_gas_used", "__blobGasUsed"), ("excess_blob_gas", "__excessBlobGas")]

/-! ## Checks (facts vs expectations) -/

def _root_.Zrnt.Gen.StateFacts.View.key (v : View) : String := v.pkg ++ "." ++ v.name

def lookupS {β} (t : List (String × β)) (k : String) : Option β := (t.find? (·.1 == k)).map (·.2)

def _root_.Zrnt.Gen.StateFacts.View.fieldName (v : View) (i : Nat) : Option String := (v.fields[i]?).map (·.1)
def _root_.Zrnt.Gen.StateFacts.View.fieldType (v : View) (i : Nat) : Option String := (v.fields[i]?).map (·.2)

/-- the regenerated ContainerType has exactly the specification's fields, in order -/
def fieldsOk (v : View) : Bool :=
  match lookupS specFields v.key with
  | some fs => v.fields.map (·.1) == fs
  | none => false

/-- i-th constant has value i and is the constant of the i-th field: no gaps, no duplicates, no swaps;
a trailing `__end` sentinel must equal the number of fields -/
def constsOk (v : View) : Bool :=
  let cs := v.consts.filter (fun c => c.1 != "__end")
  let names := v.fields.map (·.1)
  (v.consts.isEmpty ||
    (cs.length == names.length &&
     (List.range cs.length).all (fun i =>
        match cs[i]?, names[i]? with
        | some c, some f => c.2 == i && lookupS constName f == some c.1
        | _, _ => false))) &&
  v.consts.all (fun c => c.1 != "__end" || c.2 == v.fields.length)

def isWrite (a : Access) : Bool := a.kind == "set"

/-- every access of the method is in range and typed compatibly with the field it hits -/
def typesOk (v : View) (m : Method) : Bool :=
  m.accesses.all (fun a =>
    match v.fieldType a.index with
    | some ty => if isWrite a then setOk v.pkg ty a.wrap else wrapOk ty a.wrap
    | none => false)

/-- the accesses of the method hit exactly the field(s) its name denotes -/
def indexOk (v : View) (m : Method) (mode : String) (fs : List String) : Bool :=
  if mode == "get" then
    !m.accesses.isEmpty && m.accesses.all (fun a => !isWrite a && (match fs with | [f] => v.fieldName a.index == some f | _ => false))
  else if mode == "set" then
    !m.accesses.isEmpty && m.accesses.all (fun a => match fs with | [f] => v.fieldName a.index == some f | _ => false)
  else if mode == "seq" then
    m.accesses.map (fun a => (if isWrite a then "w:" else "r:") ++ (v.fieldName a.index).getD "?") == fs
  else if mode == "all" then
    m.accesses.all (fun a => !isWrite a) && m.accesses.map (·.index) == List.range v.fields.length
  else false

def methodOk (v : View) (m : Method) : Bool :=
  match lookupS accessorField v.key with
  | some rows =>
    match rows.find? (·.1 == m.name) with
    | some row => indexOk v m row.2.1 row.2.2 && typesOk v m
    | none => false        -- an accessor nobody declared an expectation for
  | none => false

/-- names of the methods of `v` that fail (diagnostics: `#eval Zrnt.State.report`) -/
def badMethods (v : View) : List String := (v.methods.filter (fun m => !methodOk v m)).map (·.name)

def viewOk (v : View) : Bool := v.methods.all (methodOk v)

def isStateView (v : View) : Bool := v.name == "BeaconStateView"

/-- a human-readable list of everything that does not check (empty on a clean tree) -/
def report : List String :=
  views.flatMap (fun v =>
    (if fieldsOk v then [] else [v.key ++ ": field list differs from the specification's"]) ++
    (if constsOk v then [] else [v.key ++ ": index constants do not match the container fields"]) ++
    (badMethods v).map (fun m => v.key ++ "." ++ m ++ ": does not (only) access the field its name denotes, or with a wrong wrapper"))

end Zrnt.State
