import Zrnt.Prelude.Res
/-!
# Model of `common.PubkeyCache` (eth2/beacon/common/validator_pubkeys.go)

A `*PubkeyCache` is a handle: an index into a store of cache levels. A level is
`(parent, trustedParentCount, idx2pub, pub2idx)` exactly as in the Go struct. `pubkey`,
`validatorIndex` and `addValidator` follow the Go control flow: the parent delegation of the two
lookups, the three fork-out decisions of `AddValidator` (in Go: `addOrFork` returning the index to fork
at), the recursive call on the forked level, the gap error and the append in place. Recursion takes fuel; running out of fuel is the explicit
result `Res.outOfFuel` (the harness observes it as `diverged`).

Public keys are abstract (`Key := Nat`; the harness maps small ids to real compressed BLS keys);
validator indices are `Nat` (`trustedParentCount + len(idx2pub)` cannot wrap: it is bounded by
the number of entries held in memory).

`Old.*` is the code as it was before the `fix:` commit (the parent's answer to `ValidatorIndex`
accepted without comparing it with `trustedParentCount`); it is kept for the witness theorems.
-/
namespace Zrnt.PubkeyCache

abbrev Key := Nat

structure Level where
  parent : Option Nat
  /-- `trustedParentCount` -/
  tpc : Nat
  /-- entries starting at index `tpc` -/
  idx2pub : List Key
  /-- Go map as association list; a write prepends, a read takes the first match -/
  pub2idx : List (Key × Nat)
  deriving Repr, DecidableEq, Inhabited

abbrev Store := List Level

/-- `EmptyPubkeyCache()` -/
def emptyLevel : Level := ⟨none, 0, [], []⟩

/-- `NewPubkeyCache(vals)`: the loop `pub2idx[pub] = idx; idx2pub = append(idx2pub, pub)` -/
def newLevelLoop : List Key → Level → Level
  | [], l => l
  | k :: ks, l => newLevelLoop ks { l with pub2idx := (k, l.idx2pub.length) :: l.pub2idx, idx2pub := l.idx2pub ++ [k] }

def newLevel (keys : List Key) : Level := newLevelLoop keys emptyLevel

/-- `pc.Pubkey(index)` / `unsafePubkey` -/
def pubkey (s : Store) : Nat → Nat → Nat → Res (Option Key)
  | 0, _, _ => .outOfFuel
  | fuel + 1, h, index =>
    match s[h]? with
    | none => .panic
    | some l =>
      if l.tpc ≤ index then
        if l.tpc + l.idx2pub.length ≤ index then .ok none
        else .ok l.idx2pub[index - l.tpc]?
      else
        match l.parent with
        | some p => pubkey s fuel p index
        | none => .ok none

/-- `pc.ValidatorIndex(pub)` / `unsafeValidatorIndex` (with the comparison against `trustedParentCount`) -/
def validatorIndex (s : Store) : Nat → Nat → Key → Res (Option Nat)
  | 0, _, _ => .outOfFuel
  | fuel + 1, h, pub =>
    match s[h]? with
    | none => .panic
    | some l =>
      match l.pub2idx.lookup pub with
      | some i => .ok (some i)
      | none =>
        match l.parent with
        | some p =>
          match validatorIndex s fuel p pub with
          | .ok (some i) => if l.tpc ≤ i then .ok none else .ok (some i)
          | r => r
        | none => .ok none

/-- `&PubkeyCache{parent: pc, trustedParentCount: t, pub2idx: make(..), idx2pub: make(..)}`; the new handle is `s.length` -/
def fork (s : Store) (h t : Nat) : Store := s ++ [⟨some h, t, [], []⟩]

/-- the tail of `AddValidator`: the `expected` check and the append in place.
Result: new store and the returned handle (`none` = `nil, err`). -/
def appendAt (s : Store) (h index : Nat) (pub : Key) : Res (Store × Option Nat) :=
  match s[h]? with
  | none => .panic
  | some l =>
    if index ≠ l.tpc + l.idx2pub.length then .ok (s, none)
    else .ok (s.set h { l with idx2pub := l.idx2pub ++ [pub], pub2idx := (pub, index) :: l.pub2idx }, some h)

/-- `pc.AddValidator(index, pub)` -/
def addValidator (s : Store) : Nat → Nat → Nat → Key → Res (Store × Option Nat)
  | 0, _, _, _ => .outOfFuel
  | fuel + 1, h, index, pub =>
    match validatorIndex s (fuel + 1) h pub, pubkey s (fuel + 1) h index with
    | .ok ei, .ok ep =>
      match ei with
      | some existingIndex =>
        if existingIndex ≠ index then
          addValidator (fork s h existingIndex) fuel s.length index pub
        else
          match ep with
          | some k => if k ≠ pub then addValidator (fork s h index) fuel s.length index pub else .ok (s, some h)
          | none => .ok (s, some h)
      | none =>
        match ep with
        | some k => if k ≠ pub then addValidator (fork s h index) fuel s.length index pub else appendAt s h index pub
        | none => appendAt s h index pub
    | .outOfFuel, _ => .outOfFuel
    | _, .outOfFuel => .outOfFuel
    | _, _ => .panic

/-- fuel used by the driver and the slot machine: linear in the number of levels (hence in any chain depth) -/
def driverFuel (s : Store) : Nat := s.length + 4

namespace Old
/-- `unsafeValidatorIndex` before the fix: the parent's answer is returned as is -/
def validatorIndex (s : Store) : Nat → Nat → Key → Res (Option Nat)
  | 0, _, _ => .outOfFuel
  | fuel + 1, h, pub =>
    match s[h]? with
    | none => .panic
    | some l =>
      match l.pub2idx.lookup pub with
      | some i => .ok (some i)
      | none =>
        match l.parent with
        | some p => validatorIndex s fuel p pub
        | none => .ok none

def addValidator (s : Store) : Nat → Nat → Nat → Key → Res (Store × Option Nat)
  | 0, _, _, _ => .outOfFuel
  | fuel + 1, h, index, pub =>
    match validatorIndex s (fuel + 1) h pub, pubkey s (fuel + 1) h index with
    | .ok ei, .ok ep =>
      match ei with
      | some existingIndex =>
        if existingIndex ≠ index then
          addValidator (fork s h existingIndex) fuel s.length index pub
        else
          match ep with
          | some k => if k ≠ pub then addValidator (fork s h index) fuel s.length index pub else .ok (s, some h)
          | none => .ok (s, some h)
      | none =>
        match ep with
        | some k => if k ≠ pub then addValidator (fork s h index) fuel s.length index pub else appendAt s h index pub
        | none => appendAt s h index pub
    | .outOfFuel, _ => .outOfFuel
    | _, .outOfFuel => .outOfFuel
    | _, _ => .panic
end Old

/-! ## The slot machine driven by the harness: named slots holding handles -/

def nSlots : Nat := 6

inductive Op where
  | add (src index : Nat) (key : Key) (dst : Nat)
  | init (dst : Nat) (keys : List Key)
  | pub (h index : Nat)
  | idx (h : Nat) (key : Key)
  deriving Repr, DecidableEq

inductive Out where
  | same | new | err | diverged | panic | nohandle | ok | badOp
  | found (n : Nat) | notFound
  deriving Repr, DecidableEq

structure MState where
  store : Store
  slots : List (Option Nat)
  deriving Repr, DecidableEq

def MState.init : MState := ⟨[emptyLevel], some 0 :: List.replicate (nSlots - 1) none⟩

def slotGet (slots : List (Option Nat)) (i : Nat) : Option Nat := (slots[i]?).join

def outOfLookup : Res (Option Nat) → Out
  | .ok (some n) => .found n
  | .ok none => .notFound
  | .err => .err
  | .panic => .panic
  | .outOfFuel => .diverged

def MState.step (m : MState) : Op → MState × Out
  | .add src index key dst =>
    if src ≥ nSlots ∨ dst ≥ nSlots then (m, .badOp) else
    match slotGet m.slots src with
    | none => (m, .nohandle)
    | some h =>
      match addValidator m.store (driverFuel m.store) h index key with
      | .ok (s', some h') => (⟨s', m.slots.set dst (some h')⟩, if h' = h then .same else .new)
      | .ok (_, none) => (m, .err)   -- the forked levels of a failed call are unreachable garbage
      | .err => (m, .err)
      | .panic => (m, .panic)
      | .outOfFuel => (m, .diverged)
  | .init dst keys =>
    if dst ≥ nSlots ∨ ¬ keys.Nodup then (m, .badOp) else
    (⟨m.store ++ [newLevel keys], m.slots.set dst (some m.store.length)⟩, .ok)
  | .pub h index =>
    if h ≥ nSlots then (m, .badOp) else
    match slotGet m.slots h with
    | none => (m, .nohandle)
    | some hh => (m, outOfLookup (pubkey m.store (driverFuel m.store) hh index))
  | .idx h key =>
    if h ≥ nSlots then (m, .badOp) else
    match slotGet m.slots h with
    | none => (m, .nohandle)
    | some hh => (m, outOfLookup (validatorIndex m.store (driverFuel m.store) hh key))

def MState.run (m : MState) : List Op → MState × List Out
  | [] => (m, [])
  | op :: ops =>
    let (m', o) := m.step op
    let (m'', os) := m'.run ops
    (m'', o :: os)

end Zrnt.PubkeyCache
