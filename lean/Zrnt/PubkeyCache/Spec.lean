import Zrnt.PubkeyCache.Model
/-!
# Specification of the pubkey cache: histories

Every handle denotes a *history*: the list of public keys successfully appended along its lineage
(the validator index is the position in the list). Lookups are lookups in that list. `AddValidator`
on a handle with history `H`:

* `(index, pub)` already in `H`                         → same handle, nothing changes;
* `index = |H|` and `pub` not in `H`                    → same handle, its history becomes `H ++ [pub]`;
* `index ≤ |H|`, `pub` not among the first `index` keys → a NEW handle with history `H.take index ++ [pub]`;
  the old handle and every other handle keep their histories;
* otherwise (`index > |H|`, or `pub` sits at an earlier index) → error, nothing changes.

The specification knows nothing about levels, parents or `trustedParentCount`.
-/
namespace Zrnt.PubkeyCache.Spec
open Zrnt.PubkeyCache

inductive AddResult where
  | noop
  | append
  | fork (hist : List Key)
  | err
  deriving Repr, DecidableEq

def add (H : List Key) (index : Nat) (pub : Key) : AddResult :=
  if H[index]? = some pub then .noop
  else if index ≤ H.length ∧ pub ∉ H.take index then
    if index = H.length then .append else .fork (H.take index ++ [pub])
  else .err

def pubkey (H : List Key) (index : Nat) : Option Key := H[index]?
def validatorIndex (H : List Key) (pub : Key) : Option Nat := H.idxOf? pub

/-- the slot machine over histories: handles are indices into `hists` -/
structure SState where
  hists : List (List Key)
  slots : List (Option Nat)
  deriving Repr, DecidableEq

def SState.init : SState := ⟨[[]], some 0 :: List.replicate (nSlots - 1) none⟩

def outOfOpt : Option Nat → Out
  | some n => .found n
  | none => .notFound

def SState.step (m : SState) : Op → SState × Out
  | .add src index key dst =>
    if src ≥ nSlots ∨ dst ≥ nSlots then (m, .badOp) else
    match slotGet m.slots src with
    | none => (m, .nohandle)
    | some h =>
      match add (m.hists.getD h []) index key with
      | .noop => (⟨m.hists, m.slots.set dst (some h)⟩, .same)
      | .append => (⟨m.hists.set h (m.hists.getD h [] ++ [key]), m.slots.set dst (some h)⟩, .same)
      | .fork H' => (⟨m.hists ++ [H'], m.slots.set dst (some m.hists.length)⟩, .new)
      | .err => (m, .err)
  | .init dst keys =>
    if dst ≥ nSlots ∨ ¬ keys.Nodup then (m, .badOp) else
    (⟨m.hists ++ [keys], m.slots.set dst (some m.hists.length)⟩, .ok)
  | .pub h index =>
    if h ≥ nSlots then (m, .badOp) else
    match slotGet m.slots h with
    | none => (m, .nohandle)
    | some hh => (m, outOfOpt (pubkey (m.hists.getD hh []) index))
  | .idx h key =>
    if h ≥ nSlots then (m, .badOp) else
    match slotGet m.slots h with
    | none => (m, .nohandle)
    | some hh => (m, outOfOpt (validatorIndex (m.hists.getD hh []) key))

def SState.run (m : SState) : List Op → SState × List Out
  | [] => (m, [])
  | op :: ops =>
    let (m', o) := m.step op
    let (m'', os) := m'.run ops
    (m'', o :: os)

end Zrnt.PubkeyCache.Spec
