import Zrnt.Driver.Loop
import Zrnt.Prelude.Text
import Zrnt.PubkeyCache.Spec
/-! `zmodel c16`: the slot machine of `Model.lean` and the history machine of `Spec.lean` side by side.
Every answer is `<model> | <spec>`. -/
namespace Zrnt.PubkeyCache
open Zrnt Zrnt.Text

def nKeys : Nat := 12
def dumpIdx : Nat := 14

def Out.render : Out → String
  | .same => "ok same" | .new => "ok new" | .err => "err" | .diverged => "diverged" | .panic => "panic"
  | .nohandle => "nohandle" | .ok => "ok" | .badOp => "bad-op"
  | .found n => s!"ok {n}" | .notFound => "none"

def parseNat (s : String) : Option Nat := (parseU64 s).map (·.toNat)
def parseSlot (s : String) : Option Nat := (parseNat s).bind fun n => if n < nSlots then some n else none
def parseKey (s : String) : Option Nat := (parseNat s).bind fun n => if n < nKeys then some n else none

def parseKeys (s : String) : Option (List Key) :=
  if s = "-" then some [] else (s.splitOn ",").mapM parseKey

inductive Cmd where
  | op (o : Op)
  | dump
  | bad

def parseCmd (line : String) : Cmd :=
  match tokens line with
  | ["add", a, b, c, d] =>
    match parseSlot a, parseNat b, parseKey c, parseSlot d with
    | some src, some index, some key, some dst => .op (.add src index key dst)
    | _, _, _, _ => .bad
  | ["init", a, b] =>
    match parseSlot a, parseKeys b with
    | some dst, some ks => .op (.init dst ks)
    | _, _ => .bad
  | ["pub", a, b] =>
    match parseSlot a, parseNat b with
    | some h, some i => .op (.pub h i)
    | _, _ => .bad
  | ["idx", a, b] =>
    match parseSlot a, parseKey b with
    | some h, some k => .op (.idx h k)
    | _, _ => .bad
  | ["dump"] => .dump
  | _ => .bad

def shortOut : Out → String
  | .found n => toString n
  | .notFound => "-"
  | o => o.render

/-- `dump`: every lookup on every live slot, plus the smallest slot holding the same handle -/
def dumpWith (slots : List (Option Nat)) (look : Op → Out) : String :=
  let parts := (List.range nSlots).filterMap fun s =>
    match slotGet slots s with
    | none => none
    | some h =>
      let rep := ((List.range s).find? fun t => slotGet slots t = some h).getD s
      let pubs := (List.range dumpIdx).map fun i => shortOut (look (.pub s i))
      let idxs := (List.range nKeys).map fun k => shortOut (look (.idx s k))
      some s!"{s}={rep}[{",".intercalate pubs};{",".intercalate idxs}]"
  ("dump " ++ " ".intercalate parts).trimAscii.toString

def step (st : MState × Spec.SState) (line : String) : (MState × Spec.SState) × String :=
  match parseCmd line with
  | .bad => (st, "bad-op")
  | .dump =>
    (st, dumpWith st.1.slots (fun o => (st.1.step o).2) ++ " | " ++ dumpWith st.2.slots (fun o => (st.2.step o).2))
  | .op o =>
    let (m', a) := st.1.step o
    let (s', b) := st.2.step o
    ((m', s'), a.render ++ " | " ++ b.render)

def c16Mode : Driver.Mode := Driver.stateful "c16" (MState.init, Spec.SState.init) step

end Zrnt.PubkeyCache
