import Zrnt.Driver.Loop
import Zrnt.Prelude.Text
import Zrnt.Gossip.Model
import Zrnt.Gossip.Spec
/-!
`zmodel c12`: each line is `<kind> key=value …`. The answer is `<model> | <spec>`:

* model: what the code-shaped model (`Zrnt.Gossip.Model`) computes: `VERDICT seen=… marks=… ret=…`
* spec : the line the p2p specification (`Zrnt.Gossip.Spec`) requires. When the specification allows more
  than one verdict (a failing `[REJECT]` condition may be answered IGNORE or REJECT) and the model's answer is
  among them, the model's line is repeated; otherwise the canonical required line is printed. `any` when the
  record violates the stated well-formedness assumptions (inconsistent chain view, overflow).

Unit lines (`isagg`, `syncagg`, `subnet`, `insubnet`, `subcomm`, `slotspan`) print `model | spec` for the
arithmetic helpers.
-/
namespace Zrnt.Gossip.Driver
open Zrnt Zrnt.Text Zrnt.Gossip Zrnt.Gen.GoFuns

abbrev KV := List (String × String)

def parseKV (toks : List String) : Option KV :=
  toks.mapM fun t =>
    match t.splitOn "=" with
    | [k, v] => if k.isEmpty || v.isEmpty then none else some (k, v)
    | _ => none

def get (kv : KV) (k : String) : Option String := (kv.find? (·.1 == k)).map (·.2)
def getU (kv : KV) (k : String) : Option UInt64 := get kv k >>= parseU64
def getN (kv : KV) (k : String) : Option Nat := (getU kv k).map (·.toNat)
def getB (kv : KV) (k : String) : Option Bool :=
  match get kv k with
  | some "1" => some true
  | some "0" => some false
  | _ => none
def getTri (kv : KV) (k : String) : Option Tri :=
  match get kv k with
  | some "yes" => some .yes
  | some "no" => some .no
  | some "unk" => some .unk
  | _ => none
def parseList (s : String) : Option (List UInt64) :=
  if s = "-" then some [] else (s.splitOn ",").mapM parseU64
def getL (kv : KV) (k : String) : Option (List UInt64) := get kv k >>= parseList
def getLN (kv : KV) (k : String) : Option (List Nat) := (getL kv k).map (·.map (·.toNat))
/-- `err` ↦ `none` (inner), a number ↦ `some` -/
def getOptU (kv : KV) (k : String) : Option (Option UInt64) :=
  match get kv k with
  | some "err" => some none
  | some s => (parseU64 s).map some
  | none => none
def getHex (kv : KV) (k : String) : Option ByteArray := get kv k >>= parseHex
def getFork (kv : KV) : Option Spec.Fork :=
  match get kv "fork" with
  | some "phase0" => some .phase0
  | some "deneb" => some .deneb
  | _ => none

def listStr (l : List String) : String := if l.isEmpty then "-" else ";".intercalate l
def retStr (l : List UInt64) : String := if l.isEmpty then "-" else ",".intercalate (l.map (fun a => toString a.toNat))

def render (o : Out) : String :=
  o.verdict.str ++ " seen=" ++ listStr o.seen ++ " marks=" ++ listStr o.marks ++ " ret=" ++ retStr o.ret

/-- the specification's required line given the model's answer (see the module comment) -/
def specLine (wf : Bool) (conds : List Cond) (expMarks : List String) (m : Out) : String :=
  if !wf then "any" else
  let a := allowed conds
  let marksOk := if m.verdict == .ACCEPT then m.marks == expMarks else m.marks.isEmpty
  if a.permits m.verdict && marksOk then render m
  else
    let v : Verdict := match a with
      | .accept => .ACCEPT
      | .ignore => .IGNORE
      | .refuse => if m.verdict == .ACCEPT then .REJECT else m.verdict
    render { verdict := v, seen := m.seen, marks := if v == .ACCEPT then expMarks else [],
             ret := if v == .ACCEPT then m.ret else [] }

/-- `model | spec`. `alts` are named variants of the condition list ("what if this one chain fact / rule were
different"): when the model's answer is not allowed by the specification but IS allowed under a variant, the spec
column gets the suffix ` note=<name>`. The notes name the classes of input recorded in known_findings.jsonl, so
that a known finding matches exactly its own class and nothing else. -/
def both (wf : Bool) (conds : List Cond) (expMarks : List String) (m : Out)
    (alts : List (String × List Cond) := []) : String :=
  let s := specLine wf conds expMarks m
  let s := if s == render m || s == "any" then s else
    match alts.find? (fun a => specLine wf a.2 expMarks m == render m) with
    | some a => s ++ " note=" ++ a.1
    | none => s
  render m ++ " | " ++ s

def noOverflow (a b : UInt64) : Bool := decide (a.toNat * b.toNat < 2 ^ 64)

/-- `root:slot,root:slot,…` or `-` -/
def parsePairs (s : String) : Option (List (UInt64 × UInt64)) :=
  if s = "-" then some [] else
  (s.splitOn ",").mapM fun e =>
    match e.splitOn ":" with
    | [a, b] => do pure (← parseU64 a, ← parseU64 b)
    | _ => none

/-- ancestors of a vote: representable slots, every root names one block (distinct, not the voted block, not the
reserved "unknown" symbol 999) -/
def ancestorsOk (broot : UInt64) (anc : List (UInt64 × UInt64)) : Bool :=
  let roots := broot :: 999 :: anc.map (·.1)
  anc.all (fun e => e.2 < 0x8000000000000000) && roots.eraseDups.length == roots.length

def parseBlock (kv : KV) : Option BlockIn := do
  let spe ← getU kv "spe"
  if spe == 0 then none
  pure { spe := spe, slot := ← getU kv "slot", proposer := ← getU kv "proposer", maxSlot := ← getU kv "max",
         seen := ← getB kv "seen", parentKnown := ← getB kv "pknown", parentSlot := ← getU kv "pslot",
         finEpoch := ← getU kv "fepoch", finSub := ← getTri kv "fsub", parentEpc := ← getB kv "pepc",
         pubkeyKnown := ← getB kv "pubkey", digestOk := ← getB kv "digest", sig := ← getB kv "sig",
         sameEpochProposer := ← getOptU kv "sameprop", towards := ← getB kv "tow", slotEpc := ← getB kv "sepc",
         slotProposer := ← getOptU kv "slotprop" }

def parseAtt (kv : KV) : Option AttIn := do
  let spe ← getU kv "spe"
  if spe == 0 then none
  -- a chain entry's `Step` cannot represent slots ≥ 2^63 (AsStep panics): no backend can hold such a block
  if (← getU kv "bslot") ≥ 0x8000000000000000 then none
  if !ancestorsOk (← getU kv "broot") (← (get kv "anc" >>= parsePairs)) then none
  pure { spe := spe, slot := ← getU kv "slot", index := ← getU kv "idx", targetEpoch := ← getU kv "tepoch",
         bitLen := ← getN kv "bitlen", setBits := ← getLN kv "bits", subnet := ← getU kv "subnet",
         blockIsFin := ← getB kv "bisfin", minSlot := ← getU kv "min", maxSlot := ← getU kv "max",
         bad := ← getB kv "bad", blockKnown := ← getB kv "bknown", blockSlot := ← getU kv "bslot",
         targetSub := ← getTri kv "tsub", blockRoot := ← getU kv "broot", targetRoot := ← getU kv "troot",
         ancestors := ← (get kv "anc" >>= parsePairs), denebEpoch := ← getU kv "denebepoch",
         finSub := ← getTri kv "fsub",
         finEpoch := ← getU kv "fepoch", towards := ← getB kv "tow", epc := ← getB kv "epc",
         cps := ← getU kv "cps", committee := ← getL kv "comm", seen := ← getB kv "seen",
         domainOk := ← getB kv "dom", sig := ← getB kv "sig" }

def parseAgg (kv : KV) : Option AggIn := do
  let spe ← getU kv "spe"
  if spe == 0 then none
  if (← getU kv "bslot") ≥ 0x8000000000000000 then none
  if !ancestorsOk (← getU kv "broot") (← (get kv "anc" >>= parsePairs)) then none
  let proof ← getHex kv "selproof"
  if proof.size != 96 then none
  pure { spe := spe, slot := ← getU kv "slot", index := ← getU kv "idx", targetEpoch := ← getU kv "tepoch",
         aggregator := ← getU kv "aggregator", bitLen := ← getN kv "bitlen", setBits := ← getLN kv "bits",
         blockIsFin := ← getB kv "bisfin", minSlot := ← getU kv "min", maxSlot := ← getU kv "max",
         seenAggregator := ← getB kv "seenaggr", seenAggregate := ← getB kv "seenagg",
         aggRoot := ← get kv "aggroot", bad := ← getB kv "bad", blockKnown := ← getB kv "bknown",
         blockSlot := ← getU kv "bslot",
         targetSub := ← getTri kv "tsub", blockRoot := ← getU kv "broot", targetRoot := ← getU kv "troot",
         ancestors := ← (get kv "anc" >>= parsePairs), denebEpoch := ← getU kv "denebepoch",
         finSub := ← getTri kv "fsub",
         finEpoch := ← getU kv "fepoch", towards := ← getB kv "tow", epc := ← getB kv "epc",
         stateOk := ← getB kv "state", nVals := ← getU kv "nvals", commOk := ← getB kv "commok",
         committee := ← getL kv "comm", selProof := proof, selDecodes := ← getB kv "seldec",
         selSig := ← getB kv "selsig", outerSig := ← getB kv "osig", outerSigTrunc := ← getB kv "osigtrunc",
         maxPerComm := ← getN kv "maxpc", aggSig := ← getB kv "aggsig" }

def parseExit (kv : KV) : Option ExitIn := do
  pure { vindex := ← getU kv "vindex", exitEpoch := ← getU kv "xepoch", seen := ← getB kv "seen",
         headOk := ← getB kv "head", nVals := ← getU kv "nvals", curEpoch := ← getU kv "cur",
         activation := ← getU kv "act", valExit := ← getU kv "vexit", shardPeriod := ← getU kv "shard",
         sig := ← getB kv "sig" }

def parsePSlash (kv : KV) : Option PSlashIn := do
  let spe ← getU kv "spe"
  if spe == 0 then none
  pure { spe := spe, slot1 := ← getU kv "slot1", slot2 := ← getU kv "slot2", prop1 := ← getU kv "prop1",
         prop2 := ← getU kv "prop2", headersEqual := ← getB kv "heq", seen := ← getB kv "seen",
         headOk := ← getB kv "head", nVals := ← getU kv "nvals", curEpoch := ← getU kv "cur",
         slashed := ← getB kv "slashed", activation := ← getU kv "act", withdrawable := ← getU kv "wd",
         sig1 := ← getB kv "sig1", sig2 := ← getB kv "sig2" }

def parseVals (s : String) : Option (List (UInt64 × Bool × UInt64 × UInt64)) :=
  if s = "-" then some [] else
  (s.splitOn ";").mapM fun e =>
    match e.splitOn ":" with
    | [a, b, c, d] => do
      let sl ← (if b = "1" then some true else if b = "0" then some false else none)
      pure (← parseU64 a, sl, ← parseU64 c, ← parseU64 d)
    | _ => none

def parseASlash (kv : KV) : Option ASlashIn := do
  pure { src1 := ← getU kv "src1", tgt1 := ← getU kv "tgt1", src2 := ← getU kv "src2", tgt2 := ← getU kv "tgt2",
         dataEqual := ← getB kv "deq", idx1 := ← getL kv "idx1", idx2 := ← getL kv "idx2",
         maxPerComm := ← getN kv "maxpc", allSeen := ← getB kv "allseen", headOk := ← getB kv "head",
         nVals := ← getU kv "nvals", vals := ← (get kv "vals" >>= parseVals), curEpoch := ← getU kv "cur",
         sig1 := ← getB kv "sig1", sig2 := ← getB kv "sig2" }

def parseSyncMsg (kv : KV) : Option SyncMsgIn := do
  let spe ← getU kv "spe"
  let epp ← getU kv "epp"
  let size ← getU kv "size"
  if spe == 0 || epp == 0 || size < 4 then none
  pure { spe := spe, epp := epp, syncSize := size, slot := ← getU kv "slot", vindex := ← getU kv "vindex",
         subnet := ← getU kv "subnet", minSlot := ← getU kv "min", maxSlot := ← getU kv "max",
         blockKnown := ← getB kv "bknown", epc := ← getB kv "epc", curCommittee := ← getL kv "cur",
         nextCommittee := ← getL kv "next", seen := ← getB kv "seen", nVals := ← getU kv "nvals",
         domainOk := ← getB kv "dom", sig := ← getB kv "sig" }

def parseContrib (kv : KV) : Option ContribIn := do
  let spe ← getU kv "spe"
  let epp ← getU kv "epp"
  let size ← getU kv "size"
  if spe == 0 || epp == 0 || size < 4 then none
  let proof ← getHex kv "selproof"
  if proof.size != 96 then none
  pure { spe := spe, epp := epp, syncSize := size, slot := ← getU kv "slot", subIdx := ← getU kv "subidx",
         aggregator := ← getU kv "aggregator", ones := ← getN kv "ones", minSlot := ← getU kv "min",
         maxSlot := ← getU kv "max", selProof := proof, blockKnown := ← getB kv "bknown", epc := ← getB kv "epc",
         curCommittee := ← getL kv "cur", nextCommittee := ← getL kv "next", seen := ← getB kv "seen",
         nVals := ← getU kv "nvals", domainOk := ← getB kv "dom", selSig := ← getB kv "selsig",
         outerSig := ← getB kv "osig", contribSigCur := ← getB kv "csigcur", contribSigNext := ← getB kv "csignext" }

/-! well-formedness assumptions under which the specification column is binding (else `any`) -/

def wfBlock (i : BlockIn) : Bool := noOverflow i.finEpoch i.spe
/-- chain-view consistency and sanity, for attestation and aggregate lines:
* the checkpoint block of the vote, when it is the target, is not reported as a non-ancestor of the voted block;
* walking from the voted block to the target epoch's start passes fewer than `SLOTS_PER_EPOCH` later blocks
  (slots strictly decrease along parent links and the vote is in the target epoch);
* the `fork` the line names is the fork of the clock's epoch under the node's `DENEB_FORK_EPOCH`. -/
def wfVote (fork : Spec.Fork) (spe denebEpoch maxSlot targetEpoch blockRoot blockSlot targetRoot : UInt64)
    (ancestors : List (UInt64 × UInt64)) (tsub : Tri) : Bool :=
  let chain := (blockRoot, blockSlot) :: ancestors
  let tslot := targetEpoch.toNat * spe.toNat
  (Spec.checkpointOf tslot chain != some targetRoot || tsub != .no) &&
  decide ((chain.takeWhile (fun e => decide (e.2.toNat > tslot))).length ≤ spe.toNat) &&
  ((fork == .deneb) == decide (denebEpoch.toNat ≤ maxSlot.toNat / spe.toNat))
def wfAtt (f : Spec.Fork) (i : AttIn) : Bool :=
  wfVote f i.spe i.denebEpoch i.maxSlot i.targetEpoch i.blockRoot i.blockSlot i.targetRoot i.ancestors i.targetSub &&
    noOverflow i.cps i.spe
def wfAgg (f : Spec.Fork) (i : AggIn) : Bool :=
  wfVote f i.spe i.denebEpoch i.maxSlot i.targetEpoch i.blockRoot i.blockSlot i.targetRoot i.ancestors i.targetSub &&
    noOverflow i.targetEpoch i.spe
def wfExit (i : ExitIn) : Bool := decide (i.activation.toNat + i.shardPeriod.toNat < 2 ^ 64)

def bool01 (b : Bool) : String := if b then "true" else "false"

def line (l : String) : String :=
  let toks := tokens l
  let bad := "bad-op"
  match toks with
  | [] => bad
  | kind :: rest =>
    match parseKV rest with
    | none => bad
    | some kv =>
      match kind with
      | "block" => match parseBlock kv with
        | some i => both (wfBlock i) (Spec.blockConds i) (Spec.blockMarks i) (validateBlock i)
        | none => bad
      | "att" => match parseAtt kv, getFork kv with
        | some i, some f => both (wfAtt f i) (Spec.attConds f i) (Spec.attMarks i) (validateAttestation i)
        | _, _ => bad
      | "agg" => match parseAgg kv, getFork kv with
        | some i, some f => both (wfAgg f i) (Spec.aggConds f i) (Spec.aggMarks i) (validateAggregate i)
        | _, _ => bad
      | "exit" => match parseExit kv with
        | some i => both (wfExit i) (Spec.exitConds i) (Spec.exitMarks i) (validateExit i)
        | none => bad
      | "pslash" => match parsePSlash kv with
        | some i => both true (Spec.pslashConds i) (Spec.pslashMarks i) (validateProposerSlashing i)
        | none => bad
      | "aslash" => match parseASlash kv with
        | some i =>
          let m := validateAttesterSlashing i
          both true (Spec.aslashConds i) m.marks m
        | none => bad
      | "syncmsg" => match parseSyncMsg kv with
        | some i => both true (Spec.syncMsgConds i) (Spec.syncMsgMarks i) (validateSyncMessage i)
        | none => bad
      | "contrib" => match parseContrib kv with
        | some i => both true (Spec.contribConds i) (Spec.contribMarks i) (validateContribution i)
        | none => bad
      -- unit lines for the arithmetic helpers
      | "isagg" => match getU kv "n", getHex kv "proof" with
        | some n, some p => if p.size != 96 then bad else
          bool01 (isAggregator n p) ++ " | " ++ bool01 (Spec.isAggregator n.toNat p)
        | _, _ => bad
      | "syncagg" => match getU kv "size", getHex kv "proof" with
        | some n, some p => if p.size != 96 then bad else
          bool01 (isSyncAggregator n p) ++ " | " ++ bool01 (Spec.isSyncAggregator n.toNat p)
        | _, _ => bad
      | "subnet" => match getU kv "spe", getU kv "cps", getU kv "slot", getU kv "idx" with
        | some spe, some cps, some slot, some idx =>
          if spe == 0 then bad else
          let m := match computeSubnet spe cps slot idx with
            | some s => "ok " ++ toString s.toNat
            | none => "err"
          -- the specification's function is defined for committee_index < committees_per_slot (no overflow)
          let s := if idx.toNat < cps.toNat && noOverflow cps spe && decide (cps.toNat * spe.toNat + idx.toNat < 2 ^ 64) then
              "ok " ++ toString (Spec.computeSubnetForAttestation spe.toNat cps.toNat slot.toNat idx.toNat)
            else "any"
          m ++ " | " ++ s
        | _, _, _, _ => bad
      | "insubnet" => match getU kv "size", getL kv "comm", getU kv "v", getU kv "subnet" with
        | some size, some comm, some v, some sn =>
          if size < 4 then bad else
          bool01 (inSubnet size comm v sn) ++ " | " ++
            bool01 ((Spec.subnetsForSyncCommittee size.toNat comm v).contains sn.toNat)
        | _, _, _, _ => bad
      | "subcomm" => match getU kv "size", getL kv "comm", getU kv "subnet" with
        | some size, some comm, some sn =>
          if size < 4 || comm.length != size.toNat then bad else
          let m := match subcommittee size comm sn with
            | some l => "ok " ++ retStr l
            | none => "err"
          let s := if sn.toNat < 4 then "ok " ++ retStr (Spec.syncSubcommittee size.toNat comm sn.toNat) else "err"
          m ++ " | " ++ s
        | _, _, _ => bad
      | "slotspan" => match getU kv "min", getU kv "max", getU kv "slot", getU kv "span" with
        | some mn, some mx, some slot, some span =>
          let m := slotSpanOk mn mx slot span
          let s := decide (slot.toNat + span.toNat < 2 ^ 64 ∧ mn.toNat ≤ slot.toNat + span.toNat ∧ slot.toNat ≤ mx.toNat)
          bool01 m ++ " | " ++ bool01 s
        | _, _, _, _ => bad
      | _ => bad

def c12Mode : Zrnt.Driver.Mode := Zrnt.Driver.stateless "c12" line

end Zrnt.Gossip.Driver
