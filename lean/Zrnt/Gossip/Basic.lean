import Zrnt.Prelude.Res
import Zrnt.Gen.GoFuns
/-!
# Gossip validation (C12): shared vocabulary of the code-shaped model and of the p2p specification

* `Verdict`   what a gossip validator answers (`GossipValidatorResult.Result`)
* `Tri`       the answer of `Chain.InSubtree(anchor, root)`: `(unknown, inSubtree)`
* `Out`       observable behaviour of one validator call: verdict, the `Seen*` queries it made (with their
              keys), the `Mark*` calls it made (in order), and the committee / index list it returned
* `Cond`      one condition of the networking specification, with its tag
-/
namespace Zrnt.Gossip
open Zrnt Zrnt.Gen.GoFuns

inductive Verdict where
  | ACCEPT | IGNORE | REJECT
  deriving DecidableEq, Repr, Inhabited

def Verdict.str : Verdict → String
  | .ACCEPT => "ACCEPT" | .IGNORE => "IGNORE" | .REJECT => "REJECT"

/-- `Chain.InSubtree(anchor, root) = (unknown, inSubtree)`: `unk` when `unknown`, else `yes`/`no`. -/
inductive Tri where
  | yes | no | unk
  deriving DecidableEq, Repr, Inhabited

structure Out where
  verdict : Verdict
  /-- `Seen*` queries made, in order, with their arguments (the de-duplication keys the code looked up) -/
  seen : List String := []
  /-- `Mark*` calls made, in order, with their arguments -/
  marks : List String := []
  /-- returned committee / index list (`nil` unless ACCEPT) -/
  ret : List UInt64 := []
  deriving DecidableEq, Repr, Inhabited

def call (name : String) (args : List UInt64) : String :=
  name ++ "(" ++ ",".intercalate (args.map (fun a => toString a.toNat)) ++ ")"

@[inline] def ign (q : List String := []) : Out := { verdict := .IGNORE, seen := q }
@[inline] def rej (q : List String := []) : Out := { verdict := .REJECT, seen := q }
@[inline] def acc (q : List String) (marks : List String) (ret : List UInt64 := []) : Out :=
  { verdict := .ACCEPT, seen := q, marks := marks, ret := ret }

/-- a `Spec` carrying only `SLOTS_PER_EPOCH` (all the regenerated time helpers used here read nothing else) -/
def specOf (spe : UInt64) : Spec := { (default : Spec) with SLOTS_PER_EPOCH := spe }

/-- Go: `s, _ := spec.EpochStartSlot(e)` — the value that is used when the error is dropped (0 on overflow). -/
def epochStartSlotOr0 (spe e : UInt64) : UInt64 :=
  match EpochStartSlot (specOf spe) e with
  | .ok s => s
  | _ => 0

/-- the clock of the backend as `CheckSlotSpan` sees it: `SlotAfter(-disparity)`, `SlotAfter(+disparity)` -/
def clock (minSlot maxSlot : UInt64) : Int → UInt64 := fun d => if d < 0 then minSlot else maxSlot

/-! ## Specification vocabulary -/

/-- Tag of a condition. `IGNORE`/`REJECT` are the tags of the p2p specification. `LOCAL` marks a condition
that is not in the p2p text: "the node's own backend could answer" (state / epochs context / domain lookup
failed). A message refused for a `LOCAL` reason must not be ACCEPTed; the specification says nothing else. -/
inductive Tag where
  | IGNORE | REJECT | LOCAL
  deriving DecidableEq, Repr, Inhabited

structure Cond where
  tag : Tag
  name : String
  holds : Bool
  deriving Repr, Inhabited

def allHold (cs : List Cond) : Bool := cs.all (·.holds)

/-- every failing condition is one an honest sender can fail through timing alone -/
def onlyTimingFails (cs : List Cond) : Bool := cs.all (fun c => c.holds || c.tag == .IGNORE)

/-- What the property allows for a message, given the truth values of the specification's conditions:
* all hold                                  ⇒ exactly ACCEPT
* only `[IGNORE]` conditions fail            ⇒ exactly IGNORE   (honest timing)
* some `[REJECT]`/`LOCAL` condition fails    ⇒ IGNORE or REJECT (never ACCEPT) -/
inductive Allowed where
  | accept | ignore | refuse
  deriving DecidableEq, Repr

def allowed (cs : List Cond) : Allowed :=
  if allHold cs then .accept else if onlyTimingFails cs then .ignore else .refuse

def Allowed.permits : Allowed → Verdict → Bool
  | .accept, .ACCEPT => true
  | .ignore, .IGNORE => true
  | .refuse, .IGNORE => true
  | .refuse, .REJECT => true
  | _, _ => false

/-- strict reading of the p2p text: the verdict must be the tag of some failing condition -/
def strictPermits (cs : List Cond) (v : Verdict) : Bool :=
  if allHold cs then v == .ACCEPT
  else match v with
    | .ACCEPT => false
    | .IGNORE => cs.any (fun c => !c.holds && c.tag != .REJECT)
    | .REJECT => cs.any (fun c => !c.holds && c.tag != .IGNORE)

end Zrnt.Gossip
