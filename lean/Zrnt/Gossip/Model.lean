import Zrnt.Gossip.Basic
import Zrnt.Sha256
/-!
# Code-shaped model of `eth2/gossipval` (C12)

Each validator is a pure function from the message's relevant fields and a *backend answer record* to
`Out = (verdict, Seen* queries, Mark* calls, returned indices)`, **in the code's order of checks**.
The records hold exactly what the Go code reads from its backend (clock at ±disparity, seen flags,
`ByBlock`/`InSubtree`/`Towards` outcomes, finalized checkpoint, committee data of the target context,
signature-oracle answers) plus a few *chain facts the code never asks for* (used by the specification only;
they are marked "spec only").

Arithmetic is `UInt64` with Go's wrap-around. `CheckSlotSpan`, `EpochStartSlot`, `SlotToEpoch` are the
functions regenerated from the Go source on every run (`Zrnt.Gen.GoFuns`).

Backend contract assumed by the model (documented, the mocks respect it): `Towards(root, slot)` returns an
entry *at* `slot`, so the epochs context it yields has `CurrentEpoch = epoch(slot)` and the pubkey cache
covers every validator of the registry; `SLOTS_PER_EPOCH ≠ 0`; `SYNC_COMMITTEE_SIZE ≥ 4`.
-/
namespace Zrnt.Gossip
open Zrnt Zrnt.Gen.GoFuns

/-! ## Small helpers shared by several validators -/

/-- Go `spec.SlotToEpoch(slot)` for `SLOTS_PER_EPOCH ≠ 0` -/
@[inline] def epochOf (spe slot : UInt64) : UInt64 := slot / spe

def ATTESTATION_PROPAGATION_SLOT_RANGE : UInt64 := 32
def ATTESTATION_SUBNET_COUNT : UInt64 := 64
def TARGET_AGGREGATORS_PER_COMMITTEE : UInt64 := 16
def SYNC_COMMITTEE_SUBNET_COUNT : UInt64 := 4
def TARGET_AGGREGATORS_PER_SYNC_SUBCOMMITTEE : UInt64 := 16
def FAR_FUTURE_EPOCH : UInt64 := 0xFFFFFFFFFFFFFFFF

/-- `CheckSlotSpan(backend.SlotAfter, slot, span) == nil` -/
def slotSpanOk (minSlot maxSlot slot span : UInt64) : Bool :=
  match CheckSlotSpan (clock minSlot maxSlot) slot span with
  | .ok _ => true
  | _ => false

/-- `CheckAttestationSlot(spec, backend.SlotAfter, slot) == nil`: the 32-slot range before `DENEB_FORK_EPOCH`
(decided by the epoch of the clock at +disparity), the EIP-7045 rule from then on -/
def attSlotOk (spe denebEpoch minSlot maxSlot slot : UInt64) : Bool :=
  if epochOf spe maxSlot < denebEpoch then slotSpanOk minSlot maxSlot slot ATTESTATION_PROPAGATION_SLOT_RANGE
  else if slot > maxSlot then false
  else
    let e := epochOf spe slot
    let c1 := epochOf spe minSlot
    let c2 := epochOf spe maxSlot
    (e == c1 || (c1 != 0 && e == c1 - 1)) || (e == c2 || (c2 != 0 && e == c2 - 1))

/-- `checkpointBlockRoot(chain, root, ref, targetSlot, maxSteps)`: walk the parent links from the voted block until
an entry at or before `targetSlot`. `ancs` are the successive parents `(root, slot)` the chain view can resolve; a
lookup beyond the list fails. `none` = `ok == false`. `fuel` = `maxSteps`. -/
def checkpointWalk (targetSlot : UInt64) : Nat → UInt64 → UInt64 → List (UInt64 × UInt64) → Option UInt64
  | fuel, root, slot, ancs =>
    if !(slot > targetSlot) then some root
    else match fuel, ancs with
      | 0, _ => none
      | _, [] => none
      | f + 1, (r, s) :: rest => checkpointWalk targetSlot f r s rest

/-- `binary.LittleEndian.Uint64(b[:8])` -/
def le64 (b : ByteArray) : UInt64 :=
  (List.range 8).foldr (fun i acc => acc * 256 + (b.get! i).toUInt64) 0

/-- `phase0.IsAggregator(spec, commSize, selectionProof)` given the first 8 hash bytes as a number -/
def isAggregatorH (commSize h : UInt64) : Bool :=
  let modulo := commSize / TARGET_AGGREGATORS_PER_COMMITTEE
  let modulo := if modulo == 0 then 1 else modulo
  h % modulo == 0

def isAggregator (commSize : UInt64) (proof : ByteArray) : Bool :=
  isAggregatorH commSize (le64 (Sha256.hash proof))

/-- `altair.IsSyncCommitteeAggregator(spec, sig)` given the first 8 hash bytes as a number -/
def isSyncAggregatorH (syncSize h : UInt64) : Bool :=
  let modulo := syncSize / SYNC_COMMITTEE_SUBNET_COUNT / TARGET_AGGREGATORS_PER_SYNC_SUBCOMMITTEE
  let modulo := if modulo < 1 then 1 else modulo
  h % modulo == 0

def isSyncAggregator (syncSize : UInt64) (proof : ByteArray) : Bool :=
  isSyncAggregatorH syncSize (le64 (Sha256.hash proof))

/-- `phase0.ComputeSubnetForAttestation(spec, committeesPerSlot, slot, committeeIndex)`; `none` = error -/
def computeSubnet (spe cps slot index : UInt64) : Option UInt64 :=
  let maxCommitteeIndex := cps * spe
  if index ≥ maxCommitteeIndex then none
  else
    let slotsSinceEpochStart := slot % spe
    let committeesSinceEpochStart := cps * slotsSinceEpochStart
    some ((committeesSinceEpochStart + index) % ATTESTATION_SUBNET_COUNT)

/-- positions (as `UInt64`) of the entries of `l` equal to `v` -/
def positionsOf (l : List UInt64) (v : UInt64) : List Nat :=
  (List.range l.length).filter (fun i => l[i]? == some v)

/-- `IndexedSyncCommittee.InSubnet(spec, valIndex, subnet)` -/
def inSubnet (syncSize : UInt64) (indices : List UInt64) (v subnet : UInt64) : Bool :=
  (positionsOf indices v).any (fun i => (UInt64.ofNat i) / (syncSize / SYNC_COMMITTEE_SUBNET_COUNT) == subnet)

/-- `IndexedSyncCommittee.Subcommittee(spec, subnet)`: `indices[i : i+subComSize]`, `none` = error -/
def subcommittee (syncSize : UInt64) (indices : List UInt64) (subnet : UInt64) : Option (List UInt64) :=
  if subnet ≥ SYNC_COMMITTEE_SUBNET_COUNT then none
  else
    let sz := syncSize / SYNC_COMMITTEE_SUBNET_COUNT
    some ((indices.drop (sz * subnet).toNat).take sz.toNat)

/-- `phase0.IsSlashable(validator, epoch)` -/
def isSlashable (slashed : Bool) (activation withdrawable epoch : UInt64) : Bool :=
  if slashed then false
  else if activation > epoch then false
  else if withdrawable ≤ epoch then false
  else true

/-! ## beacon_block -/

structure BlockIn where
  spe : UInt64
  slot : UInt64
  proposer : UInt64
  /-- `SlotAfter(+MAXIMUM_GOSSIP_CLOCK_DISPARITY)` -/
  maxSlot : UInt64
  seen : Bool
  /-- `ByBlock(parent_root)` found an entry -/
  parentKnown : Bool
  parentSlot : UInt64
  finEpoch : UInt64
  /-- `InSubtree(finalized.root, parent_root)` -/
  finSub : Tri
  /-- `parentRef.EpochsContext` succeeded -/
  parentEpc : Bool
  /-- the pubkey cache of the parent context knows `proposer_index` -/
  pubkeyKnown : Bool
  /-- the envelope's fork digest is the digest of the fork version at the block's slot -/
  digestOk : Bool
  /-- signature oracle: the signature verifies under the spec-correct signing root and the pubkey of `proposer_index` -/
  sig : Bool
  /-- `parentEpc.GetBeaconProposer(slot)`; `none` = error -/
  sameEpochProposer : Option UInt64
  towards : Bool
  slotEpc : Bool
  /-- `slotEpc.GetBeaconProposer(slot)` of the context reached by `Towards`; `none` = error -/
  slotProposer : Option UInt64
  deriving Repr

/-- the last step: compare the expected proposer (`none` = lookup failed) with `proposer_index`;
`MarkBlock` only on ACCEPT -/
def blockFinish (i : BlockIn) (q : List String) (expected : Option UInt64) : Out :=
  match expected with
  | none => ign q
  | some p => if p != i.proposer then rej q else acc q [call "MarkBlock" [i.slot, i.proposer]]

def validateBlock (i : BlockIn) : Out :=
  if i.maxSlot < i.slot then ign
  else
    let q := [call "SeenBlock" [i.slot, i.proposer]]
    if i.seen then ign q
    else if !i.parentKnown then ign q
    else if i.parentSlot ≥ i.slot then ign q
    else if i.slot ≤ epochStartSlotOr0 i.spe i.finEpoch then ign q
    else match i.finSub with
      | .unk => ign q
      | .no => rej q
      | .yes =>
        if !i.parentEpc then ign q
        else if !i.pubkeyKnown then ign q
        else if !(i.digestOk && i.sig) then rej q
        else if epochOf i.spe i.parentSlot == epochOf i.spe i.slot then blockFinish i q i.sameEpochProposer
        else if epochOf i.spe i.parentSlot > epochOf i.spe i.slot then rej q
        else if !i.towards then ign q
        else if !i.slotEpc then ign q
        else blockFinish i q i.slotProposer

/-! ## beacon_attestation_{subnet_id} -/

structure AttIn where
  spe : UInt64
  slot : UInt64
  index : UInt64
  targetEpoch : UInt64
  /-- `len(aggregation_bits)` -/
  bitLen : Nat
  /-- positions of the set bits, ascending -/
  setBits : List Nat
  subnet : UInt64
  /-- `beacon_block_root == finalized.root` -/
  blockIsFin : Bool
  minSlot : UInt64
  maxSlot : UInt64
  bad : Bool
  blockKnown : Bool
  blockSlot : UInt64
  /-- `InSubtree(target.root, beacon_block_root)` -/
  targetSub : Tri
  /-- symbolic names of `beacon_block_root` and `target.root` -/
  blockRoot : UInt64
  targetRoot : UInt64
  /-- the successive parents `(root, slot)` of the voted block that the chain view resolves (`ByBlock` + `ParentRoot`) -/
  ancestors : List (UInt64 × UInt64)
  /-- `DENEB_FORK_EPOCH` of the node's spec -/
  denebEpoch : UInt64
  finSub : Tri
  finEpoch : UInt64
  towards : Bool
  epc : Bool
  /-- committees per slot of the target context -/
  cps : UInt64
  /-- `get_beacon_committee(state, slot, index)` of the target context (`[]` when the index is out of range) -/
  committee : List UInt64
  seen : Bool
  domainOk : Bool
  /-- signature oracle: valid for the single participant's pubkey over `compute_signing_root(data, get_domain(BEACON_ATTESTER, target.epoch))` -/
  sig : Bool
  deriving Repr

/-- the finalized-subtree block shared by attestation and aggregate validation:
`none` = passed, `some out` = early return -/
def finCheck (blockIsFin : Bool) (finSub : Tri) (finEpoch targetEpoch : UInt64) (q : List String) : Option Out :=
  if !blockIsFin then
    match finSub with
    | .unk => some (ign q)
    | .no => some (ign q)
    | .yes => none
  else if finEpoch > targetEpoch then some (ign q)   -- stale vote for the finalized block: IGNORE
  else none

def validateAttestation (i : AttIn) : Out :=
  match EpochStartSlot (specOf i.spe) i.targetEpoch with
  | .ok targetSlot =>
    if !attSlotOk i.spe i.denebEpoch i.minSlot i.maxSlot i.slot then ign
    else if i.targetEpoch != epochOf i.spe i.slot then rej
    else if i.setBits.length != 1 then rej
    else if i.bad then rej
    else if !i.blockKnown then ign
    else if i.blockSlot > i.slot then rej
    else match i.targetSub with
      | .unk => ign
      | .no => rej
      | .yes =>
        match checkpointWalk targetSlot i.spe.toNat i.blockRoot i.blockSlot i.ancestors with
        | none => ign
        | some ckpt =>
        if ckpt != i.targetRoot then rej
        else
        match finCheck i.blockIsFin i.finSub i.finEpoch i.targetEpoch [] with
        | some o => o
        | none =>
          if !i.towards then ign
          else if !i.epc then ign
          else if i.index ≥ i.cps then rej
          else match computeSubnet i.spe i.cps i.slot i.index with
            | none => rej
            | some assigned =>
              if i.subnet != assigned then rej
              else if i.bitLen != i.committee.length then rej
              else match i.setBits with
                | [pos] =>
                  match i.committee[pos]? with
                  | none => rej
                  | some voter =>
                    let q := [call "SeenAttestation" [i.targetEpoch, voter]]
                    if i.seen then ign q
                    else if !i.domainOk then ign q
                    else if !i.sig then rej q
                    else acc q [call "MarkAttestation" [i.targetEpoch, voter]] i.committee
                | _ => rej
  | _ => rej

/-! ## beacon_aggregate_and_proof -/

structure AggIn where
  spe : UInt64
  slot : UInt64
  index : UInt64
  targetEpoch : UInt64
  aggregator : UInt64
  bitLen : Nat
  setBits : List Nat
  blockIsFin : Bool
  minSlot : UInt64
  maxSlot : UInt64
  seenAggregator : Bool
  seenAggregate : Bool
  /-- `hash_tree_root(aggregate)` (hex), the de-duplication key -/
  aggRoot : String
  bad : Bool
  /-- `ByBlock(beacon_block_root)` found an entry -/
  blockKnown : Bool
  blockSlot : UInt64
  /-- `InSubtree(target.root, beacon_block_root)` -/
  targetSub : Tri
  blockRoot : UInt64
  targetRoot : UInt64
  ancestors : List (UInt64 × UInt64)
  denebEpoch : UInt64
  finSub : Tri
  finEpoch : UInt64
  towards : Bool
  epc : Bool
  stateOk : Bool
  /-- number of validators in the registry of the target state -/
  nVals : UInt64
  /-- `GetBeaconCommittee(slot, index)` of the target context succeeded (index in range) -/
  commOk : Bool
  committee : List UInt64
  /-- the 96 bytes of `selection_proof` -/
  selProof : ByteArray
  /-- `selection_proof` decodes to a signature (subgroup-checked point) -/
  selDecodes : Bool
  /-- oracle: `selection_proof` is a valid signature of `slot` by the aggregator (domain SELECTION_PROOF) -/
  selSig : Bool
  /-- oracle: outer signature valid over `compute_signing_root(aggregate_and_proof, domain AGGREGATE_AND_PROOF)` -/
  outerSig : Bool
  /-- oracle: outer signature valid over the FIRST TWO BYTES of that signing root (what the code checked before
  the repair `aa93b5d`; kept in the record so that a regression shows as model ≠ code with this bit set) -/
  outerSigTrunc : Bool
  /-- `MAX_VALIDATORS_PER_COMMITTEE` -/
  maxPerComm : Nat
  /-- oracle: aggregate signature valid for the participants' pubkeys over the attestation data -/
  aggSig : Bool
  deriving Inhabited

/-- `phase0.ValidateAggregateSelectionProof`: `none` = error, `some valid` otherwise -/
def selectionProofCheck (i : AggIn) : Option Bool :=
  if !(i.aggregator < i.nVals) then some false
  else if !i.commOk then some false
  else if !i.committee.contains i.aggregator then some false
  else if !isAggregator (UInt64.ofNat i.committee.length) i.selProof then some false
  else if !i.selDecodes then none
  else some i.selSig

/-- participants of the aggregate: committee members at the set bit positions (`ConvertToIndexed`), sorted -/
def participants (committee : List UInt64) (setBits : List Nat) : List UInt64 :=
  setBits.filterMap (fun p => committee[p]?)

def validateAggregate (i : AggIn) : Out :=
  if !attSlotOk i.spe i.denebEpoch i.minSlot i.maxSlot i.slot then ign
  else if i.targetEpoch != epochOf i.spe i.slot then rej
  else
    let q1 := [call "SeenAggregator" [i.targetEpoch, i.aggregator]]
    if i.seenAggregator then ign q1
    else
      let q := q1 ++ ["SeenAggregate(" ++ i.aggRoot ++ ")"]
      if i.seenAggregate then ign q
      else if i.setBits.length < 1 then rej q
      else if i.bad then rej q
      else if !i.blockKnown then ign q
      else if i.blockSlot > i.slot then rej q
      else match i.targetSub with
      | .unk => ign q
      | .no => rej q
      | .yes =>
      match checkpointWalk (epochStartSlotOr0 i.spe i.targetEpoch) i.spe.toNat i.blockRoot i.blockSlot i.ancestors with
      | none => ign q
      | some ckpt =>
      if ckpt != i.targetRoot then rej q
      else
      match finCheck i.blockIsFin i.finSub i.finEpoch i.targetEpoch q with
        | some o => o
        | none =>
          if !i.towards then ign q
          else if !i.epc then ign q
          else if !i.stateOk then ign q
          else match selectionProofCheck i with
            | none => ign q
            | some false => rej q
            | some true =>
              if !i.outerSig then rej q
              else if i.bitLen != i.committee.length then rej q
              else if i.setBits.length > i.maxPerComm then rej q
              else if !i.aggSig then rej q
              else acc q ["MarkAggregate(" ++ i.aggRoot ++ ")", call "MarkAggregator" [i.targetEpoch, i.aggregator]]
                      i.committee

/-! ## voluntary_exit -/

structure ExitIn where
  vindex : UInt64
  exitEpoch : UInt64
  seen : Bool
  headOk : Bool
  nVals : UInt64
  /-- `epc.CurrentEpoch.Epoch` of the head -/
  curEpoch : UInt64
  /-- the validator's `activation_epoch` / `exit_epoch` in the head state (meaningful when `vindex < nVals`) -/
  activation : UInt64
  valExit : UInt64
  shardPeriod : UInt64
  sig : Bool
  deriving Repr

/-- `phase0.ValidateVoluntaryExit(...) == nil` -/
def exitValid (i : ExitIn) : Bool :=
  if !(i.vindex < i.nVals) then false
  else if !(i.activation ≤ i.curEpoch && i.curEpoch < i.valExit) then false
  else if i.valExit != FAR_FUTURE_EPOCH then false
  else if i.curEpoch < i.exitEpoch then false
  else if i.curEpoch < i.activation + i.shardPeriod then false
  else i.sig

def validateExit (i : ExitIn) : Out :=
  let q := [call "SeenExit" [i.vindex]]
  if i.seen then ign q
  else if !i.headOk then ign q
  else if !exitValid i then rej q
  else acc q [call "MarkExit" [i.vindex]]

/-! ## proposer_slashing -/

structure PSlashIn where
  spe : UInt64
  slot1 : UInt64
  slot2 : UInt64
  prop1 : UInt64
  prop2 : UInt64
  /-- the two headers are identical -/
  headersEqual : Bool
  seen : Bool
  headOk : Bool
  nVals : UInt64
  curEpoch : UInt64
  slashed : Bool
  activation : UInt64
  withdrawable : UInt64
  sig1 : Bool
  sig2 : Bool
  deriving Repr

/-- `phase0.ValidateProposerSlashingNoSignature(...) == nil` -/
def pslashShapeOk (i : PSlashIn) : Bool :=
  if i.slot1 != i.slot2 then false
  else if i.prop1 != i.prop2 then false
  else if i.headersEqual then false
  else true

/-- `phase0.ValidateProposerSlashing(...) == nil` -/
def pslashValid (i : PSlashIn) : Bool :=
  if !pslashShapeOk i then false
  else if !(i.prop1 < i.nVals) then false
  else if !isSlashable i.slashed i.activation i.withdrawable i.curEpoch then false
  else if !i.sig1 then false
  else i.sig2

def validateProposerSlashing (i : PSlashIn) : Out :=
  if !pslashShapeOk i then rej
  else
    let q := [call "SeenProposerSlashing" [i.prop1]]
    if i.seen then ign q
    else if !i.headOk then ign q
    else if !pslashValid i then rej q
    else acc q [call "MarkProposerSlashing" [i.prop1]]

/-! ## attester_slashing -/

structure ASlashIn where
  src1 : UInt64
  tgt1 : UInt64
  src2 : UInt64
  tgt2 : UInt64
  /-- `attestation_1.data == attestation_2.data` -/
  dataEqual : Bool
  idx1 : List UInt64
  idx2 : List UInt64
  maxPerComm : Nat
  allSeen : Bool
  headOk : Bool
  nVals : UInt64
  /-- per validator index `(slashed, activation_epoch, withdrawable_epoch)` of the head state, for the indices
  that occur in the message and are in range -/
  vals : List (UInt64 × Bool × UInt64 × UInt64)
  curEpoch : UInt64
  /-- oracle: aggregate signature of attestation k valid for `idx_k` over `data_k` -/
  sig1 : Bool
  sig2 : Bool
  deriving Repr

def isSlashableData (i : ASlashIn) : Bool :=
  (i.src1 < i.src2 && i.tgt1 > i.tgt2) || (!i.dataEqual && i.tgt1 == i.tgt2)

def sortedStrict : List UInt64 → Bool
  | a :: b :: r => a < b && sortedStrict (b :: r)
  | _ => true

/-- `phase0.ValidateIndexedAttestationIndicesSet(...)` succeeded -/
def indicesSetOk (maxPerComm : Nat) (idx : List UInt64) : Bool :=
  if idx.length > maxPerComm then false
  else if idx.length ≤ 0 then false
  else sortedStrict idx

/-- `ZigZagJoin` of two strictly sorted lists with `onIn`: the intersection, ascending -/
def intersect (a b : List UInt64) : List UInt64 := a.filter (b.contains ·)

def valSlashable (i : ASlashIn) (v : UInt64) : Option Bool :=
  if !(v < i.nVals) then none
  else match i.vals.find? (·.1 == v) with
    | some (_, sl, act, wd) => some (isSlashable sl act wd i.curEpoch)
    | none => none

/-- `slashable.Filter(...)`: `none` = error (an index outside the registry), else the retained indices -/
def filterSlashable (i : ASlashIn) : List UInt64 → Option (List UInt64)
  | [] => some []
  | v :: r =>
    match valSlashable i v with
    | none => none
    | some keep =>
      match filterSlashable i r with
      | none => none
      | some rest => some (if keep then v :: rest else rest)

/-- `phase0.ValidateIndexedAttestation(...) == nil` for attestation k -/
def indexedOk (i : ASlashIn) (idx : List UInt64) (sig : Bool) : Bool :=
  if !indicesSetOk i.maxPerComm idx then false
  else match idx.getLast? with
    | none => false
    | some last => if !(last < i.nVals) then false else sig

def validateAttesterSlashing (i : ASlashIn) : Out :=
  if !isSlashableData i then rej
  else if !indicesSetOk i.maxPerComm i.idx1 then rej
  else if !indicesSetOk i.maxPerComm i.idx2 then rej
  else
    let both := intersect i.idx1 i.idx2
    let q := [call "AttesterSlashableAllSeen" both]
    if i.allSeen then ign q
    else if !i.headOk then ign q
    else match filterSlashable i both with
      | none => rej q
      | some keep =>
        if keep.length == 0 then rej q
        else if !indexedOk i i.idx1 i.sig1 then rej q
        else if !indexedOk i i.idx2 i.sig2 then rej q
        else acc q [call "MarkAttesterSlashings" keep]

/-! ## sync_committee_{subnet_id} -/

/-- `gossipval.syncCommitteeForSlot`: the committee in charge at `slot` — the next one at the last slot of a period -/
def syncCommitteeForSlot {α} (spe epp slot : UInt64) (cur next : α) : α :=
  if epochOf spe slot / epp == epochOf spe (slot + 1) / epp then cur else next

structure SyncMsgIn where
  spe : UInt64
  /-- `EPOCHS_PER_SYNC_COMMITTEE_PERIOD` -/
  epp : UInt64
  syncSize : UInt64
  slot : UInt64
  vindex : UInt64
  subnet : UInt64
  minSlot : UInt64
  maxSlot : UInt64
  /-- `ByBlockSlot(beacon_block_root, slot)` found an entry -/
  blockKnown : Bool
  epc : Bool
  /-- validator indices of `state.current_sync_committee` at `(block, slot)` -/
  curCommittee : List UInt64
  /-- validator indices of `state.next_sync_committee` -/
  nextCommittee : List UInt64
  seen : Bool
  nVals : UInt64
  domainOk : Bool
  sig : Bool
  deriving Repr

def validateSyncMessage (i : SyncMsgIn) : Out :=
  if !slotSpanOk i.minSlot i.maxSlot i.slot 0 then ign
  else if !i.blockKnown then ign
  else if !i.epc then ign
  else
  let committee := syncCommitteeForSlot i.spe i.epp i.slot i.curCommittee i.nextCommittee
  if !inSubnet i.syncSize committee i.vindex i.subnet then rej
  else
    let q := [call "SeenSyncCommMsg" [i.vindex, i.slot, i.subnet]]
    if i.seen then ign q
    else if !(i.vindex < i.nVals) then rej q
    else if !i.domainOk then rej q
    else if !i.sig then rej q
    else acc q [call "MarkSyncCommMsg" [i.vindex, i.slot, i.subnet]] committee

/-! ## sync_committee_contribution_and_proof -/

structure ContribIn where
  spe : UInt64
  epp : UInt64
  syncSize : UInt64
  slot : UInt64
  subIdx : UInt64
  aggregator : UInt64
  /-- number of set bits in `contribution.aggregation_bits` -/
  ones : Nat
  minSlot : UInt64
  maxSlot : UInt64
  selProof : ByteArray
  blockKnown : Bool
  epc : Bool
  curCommittee : List UInt64
  nextCommittee : List UInt64
  seen : Bool
  nVals : UInt64
  domainOk : Bool
  /-- oracle: selection proof valid over `SyncAggregatorSelectionData(slot, subcommittee_index)` -/
  selSig : Bool
  /-- oracle: outer signature valid over the `ContributionAndProof` -/
  outerSig : Bool
  /-- oracle: contribution signature valid for the participating keys of the subcommittee of the CURRENT /
  NEXT sync committee over the block root -/
  contribSigCur : Bool
  contribSigNext : Bool
  deriving Inhabited

def validateContribution (i : ContribIn) : Out :=
  if !slotSpanOk i.minSlot i.maxSlot i.slot 0 then ign
  else if i.subIdx ≥ SYNC_COMMITTEE_SUBNET_COUNT then rej
  else if i.ones == 0 then rej
  else if !isSyncAggregator i.syncSize i.selProof then rej
  else if !i.blockKnown then ign
  else if !i.epc then ign
  else match subcommittee i.syncSize (syncCommitteeForSlot i.spe i.epp i.slot i.curCommittee i.nextCommittee) i.subIdx with
    | none => rej
    | some indices =>
      if !indices.contains i.aggregator then rej
      else
        let q := [call "SeenContribution" [i.aggregator, i.slot, i.subIdx]]
        if i.seen then ign q
        else if !i.domainOk then rej q
        else if !(i.aggregator < i.nVals) then rej q
        else if !i.selSig then rej q
        else if !i.outerSig then rej q
        else if !syncCommitteeForSlot i.spe i.epp i.slot i.contribSigCur i.contribSigNext then rej q
        else acc q [call "MarkContribution" [i.aggregator, i.slot, i.subIdx]] indices

end Zrnt.Gossip
