import Zrnt.Gossip.Model
/-!
# The networking (p2p-interface) specification's gossip conditions, per topic (C12 oracle)

Written from the published consensus-specs `specs/phase0/p2p-interface.md`, `specs/altair/p2p-interface.md`
(and `specs/deneb/p2p-interface.md` for the attestation window), **not** from the Go code. Each topic is a
list of `Cond`s over the same answer records as the model (`Zrnt.Gossip.Model`), so that the two can be
compared; a condition may read facts of the chain view that the Go code never asks for.

Conventions
* A condition whose prerequisite failed is vacuous (e.g. "the block is later than its parent" when the
  parent is unknown): the prerequisite itself is a failing condition.
* Arithmetic is on `Nat` (the specification's `uint64` arithmetic raises on overflow; an overflowing
  condition does not hold).
* Tags: `[IGNORE]` / `[REJECT]` as printed in the specification. Three kinds of entries are *not* verbatim
  bullets and are named `implied:` / `local:` in their `name`:
  - `implied:` a validity condition the p2p text delegates to the consensus / fork-choice rules
    ("passes validation", `validate_on_attestation`), with the tag the delegation carries;
  - `[IGNORE] implied: … can be determined` the specification's "if it cannot immediately be verified … do
    not REJECT, instead IGNORE" clause, generalised to every chain-view lookup that can come back "unknown";
  - `local:` tag `LOCAL` — the node's own backend failed (state / epochs context / domain unavailable).
    Not in the p2p text; such a message must not be ACCEPTed, nothing more is required.
* De-duplication keys (what must be marked on ACCEPT) are given per topic as `…Marks`.
-/
namespace Zrnt.Gossip.Spec
open Zrnt Zrnt.Gossip

def I (name : String) (b : Bool) : Cond := ⟨.IGNORE, name, b⟩
def R (name : String) (b : Bool) : Cond := ⟨.REJECT, name, b⟩
def L (name : String) (b : Bool) : Cond := ⟨.LOCAL, name, b⟩

/-! ## Helper functions of the specification (exact `Nat` arithmetic) -/

/-- `compute_epoch_at_slot` -/
abbrev epochAt (spe slot : Nat) : Nat := slot / spe
/-- `compute_start_slot_at_epoch` -/
abbrev startSlot (spe epoch : Nat) : Nat := epoch * spe

/-- `bytes_to_uint64(hash(signature)[0:8])` (little-endian) as a `Nat` -/
def leNat (b : ByteArray) : Nat :=
  (List.range 8).foldr (fun i acc => acc * 256 + (b.get! i).toNat) 0

/-- validator guide, `is_aggregator`:
`modulo = max(1, len(committee) // TARGET_AGGREGATORS_PER_COMMITTEE)`;
`bytes_to_uint64(hash(slot_signature)[0:8]) % modulo == 0` (on the hash value `h`) -/
def isAggregatorH (committeeLen h : Nat) : Bool :=
  h % (max 1 (committeeLen / 16)) == 0

def isAggregator (committeeLen : Nat) (proof : ByteArray) : Bool :=
  isAggregatorH committeeLen (leNat (Sha256.hash proof))

/-- altair validator guide, `is_sync_committee_aggregator`:
`modulo = max(1, SYNC_COMMITTEE_SIZE // SYNC_COMMITTEE_SUBNET_COUNT // TARGET_AGGREGATORS_PER_SYNC_SUBCOMMITTEE)` -/
def isSyncAggregatorH (syncSize h : Nat) : Bool :=
  h % (max 1 (syncSize / 4 / 16)) == 0

def isSyncAggregator (syncSize : Nat) (proof : ByteArray) : Bool :=
  isSyncAggregatorH syncSize (leNat (Sha256.hash proof))

/-- `compute_subnet_for_attestation(committees_per_slot, slot, committee_index)`:
`slots_since_epoch_start = slot % SLOTS_PER_EPOCH`;
`committees_since_epoch_start = committees_per_slot * slots_since_epoch_start`;
`(committees_since_epoch_start + committee_index) % ATTESTATION_SUBNET_COUNT` -/
def computeSubnetForAttestation (spe cps slot index : Nat) : Nat :=
  (cps * (slot % spe) + index) % 64

/-- `compute_sync_committee_period(epoch) = epoch // EPOCHS_PER_SYNC_COMMITTEE_PERIOD` -/
abbrev syncPeriod (epp epoch : Nat) : Nat := epoch / epp

/-- The committee `compute_subnets_for_sync_committee` / `get_sync_subcommittee_pubkeys` read, for a state at
`slot`: `current_sync_committee` if `period(epoch(slot)) == period(epoch(slot + 1))`, else `next_sync_committee`. -/
def syncCommitteeFor {α} (spe epp slot : Nat) (cur next : α) : α :=
  if syncPeriod epp (epochAt spe slot) == syncPeriod epp (epochAt spe (slot + 1)) then cur else next

/-- `compute_subnets_for_sync_committee(state, validator_index)`: `{ i // (SIZE // SUBNET_COUNT) | committee[i] = validator }` -/
def subnetsForSyncCommittee (syncSize : Nat) (committee : List UInt64) (v : UInt64) : List Nat :=
  ((List.range committee.length).filter (fun i => committee[i]? == some v)).map (fun i => i / (syncSize / 4))

/-- indices of `get_sync_subcommittee_pubkeys(state, subcommittee_index)` -/
def syncSubcommittee (syncSize : Nat) (committee : List UInt64) (subIdx : Nat) : List UInt64 :=
  (committee.drop (subIdx * (syncSize / 4))).take (syncSize / 4)

/-- `is_active_validator` -/
def isActive (activation exit epoch : Nat) : Bool := decide (activation ≤ epoch ∧ epoch < exit)
/-- `is_slashable_validator` -/
def isSlashableValidator (slashed : Bool) (activation withdrawable epoch : Nat) : Bool :=
  !slashed && decide (activation ≤ epoch ∧ epoch < withdrawable)

abbrev FAR : Nat := 2 ^ 64 - 1

/-! ## `beacon_block` (phase0; unchanged by altair apart from the payload type)

* [IGNORE] The block is not from a future slot (with a MAXIMUM_GOSSIP_CLOCK_DISPARITY allowance).
* [IGNORE] The block is from a slot greater than the latest finalized slot.
* [IGNORE] The block is the first block with valid signature received for the proposer for the slot.
* [REJECT] The proposer signature is valid with respect to the `proposer_index` pubkey.
* [IGNORE] The block's parent has been seen.
* [REJECT] The block's parent passes validation.
* [REJECT] The block is from a higher slot than its parent.
* [REJECT] The current finalized_checkpoint is an ancestor of block.
* [REJECT] The block is proposed by the expected proposer_index for the block's slot in the context of the
  current shuffling (defined by parent_root/slot). If the proposer_index cannot immediately be verified …
  do not REJECT, instead IGNORE this message.

"The block's parent passes validation" holds by assumption for every block of the chain view (the backend
only holds validated blocks); it is not a field of the record. Bellatrix+ execution-payload conditions and
deneb blob-commitment conditions are outside `gossipval` (it sees the header envelope only). -/
def blockExpectedProposer (i : BlockIn) : Option UInt64 :=
  if epochAt i.spe.toNat i.parentSlot.toNat == epochAt i.spe.toNat i.slot.toNat then i.sameEpochProposer
  else if i.towards && i.slotEpc then i.slotProposer else none

def blockConds (i : BlockIn) : List Cond := [
  I "not from a future slot" (decide (i.slot.toNat ≤ i.maxSlot.toNat)),
  I "slot greater than latest finalized slot" (decide (i.slot.toNat > startSlot i.spe.toNat i.finEpoch.toNat)),
  I "first block for (slot, proposer)" (!i.seen),
  R "proposer signature valid" i.sig,
  R "implied: received on the topic of the fork of the block's slot (fork digest)" i.digestOk,
  I "parent seen" i.parentKnown,
  R "higher slot than parent" (!i.parentKnown || decide (i.parentSlot.toNat < i.slot.toNat)),
  R "finalized checkpoint is an ancestor" (!i.parentKnown || i.finSub != .no),
  I "implied: ancestry of the finalized checkpoint can be determined" (!i.parentKnown || i.finSub != .unk),
  R "expected proposer" (!i.parentKnown || match blockExpectedProposer i with
                                            | some p => p == i.proposer
                                            | none => true),
  I "implied: expected proposer can be determined (else IGNORE)"
      (!i.parentKnown || (blockExpectedProposer i).isSome),
  L "local: parent epochs context and proposer pubkey available" (!i.parentKnown || (i.parentEpc && i.pubkeyKnown))
]

def blockMarks (i : BlockIn) : List String := [call "MarkBlock" [i.slot, i.proposer]]

/-! ## `beacon_attestation_{subnet_id}` (phase0)

* [REJECT] The committee index is within the expected range.
* [REJECT] The attestation is for the correct subnet.
* [IGNORE] `attestation.data.slot` is within the last ATTESTATION_PROPAGATION_SLOT_RANGE slots (with a
  MAXIMUM_GOSSIP_CLOCK_DISPARITY allowance):
  `data.slot + ATTESTATION_PROPAGATION_SLOT_RANGE >= current_slot >= data.slot`.
  (deneb, EIP-7045: replaced by [IGNORE] `data.slot <= current_slot` and [IGNORE] the epoch of `data.slot` is
  the current or the previous epoch, both with disparity.)
* [REJECT] The attestation's epoch matches its target.
* [REJECT] The attestation is unaggregated — exactly one participating validator.
* [REJECT] The number of aggregation bits matches the committee size.
* [IGNORE] No other valid attestation seen with identical `target.epoch` and participating validator index.
* [REJECT] The signature of attestation is valid.
* [IGNORE] The block being voted for has been seen.
* [REJECT] The block being voted for passes validation.
* [REJECT] The attestation's target block is an ancestor of the block named in the LMD vote —
  `get_checkpoint_block(store, data.beacon_block_root, data.target.epoch) == data.target.root`.
* [IGNORE] The current finalized_checkpoint is an ancestor of the block defined by `data.beacon_block_root`. -/
inductive Fork where
  | phase0 | deneb
  deriving DecidableEq, Repr, Inhabited

/-- the propagation window; `curMin`/`curMax` are the current slot at −/+ MAXIMUM_GOSSIP_CLOCK_DISPARITY -/
def attWindow (fork : Fork) (spe slot curMin curMax : Nat) : Bool :=
  match fork with
  | .phase0 => decide (slot + 32 ≥ curMin ∧ curMax ≥ slot ∧ slot + 32 < 2 ^ 64)
  | .deneb =>
    -- slot <= current_slot (with disparity) and epoch(slot) ∈ {previous, current} epoch for some clock reading
    -- within the disparity interval
    decide (slot ≤ curMax) &&
      (decide (epochAt spe slot = epochAt spe curMin ∨ epochAt spe slot + 1 = epochAt spe curMin) ||
       decide (epochAt spe slot = epochAt spe curMax ∨ epochAt spe slot + 1 = epochAt spe curMax))

/-- fork-choice `get_checkpoint_block(store, root, epoch)` read off the chain view: the voted block and its
ancestors `(root, slot)` in order; the checkpoint block is the first one at or before the epoch's start slot.
`none`: the chain view does not reach back that far. -/
def checkpointOf (targetSlot : Nat) (chain : List (UInt64 × UInt64)) : Option UInt64 :=
  (chain.find? (fun e => decide (e.2.toNat ≤ targetSlot))).map (·.1)

def targetIsCheckpoint (targetSlot : Nat) (chain : List (UInt64 × UInt64)) (targetRoot : UInt64) : Bool :=
  match checkpointOf targetSlot chain with
  | some r => r == targetRoot
  | none => true

/-- the single participant, when there is exactly one set bit inside the committee -/
def attVoter (i : AttIn) : Option UInt64 :=
  match i.setBits with
  | [p] => i.committee[p]?
  | _ => none

def attConds (fork : Fork) (i : AttIn) : List Cond :=
  let ctx := i.towards && i.epc   -- the target context (committees) is available
  [
  R "committee index within range" (!ctx || decide (i.index.toNat < i.cps.toNat)),
  R "correct subnet" (!ctx || decide (i.subnet.toNat =
      computeSubnetForAttestation i.spe.toNat i.cps.toNat i.slot.toNat i.index.toNat)),
  I "within the propagation slot range" (attWindow fork i.spe.toNat i.slot.toNat i.minSlot.toNat i.maxSlot.toNat),
  R "epoch matches target" (decide (i.targetEpoch.toNat = epochAt i.spe.toNat i.slot.toNat)),
  R "exactly one participant" (i.setBits.length == 1),
  R "aggregation bits length matches committee size" (!ctx || !decide (i.index.toNat < i.cps.toNat) ||
      i.bitLen == i.committee.length),
  I "no other valid attestation seen for (target epoch, validator)" (!i.seen),
  R "signature valid" i.sig,
  I "block seen" i.blockKnown,
  R "block passes validation" (!i.bad),
  R "target is the checkpoint ancestor of the LMD vote" (!i.blockKnown || i.targetSub == .unk ||
      (i.targetSub != .no &&
        targetIsCheckpoint (startSlot i.spe.toNat i.targetEpoch.toNat) ((i.blockRoot, i.blockSlot) :: i.ancestors) i.targetRoot)),
  I "implied: target ancestry can be determined" (!i.blockKnown || (i.targetSub != .unk &&
      (i.targetSub == .no ||
        (checkpointOf (startSlot i.spe.toNat i.targetEpoch.toNat) ((i.blockRoot, i.blockSlot) :: i.ancestors)).isSome))),
  I "finalized checkpoint is an ancestor of the block" (!i.blockKnown || i.blockIsFin || i.finSub == .yes),
  R "implied: LMD vote consistent (block slot <= attestation slot; validate_on_attestation)"
      (!i.blockKnown || decide (i.blockSlot.toNat ≤ i.slot.toNat)),
  I "implied: vote not older than the finalized epoch when voting for the finalized block (stale)"
      (!i.blockIsFin || decide (i.finEpoch.toNat ≤ i.targetEpoch.toNat)),
  I "implied: target state can be reached (unknown target, else IGNORE)" i.towards,
  L "local: epochs context / domain available" (i.epc && i.domainOk)
  ]

def attMarks (i : AttIn) : List String :=
  match attVoter i with
  | some v => [call "MarkAttestation" [i.targetEpoch, v]]
  | none => []

/-! ## `beacon_aggregate_and_proof` (phase0)

* [IGNORE] `aggregate.data.slot` within the last ATTESTATION_PROPAGATION_SLOT_RANGE slots (deneb: as above).
* [REJECT] The aggregate attestation's epoch matches its target.
* [IGNORE] The valid aggregate attestation defined by `hash_tree_root(aggregate)` has not already been seen.
* [IGNORE] The aggregate is the first valid aggregate received for the aggregator for the epoch.
* [REJECT] The attestation has participants.
* [REJECT] `selection_proof` selects the validator as an aggregator — `is_aggregator(...)`.
* [REJECT] The aggregator's validator index is within the committee.
* [REJECT] `selection_proof` is a valid signature of `aggregate.data.slot` by the aggregator.
* [REJECT] The aggregator signature, `signed_aggregate_and_proof.signature`, is valid.
* [REJECT] The signature of `aggregate` is valid.
* [IGNORE] The block being voted for has been seen.
* [REJECT] The block being voted for passes validation.
* [REJECT] The aggregate attestation's target block is an ancestor of the block named in the LMD vote.
* [IGNORE] The current finalized_checkpoint is an ancestor of the block.
(plus, in later revisions: [REJECT] committee index in range, [REJECT] bits length = committee size.) -/
def aggConds (fork : Fork) (i : AggIn) : List Cond :=
  let ctx := i.towards && i.epc && i.stateOk
  [
  I "within the propagation slot range" (attWindow fork i.spe.toNat i.slot.toNat i.minSlot.toNat i.maxSlot.toNat),
  R "epoch matches target" (decide (i.targetEpoch.toNat = epochAt i.spe.toNat i.slot.toNat)),
  I "aggregate (by hash tree root) not already seen" (!i.seenAggregate),
  I "first aggregate for (aggregator, target epoch)" (!i.seenAggregator),
  R "has participants" (decide (i.setBits.length ≥ 1)),
  R "committee index within range" (!ctx || i.commOk),
  R "selection proof selects the aggregator" (!ctx || !i.commOk || isAggregator i.committee.length i.selProof),
  R "aggregator index within the committee" (!ctx || !i.commOk || i.committee.contains i.aggregator),
  R "selection proof is a valid signature of the slot" (!ctx || i.selSig),
  R "aggregator signature valid" (!ctx || i.outerSig),
  R "aggregation bits length matches committee size" (!ctx || !i.commOk || i.bitLen == i.committee.length),
  R "aggregate signature valid" (!ctx || i.aggSig),
  I "block seen" i.blockKnown,
  R "block passes validation" (!i.bad),
  R "target is the checkpoint ancestor of the LMD vote" (!i.blockKnown || i.targetSub == .unk ||
      (i.targetSub != .no &&
        targetIsCheckpoint (startSlot i.spe.toNat i.targetEpoch.toNat) ((i.blockRoot, i.blockSlot) :: i.ancestors) i.targetRoot)),
  I "implied: target ancestry can be determined" (!i.blockKnown || (i.targetSub != .unk &&
      (i.targetSub == .no ||
        (checkpointOf (startSlot i.spe.toNat i.targetEpoch.toNat) ((i.blockRoot, i.blockSlot) :: i.ancestors)).isSome))),
  I "finalized checkpoint is an ancestor of the block" (!i.blockKnown || i.blockIsFin || i.finSub == .yes),
  R "implied: LMD vote consistent (block slot <= attestation slot; validate_on_attestation)"
      (!i.blockKnown || decide (i.blockSlot.toNat ≤ i.slot.toNat)),
  I "implied: vote not older than the finalized epoch when voting for the finalized block (stale)"
      (!i.blockIsFin || decide (i.finEpoch.toNat ≤ i.targetEpoch.toNat)),
  I "implied: target state can be reached (unknown target, else IGNORE)" i.towards,
  R "implied: participants fit MAX_VALIDATORS_PER_COMMITTEE (SSZ limit)" (decide (i.setBits.length ≤ i.maxPerComm)),
  L "local: epochs context / state available" (i.epc && i.stateOk)
  ]

def aggMarks (i : AggIn) : List String :=
  ["MarkAggregate(" ++ i.aggRoot ++ ")", call "MarkAggregator" [i.targetEpoch, i.aggregator]]

/-! ## `voluntary_exit`

* [IGNORE] The voluntary exit is the first valid voluntary exit received for the validator.
* [REJECT] All of the conditions within `process_voluntary_exit` pass validation:
  validator index exists; `is_active_validator(validator, current_epoch)`; `exit_epoch == FAR_FUTURE_EPOCH`;
  `current_epoch >= voluntary_exit.epoch`; `current_epoch >= activation_epoch + SHARD_COMMITTEE_PERIOD`;
  signature valid (domain VOLUNTARY_EXIT at `voluntary_exit.epoch`). -/
def exitConds (i : ExitIn) : List Cond :=
  let known := decide (i.vindex.toNat < i.nVals.toNat)
  [
  I "first valid exit for the validator" (!i.seen),
  R "validator index exists" (!i.headOk || known),
  R "validator is active" (!i.headOk || !known || isActive i.activation.toNat i.valExit.toNat i.curEpoch.toNat),
  R "exit not yet initiated" (!i.headOk || !known || decide (i.valExit.toNat = FAR)),
  R "exit epoch reached" (!i.headOk || decide (i.curEpoch.toNat ≥ i.exitEpoch.toNat)),
  R "active long enough" (!i.headOk || !known ||
      decide (i.curEpoch.toNat ≥ i.activation.toNat + i.shardPeriod.toNat)),
  R "signature valid" (!i.headOk || i.sig),
  L "local: head state available" i.headOk
  ]

def exitMarks (i : ExitIn) : List String := [call "MarkExit" [i.vindex]]

/-! ## `proposer_slashing`

* [IGNORE] The proposer slashing is the first valid proposer slashing received for the proposer.
* [REJECT] All of the conditions within `process_proposer_slashing` pass validation:
  header slots match; proposer indices match; headers differ; proposer exists and
  `is_slashable_validator(proposer, current_epoch)`; both signatures valid. -/
def pslashConds (i : PSlashIn) : List Cond :=
  let known := decide (i.prop1.toNat < i.nVals.toNat)
  [
  I "first valid proposer slashing for the proposer" (!i.seen),
  R "header slots match" (decide (i.slot1.toNat = i.slot2.toNat)),
  R "header proposer indices match" (decide (i.prop1.toNat = i.prop2.toNat)),
  R "headers are different" (!i.headersEqual),
  R "proposer exists" (!i.headOk || known),
  R "proposer is slashable" (!i.headOk || !known ||
      isSlashableValidator i.slashed i.activation.toNat i.withdrawable.toNat i.curEpoch.toNat),
  R "signature 1 valid" (!i.headOk || i.sig1),
  R "signature 2 valid" (!i.headOk || i.sig2),
  L "local: head state available" i.headOk
  ]

def pslashMarks (i : PSlashIn) : List String := [call "MarkProposerSlashing" [i.prop1]]

/-! ## `attester_slashing`

* [IGNORE] At least one index in the intersection of the attesting indices of each attestation has not yet
  been seen in any prior attester_slashing.
* [REJECT] All of the conditions within `process_attester_slashing` pass validation:
  `is_slashable_attestation_data`; `is_valid_indexed_attestation` for both (non-empty, sorted, unique,
  signature valid; every index exists); at least one index of the intersection is slashable. -/
def isSlashableAttestationData (src1 tgt1 src2 tgt2 : Nat) (dataEqual : Bool) : Bool :=
  (!dataEqual && decide (tgt1 = tgt2)) || decide (src1 < src2 ∧ tgt2 < tgt1)

def sortedUnique : List UInt64 → Bool
  | a :: b :: r => decide (a.toNat < b.toNat) && sortedUnique (b :: r)
  | _ => true

def validIndexedShape (maxPerComm : Nat) (nVals : Nat) (idx : List UInt64) : Bool :=
  !idx.isEmpty && decide (idx.length ≤ maxPerComm) && sortedUnique idx && idx.all (fun v => decide (v.toNat < nVals))

def aslashAnySlashable (i : ASlashIn) : Bool :=
  (i.idx1.filter (i.idx2.contains ·)).any (fun v =>
    match i.vals.find? (·.1 == v) with
    | some (_, sl, act, wd) => decide (v.toNat < i.nVals.toNat) &&
        isSlashableValidator sl act.toNat wd.toNat i.curEpoch.toNat
    | none => false)

def aslashConds (i : ASlashIn) : List Cond := [
  I "some index of the intersection not seen in a prior attester slashing" (!i.allSeen),
  R "slashable attestation data" (isSlashableAttestationData i.src1.toNat i.tgt1.toNat i.src2.toNat i.tgt2.toNat i.dataEqual),
  R "attestation 1 is a valid indexed attestation (shape)" (validIndexedShape i.maxPerComm (if i.headOk then i.nVals.toNat else 2 ^ 64) i.idx1),
  R "attestation 2 is a valid indexed attestation (shape)" (validIndexedShape i.maxPerComm (if i.headOk then i.nVals.toNat else 2 ^ 64) i.idx2),
  R "attestation 1 signature valid" (!i.headOk || i.sig1),
  R "attestation 2 signature valid" (!i.headOk || i.sig2),
  R "some validator of the intersection is slashable" (!i.headOk || aslashAnySlashable i),
  L "local: head state available" i.headOk
  ]

/-! ## `sync_committee_{subnet_id}` (altair)

* [IGNORE] The message's slot is for the current slot (with a MAXIMUM_GOSSIP_CLOCK_DISPARITY allowance).
* [REJECT] The `subnet_id` is valid for the given validator —
  `subnet_id in compute_subnets_for_sync_committee(state, validator_index)`.
* [IGNORE] There has been no other valid sync committee message for the declared slot for the validator
  (per subnet).
* [REJECT] The signature is valid for the message `beacon_block_root` for the validator. -/
def currentSlotCond (slot curMin curMax : Nat) : Bool := decide (curMin ≤ slot ∧ slot ≤ curMax)

def syncMsgConds (i : SyncMsgIn) : List Cond :=
  let ctx := i.blockKnown && i.epc
  let committee := syncCommitteeFor i.spe.toNat i.epp.toNat i.slot.toNat i.curCommittee i.nextCommittee
  [
  I "slot is the current slot" (currentSlotCond i.slot.toNat i.minSlot.toNat i.maxSlot.toNat),
  R "subnet valid for the validator" (!ctx ||
      (subnetsForSyncCommittee i.syncSize.toNat committee i.vindex).contains i.subnet.toNat),
  I "no other valid message for (validator, slot, subnet)" (!i.seen),
  R "signature valid" (!ctx || i.sig),
  I "implied: block root known at the slot (state can be determined)" i.blockKnown,
  L "local: epochs context / domain available" (!i.blockKnown || (i.epc && i.domainOk))
  ]

def syncMsgMarks (i : SyncMsgIn) : List String := [call "MarkSyncCommMsg" [i.vindex, i.slot, i.subnet]]

/-! ## `sync_committee_contribution_and_proof` (altair)

* [IGNORE] The contribution's slot is for the current slot (with disparity).
* [REJECT] The subcommittee index is in the allowed range.
* [REJECT] The contribution has participants.
* [REJECT] `selection_proof` selects the validator as an aggregator — `is_sync_committee_aggregator`.
* [REJECT] The aggregator's validator index is in the declared subcommittee of the current sync committee.
* [IGNORE] The sync committee contribution is the first valid contribution received for the aggregator for
  the slot and subcommittee index.
* [REJECT] `selection_proof` is a valid signature of the `SyncAggregatorSelectionData`.
* [REJECT] The aggregator signature, `signed_contribution_and_proof.signature`, is valid.
* [REJECT] The aggregate signature is valid for the message `beacon_block_root` and the participants.
(later revisions add an [IGNORE] superset-already-seen condition; the backend interface has no such cache.) -/
def contribConds (i : ContribIn) : List Cond :=
  let ctx := i.blockKnown && i.epc
  let committee := syncCommitteeFor i.spe.toNat i.epp.toNat i.slot.toNat i.curCommittee i.nextCommittee
  let inRange := decide (i.subIdx.toNat < 4)
  [
  I "slot is the current slot" (currentSlotCond i.slot.toNat i.minSlot.toNat i.maxSlot.toNat),
  R "subcommittee index in range" inRange,
  R "has participants" (decide (i.ones ≥ 1)),
  R "selection proof selects the aggregator" (isSyncAggregator i.syncSize.toNat i.selProof),
  R "aggregator in the declared subcommittee" (!ctx || !inRange ||
      (syncSubcommittee i.syncSize.toNat committee i.subIdx.toNat).contains i.aggregator),
  I "first contribution for (aggregator, slot, subcommittee)" (!i.seen),
  R "selection proof is a valid signature" (!ctx || i.selSig),
  R "aggregator signature valid" (!ctx || i.outerSig),
  R "contribution signature valid" (!ctx ||
      syncCommitteeFor i.spe.toNat i.epp.toNat i.slot.toNat i.contribSigCur i.contribSigNext),
  I "implied: block root known at the slot (state can be determined)" i.blockKnown,
  L "local: epochs context / domain available" (!i.blockKnown || (i.epc && i.domainOk))
  ]

def contribMarks (i : ContribIn) : List String := [call "MarkContribution" [i.aggregator, i.slot, i.subIdx]]

end Zrnt.Gossip.Spec
