import Zrnt.SSZ.Codec
/-! The canonical JSON text of an SSZ value (the convention of the consensus specification's API and test
vectors, which the Go types' `MarshalJSON` / `MarshalText` methods and `json:"…"` tags implement):

* `uintN`                                  a decimal number in a string: `"12345"`
* `boolean`                                `true` / `false`
* `BytesN`, `ByteList`, `Bitvector`, `Bitlist`   `"0x…"`: lower-case hex of the SSZ encoding
* `Vector`, `List`                         `[e1,e2,…]` (an empty list is `[]`, never `null`)
* `Container`                              `{"field":value,…}` in field order, keys = the schema's field names

No blanks; this is what Go's `encoding/json` emits for `json.Marshal`. Mode `ssz` prints the text (or its length
and FNV-1a digest when long) on every accepted line; the harness prints the same for Go's `json.Marshal`. -/
namespace Zrnt.SSZ

def hexNibble (n : Nat) : Char :=
  if n < 10 then Char.ofNat (48 + n) else Char.ofNat (87 + n)

def hex0x (bs : Bytes) : String :=
  bs.foldl (fun s x => (s.push (hexNibble (x.toNat / 16))).push (hexNibble (x.toNat % 16))) "0x"

def quoted (s : String) : String := "\"" ++ s ++ "\""

def commaSep : List String → String
  | [] => ""
  | [a] => a
  | a :: r => a ++ "," ++ commaSep r

mutual
def toJson : Ty → Val → String
  | .uint _, .num n => quoted (toString n)
  | .bool, .bool b => if b then "true" else "false"
  | .vector t _, .seq vs => "[" ++ commaSep (vs.map (toJson t)) ++ "]"
  | .list t _, .seq vs => "[" ++ commaSep (vs.map (toJson t)) ++ "]"
  | .container fs, .seq vs => "{" ++ commaSep (toJsonFields fs vs) ++ "}"
  | t, v => quoted (hex0x (encode t v))
def toJsonFields : Fields → List Val → List String
  | .cons n t r, v :: vs => (quoted n ++ ":" ++ toJson t v) :: toJsonFields r vs
  | _, _ => []
end

/-- FNV-1a, 64 bit, over the UTF-8 bytes of the text -/
def fnv1a64 (s : String) : UInt64 :=
  s.toUTF8.foldl (fun h b => (h ^^^ b.toUInt64) * 1099511628211) 14695981039346656037

def hex16 (x : UInt64) : String :=
  (List.range 16).foldl (fun s i => s.push (hexNibble ((x.toNat >>> (60 - 4 * i)) % 16))) ""

/-- what is printed on a result line: the text itself when short, else `#<length>:<digest>` -/
def jsonDigest (s : String) : String :=
  if s.utf8ByteSize ≤ 160 then s else s!"#{s.utf8ByteSize}:{hex16 (fnv1a64 s)}"

end Zrnt.SSZ
