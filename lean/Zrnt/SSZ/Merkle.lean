import Zrnt.SSZ.Codec
/-! `hash_tree_root` of the SSZ specification, parametric in the two-to-one hash `H`.

`merkleizeSpec` is the definition of the specification read literally: pad the chunk list with zero
chunks to the next power of two of the limit and hash the perfect binary tree. `merkleize` is what
runs: it hashes level by level and carries the zero hash of the current level, so only the populated
part of a tree is ever hashed (a `List[Validator, 2^40]` costs `O(n + 40)` hashes). Their equality is
a theorem (`Proofs.Properties.C05.merkleize_eq_spec`). -/
namespace Zrnt.SSZ

abbrev Chunk := Bytes
abbrev Hash2 := Chunk → Chunk → Chunk

def zeroChunk : Chunk := List.replicate 32 0

def padTo32 (c : Bytes) : Chunk := c ++ List.replicate (32 - c.length) 0

/-- `n` chunks of 32 bytes from a byte string, the last one right-padded with zeros -/
def packN : Nat → Bytes → List Chunk
  | 0, _ => []
  | n + 1, bs => padTo32 (bs.take 32) :: packN n (bs.drop 32)

/-- `pack` of the specification: right-pad to a multiple of 32 bytes and split into chunks -/
def pack (bs : Bytes) : List Chunk := packN ((bs.length + 31) / 32) bs

/-- one level up: hash neighbours; an unpaired last node is paired with the zero hash `z` of this level -/
def pairUp (H : Hash2) (z : Chunk) : List Chunk → List Chunk
  | [] => []
  | [a] => [H a z]
  | a :: b :: r => H a b :: pairUp H z r

/-- root of the depth-`d` tree over `cs` padded with `z` (the zero hash of the leaf level) -/
def merkleizeFrom (H : Hash2) : Chunk → List Chunk → Nat → Chunk
  | z, cs, 0 => cs.headD z
  | z, cs, d + 1 => merkleizeFrom H (H z z) (pairUp H z cs) d

def merkleize (H : Hash2) (cs : List Chunk) (depth : Nat) : Chunk := merkleizeFrom H zeroChunk cs depth

/-- root of the perfect binary tree of depth `d` whose leaves are the first `2^d` entries of `cs` -/
def treeRoot (H : Hash2) : Nat → List Chunk → Chunk
  | 0, cs => cs.headD zeroChunk
  | d + 1, cs => H (treeRoot H d (cs.take (2 ^ d))) (treeRoot H d (cs.drop (2 ^ d)))

/-- the specification's `merkleize(chunks, limit)` with `2^d = next_pow_of_two(limit)`: pad with zero chunks, hash the tree -/
def merkleizeSpec (H : Hash2) (cs : List Chunk) (d : Nat) : Chunk :=
  treeRoot H d (cs ++ List.replicate (2 ^ d - cs.length) zeroChunk)

def mixInLength (H : Hash2) (root : Chunk) (len : Nat) : Chunk := H root (natToLE 32 len)

/-- number of chunks of `n` basic items of `size` bytes -/
def chunkCount (n size : Nat) : Nat := (n * size + 31) / 32

mutual
def htr (H : Hash2) : Ty → Val → Chunk
  | .uint k, .num n => padTo32 (natToLE k n)
  | .bool, .bool b => padTo32 [if b then 1 else 0]
  | .bytesN n, .bytes bs => merkleize H (pack bs) (ceilLog2 (chunkCount n 1))
  | .vector t n, .seq vs =>
    if t.isBasic then merkleize H (pack (vs.map (encode t)).flatten) (ceilLog2 (chunkCount n t.fixedLen))
    else merkleize H (vs.map (htr H t)) (ceilLog2 n)
  | .list t lim, .seq vs =>
    mixInLength H
      (if t.isBasic then merkleize H (pack (vs.map (encode t)).flatten) (ceilLog2 (chunkCount lim t.fixedLen))
       else merkleize H (vs.map (htr H t)) (ceilLog2 lim))
      vs.length
  | .bitvector n, .bits bs =>
    merkleize H (pack (natToLE ((n + 7) / 8) (bitsToNat bs))) (ceilLog2 ((n + 255) / 256))
  | .bitlist lim, .bits bs =>
    mixInLength H (merkleize H (pack (natToLE ((bs.length + 7) / 8) (bitsToNat bs))) (ceilLog2 ((lim + 255) / 256)))
      bs.length
  | .byteList lim, .bytes bs => mixInLength H (merkleize H (pack bs) (ceilLog2 (chunkCount lim 1))) bs.length
  | .container fs, .seq vs => merkleize H (htrFields H fs vs) (ceilLog2 fs.length)
  | _, _ => zeroChunk
def htrFields (H : Hash2) : Fields → List Val → List Chunk
  | .cons _ t r, v :: vs => htr H t v :: htrFields H r vs
  | _, _ => []
end

end Zrnt.SSZ
