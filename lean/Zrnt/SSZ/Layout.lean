import Zrnt.SSZ.Type
/-! The offset discipline of SSZ, independent of the type recursion.

A composite value is a sequence of parts; `Layout` says which parts have a fixed size. `joinParts`
writes the fixed section (fixed-size parts inline, a 4-byte little-endian offset for every
variable-size part) followed by the variable-size parts; `splitParts` is its strict inverse:
it refuses truncated input, a first offset different from the size of the fixed section,
decreasing offsets, offsets past the end, and trailing bytes. -/
namespace Zrnt.SSZ

/-- size of the fixed section -/
def fixedPartLen : Layout → Nat
  | [] => 0
  | some n :: r => n + fixedPartLen r
  | none :: r => 4 + fixedPartLen r

def fixedSection : Layout → List Bytes → Nat → Bytes
  | some _ :: l, p :: ps, off => p ++ fixedSection l ps off
  | none :: l, p :: ps, off => natToLE 4 off ++ fixedSection l ps (off + p.length)
  | _, _, _ => []

def varSection : Layout → List Bytes → Bytes
  | some _ :: l, _ :: ps => varSection l ps
  | none :: l, p :: ps => p ++ varSection l ps
  | _, _ => []

def joinParts (lay : Layout) (parts : List Bytes) : Bytes :=
  fixedSection lay parts (fixedPartLen lay) ++ varSection lay parts

/-- the offsets stored in a fixed section -/
def readOffsets : Layout → Bytes → List Nat
  | [], _ => []
  | some n :: l, bs => readOffsets l (bs.drop n)
  | none :: l, bs => leToNat (bs.take 4) :: readOffsets l (bs.drop 4)

/-- cut the variable section at the offsets; `pos` is the absolute position of the head of `rest`.
The first offset must be exactly `pos`, every next offset must not be smaller than its predecessor
nor point past the end, the last part extends to the end; without offsets nothing may remain. -/
def sliceVar : Nat → List Nat → Bytes → Option (List Bytes)
  | _, [], rest => if rest.isEmpty then some [] else none
  | pos, [o], rest => if o = pos then some [rest] else none
  | pos, o :: o' :: os, rest =>
    if o = pos ∧ o ≤ o' ∧ o' - o ≤ rest.length then
      (sliceVar o' (o' :: os) (rest.drop (o' - o))).map (rest.take (o' - o) :: ·)
    else none

def assemble : Layout → Bytes → List Bytes → List Bytes
  | [], _, _ => []
  | some n :: l, fx, vs => fx.take n :: assemble l (fx.drop n) vs
  | none :: l, fx, v :: vs => v :: assemble l (fx.drop 4) vs
  | none :: _, _, [] => []

def splitParts (lay : Layout) (bs : Bytes) : Option (List Bytes) :=
  if bs.length < fixedPartLen lay then none else
  match sliceVar (fixedPartLen lay) (readOffsets lay (bs.take (fixedPartLen lay))) (bs.drop (fixedPartLen lay)) with
  | none => none
  | some vs => some (assemble lay (bs.take (fixedPartLen lay)) vs)

/-- element slices of a `List[T, limit]`: for fixed-size elements the length must be a multiple of
the element size; for variable-size elements the count is the first offset / 4. The limit is enforced. -/
def splitList (fl : Option Nat) (lim : Nat) (bs : Bytes) : Option (List Bytes) :=
  match fl with
  | some s =>
    if s = 0 then none
    else if bs.length % s ≠ 0 then none
    else if bs.length / s > lim then none
    else splitParts (List.replicate (bs.length / s) (some s)) bs
  | none =>
    if bs.isEmpty then some []
    else if bs.length < 4 then none
    else
      let o := leToNat (bs.take 4)
      if o % 4 ≠ 0 then none
      else if o / 4 > lim then none
      else splitParts (List.replicate (o / 4) none) bs

end Zrnt.SSZ
