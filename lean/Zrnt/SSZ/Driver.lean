import Zrnt.Driver.Loop
import Zrnt.Prelude.Text
import Zrnt.Sha256
import Zrnt.SSZ.Merkle
import Zrnt.SSZ.Json
import Zrnt.Schema.Spec
import Zrnt.Schema.Denote
import Zrnt.Gen.SszFacts
/-! `zmodel ssz`: the generic SSZ functions at the SPECIFICATION schema, as an oracle for the Go types.

    keys K1,K2,…                      the configuration keys the harness will send, in order
    schema <Type> <cfg>               the evaluated schema as an s-expression (drives the harness generators)
    (<hex>: plain hex, a run of equal bytes may be written `hh*N.`; `-` = empty)
    d <label> <Type> <cfg> <hex>      strict decode at the schema; `err`, or
                                      `ok len=<byteLength> fixed=<fixedLen> htr=<hash_tree_root> json=<canonical JSON text, or #len:fnv1a64 when long>`
    z <label> <Type> <cfg> <root>     root of the type's DEFAULT value; `<root>` is what Go's zero value of the type
                                      (slice-backed vectors sized, never decoded from bytes) hashes to
    st <label> <Type> <cfg> <claimed root> <hex>
                                      a tree-backed state after a mutation step: `err`, or
                                      `ok htr=<r> claimed=<r>` with `r` the hash_tree_root of the bytes: the EXPECTED answer.
                                      (Go answers `htr=` root of a view rebuilt from the bytes, `claimed=` the root the
                                      mutated view reported; a stale cached hash makes `claimed` differ.)

`<cfg>` is `v1,v2,…`: the values of `Schema.Spec.configKeys` in order. The label is free text without
blanks (input class, for statistics and for keying known findings); it does not influence the answer. -/
namespace Zrnt.SSZ.Driver
open Zrnt Zrnt.Text Zrnt.SSZ Zrnt.Schema

def sha2 : Hash2 := fun a b =>
  (Sha256.hash (ByteArray.mk (a ++ b).toArray)).data.toList

def parseCfg (s : String) : Option Config :=
  let parts := s.splitOn ","
  let vals := parts.filterMap String.toNat?
  if vals.length = parts.length ∧ vals.length = Spec.configKeys.length then some (Spec.configOf vals) else none

mutual
partial def showTy : Ty → String
  | .uint k => s!"(u {k})"
  | .bool => "b"
  | .bytesN n => s!"(B {n})"
  | .vector t n => s!"(V {showTy t} {n})"
  | .list t l => s!"(L {showTy t} {l})"
  | .bitvector n => s!"(bv {n})"
  | .bitlist l => s!"(bl {l})"
  | .byteList l => s!"(BL {l})"
  | .container fs => "(C" ++ showFields fs ++ ")"
partial def showFields : Fields → String
  | .nil => ""
  | .cons n t r => s!" {n} {showTy t}" ++ showFields r
end

def hexOf (bs : Bytes) : String := toHex (ByteArray.mk bs.toArray)

/-- hex with run-length compression, as the harness writes it: a byte `hh`, optionally followed by `*N.` = the byte
`N` times in all (`00*4096.`); `-` is the empty string -/
partial def parseHexRle (s : String) : Option Bytes :=
  if s = "-" then some [] else
  let rec digitsOf : List Char → Nat → Nat → Option (Nat × List Char)
    | '.' :: rest, n, k => if k = 0 then none else some (n, rest)
    | c :: rest, n, k => if c.isDigit ∧ n < 2 ^ 28 then digitsOf rest (n * 10 + (c.toNat - 48)) (k + 1) else none
    | [], _, _ => none
  let rec go : List Char → Array UInt8 → Option (Array UInt8)
    | [], acc => some acc
    | [_], _ => none
    | a :: b :: rest, acc =>
      match hexDigit a, hexDigit b with
      | some x, some y =>
        let byte := UInt8.ofNat (x * 16 + y)
        match rest with
        | '*' :: r =>
          match digitsOf r 0 0 with
          | some (n, r') => go r' (acc ++ Array.replicate n byte)
          | none => none
        | _ => go rest (acc.push byte)
      | _, _ => none
  (go s.toList (Array.emptyWithCapacity (s.length / 2))).map Array.toList

def tyOf (name cfg : String) : Option Ty :=
  match Spec.lookup (Name.ofString name), parseCfg cfg with
  | some st, some c => some (st.eval c)
  | _, _ => none

def specLine (t : Ty) (bs : Bytes) : String :=
  match decode t bs with
  | none => "err"
  | some v =>
    if encode t v != bs then "model-noncanonical"
    else s!"ok len={byteLength t v} fixed={t.fixedLen} htr={hexOf (htr sha2 t v)} json={jsonDigest (toJson t v)}"

/-- Hand-written models of bespoke leaf code, printed as the `model` column (`model | spec`) where they apply:
* bitlist types: acceptance by the model of `common.ReadBitList` + `BitlistCheck` (`goReadBitList`);
* byte-array types whose `HashTreeRoot` is a hand-written tree in the regenerated facts: that tree evaluated on the bytes.
Theorems (`goReadBitList_eq_decode`, `htOk_sound`) say the two columns coincide. -/
def decodeLine (name : String) (t : Ty) (bs : Bytes) : String :=
  let spec := specLine t bs
  match t with
  | .bitlist lim =>
    (if goReadBitList lim bs then spec else "err") ++ " | " ++ spec
  | .bytesN n =>
    match Zrnt.Gen.SszFacts.types.find? (·.name == Name.ofString name) with
    | some T =>
      match T.hashTreeRoot with
      | .htrTree _ ht =>
        (if bs.length = n then s!"ok len={n} fixed={n} htr={hexOf (Facts.htEval sha2 bs ht)} json={jsonDigest (toJson t (.bytes bs))}" else "err") ++ " | " ++ spec
      | _ => spec
    | none => spec
  | _ => spec

def sszLine (line : String) : String :=
  match tokens line with
  | ["keys", ks] => if ks.splitOn "," == Spec.configKeys.map Name.toString then "ok" else "keys-mismatch"
  | ["schema", name, cfg] =>
    match tyOf name cfg with
    | some t => showTy t
    | none => "bad-op"
  | ["d", _, name, cfg, hex] =>
    match tyOf name cfg, parseHexRle hex with
    | some t, some b => decodeLine name t b
    | _, _ => "bad-op"
  | ["z", _, name, cfg, _] =>
    -- the Go zero value of the type, hashed without ever having been decoded: expected root = root of the default value
    match tyOf name cfg with
    | some t => s!"ok htr={hexOf (htr sha2 t (defaultVal t))}"
    | none => "bad-op"
  | ["st", _, name, cfg, claimed, hex] =>
    match tyOf name cfg, parseHexRle hex with
    | some t, some b =>
      match decode t b with
      | none => "err"
      | some v =>
        -- the oracle's answer is the expected one: the root the mutated view reported must be the root of its content
        let _ := claimed
        let r := hexOf (htr sha2 t v)
        s!"ok htr={r} claimed={r}"
    | _, _ => "bad-op"
  | _ => "bad-op"

def sszMode : Driver.Mode := Driver.stateless "ssz" sszLine
def sszStateMode : Driver.Mode := Driver.stateless "sszstate" sszLine

end Zrnt.SSZ.Driver
