/-! Byte- and bit-level helpers of the generic SSZ model (core Lean only).

Byte strings are `List UInt8`; integers and bitfields are converted through `Nat`
(little-endian), which keeps the round-trip lemmas plain arithmetic. -/
namespace Zrnt.SSZ

abbrev Bytes := List UInt8

/-- little-endian bytes → number -/
def leToNat : Bytes → Nat
  | [] => 0
  | b :: r => b.toNat + 256 * leToNat r

/-- number → `k` little-endian bytes (the value is truncated modulo `256^k`) -/
def natToLE : Nat → Nat → Bytes
  | 0, _ => []
  | k + 1, n => UInt8.ofNat (n % 256) :: natToLE k (n / 256)

/-- bits (index 0 first) → number, bit `i` has weight `2^i` -/
def bitsToNat : List Bool → Nat
  | [] => 0
  | b :: r => b.toNat + 2 * bitsToNat r

/-- the `k` low bits of a number, index 0 first -/
def natToBits : Nat → Nat → List Bool
  | 0, _ => []
  | k + 1, n => (n % 2 == 1) :: natToBits k (n / 2)

/-- `mapM` in `Option`, structurally recursive (so that proofs are plain list induction) -/
def mapOpt {α β : Type} (f : α → Option β) : List α → Option (List β)
  | [] => some []
  | a :: as =>
    match f a, mapOpt f as with
    | some b, some bs => some (b :: bs)
    | _, _ => none

/-- `ceil(log2 n)` for `n ≥ 1`, and 0 for `n ≤ 1`: the depth of a Merkle tree with `n` leaves. -/
def ceilLog2 (n : Nat) : Nat := if n ≤ 1 then 0 else Nat.log2 (n - 1) + 1

end Zrnt.SSZ
