import Zrnt.SSZ.Merkle
/-! Models of the ztyp codec combinators the Go SSZ methods are written with, at the abstraction of whole
scopes (a sub-scope of the decoding reader is a slice of the bytes). An `Impl` is what one Go type offers:
its five SSZ methods as functions. `specImpl` is the generic specification at a type. The soundness theorems
(`Proofs.Lemmas.SSZImpl`) say: combinators applied to field implementations that meet the specification
meet the specification of the composite type. ztyp itself is a dependency (modelled here, not verified; the
differential run compares the real combinators with the same specification). -/
namespace Zrnt.SSZ

structure Impl where
  ser : Val → Bytes
  des : Bytes → Option Val
  blen : Val → Nat
  flen : Nat
  root : Val → Chunk

instance : Inhabited Impl := ⟨⟨fun _ => [], fun _ => none, fun _ => 0, 0, fun _ => zeroChunk⟩⟩

/-- the specification's five functions at a type -/
def specImpl (H : Hash2) (t : Ty) : Impl := ⟨encode t, decode t, byteLength t, t.fixedLen, htr H t⟩

/-- ztyp decides "fixed size" by `FixedLength() != 0` -/
def goLayout (fs : List Impl) : Layout := fs.map fun f => if f.flen = 0 then none else some f.flen

def zipSer : List Impl → List Val → List Bytes
  | f :: fs, v :: vs => f.ser v :: zipSer fs vs
  | _, _ => []

def zipDes : List Impl → List Bytes → Option (List Val)
  | [], [] => some []
  | f :: fs, p :: ps =>
    match f.des p, zipDes fs ps with
    | some v, some vs => some (v :: vs)
    | _, _ => none
  | _, _ => none

def zipRoot : List Impl → List Val → List Chunk
  | f :: fs, v :: vs => f.root v :: zipRoot fs vs
  | _, _ => []

/-- `codec.ContainerLength(fields…)` -/
def sumLen : List Impl → List Val → Nat
  | f :: fs, v :: vs => (if f.flen = 0 then 4 + f.blen v else f.flen) + sumLen fs vs
  | _, _ => 0

/-- `w.Container(fields…)` -/
def containerSer (fs : List Impl) : Val → Bytes
  | .seq vs => joinParts (goLayout fs) (zipSer fs vs)
  | _ => []

/-- `w.FixedLenContainer(fields…)`: the fields one after the other, no offsets -/
def fixedContainerSer (fs : List Impl) : Val → Bytes
  | .seq vs => (zipSer fs vs).flatten
  | _ => []

/-- `dr.Container(fields…)`: fixed fields get a sub-scope of their fixed length, variable fields the span between
their offset and the next one -/
def containerDes (fs : List Impl) (bs : Bytes) : Option Val :=
  match splitParts (goLayout fs) bs with
  | none => none
  | some ps => (zipDes fs ps).map .seq

/-- `dr.FixedLenContainer(fields…)`: every field reads its fixed length from the same scope, which is exhausted -/
def fixedContainerDes (fs : List Impl) (bs : Bytes) : Option Val :=
  match splitParts (fs.map fun f => some f.flen) bs with
  | none => none
  | some ps => (zipDes fs ps).map .seq

def containerLength (fs : List Impl) : Val → Nat
  | .seq vs => sumLen fs vs
  | _ => 0

/-- `hFn.HashTreeRoot(fields…)`: 0 fields ↦ zero root, 1 ↦ the field's root, 2 ↦ `h(a, b)`, else `Merkleize(n, n)` -/
def fieldsRoot (H : Hash2) (fs : List Impl) : Val → Chunk
  | .seq vs => merkleize H (zipRoot fs vs) (ceilLog2 fs.length)
  | _ => zeroChunk

/-! lists and vectors of one element implementation -/

/-- layout entry ztyp derives from the `fixedElemSize` argument (0 = variable-size elements) -/
def sizeLayout (size : Nat) : Option Nat := if size = 0 then none else some size

/-- `w.List(item, size, len)` / `w.Vector(item, size, len)` -/
def seqSer (e : Impl) (size : Nat) : Val → Bytes
  | .seq vs => joinParts (List.replicate vs.length (sizeLayout size)) (vs.map e.ser)
  | _ => []

/-- `dr.List(add, size, limit)` -/
def listDes (e : Impl) (size limit : Nat) (bs : Bytes) : Option Val :=
  match splitList (sizeLayout size) limit bs with
  | none => none
  | some ps => (mapOpt e.des ps).map .seq

/-- `dr.Vector(item, size, length)` -/
def vectorDes (e : Impl) (size length : Nat) (bs : Bytes) : Option Val :=
  match splitParts (List.replicate length (sizeLayout size)) bs with
  | none => none
  | some ps => (mapOpt e.des ps).map .seq

/-- `hFn.ComplexListHTR(series, length, limit)` -/
def complexListRoot (H : Hash2) (e : Impl) (limit : Nat) : Val → Chunk
  | .seq vs => mixInLength H (merkleize H (vs.map e.root) (ceilLog2 limit)) vs.length
  | _ => zeroChunk

/-- `hFn.ComplexVectorHTR(series, length)` / `hFn.ChunksHTR(chunks, length, length)` -/
def complexVectorRoot (H : Hash2) (e : Impl) (length : Nat) : Val → Chunk
  | .seq vs => merkleize H (vs.map e.root) (ceilLog2 length)
  | _ => zeroChunk

/-- `hFn.Uint64ListHTR` / `hFn.Uint8ListHTR` (`k` = 8 / 1 bytes per item): items packed little-endian into chunks,
chunk limit `ceil(limit * k / 32)`, length mixed in -/
def uintListRoot (H : Hash2) (e : Impl) (k limit : Nat) : Val → Chunk
  | .seq vs => mixInLength H (merkleize H (pack (vs.map e.ser).flatten) (ceilLog2 (chunkCount limit k))) vs.length
  | _ => zeroChunk

/-- `hFn.Uint64VectorHTR` -/
def uintVectorRoot (H : Hash2) (e : Impl) (k length : Nat) : Val → Chunk
  | .seq vs => merkleize H (pack (vs.map e.ser).flatten) (ceilLog2 (chunkCount length k))
  | _ => zeroChunk

end Zrnt.SSZ

namespace Zrnt.SSZ

/-- Model of `common.ReadBitList(dr, dst, bitLimit)` (zrnt; the repaired replacement of ztyp's
`DecodingReader.BitList`) followed by `bitfields.BitlistCheck`: the whole scope `bs` is the raw bitlist; it is
accepted iff it has at most `bitLimit/8 + 1` bytes, is not empty, its last byte is not zero, and the index of the
delimiter bit in the last byte does not exceed `bitLimit - 8 * (len - 1)`. -/
def goReadBitList (bitLimit : Nat) (bs : Bytes) : Bool :=
  if bs.length > bitLimit / 8 + 1 then false
  else
    match bs.getLast? with
    | none => false
    | some last =>
      if last = 0 then false
      else if Nat.log2 last.toNat > bitLimit - (bs.length - 1) * 8 then false
      else true

end Zrnt.SSZ

namespace Zrnt.SSZ

/-! ### leaf types: the Go value *is* its encoding (byte arrays, byte slices, bitfields kept as raw bytes,
integers as their little-endian bytes) -/

/-- the four encoding methods (`Serialize`, `Deserialize`, `ByteLength`, `FixedLength`) over values: the part of a Go
type property C04 speaks about; the fifth method, `HashTreeRoot`, is a separate function (property C05) -/
structure Codec where
  ser : Val → Bytes
  des : Bytes → Option Val
  blen : Val → Nat
  flen : Nat

/-- the four encoding methods of a leaf type as functions of the raw representation -/
structure LeafCodec where
  des : Bytes → Option Bytes
  ser : Bytes → Bytes
  blen : Bytes → Nat
  flen : Nat

/-- the leaf codec computes the specification's encoding functions at `t` (through the encoding of the value) -/
def LeafCodec.Meets (t : Ty) (L : LeafCodec) : Prop :=
  (∀ bs, L.des bs = (decode t bs).map (encode t)) ∧ L.flen = t.fixedLen ∧
  ∀ v, WF t v → L.ser (encode t v) = encode t v ∧ L.blen (encode t v) = byteLength t v

/-- a root function over the raw representation computes the specification's `hash_tree_root` at `t` -/
def LeafRootMeets (H : Hash2) (t : Ty) (r : Bytes → Chunk) : Prop :=
  ∀ v, WF t v → r (encode t v) = htr H t v

/-- the `Codec` over values a leaf codec induces (decode into the raw form, act, read back) -/
def LeafCodec.lift (t : Ty) (L : LeafCodec) : Codec :=
  { ser := fun v => L.ser (encode t v)
    des := fun bs => (L.des bs).bind (decode t)
    blen := fun v => L.blen (encode t v)
    flen := L.flen }

/-- `dr.Read(p[:])` into an `n`-byte array / `UintNView.Deserialize`: exactly `n` bytes -/
def goReadExact (n : Nat) (bs : Bytes) : Option Bytes := if bs.length = n then some bs else none

/-- `dr.BitVector(dst, bitLen)` + `bitfields.BitvectorCheck`, and the array variants (`ReadAll` for a multiple of 8,
the padding check `last >> (bitLen mod 8) ≠ 0 ⇒ error`): `ceil(bitLen/8)` bytes whose unused high bits are zero -/
def goReadBitVector (bitLen : Nat) (bs : Bytes) : Option Bytes :=
  if bs.length = (bitLen + 7) / 8 then
    if bitLen % 8 = 0 then some bs
    else
      match bs.getLast? with
      | some last => if last.toNat / 2 ^ (bitLen % 8) = 0 then some bs else none
      | none => none
  else none

/-- `dr.ByteList(dst, limit)` -/
def goReadByteList (limit : Nat) (bs : Bytes) : Option Bytes := if bs.length ≤ limit then some bs else none

/-- ztyp `HashFn.BitVectorHTR(bits)` / `ByteVectorHTR`: the raw bytes in 32-byte chunks (`Merkleize(chunks, chunks)`) -/
def goBytesRoot (H : Hash2) (raw : Bytes) : Chunk := merkleize H (pack raw) (ceilLog2 ((raw.length + 31) / 32))

/-- ztyp `HashFn.ByteListHTR(values, limit)`: chunk limit `ceil(limit/32)`, byte length mixed in -/
def goByteListRoot (H : Hash2) (limit : Nat) (raw : Bytes) : Chunk :=
  mixInLength H (merkleize H (pack raw) (ceilLog2 ((limit + 31) / 32))) raw.length

/-- `bitfields.BitlistLen`: 8 bits per byte before the last one plus the index of the delimiter bit in the last byte -/
def goBitlistLen (raw : Bytes) : Nat :=
  match raw.getLast? with
  | none => 0
  | some last => (raw.length - 1) * 8 + Nat.log2 last.toNat

/-- clear bit `r` of a byte (Go: `b &^= 1 << r`) -/
def clearBit (b : UInt8) (r : Nat) : UInt8 := UInt8.ofNat (b.toNat - (b.toNat / 2 ^ r % 2) * 2 ^ r)

/-- the bytes ztyp's `BitListHTR` merkleizes: the raw bitlist cut to `ceil(bitLen/8)` bytes with the delimiter bit
masked out (the delimiter byte disappears altogether when `bitLen` is a multiple of 8) -/
def goBitlistPayload (raw : Bytes) : Bytes :=
  let L := goBitlistLen raw
  let q := L / 8
  if L % 8 = 0 then raw.take q
  else raw.take q ++ [clearBit (raw.getD q 0) (L % 8)]

/-- ztyp `HashFn.BitListHTR(bits, bitlimit)` -/
def goBitListRoot (H : Hash2) (bitLimit : Nat) (raw : Bytes) : Chunk :=
  mixInLength H (merkleize H (pack (goBitlistPayload raw)) (ceilLog2 ((bitLimit + 255) / 256))) (goBitlistLen raw)

/-! ### `hFn.Uint64ListHTR` / `Uint64VectorHTR` at the level of the chunk function

ztyp computes chunk `i` by writing the items `4i, 4i+1, 4i+2, 4i+3` that lie below `length` little-endian at
offsets 0, 8, 16, 24 of a zeroed 32-byte array; `(length + 3) >> 2` chunks; chunk limit `(limit + 3) >> 2`. -/

def goUint64Chunk (vals : List Nat) (i : Nat) : Chunk :=
  padTo32 (((vals.drop (4 * i)).take 4).flatMap (natToLE 8))

def goUint64Chunks (vals : List Nat) : List Chunk :=
  (List.range ((vals.length + 3) / 4)).map (goUint64Chunk vals)

def goUint64ListRoot (H : Hash2) (limit : Nat) (vals : List Nat) : Chunk :=
  mixInLength H (merkleize H (goUint64Chunks vals) (ceilLog2 ((limit + 3) / 4))) vals.length

def goUint64VectorRoot (H : Hash2) (length : Nat) (vals : List Nat) : Chunk :=
  merkleize H (goUint64Chunks vals) (ceilLog2 ((length + 3) / 4))

end Zrnt.SSZ
