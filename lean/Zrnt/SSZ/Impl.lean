import Zrnt.SSZ.Merkle
/-! Models of the ztyp codec combinators the Go SSZ methods are written with, at the abstraction of whole
scopes (a sub-scope of the decoding reader is a slice of the bytes). An `Impl` is what one Go type offers:
its five SSZ methods as functions. `specImpl` is the generic specification at a type. The soundness theorems
(`Proofs.Lemmas.SSZImpl`) say: combinators applied to field implementations that meet the specification
meet the specification of the composite type. ztyp itself is a dependency (modelled here, not verified; the
differential run compares the real combinators with the same specification). -/
namespace Zrnt.SSZ

structure Impl where
  ser : Val → Bytes
  des : Bytes → Option Val
  blen : Val → Nat
  flen : Nat
  root : Val → Chunk

instance : Inhabited Impl := ⟨⟨fun _ => [], fun _ => none, fun _ => 0, 0, fun _ => zeroChunk⟩⟩

/-- the specification's five functions at a type -/
def specImpl (H : Hash2) (t : Ty) : Impl := ⟨encode t, decode t, byteLength t, t.fixedLen, htr H t⟩

/-- ztyp decides "fixed size" by `FixedLength() != 0` -/
def goLayout (fs : List Impl) : Layout := fs.map fun f => if f.flen = 0 then none else some f.flen

def zipSer : List Impl → List Val → List Bytes
  | f :: fs, v :: vs => f.ser v :: zipSer fs vs
  | _, _ => []

def zipDes : List Impl → List Bytes → Option (List Val)
  | [], [] => some []
  | f :: fs, p :: ps =>
    match f.des p, zipDes fs ps with
    | some v, some vs => some (v :: vs)
    | _, _ => none
  | _, _ => none

def zipRoot : List Impl → List Val → List Chunk
  | f :: fs, v :: vs => f.root v :: zipRoot fs vs
  | _, _ => []

/-- `codec.ContainerLength(fields…)` -/
def sumLen : List Impl → List Val → Nat
  | f :: fs, v :: vs => (if f.flen = 0 then 4 + f.blen v else f.flen) + sumLen fs vs
  | _, _ => 0

/-- `w.Container(fields…)` -/
def containerSer (fs : List Impl) : Val → Bytes
  | .seq vs => joinParts (goLayout fs) (zipSer fs vs)
  | _ => []

/-- `w.FixedLenContainer(fields…)`: the fields one after the other, no offsets -/
def fixedContainerSer (fs : List Impl) : Val → Bytes
  | .seq vs => (zipSer fs vs).flatten
  | _ => []

/-- `dr.Container(fields…)`: fixed fields get a sub-scope of their fixed length, variable fields the span between
their offset and the next one -/
def containerDes (fs : List Impl) (bs : Bytes) : Option Val :=
  match splitParts (goLayout fs) bs with
  | none => none
  | some ps => (zipDes fs ps).map .seq

/-- `dr.FixedLenContainer(fields…)`: every field reads its fixed length from the same scope, which is exhausted -/
def fixedContainerDes (fs : List Impl) (bs : Bytes) : Option Val :=
  match splitParts (fs.map fun f => some f.flen) bs with
  | none => none
  | some ps => (zipDes fs ps).map .seq

def containerLength (fs : List Impl) : Val → Nat
  | .seq vs => sumLen fs vs
  | _ => 0

/-- `hFn.HashTreeRoot(fields…)`: 0 fields ↦ zero root, 1 ↦ the field's root, 2 ↦ `h(a, b)`, else `Merkleize(n, n)` -/
def fieldsRoot (H : Hash2) (fs : List Impl) : Val → Chunk
  | .seq vs => merkleize H (zipRoot fs vs) (ceilLog2 fs.length)
  | _ => zeroChunk

/-! lists and vectors of one element implementation -/

/-- layout entry ztyp derives from the `fixedElemSize` argument (0 = variable-size elements) -/
def sizeLayout (size : Nat) : Option Nat := if size = 0 then none else some size

/-- `w.List(item, size, len)` / `w.Vector(item, size, len)` -/
def seqSer (e : Impl) (size : Nat) : Val → Bytes
  | .seq vs => joinParts (List.replicate vs.length (sizeLayout size)) (vs.map e.ser)
  | _ => []

/-- `dr.List(add, size, limit)` -/
def listDes (e : Impl) (size limit : Nat) (bs : Bytes) : Option Val :=
  match splitList (sizeLayout size) limit bs with
  | none => none
  | some ps => (mapOpt e.des ps).map .seq

/-- `dr.Vector(item, size, length)` -/
def vectorDes (e : Impl) (size length : Nat) (bs : Bytes) : Option Val :=
  match splitParts (List.replicate length (sizeLayout size)) bs with
  | none => none
  | some ps => (mapOpt e.des ps).map .seq

/-- `hFn.ComplexListHTR(series, length, limit)` -/
def complexListRoot (H : Hash2) (e : Impl) (limit : Nat) : Val → Chunk
  | .seq vs => mixInLength H (merkleize H (vs.map e.root) (ceilLog2 limit)) vs.length
  | _ => zeroChunk

/-- `hFn.ComplexVectorHTR(series, length)` / `hFn.ChunksHTR(chunks, length, length)` -/
def complexVectorRoot (H : Hash2) (e : Impl) (length : Nat) : Val → Chunk
  | .seq vs => merkleize H (vs.map e.root) (ceilLog2 length)
  | _ => zeroChunk

/-- `hFn.Uint64ListHTR` / `hFn.Uint8ListHTR` (`k` = 8 / 1 bytes per item): items packed little-endian into chunks,
chunk limit `ceil(limit * k / 32)`, length mixed in -/
def uintListRoot (H : Hash2) (e : Impl) (k limit : Nat) : Val → Chunk
  | .seq vs => mixInLength H (merkleize H (pack (vs.map e.ser).flatten) (ceilLog2 (chunkCount limit k))) vs.length
  | _ => zeroChunk

/-- `hFn.Uint64VectorHTR` -/
def uintVectorRoot (H : Hash2) (e : Impl) (k length : Nat) : Val → Chunk
  | .seq vs => merkleize H (pack (vs.map e.ser).flatten) (ceilLog2 (chunkCount length k))
  | _ => zeroChunk

end Zrnt.SSZ

namespace Zrnt.SSZ

/-- Model of `common.ReadBitList(dr, dst, bitLimit)` (zrnt; the repaired replacement of ztyp's
`DecodingReader.BitList`) followed by `bitfields.BitlistCheck`: the whole scope `bs` is the raw bitlist; it is
accepted iff it has at most `bitLimit/8 + 1` bytes, is not empty, its last byte is not zero, and the index of the
delimiter bit in the last byte does not exceed `bitLimit - 8 * (len - 1)`. -/
def goReadBitList (bitLimit : Nat) (bs : Bytes) : Bool :=
  if bs.length > bitLimit / 8 + 1 then false
  else
    match bs.getLast? with
    | none => false
    | some last =>
      if last = 0 then false
      else if Nat.log2 last.toNat > bitLimit - (bs.length - 1) * 8 then false
      else true

end Zrnt.SSZ
