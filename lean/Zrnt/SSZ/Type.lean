import Zrnt.SSZ.Basic
/-! The closed universe of SSZ types, untyped values and the well-typedness predicate.

`Ty` is the type language of the SSZ specification (simple-serialize.md) as far as the code base uses it:
`uintN`, `boolean`, `Vector`, `List`, `Bitvector`, `Bitlist`, containers. `bytesN n` is `Vector[byte, n]`
and `byteList n` is `List[byte, n]` with a compact value representation (zrnt never uses `Union` in a struct).
Containers carry their field list as the mutual inductive `Fields` so that every function below is
plain structural recursion on the type. -/
namespace Zrnt.SSZ

mutual
inductive Ty where
  /-- `uintN` with `N = 8 * k` (k = 1, 2, 4, 8, 16, 32) -/
  | uint (k : Nat)
  | bool
  /-- `Vector[byte, n]` -/
  | bytesN (n : Nat)
  | vector (t : Ty) (n : Nat)
  | list (t : Ty) (limit : Nat)
  | bitvector (n : Nat)
  | bitlist (limit : Nat)
  /-- `List[byte, limit]` -/
  | byteList (limit : Nat)
  | container (fs : Fields)
inductive Fields where
  | nil
  | cons (name : String) (t : Ty) (rest : Fields)
end

instance : Inhabited Ty := ⟨.bool⟩

def Fields.ofList : List (String × Ty) → Fields
  | [] => .nil
  | (n, t) :: r => .cons n t (Fields.ofList r)

def Fields.toList : Fields → List (String × Ty)
  | .nil => []
  | .cons n t r => (n, t) :: r.toList

def Fields.length : Fields → Nat
  | .nil => 0
  | .cons _ _ r => r.length + 1

/-- container from a plain field list -/
def Ty.struct (fs : List (String × Ty)) : Ty := .container (Fields.ofList fs)

/-- Untyped SSZ values. `seq` is used for vectors, lists and containers (fields in order). -/
inductive Val where
  | num (n : Nat)
  | bool (b : Bool)
  | bytes (bs : Bytes)
  | bits (bs : List Bool)
  | seq (vs : List Val)

instance : Inhabited Val := ⟨.num 0⟩

mutual
/-- `some n`: every value of the type is encoded in exactly `n` bytes; `none`: variable-size. -/
def Ty.fixedLen? : Ty → Option Nat
  | .uint k => some k
  | .bool => some 1
  | .bytesN n => some n
  | .vector t n => match t.fixedLen? with
    | some s => some (n * s)
    | none => none
  | .list _ _ => none
  | .bitvector n => some ((n + 7) / 8)
  | .bitlist _ => none
  | .byteList _ => none
  | .container fs => fs.fixedLen?
def Fields.fixedLen? : Fields → Option Nat
  | .nil => some 0
  | .cons _ t r => match t.fixedLen?, r.fixedLen? with
    | some a, some b => some (a + b)
    | _, _ => none
end

def Ty.isFixed (t : Ty) : Bool := t.fixedLen?.isSome
/-- what Go's `FixedLength()` reports: the fixed size, `0` for variable-size types -/
def Ty.fixedLen (t : Ty) : Nat := t.fixedLen?.getD 0

/-- basic types are packed into chunks by `hash_tree_root`; everything else is merkleized per element -/
def Ty.isBasic : Ty → Bool
  | .uint _ => true
  | .bool => true
  | _ => false

mutual
/-- Legal types of the SSZ specification: no zero-length vectors/bitvectors, no empty containers,
integer widths 8..256 bits. (For illegal types "fixed size 0" and "variable size" would be confused.) -/
def Ty.Legal : Ty → Prop
  | .uint k => k = 1 ∨ k = 2 ∨ k = 4 ∨ k = 8 ∨ k = 16 ∨ k = 32
  | .bool => True
  | .bytesN n => 0 < n
  | .vector t n => 0 < n ∧ t.Legal
  | .list t _ => t.Legal
  | .bitvector n => 0 < n
  | .bitlist _ => True
  | .byteList _ => True
  | .container fs => 0 < fs.length ∧ fs.Legal
def Fields.Legal : Fields → Prop
  | .nil => True
  | .cons _ t r => t.Legal ∧ r.Legal
end

mutual
/-- well-typed values: shapes match, numbers in range, lengths equal (vectors) or within the limit (lists) -/
def WF : Ty → Val → Prop
  | .uint k, .num n => n < 2 ^ (8 * k)
  | .bool, .bool _ => True
  | .bytesN n, .bytes bs => bs.length = n
  | .vector t n, .seq vs => vs.length = n ∧ ∀ v ∈ vs, WF t v
  | .list t lim, .seq vs => vs.length ≤ lim ∧ ∀ v ∈ vs, WF t v
  | .bitvector n, .bits bs => bs.length = n
  | .bitlist lim, .bits bs => bs.length ≤ lim
  | .byteList lim, .bytes bs => bs.length ≤ lim
  | .container fs, .seq vs => WFFields fs vs
  | _, _ => False
def WFFields : Fields → List Val → Prop
  | .nil, [] => True
  | .cons _ t r, v :: vs => WF t v ∧ WFFields r vs
  | _, _ => False
end

/-- a layout entry is `some n` for a part of fixed size `n` and `none` for a variable-size part -/
abbrev Layout := List (Option Nat)

def Fields.layout : Fields → Layout
  | .nil => []
  | .cons _ t r => t.fixedLen? :: r.layout

end Zrnt.SSZ
