import Zrnt.SSZ.Layout
/-! `encode`, `decode`, `byteLength` of the SSZ specification by structural recursion on the type. -/
namespace Zrnt.SSZ

mutual
def encode : Ty → Val → Bytes
  | .uint k, .num n => natToLE k n
  | .bool, .bool b => [if b then 1 else 0]
  | .bytesN _, .bytes bs => bs
  | .vector t _, .seq vs => joinParts (List.replicate vs.length t.fixedLen?) (vs.map (encode t))
  | .list t _, .seq vs => joinParts (List.replicate vs.length t.fixedLen?) (vs.map (encode t))
  | .bitvector n, .bits bs => natToLE ((n + 7) / 8) (bitsToNat bs)
  | .bitlist _, .bits bs => natToLE (bs.length / 8 + 1) (bitsToNat (bs ++ [true]))
  | .byteList _, .bytes bs => bs
  | .container fs, .seq vs => joinParts fs.layout (encodeFields fs vs)
  | _, _ => []
def encodeFields : Fields → List Val → List Bytes
  | .cons _ t r, v :: vs => encode t v :: encodeFields r vs
  | _, _ => []
end

mutual
/-- Strict decoding: `none` for every byte string that is not the canonical encoding of a well-typed value. -/
def decode : Ty → Bytes → Option Val
  | .uint k, bs => if bs.length = k then some (.num (leToNat bs)) else none
  | .bool, bs =>
    match bs with
    | [b] => if b = 0 then some (.bool false) else if b = 1 then some (.bool true) else none
    | _ => none
  | .bytesN n, bs => if bs.length = n then some (.bytes bs) else none
  | .vector t n, bs =>
    match splitParts (List.replicate n t.fixedLen?) bs with
    | none => none
    | some ps => (mapOpt (decode t) ps).map .seq
  | .list t lim, bs =>
    match splitList t.fixedLen? lim bs with
    | none => none
    | some ps => (mapOpt (decode t) ps).map .seq
  | .bitvector n, bs =>
    if bs.length = (n + 7) / 8 ∧ leToNat bs < 2 ^ n then some (.bits (natToBits n (leToNat bs))) else none
  | .bitlist lim, bs =>
    match bs.getLast? with
    | none => none
    | some last =>
      if last = 0 then none
      else if Nat.log2 (leToNat bs) ≤ lim then some (.bits (natToBits (Nat.log2 (leToNat bs)) (leToNat bs)))
      else none
  | .byteList lim, bs => if bs.length ≤ lim then some (.bytes bs) else none
  | .container fs, bs =>
    match splitParts fs.layout bs with
    | none => none
    | some ps => (decodeFields fs ps).map .seq
def decodeFields : Fields → List Bytes → Option (List Val)
  | .nil, [] => some []
  | .cons _ t r, p :: ps =>
    match decode t p, decodeFields r ps with
    | some v, some vs => some (v :: vs)
    | _, _ => none
  | _, _ => none
end

mutual
/-- the number of bytes `encode` writes, computed from the value without encoding it (Go's `ByteLength`) -/
def byteLength : Ty → Val → Nat
  | .uint k, _ => k
  | .bool, _ => 1
  | .bytesN n, _ => n
  | .vector t n, .seq vs =>
    match t.fixedLen? with
    | some s => n * s
    | none => (vs.map fun v => 4 + byteLength t v).sum
  | .list t _, .seq vs =>
    match t.fixedLen? with
    | some s => vs.length * s
    | none => (vs.map fun v => 4 + byteLength t v).sum
  | .bitvector n, _ => (n + 7) / 8
  | .bitlist _, .bits bs => bs.length / 8 + 1
  | .byteList _, .bytes bs => bs.length
  | .container fs, .seq vs => byteLengthFields fs vs
  | _, _ => 0
def byteLengthFields : Fields → List Val → Nat
  | .cons _ t r, v :: vs =>
    (match t.fixedLen? with
     | some s => s
     | none => 4 + byteLength t v) + byteLengthFields r vs
  | _, _ => 0
end

mutual
/-- the default value of a type (simple-serialize.md "Default values"): zero, false, empty lists, zero-filled vectors -/
def defaultVal : Ty → Val
  | .uint _ => .num 0
  | .bool => .bool false
  | .bytesN n => .bytes (List.replicate n 0)
  | .vector t n => .seq (List.replicate n (defaultVal t))
  | .list _ _ => .seq []
  | .bitvector n => .bits (List.replicate n false)
  | .bitlist _ => .bits []
  | .byteList _ => .bytes []
  | .container fs => .seq (defaultFields fs)
def defaultFields : Fields → List Val
  | .nil => []
  | .cons _ t r => defaultVal t :: defaultFields r
end

end Zrnt.SSZ
