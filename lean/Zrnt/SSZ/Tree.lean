import Zrnt.SSZ.Merkle
/-! A persistent binary Merkle tree with a cached cachedRoot in every inner node: the model of the tree behind
zrnt's tree-backed views (ztyp `tree.PairNode`). `cachedRoot` reads the cache (O(1)); `rehash` recomputes from
the leaves; `setLeaf` replaces one leaf and recomputes exactly the caches on the path. -/
namespace Zrnt.SSZ

inductive CTree where
  | leaf (c : Chunk)
  | node (cached : Chunk) (l r : CTree)

namespace CTree

/-- the root as the library reports it: the cached value -/
def cachedRoot : CTree → Chunk
  | leaf c => c
  | node h _ _ => h

/-- the root of the same content computed from scratch (ignores every cache) -/
def rehash (H : Hash2) : CTree → Chunk
  | leaf c => c
  | node _ l r => H (l.rehash H) (r.rehash H)

/-- every cache holds the cachedRoot of its two children -/
def Valid (H : Hash2) : CTree → Prop
  | leaf _ => True
  | node h l r => l.Valid H ∧ r.Valid H ∧ h = H l.cachedRoot r.cachedRoot

def leaves : CTree → List Chunk
  | leaf c => [c]
  | node _ l r => l.leaves ++ r.leaves

/-- perfect tree of depth `d` -/
def Perfect : Nat → CTree → Prop
  | 0, leaf _ => True
  | d + 1, node _ l r => Perfect d l ∧ Perfect d r
  | _, _ => False

/-- build the depth-`d` tree over the first `2^d` chunks of `cs` (missing ones are zero chunks), caches filled -/
def build (H : Hash2) : Nat → List Chunk → CTree
  | 0, cs => leaf (cs.headD zeroChunk)
  | d + 1, cs =>
    let l := build H d (cs.take (2 ^ d))
    let r := build H d (cs.drop (2 ^ d))
    node (H l.cachedRoot r.cachedRoot) l r

/-- replace the leaf addressed by `path` (`false` = left); only the caches on the path are recomputed,
the sibling subtrees are shared unchanged. A path that does not end at a leaf leaves the tree unchanged. -/
def setLeaf (H : Hash2) : CTree → List Bool → Chunk → CTree
  | leaf _, [], c => leaf c
  | node _ l r, false :: p, c => node (H (l.setLeaf H p c).cachedRoot r.cachedRoot) (l.setLeaf H p c) r
  | node _ l r, true :: p, c => node (H l.cachedRoot (r.setLeaf H p c).cachedRoot) l (r.setLeaf H p c)
  | t, _, _ => t

/-- index of the leaf a path addresses -/
def pathIndex : List Bool → Nat
  | [] => 0
  | b :: p => (if b then 2 ^ p.length else 0) + pathIndex p

end CTree
end Zrnt.SSZ
