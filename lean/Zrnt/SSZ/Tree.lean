import Zrnt.SSZ.Merkle
/-! A persistent binary Merkle tree with a cached cachedRoot in every inner node: the model of the tree behind
zrnt's tree-backed views (ztyp `tree.PairNode`). `cachedRoot` reads the cache (O(1)); `rehash` recomputes from
the leaves; `setLeaf` replaces one leaf and recomputes exactly the caches on the path. -/
namespace Zrnt.SSZ

inductive CTree where
  | leaf (c : Chunk)
  | node (cached : Chunk) (l r : CTree)

namespace CTree

/-- the root as the library reports it: the cached value -/
def cachedRoot : CTree → Chunk
  | leaf c => c
  | node h _ _ => h

/-- the root of the same content computed from scratch (ignores every cache) -/
def rehash (H : Hash2) : CTree → Chunk
  | leaf c => c
  | node _ l r => H (l.rehash H) (r.rehash H)

/-- every cache holds the cachedRoot of its two children -/
def Valid (H : Hash2) : CTree → Prop
  | leaf _ => True
  | node h l r => l.Valid H ∧ r.Valid H ∧ h = H l.cachedRoot r.cachedRoot

def leaves : CTree → List Chunk
  | leaf c => [c]
  | node _ l r => l.leaves ++ r.leaves

/-- perfect tree of depth `d` -/
def Perfect : Nat → CTree → Prop
  | 0, leaf _ => True
  | d + 1, node _ l r => Perfect d l ∧ Perfect d r
  | _, _ => False

/-- build the depth-`d` tree over the first `2^d` chunks of `cs` (missing ones are zero chunks), caches filled -/
def build (H : Hash2) : Nat → List Chunk → CTree
  | 0, cs => leaf (cs.headD zeroChunk)
  | d + 1, cs =>
    let l := build H d (cs.take (2 ^ d))
    let r := build H d (cs.drop (2 ^ d))
    node (H l.cachedRoot r.cachedRoot) l r

/-- replace the leaf addressed by `path` (`false` = left); only the caches on the path are recomputed,
the sibling subtrees are shared unchanged. A path that does not end at a leaf leaves the tree unchanged. -/
def setLeaf (H : Hash2) : CTree → List Bool → Chunk → CTree
  | leaf _, [], c => leaf c
  | node _ l r, false :: p, c => node (H (l.setLeaf H p c).cachedRoot r.cachedRoot) (l.setLeaf H p c) r
  | node _ l r, true :: p, c => node (H l.cachedRoot (r.setLeaf H p c).cachedRoot) l (r.setLeaf H p c)
  | t, _, _ => t

/-- index of the leaf a path addresses -/
def pathIndex : List Bool → Nat
  | [] => 0
  | b :: p => (if b then 2 ^ p.length else 0) + pathIndex p

end CTree
end Zrnt.SSZ

namespace Zrnt.SSZ

/-- the root of an all-zero subtree of depth `d` (ztyp `ZeroHashes[d]`) -/
def zeroHash (H : Hash2) : Nat → Chunk
  | 0 => zeroChunk
  | d + 1 => H (zeroHash H d) (zeroHash H d)

namespace CTree

/-- ztyp `SubtreeFillToDepth(bottom, depth)`: the perfect tree all of whose `2^depth` leaves are `bottom`
(in Go the two children are the same node; here sharing is invisible) -/
def fillToDepth (H : Hash2) (bottom : Chunk) : Nat → CTree
  | 0 => leaf bottom
  | d + 1 => node (H (fillToDepth H bottom d).cachedRoot (fillToDepth H bottom d).cachedRoot)
      (fillToDepth H bottom d) (fillToDepth H bottom d)

/-- ztyp `SubtreeFillToLength(bottom, depth, length)` for `0 < length ≤ 2^depth`: the first `length` leaves are
`bottom`, everything to the right is a zero subtree represented by a single node holding `ZeroHashes[k]`.
This is the backing that `SeedRandao` (bottom = the seed) and `ParticipationRegistryView.FillZeroes`
(bottom = the zero chunk) install by hand instead of going through the typed view API.
(`length = 0` is outside the domain: at `depth = 0` the Go function decrements a `uint8` depth below zero.) -/
def fillToLength (H : Hash2) (bottom : Chunk) : Nat → Nat → CTree
  | 0, _ => leaf bottom
  | d + 1, length =>
    if length = 2 ^ (d + 1) then fillToDepth H bottom (d + 1)
    else if length ≤ 2 ^ d then
      node (H (fillToLength H bottom d length).cachedRoot (zeroHash H d)) (fillToLength H bottom d length) (leaf (zeroHash H d))
    else
      node (H (fillToDepth H bottom d).cachedRoot (fillToLength H bottom d (length - 2 ^ d)).cachedRoot)
        (fillToDepth H bottom d) (fillToLength H bottom d (length - 2 ^ d))

end CTree
end Zrnt.SSZ
