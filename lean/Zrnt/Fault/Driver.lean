import Zrnt.Fault.Model
import Zrnt.Driver.Loop
import Zrnt.Prelude.Text
/-! `zmodel c18`: the predicted observation for each fault-injection line, obtained by RUNNING the
semantics of `Zrnt.Fault` on a program with `N` polls and `M` engine queries (the counts of the clean run,
carried on the op line) under the injected environment. -/
namespace Zrnt.Fault
open Zrnt.Text

/-- a transition that executes `n` polls and `m` guarded engine queries (their interleaving is irrelevant
for whether a fault is met: `fault_implies_error`, `no_fault_same_result`) -/
def skeleton (n m : Nat) : Prog Unit :=
  .seq (.iter (fun _ => n) .poll) (.iter (fun _ => m) .query)

def observe (env : Env) (n m : Nat) : String :=
  match run env (skeleton n m) ⟨0, 0, ()⟩ with
  | .ok _ => "same"
  | .error _ => "err"

partial def c18Line (line : String) : String :=
  match tokens line with
  | "genfail" :: _ => "chain-complete"   -- written by the generator when it could not build/extend a chain on the code under test
  | ["clean", _, _, _, _, _] => "same"
  | ["clean-s", _, _, _, _, _] => "same"
  | ["cancel-s", _, _, _, _, _, k, n] =>
    match k.toNat?, n.toNat? with
    | some k, some n => observe ⟨some k, fun _ => .valid⟩ n 0
    | _, _ => "bad-op"
  | ["args", _, _, _, _, _] => "ok"
  | ["mergeblk", _, _, _, _, _] => "ok"
  -- default execution header + all-zero payload: skipped before the merge in bellatrix only; from capella on
  -- process_execution_payload always runs and refuses it (Model.payloadStepRuns)
  | ["premerge", _, _, _, _, _, fork] =>
    match Fault.forkOfName fork with
    | some fk => if Fault.payloadStepRuns fk false then "err" else "ok calls=0"
    | none => "bad-op"
  | ["cancel", _, _, _, _, _, k, n] =>
    match k.toNat?, n.toNat? with
    | some k, some n => observe ⟨some k, fun _ => .valid⟩ n 0
    | _, _ => "bad-op"
  | ["engine-nv", a, b, c, d, e, j, m, v] => c18Line (" ".intercalate ["engine", a, b, c, d, e, j, m, v])
  | ["engine", _, _, _, _, _, j, m, v] =>
    match j.toNat?, m.toNat?, (match v with
        | "valid" => some Verdict.valid | "invalid" => some Verdict.invalid | "error" => some Verdict.error
        | "ctxerror" => some Verdict.error
        | "trueerror" => some Verdict.error   -- (true, err): the error decides
        | _ => none) with
    | some j, some m, some v => observe ⟨none, fun i => if i = j then v else .valid⟩ 0 m
    | _, _, _ => "bad-op"
  | _ => "bad-op"

def c18Mode : Driver.Mode := Driver.stateless "c18" c18Line

end Zrnt.Fault
