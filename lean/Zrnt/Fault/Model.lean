/-!
# C18 — cancellation and execution-engine faults: the transition as a program over fallible steps

The Go transition is a sequential composition of (i) ordinary steps that may fail, (ii) context
polls of the shape `if err := ctx.Err(); err != nil { return err }`, (iii) execution-engine queries
of the shape "error ⇒ return error; invalid ⇒ return error", and bounded loops over these. That every
poll / guard / engine call in /repo HAS that shape is established per run by the regenerated table
`Zrnt.Gen.FaultSites` (see Proofs/Properties/C18.lean); this file is the semantics that gives the
shapes their meaning. Faults are an explicit environment: the index from which polls report
cancellation (contexts stay cancelled), and the answer to the i-th engine query.
-/
namespace Zrnt.Fault

inductive Verdict where
  | valid | invalid | error
  deriving DecidableEq, Repr

inductive Err where
  | cancelled      -- a poll saw the cancelled context
  | engine         -- the engine answered invalid or failed
  | step           -- an ordinary step rejected (invalid block, …)
  deriving DecidableEq, Repr

structure Env where
  /-- polls with index ≥ k report cancellation; `none` = never cancelled -/
  cancelFrom : Option Nat
  /-- answer to the i-th engine query of the run -/
  engine : Nat → Verdict

/-- the fault-free environment -/
def Env.clean : Env := ⟨none, fun _ => .valid⟩

def Env.cancelledAt (e : Env) (i : Nat) : Bool :=
  match e.cancelFrom with
  | none => false
  | some k => decide (k ≤ i)

/-- run-time counters: polls and engine queries executed so far, and the state -/
structure Cfg (σ : Type) where
  polls : Nat
  queries : Nat
  st : σ

inductive Prog (σ : Type) where
  | step : (σ → Option σ) → Prog σ          -- ordinary work; `none` = rejected
  | poll : Prog σ
  | query : Prog σ                          -- one engine query, guarded
  | seq : Prog σ → Prog σ → Prog σ
  | iter : (σ → Nat) → Prog σ → Prog σ      -- `for` over a collection whose size is read from the state

def runN {σ : Type} (run : Cfg σ → Except Err (Cfg σ)) : Nat → Cfg σ → Except Err (Cfg σ)
  | 0, c => .ok c
  | n + 1, c => match run c with
    | .ok c' => runN run n c'
    | .error e => .error e

def run {σ : Type} (env : Env) : Prog σ → Cfg σ → Except Err (Cfg σ)
  | .step f, c => match f c.st with
    | some s => .ok { c with st := s }
    | none => .error .step
  | .poll, c => if env.cancelledAt c.polls then .error .cancelled else .ok { c with polls := c.polls + 1 }
  | .query, c => match env.engine c.queries with
    | .valid => .ok { c with queries := c.queries + 1 }
    | _ => .error .engine
  | .seq a b, c => match run env a c with
    | .ok c' => run env b c'
    | .error e => .error e
  | .iter n body, c => runN (run env body) (n c.st) c

/-! ### Which forks run the payload step, and when (specification) -/

inductive PayloadFork where
  | bellatrix | capella | deneb
  deriving DecidableEq, Repr

def forkOfName : String → Option PayloadFork
  | "bellatrix" => some .bellatrix
  | "capella" => some .capella
  | "deneb" => some .deneb
  | _ => none

/-- `process_block` of the specification: bellatrix runs `process_execution_payload` only
`if is_execution_enabled(state, block.body)`; capella removed the condition (and so did every later fork). -/
def payloadStepRuns (f : PayloadFork) (executionEnabled : Bool) : Bool :=
  match f with
  | .bellatrix => executionEnabled
  | _ => true

/-- the guard the code may put around its call of ProcessExecutionPayload -/
def expectedPayloadGuards : PayloadFork → List String
  | .bellatrix => ["IsExecutionEnabled"]
  | _ => []

end Zrnt.Fault
