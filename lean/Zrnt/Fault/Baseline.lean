/-! Sub-transitions that poll the caller's context BEFORE doing any work (first statement
`if err := ctx.Err(); err != nil { return err }`) on the pinned tree. Property C18's anchor names "ctx.Err()
polls at the head of each (sub-)transition" as the mechanism; `Proofs.Properties.C18.head_polls_kept`
demands that every function listed here still does so in the regenerated table. New functions and new
polls are free; moving a head poll behind other work (or under a condition) shrinks the set of
cancellation points and is reported (without a failing input, because a cancellation that no poll observes
is by construction invisible to the fault enumeration). -/
namespace Zrnt.Fault

def headPollBaseline : List String := [
  "altair.AttestationRewardsAndPenalties",
  "altair.ProcessInactivityUpdates",
  "altair.ProcessParticipationFlagUpdates",
  "altair.ProcessSyncAggregate",
  "altair.ProcessSyncCommitteeUpdates",
  "bellatrix.ProcessExecutionPayload",
  "capella.ProcessExecutionPayload",
  "capella.ProcessHistoricalSummariesUpdate",
  "common.ProcessHeader",
  "common.ProcessSlot",
  "deneb.ProcessEpochRegistryUpdates",
  "deneb.ProcessExecutionPayload",
  "phase0.ProcessEffectiveBalanceUpdates",
  "phase0.ProcessEpochJustification",
  "phase0.ProcessEpochRegistryUpdates",
  "phase0.ProcessEpochRewardsAndPenalties",
  "phase0.ProcessEpochSlashings",
  "phase0.ProcessEth1DataReset",
  "phase0.ProcessEth1Vote",
  "phase0.ProcessHistoricalRootsUpdate",
  "phase0.ProcessParticipationRecordUpdates",
  "phase0.ProcessRandaoMixesReset",
  "phase0.ProcessRandaoReveal",
  "phase0.ProcessSlashingsReset"
]

end Zrnt.Fault
