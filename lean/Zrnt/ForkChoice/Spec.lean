import Zrnt.ForkChoice.Types
/-!
# Specification (oracle) of the fork choice: what C09, C10, C11 say, written directly

Independent of `Model.lean`: no node array, no indices, no weights, no best-child links, no "applied vs
pending" votes. The history of accepted inputs determines

* a finite tree of `(root, slot)` nodes. Edges, as documented in `proto_array.go`: the *transition parent*
  of a block node `(B, s)` is the empty-slot node `(P, s)` of its parent root, that of an empty-slot node
  `(P, s)` is `(P, s-1)`; the *fork-choice parent* of a block node is the first known node of its parent root
  (the parent's block node), that of an empty-slot node is the node one slot before it;
* the latest accepted vote of every validator (accepted = the target node exists; a strictly later target
  epoch replaces, equal or older epochs are ignored);
* balances, justified/finalized checkpoints, the pin.

`leads n ⇔ viable n ∨ ∃ child c, leads c`; `ghost` walks from the start node to the child with the greatest
`(subtree weight, root)` among the children that lead, and stops where no child leads (DESIGN.md, C09).

Histories outside the domain of the properties set `poisoned`; the specification then answers `any`:
an empty-slot insertion under an unknown root or below the first known slot of its root (the API cannot
reject it, it has no result), a vote for Go's zero `NodeRef` (root 0, slot 0), which the vote store
uses as its "no vote" sentinel, and the insertion of a block under a root that a vote still refers to although the
node was pruned (a root identifies one block; the pruned block cannot come back as another one).
-/
namespace Zrnt.ForkChoice.Spec
open Zrnt.ForkChoice

structure SNode where
  ref : NodeRef
  parentRoot : Root
  tparent : Option NodeRef
  fparent : Option NodeRef
  jEpoch : Nat
  fEpoch : Nat
  deriving DecidableEq, Repr, Inhabited

/-- a block node carries a block: its root differs from its parent root -/
def SNode.isBlock (n : SNode) : Bool := n.parentRoot != n.ref.root

/-- the latest accepted vote of one validator -/
structure LatestVote where
  target : NodeRef
  epoch : Nat
  deriving DecidableEq, Repr, Inhabited

structure Abs where
  spe : Nat
  nodes : List SNode
  /-- indexed by validator; `none` = has not voted -/
  votes : List (Option LatestVote)
  balances : List Nat
  justified : Checkpoint
  finalized : Checkpoint
  pin : Option NodeRef
  sink : SinkKind
  poisoned : Bool
  deriving Repr, Inhabited

namespace Abs

def find (a : Abs) (r : NodeRef) : Option SNode := a.nodes.find? (fun n => n.ref = r)
def has (a : Abs) (r : NodeRef) : Bool := (a.find r).isSome

/-- the first (lowest) slot at which a root is known -/
def firstSlot (a : Abs) (root : Root) : Option Nat :=
  (a.nodes.filter (fun n => n.ref.root = root)).foldl
    (fun acc n => match acc with | none => some n.ref.slot | some m => some (min m n.ref.slot)) none

def known (a : Abs) (root : Root) : Bool := (a.firstSlot root).isSome

def viable (a : Abs) (n : SNode) : Bool :=
  (n.jEpoch == a.justified.epoch || a.justified.epoch == 0) &&
  (n.fEpoch == a.finalized.epoch || a.finalized.epoch == 0)

def children (a : Abs) (r : NodeRef) : List SNode := a.nodes.filter (fun n => n.fparent = some r)

/-- `anc` is `r` or a fork-choice ancestor of `r` -/
def fcAncestorOrSelf (a : Abs) (anc : NodeRef) : Nat → NodeRef → Bool
  | 0, r => r = anc
  | fuel + 1, r =>
    r = anc ||
    match a.find r with
    | some n => (match n.fparent with | some p => fcAncestorOrSelf a anc fuel p | none => false)
    | none => false

/-- `anc` is `r` or a transition ancestor of `r` -/
def tAncestorOrSelf (a : Abs) (anc : NodeRef) : Nat → NodeRef → Bool
  | 0, r => r = anc
  | fuel + 1, r =>
    r = anc ||
    match a.find r with
    | some n => (match n.tparent with | some p => tAncestorOrSelf a anc fuel p | none => false)
    | none => false

def fuel (a : Abs) : Nat := a.nodes.length + 1

def balanceOf (a : Abs) (v : Nat) : Nat := a.balances.getD v 0

/-- the vote counts for the subtree of `r`: its target is a node of that subtree -/
def countsFor (a : Abs) (r : NodeRef) (l : LatestVote) : Bool :=
  a.has l.target && a.fcAncestorOrSelf r a.fuel l.target

/-- sum over the validators `k, k+1, …` (votes `vs`) of the balances of those whose vote counts for `r` -/
def weightFrom (a : Abs) (r : NodeRef) : Nat → List (Option LatestVote) → Nat
  | _, [] => 0
  | k, v :: vs =>
    (match v with
     | some l => if a.countsFor r l then a.balanceOf k else 0
     | none => 0) + weightFrom a r (k + 1) vs

/-- sum of the balances of the validators whose latest accepted vote lies in the fork-choice subtree of `r` -/
def subtreeWeight (a : Abs) (r : NodeRef) : Nat := a.weightFrom r 0 a.votes

/-- `leads n ⇔ viable n ∨ ∃ child c, leads c` -/
def leads (a : Abs) : Nat → SNode → Bool
  | 0, n => a.viable n
  | fuel + 1, n => a.viable n || (a.children n.ref).any (leads a fuel)

/-- the better of two candidates: greater subtree weight, ties to the greater root -/
def better (a : Abs) (x y : SNode) : SNode :=
  let wx := a.subtreeWeight x.ref
  let wy := a.subtreeWeight y.ref
  if wy > wx || (wy == wx && y.ref.root > x.ref.root) then y else x

def best (a : Abs) : List SNode → Option SNode
  | [] => none
  | x :: xs => some (xs.foldl (better a) x)

/-- the LMD-GHOST walk -/
def ghost (a : Abs) : Nat → SNode → SNode
  | 0, n => n
  | fuel + 1, n =>
    match best a ((a.children n.ref).filter (leads a a.fuel)) with
    | none => n
    | some c => ghost a fuel c

/-- head from a start node: the walk's end, an error when it is not viable or the start node does not exist -/
def headFrom (a : Abs) (start : NodeRef) : Option NodeRef :=
  match a.find start with
  | none => none
  | some n =>
    let e := a.ghost a.fuel n
    if a.viable e then some e.ref else none

def startNode (a : Abs) : NodeRef :=
  match a.pin with
  | some p => p
  | none => ⟨a.justified.epoch * a.spe, a.justified.root⟩

/-- block-tree membership: `root` is `anchor` or descends from it -/
def inside (a : Abs) (anchor root : Root) : Option Bool :=
  if anchor = root then (if a.known anchor then some true else none) else
  match a.firstSlot anchor, a.firstSlot root with
  | some sa, some sr => some (a.fcAncestorOrSelf ⟨sa, anchor⟩ a.fuel ⟨sr, root⟩)
  | _, _ => none

/-- transition ancestors of `r`, from `r` back to `stop` (inclusive); `none` if `stop` is not reached -/
def walkBack (a : Abs) (stop : NodeRef) : Nat → NodeRef → Option (List SNode)
  | 0, _ => none
  | fuel + 1, r =>
    match a.find r with
    | none => none
    | some n =>
      if r = stop then some [n] else
      match n.tparent with
      | none => none
      | some p => (walkBack a stop fuel p).map (n :: ·)

/-- all transition ancestors of `r` (inclusive), nearest first -/
def tAncestors (a : Abs) : Nat → NodeRef → List SNode
  | 0, _ => []
  | fuel + 1, r =>
    match a.find r with
    | none => []
    | some n => n :: (match n.tparent with | some p => tAncestors a fuel p | none => [])

/-! ### insertions -/

def mkSlotNode (parent : Root) (jE fE : Nat) (s : Nat) : SNode :=
  { ref := ⟨s, parent⟩, parentRoot := parent,
    tparent := some ⟨s - 1, parent⟩, fparent := some ⟨s - 1, parent⟩, jEpoch := jE, fEpoch := fE }

/-- add the missing empty-slot nodes `(parent, first+1 … slot)` -/
def addSlots (a : Abs) (parent : Root) (first slot jE fE : Nat) : Abs :=
  let missing := (List.range (slot - first)).map (· + first + 1) |>.filter (fun s => !a.has ⟨s, parent⟩)
  { a with nodes := a.nodes ++ missing.map (mkSlotNode parent jE fE) }

def processSlot (a : Abs) (parent : Root) (slot jE fE : Nat) : Abs :=
  if a.has ⟨slot, parent⟩ then a else
  match a.firstSlot parent with
  | none => { a with poisoned := true }
  | some first =>
    if slot < first then { a with poisoned := true } else a.addSlots parent first slot jE fE

/-- some validator's latest vote is for a node of this root -/
def refersTo (a : Abs) (root : Root) : Bool :=
  a.votes.any (fun v => match v with | some l => l.target.root = root | none => false)

def processBlock (a : Abs) (parent root : Root) (slot jE fE : Nat) : Abs × Bool :=
  if a.has ⟨slot, root⟩ then (a, true) else
  if a.known root then (a, true) else
  match a.firstSlot parent with
  | none => (a, false)
  | some first =>
    if first ≥ slot then (a, false) else
    -- a root identifies one block: a root that a vote still refers to although it is not in the tree (it was pruned)
    -- cannot come back as a different block
    if a.refersTo root then ({ a with poisoned := true }, true) else
    let a1 := a.addSlots parent first slot jE fE
    let blockNode : SNode :=
      { ref := ⟨slot, root⟩, parentRoot := parent, tparent := some ⟨slot, parent⟩,
        fparent := some ⟨first, parent⟩, jEpoch := jE, fEpoch := fE }
    ({ a1 with nodes := a1.nodes ++ [blockNode] }, true)

/-! ### votes -/

def processAttestation (a : Abs) (v : Nat) (root : Root) (slot : Nat) : Abs × Bool :=
  if root = 0 ∧ slot = 0 then ({ a with poisoned := true }, false) else
  if !a.has ⟨slot, root⟩ then (a, false) else
  let epoch := slot / a.spe
  let votes := if v ≥ a.votes.length then a.votes ++ List.replicate (v + 1 - a.votes.length) none else a.votes
  match votes.getD v none with
  | none => ({ a with votes := votes.set v (some ⟨⟨slot, root⟩, epoch⟩) }, true)
  | some l =>
    if epoch > l.epoch then ({ a with votes := votes.set v (some ⟨⟨slot, root⟩, epoch⟩) }, true)
    else ({ a with votes := votes }, true)

/-! ### checkpoints and pruning -/

/-- `r` lies in the finalized subtree of `anchor`: it is the anchor or a transition descendant of it — except
through a block at the anchor's own slot hanging from the anchor (it fills the slot that an empty-slot checkpoint
node declares empty, so it conflicts with the checkpoint) -/
def inFinalized (a : Abs) (anchor : NodeRef) : Nat → NodeRef → Bool
  | 0, r => r = anchor
  | fuel + 1, r =>
    r = anchor ||
    match a.find r with
    | some n =>
      (match n.tparent with
       | some p => !(p = anchor && n.ref.slot = anchor.slot) && inFinalized a anchor fuel p
       | none => false)
    | none => false

/-- The exact prune at `anchor`: the nodes outside the finalized subtree are dropped, each reported once (in
insertion order), flagged canonical iff it is a transition ancestor of the anchor. If the sink fails at one of them
nothing is dropped and the call fails (it can be repeated). The anchor loses its parents; a block that loses its
fork-choice parent (a block on the finalized root after the checkpoint slot, when the checkpoint node is an
empty-slot node) hangs from the first node left of its parent root: the anchor. Returns the new state, the successful reports, the failing report and whether the call succeeds. -/
def prune (a : Abs) (anchor : NodeRef) : Abs × List (NodeRef × Bool) × Option (NodeRef × Bool) × Bool :=
  if !a.has anchor then (a, [], none, true) else
  let outside := a.nodes.filter (fun n => !a.inFinalized anchor a.fuel n.ref)
  let reports := outside.map (fun n => (n.ref, a.tAncestorOrSelf n.ref a.fuel anchor))
  let (sent, failed) : List (NodeRef × Bool) × Option (NodeRef × Bool) :=
    match a.sink with
    | .absent => (reports, none)
    | .recording => (reports, none)
    | .failAt k => (reports.take k, reports[k]?)
  if failed.isSome then (a, sent, failed, false) else
  let gone := reports.map (·.1)
  if gone.isEmpty then (a, [], none, true) else
  let keep := a.nodes.filter (fun n => !gone.contains n.ref)
  let left : Abs := { a with nodes := keep }
  let keep := keep.map (fun n =>
    let tp := match n.tparent with | some p => if gone.contains p then none else some p | none => none
    let fp := match n.fparent with
      | some p =>
        if gone.contains p then
          (if n.isBlock then
            match left.firstSlot n.parentRoot with
            | some s => if s < n.ref.slot then some ⟨s, n.parentRoot⟩ else none
            | none => none
           else none)
        else some p
      | none => none
    { n with tparent := tp, fparent := fp })
  ({ a with nodes := keep }, (if a.sink = .absent then [] else sent), none, true)

/-- `UpdateJustified` -/
def updateJustified (a : Abs) (trigger : Root) (j f : Checkpoint) (balances : Option (List Nat)) :
    Abs × Ans :=
  let refuse : Abs × Ans := (a, .justify false [] none)
  if a.justified.epoch ≥ j.epoch && a.finalized.epoch ≥ f.epoch then (a, .justify true [] none) else
  let pinOk : Bool :=
    match a.pin with
    | some p => trigger = p.root || a.inside p.root trigger = some true
    | none => true
  if !pinOk then refuse else
  if j.epoch < f.epoch then refuse else
  if a.finalized ≠ f && !(a.inside a.finalized.root f.root = some true && a.finalized.epoch ≤ f.epoch) then refuse else
  if a.justified ≠ j && !(a.inside a.finalized.root j.root = some true && a.finalized.epoch ≤ j.epoch) then refuse else
  match balances with
  | none => refuse
  | some bals =>
    let a1 := { a with balances := bals, justified := j, finalized := f }
    if a.finalized ≠ f then
      let a2 := { a1 with pin := none }
      let (a3, sent, failed, ok) := a2.prune ⟨f.epoch * a.spe, f.root⟩
      (a3, .justify ok sent failed)
    else (a1, .justify true [] none)

/-! ### queries (C11): direct walks -/

def chain (a : Abs) (root : Root) (slot : Nat) : Ans :=
  match a.headFrom ⟨slot, root⟩ with
  | none => .err
  | some h =>
    match a.walkBack ⟨slot, root⟩ a.fuel h with
    | some l => .chain (l.map (fun n => (n.ref, n.parentRoot)))
    | none => .err

/-- the greatest slot of any node -/
def maxSlot (a : Abs) : Nat := (a.nodes.map (·.ref.slot)).foldl max 0

/-- linear scan for the closest node at or below `slot` (no node lies above `maxSlot`, so the scan stops there: the
query slot may be any 64-bit number) -/
def closest (a : Abs) (root : Root) (slot : Nat) : Ans :=
  if a.has ⟨slot, root⟩ then .ref ⟨slot, root⟩ else
  match a.firstSlot root with
  | none => .err
  | some first =>
    if first > slot then .err else
    match ((List.range (min slot a.maxSlot + 1)).filter (fun s => a.has ⟨s, root⟩)).getLast? with
    | some s => .ref ⟨s, root⟩
    | none => .err

/-- `CanonAtSlot(anchor, slot, withBlock)`: the node of the wanted kind at `slot` on the canonical chain (the
transition ancestors of the head found from the first node of `anchor`, the head included): the empty-slot
(pre-block) node for `withBlock = false`; for `withBlock = true` the block node, the zero reference ("nil") when the
chain has only an empty-slot node there. Two documented special cases: at the first slot of the anchor the anchor
node itself is the answer (an error when the pre-block node is asked for and the anchor is a block: that state is
pruned), and for a slot AFTER the head the head is "the closest we have" (nothing exists at that slot yet),
whatever `withBlock` says. At the slot of the head itself the kind is respected. -/
def canonAt (a : Abs) (root : Root) (slot : Nat) (withBlock : Bool) : Ans :=
  match a.firstSlot root with
  | none => .err
  | some first =>
    if first > slot then .err
    else if first = slot then
      match a.find ⟨slot, root⟩ with
      | none => .err
      | some n => if !withBlock && n.isBlock then .err else .ref ⟨slot, root⟩
    else
      match a.headFrom ⟨first, root⟩ with
      | none => .err
      | some h =>
        if h.slot < slot then .ref h else
        let at_ := (a.tAncestors a.fuel h).filter (fun n => n.ref.slot = slot)
        if withBlock then
          match at_.find? (·.isBlock) with
          | some n => .ref n.ref
          | none => if at_.isEmpty then .err else .ref NodeRef.zero
        else
          match at_.find? (fun n => !n.isBlock) with
          | some n => .ref n.ref
          | none => .err

def inSub (a : Abs) (anchor root : Root) : Ans :=
  if a.known anchor && a.known root then
    match a.inside anchor root with
    | some b => .inSub false b
    | none => .inSub true false
  else .inSub true false

/-- some block node has `root` as its parent root -/
def hasChildBlock (a : Abs) (root : Root) : Bool := a.nodes.any (fun m => m.isBlock && m.parentRoot == root)

/-- `Search(anchor, parentRoot, slot)` from the first node of a root: the block nodes in the fork-choice subtree of
`anchor` that match the options — a given parent root and/or a given slot; with no option at all: the heads, i.e.
the blocks without a child block (the source comments: "if it has no child, it's a head; if it has only empty
slots as children, it's a head") — in insertion order, split into canonical (fork-choice ancestors or self of the
head found from `anchor`) and the rest.

From an anchor that is NOT the first node of its root (an empty-slot node after the block, or after the lowest
node left by a prune) the answer is left unconstrained (`any`), because no contract explains what the code returns
there: `inSubtree(anchorIndex, ·)` answers "transition descendant at a later slot", so a block proposed at the
anchor's own slot on top of it is excluded (`anchor.Slot >= lookup.Slot`) while the descendants of that block are
included (the parent walk reaches the anchor through it). Reading the anchor as "the chain with an empty slot
here" (as pruning at an empty-slot checkpoint does, `inFinalized`) the descendants are wrong; reading it as "the
pre-block state" the excluded block is wrong. The canonical flag is relative to `FindHead(anchor)`, which from
such an anchor is the end of the anchor's own empty-slot chain (blocks hang from the FIRST node of their parent
root), so every match is reported as non-canonical. The source gives no doc for this case (the interface comment
is missing, `FindHead` calls the empty-slot handling "legacy"). -/
def search (a : Abs) (anchor : NodeRef) (parentRoot : Option Root) (slot : Option Nat) : Ans :=
  match a.headFrom anchor with
  | none => .err
  | some h =>
    if a.firstSlot anchor.root ≠ some anchor.slot then .any else
    let cands := a.nodes.filter (fun n =>
      n.isBlock &&
      (if parentRoot.isNone && slot.isNone then !a.hasChildBlock n.ref.root
       else
        (match parentRoot with | some p => n.parentRoot == p | none => true) &&
        (match slot with | some s => n.ref.slot == s | none => true)) &&
      a.fcAncestorOrSelf anchor a.fuel n.ref)
    let canon := cands.filter (fun n => a.fcAncestorOrSelf n.ref a.fuel h)
    let nonCanon := cands.filter (fun n => !a.fcAncestorOrSelf n.ref a.fuel h)
    .search (nonCanon.map (·.ref)) (canon.map (·.ref))

def refAns : Option NodeRef → Ans
  | some r => .ref r
  | none => .err

def init (spe : Nat) (anchorRoot : Root) (anchorSlot : Nat) (anchorParent : Root)
    (justified finalized : Checkpoint) (sink : SinkKind) (balances : List Nat) : Option Abs :=
  if justified.epoch < finalized.epoch then none else
  let anchor : SNode :=
    { ref := ⟨anchorSlot, anchorRoot⟩, parentRoot := anchorParent, tparent := none, fparent := none,
      jEpoch := justified.epoch, fEpoch := finalized.epoch }
  some { spe := spe,
         nodes := [anchor],
         votes := [], balances := balances, justified := justified, finalized := finalized,
         pin := some ⟨anchorSlot, anchorRoot⟩, sink := sink, poisoned := false }

def stepLive (a : Abs) : Op → Abs × Ans
  | .init .. => (a, .err)
  | .slot p s j f => (a.processSlot p s j f, .unit)
  | .block p r s j f => let (a', b) := a.processBlock p r s j f; (a', .bool b)
  | .att v r s => let (a', b) := a.processAttestation v r s; (a', .bool b)
  | .justify t j f b => a.updateJustified t j f b
  | .pin r s => if a.has ⟨s, r⟩ then ({ a with pin := some ⟨s, r⟩ }, .unit) else (a, .err)
  | .head => (a, refAns (a.headFrom a.startNode))
  | .findHead r s => (a, refAns (a.headFrom ⟨s, r⟩))
  | .chain r s => (a, a.chain r s)
  | .closest r s => (a, a.closest r s)
  | .canonAt r s w => (a, a.canonAt r s w)
  | .getSlot r => (a, .slotOpt (a.firstSlot r))
  | .inSub x r => (a, a.inSub x r)
  | .search x p s => (a, a.search x p s)
  | .just => (a, .cp a.justified)
  | .fin => (a, .cp a.finalized)
  | .pinq => (a, .refOpt a.pin)
  | .nodes => (a, .nodes (a.nodes.map (·.ref)))

end Abs

/-- the specification's machine: no instance, or an abstract state -/
def step (st : Option Abs) (op : Op) : Option Abs × Ans :=
  match op with
  | .init spe ar as ap j f sink bals =>
    match Abs.init spe ar as ap j f sink bals with
    | some a => (some a, .unit)
    | none => (none, .err)
  | op =>
    match st with
    | none => (none, .noinit)
    | some a =>
      let (a', ans) := a.stepLive op
      -- outside the domain of the properties nothing is required
      (some a', if a'.poisoned then .any else ans)

def run : Option Abs → List Op → Option Abs × List Ans
  | st, [] => (st, [])
  | st, op :: ops =>
    let (st1, a) := step st op
    let (st2, as) := run st1 ops
    (st2, a :: as)

end Zrnt.ForkChoice.Spec
