import Zrnt.Driver.Loop
import Zrnt.Prelude.Text
import Zrnt.ForkChoice.Model
import Zrnt.ForkChoice.Spec
/-!
# `zmodel fc09 | fc10 | fc11` — the fork choice under the harness line protocol

Stateful: one operation per line (grammar below), sequences separated by `reset`. Every line is answered by
`<code-shaped model> | <specification>`.

```
init <spe> <anchorRoot> <anchorSlot> <anchorParent> <jEpoch> <jRoot> <fEpoch> <fRoot> <nil|rec|fail<k>> <balances>
slot <parentRoot> <slot> <jE> <fE>                         ok
block <parentRoot> <blockRoot> <slot> <jE> <fE>            ok true|false
att <validator> <root> <slot>                              ok true|false
justify <trigger> <jEpoch> <jRoot> <fEpoch> <fRoot> <balances|fail>
                                                           ok|err pruned=[ref:c,…] failed=ref:c|-
pin <root> <slot>                                          ok | err
head | findhead <root> <slot>                              ok <ref> | err
chain <root> <slot>                                        ok [ref/parentRoot,…] | err
closest <root> <slot> | canonat <root> <slot> <0|1>        ok <ref> | err
getslot <root>                                             ok <slot> | none
insub <anchorRoot> <root>                                  unknown | ok true|false
search <anchorRoot> <anchorSlot> <parentRoot|-> <slot|->   ok nc=[refs] c=[refs] | err
just | fin                                                 ok <epoch> <root>
pinq                                                       ok <ref> | none
nodes                                                      ok [refs]
```
Roots are lowercase hex of the leading bytes (2…64 digits), printed with trailing zero bytes trimmed.
-/
namespace Zrnt.ForkChoice.Driver
open Zrnt Zrnt.Text Zrnt.ForkChoice

/-! ## parsing (strict: anything else is `bad-op` on both sides) -/

def parseNum (maxLen : Nat) (s : String) : Option Nat :=
  let cs := s.toList
  if cs.length = 0 ∨ cs.length > maxLen then none
  else if cs.all (fun c => '0' ≤ c ∧ c ≤ '9') then
    some (cs.foldl (fun acc c => acc * 10 + (c.toNat - '0'.toNat)) 0)
  else none

def parseBounded (bound : Nat) (s : String) : Option Nat :=
  match parseNum 7 s with
  | some n => if n ≤ bound then some n else none
  | none => none

def lowerHexDigit (c : Char) : Option Nat :=
  if '0' ≤ c ∧ c ≤ '9' then some (c.toNat - '0'.toNat)
  else if 'a' ≤ c ∧ c ≤ 'f' then some (c.toNat - 'a'.toNat + 10)
  else none

def parseRoot (s : String) : Option Root :=
  let cs := s.toList
  if cs.length < 2 ∨ cs.length > 64 ∨ cs.length % 2 ≠ 0 then none else
  match cs.foldl (fun acc c => match acc, lowerHexDigit c with
      | some a, some d => some (a * 16 + d)
      | _, _ => none) (some 0) with
  | some v => some (v * 256 ^ (32 - cs.length / 2))
  | none => none

def parseBalances (s : String) : Option (List Nat) :=
  if s = "-" then some [] else
  (s.splitOn ",").foldr (fun t acc => match acc, parseNum 12 t with
    | some l, some n => some (n :: l)
    | _, _ => none) (some [])

def parseSink (s : String) : Option SinkKind :=
  if s = "nil" then some .absent
  else if s = "rec" then some .recording
  else if s.startsWith "fail" then
    match parseBounded 1000 (s.drop 4).toString with
    | some k => some (.failAt k)
    | none => none
  else none

def slotB := parseBounded 1000

/-- a query slot: any 64-bit number (1..20 digits); nothing is inserted at it -/
def slotQ (s : String) : Option Nat :=
  match parseNum 20 s with
  | some n => if n < 2 ^ 64 then some n else none
  | none => none

def parseOp (line : String) : Option Op :=
  match tokens line with
  | ["init", spe, ar, as, ap, je, jr, fe, fr, sink, bals] => do
    let spe ← parseBounded 64 spe
    if spe = 0 then none
    let ar ← parseRoot ar; let as ← slotB as; let ap ← parseRoot ap
    let je ← slotB je; let jr ← parseRoot jr; let fe ← slotB fe; let fr ← parseRoot fr
    let sink ← parseSink sink; let bals ← parseBalances bals
    some (.init spe ar as ap ⟨je, jr⟩ ⟨fe, fr⟩ sink bals)
  | ["slot", p, s, j, f] => do
    some (.slot (← parseRoot p) (← slotB s) (← slotB j) (← slotB f))
  | ["block", p, r, s, j, f] => do
    some (.block (← parseRoot p) (← parseRoot r) (← slotB s) (← slotB j) (← slotB f))
  | ["att", v, r, s] => do
    some (.att (← parseBounded 63 v) (← parseRoot r) (← slotB s))
  | ["justify", t, je, jr, fe, fr, bals] => do
    let t ← parseRoot t
    let je ← slotB je; let jr ← parseRoot jr; let fe ← slotB fe; let fr ← parseRoot fr
    if bals = "fail" then some (.justify t ⟨je, jr⟩ ⟨fe, fr⟩ none)
    else some (.justify t ⟨je, jr⟩ ⟨fe, fr⟩ (some (← parseBalances bals)))
  | ["pin", r, s] => do some (.pin (← parseRoot r) (← slotB s))
  | ["head"] => some .head
  | ["findhead", r, s] => do some (.findHead (← parseRoot r) (← slotQ s))
  | ["chain", r, s] => do some (.chain (← parseRoot r) (← slotQ s))
  | ["closest", r, s] => do some (.closest (← parseRoot r) (← slotQ s))
  | ["canonat", r, s, w] => do
    let w ← (if w = "0" then some false else if w = "1" then some true else none)
    some (.canonAt (← parseRoot r) (← slotQ s) w)
  | ["getslot", r] => do some (.getSlot (← parseRoot r))
  | ["insub", a, r] => do some (.inSub (← parseRoot a) (← parseRoot r))
  | ["search", ar, as, p, s] => do
    let ar ← parseRoot ar; let as ← slotQ as
    let p ← (if p = "-" then some none else (parseRoot p).map some)
    let s ← (if s = "-" then some none else (slotB s).map some)
    some (.search ⟨as, ar⟩ p s)
  | ["just"] => some .just
  | ["fin"] => some .fin
  | ["pinq"] => some .pinq
  | ["nodes"] => some .nodes
  | _ => none

/-! ## printing -/

def rootBytes (r : Root) : List Nat :=
  (List.range 32).map (fun i => r / 256 ^ (31 - i) % 256)

def dropTrailingZeros (l : List Nat) : List Nat :=
  (l.reverse.dropWhile (· == 0)).reverse

def rootStr (r : Root) : String :=
  let bs := dropTrailingZeros (rootBytes r)
  let bs := if bs.isEmpty then [0] else bs
  String.ofList (bs.flatMap (fun b => [hexChar (b / 16), hexChar (b % 16)]))

def refStr (r : NodeRef) : String := rootStr r.root ++ "@" ++ toString r.slot

def listStr (l : List String) : String := "[" ++ ",".intercalate l ++ "]"

def prunedStr (p : NodeRef × Bool) : String := refStr p.1 ++ ":" ++ (if p.2 then "1" else "0")

def render : Ans → String
  | .unit => "ok"
  | .bool b => "ok " ++ boolStr b
  | .ref r => "ok " ++ refStr r
  | .chain l => "ok " ++ listStr (l.map (fun p => refStr p.1 ++ "/" ++ rootStr p.2))
  | .slotOpt (some s) => "ok " ++ toString s
  | .slotOpt none => "none"
  | .inSub true _ => "unknown"
  | .inSub false b => "ok " ++ boolStr b
  | .search nc c => "ok nc=" ++ listStr ((sortRefs nc).map refStr) ++ " c=" ++ listStr ((sortRefs c).map refStr)
  | .cp c => "ok " ++ toString c.epoch ++ " " ++ rootStr c.root
  | .refOpt (some r) => "ok " ++ refStr r
  | .refOpt none => "none"
  | .nodes l => "ok " ++ listStr ((sortRefs l).map refStr)
  | .justify ok p f =>
    (if ok then "ok" else "err") ++ " pruned=" ++ listStr ((sortPruned p).map prunedStr) ++ " failed=" ++
      (match f with | some x => prunedStr x | none => "-")
  | .err => "err"
  | .panic => "panic"
  | .blocked => "blocked"
  | .noinit => "noinit"
  | .dead => "dead"
  | .any => "any"

/-! ## the loop -/

structure St where
  model : MState
  spec : Option Spec.Abs
  deriving Inhabited

def St.init : St := ⟨.none, none⟩

def stepLine (st : St) (line : String) : St × String :=
  match parseOp line with
  | none => (st, "bad-op")
  | some op =>
    let (m', am) := step st.model op
    let (s', as) := Spec.step st.spec op
    (⟨m', s'⟩, render am ++ " | " ++ render as)

def fc09Mode : Zrnt.Driver.Mode := Zrnt.Driver.stateful "fc09" St.init stepLine
def fc10Mode : Zrnt.Driver.Mode := Zrnt.Driver.stateful "fc10" St.init stepLine
def fc11Mode : Zrnt.Driver.Mode := Zrnt.Driver.stateful "fc11" St.init stepLine

end Zrnt.ForkChoice.Driver
