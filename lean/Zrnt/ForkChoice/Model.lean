import Zrnt.ForkChoice.Types
/-!
# Code-shaped model of `eth2/forkchoice` (ProtoArray, ProtoVoteStore, ProtoForkChoice)

Every definition follows the control flow of the Go function named in its doc comment
(`eth2/forkchoice/proto/proto_array.go`, `votestore.go`, `eth2/forkchoice/forkchoice.go`).

* `NodeIndex` is `Nat`, the sentinel `NONE` is `Option.none` (`NONE` never reaches arithmetic in the Go code:
  every use is guarded by `!= NONE`).
* Go maps are association lists with unique keys (`aGet`/`aSet`/`aDel`); a Go map read of a missing key
  yields the zero value, which is written `(aGet m k).getD 0` where the code does not test `ok`.
* `int64` weights are `Int`, `uint64` slots/epochs/balances are `Nat` (the harness alphabet stays far below 2^63).
* A slice access outside its bounds is the explicit outcome `panic`; an `error` return is `err` and carries the
  state as the Go code left it; the wrapper's mutex is the flag `held` and acquiring it twice is `blocked`.
* After a `panic` the harness abandons the instance, so a panicking call has no successor state.
-/
namespace Zrnt.ForkChoice

/-- Outcome of a call on the proto array: state after the call and result, or error (state kept), or panic. -/
inductive POut (σ α : Type) where
  | ok (s : σ) (a : α)
  | err (s : σ)
  | panic
  /-- the Go call never returns (an endless loop; the harness's watchdog reports `blocked`) -/
  | spin
  deriving Repr

/-- `ProtoNode` -/
structure Node where
  ref : NodeRef
  tparent : Option Idx
  fparent : Option Idx
  parentRoot : Root
  jEpoch : Nat
  fEpoch : Nat
  weight : Int
  bestChild : Option Idx
  bestDesc : Option Idx
  deriving DecidableEq, Repr, Inhabited

/-- `ProtoArray`. `sinkLog` records the calls made to the sink (argument, canonical flag, returned nil?)
since the driver last cleared it. -/
structure PA where
  sink : SinkKind
  sinkLog : List (NodeRef × Bool × Bool)
  offset : Nat
  jEpoch : Nat
  fEpoch : Nat
  nodes : List Node
  indices : List (NodeRef × Idx)
  blockSlots : List (Root × Nat)
  updated : Bool
  deriving Repr, Inhabited

namespace PA

/-- `NewProtoArray` -/
def new (parent blockRoot : Root) (blockSlot jE fE : Nat) (sink : SinkKind) : PA :=
  { sink := sink, sinkLog := [], offset := 0, jEpoch := jE, fEpoch := fE,
    nodes := [{ ref := ⟨blockSlot, blockRoot⟩, tparent := none, fparent := none, parentRoot := parent,
                jEpoch := jE, fEpoch := fE, weight := 0, bestChild := none, bestDesc := none }],
    indices := [(⟨blockSlot, blockRoot⟩, 0)],
    blockSlots := [(blockRoot, blockSlot)],
    updated := true }

/-- `getNode`; `none` is `invalidIndexErr`. -/
def getNode (pr : PA) (index : Idx) : Option Node :=
  if index < pr.offset then none else pr.nodes[index - pr.offset]?

/-- write through the pointer returned by `getNode` -/
def setNode (pr : PA) (index : Idx) (n : Node) : PA :=
  { pr with nodes := pr.nodes.set (index - pr.offset) n }

/-- `isNodeViableForHead` -/
def viable (pr : PA) (n : Node) : Bool :=
  (n.jEpoch == pr.jEpoch || pr.jEpoch == 0) && (n.fEpoch == pr.fEpoch || pr.fEpoch == 0)

/-- `nodeLeadsToViableHead`; `none` is the error of `getNode`. -/
def nodeLeads (pr : PA) (n : Node) : Option Bool :=
  match n.bestDesc with
  | some d => (pr.getNode d).map pr.viable
  | none => some (pr.viable n)

/-- `maybeUpdateBestChildAndDescendant`; `none` = error (every error precedes the first write). -/
def maybeUpdate (pr : PA) (parentIndex childIndex : Idx) : Option PA :=
  match pr.getNode childIndex with
  | none => none
  | some child =>
  match pr.getNode parentIndex with
  | none => none
  | some parent =>
  match pr.nodeLeads child with
  | none => none
  | some childLeads =>
    let toNone := pr.setNode parentIndex { parent with bestChild := none, bestDesc := none }
    let toChild := pr.setNode parentIndex
      { parent with bestChild := some childIndex, bestDesc := some (child.bestDesc.getD childIndex) }
    match parent.bestChild with
    | some bc =>
      if bc = childIndex then
        (if childLeads then some toChild else some toNone)
      else
        match pr.getNode bc with
        | none => none
        | some best =>
        match pr.nodeLeads best with
        | none => none
        | some bestLeads =>
          if childLeads && !bestLeads then some toChild
          else if !childLeads && bestLeads then some pr
          else if !childLeads && !bestLeads then some toNone
          else if child.weight = best.weight then
            (if child.ref.root > best.ref.root then some toChild else some pr)
          else
            (if child.weight ≥ best.weight then some toChild else some pr)
    | none => if childLeads then some toChild else some pr

/-- the loop of `updateConnections` (and the second loop of `ApplyScoreChanges`): `i` counts down from
`len(nodes)`. The flag is `false` when `maybeUpdate…` returned an error. -/
def pass2 : Nat → PA → PA × Bool
  | 0, pr => (pr, true)
  | i + 1, pr =>
    match pr.nodes[i]? with
    | none => pass2 i pr
    | some node =>
      match node.fparent with
      | none => pass2 i pr
      | some p =>
        match pr.maybeUpdate p (pr.offset + i) with
        | some pr' => pass2 i pr'
        | none => (pr, false)

/-- `updateConnections` -/
def updateConnections (pr : PA) : PA × Bool :=
  match pr.pass2 pr.nodes.length with
  | (pr', true) => ({ pr' with updated := true }, true)
  | (pr', false) => (pr', false)

/-- first loop of `ApplyScoreChanges`: add the delta to the weight, hand it to the parent's delta.
`none` = index out of range (`deltas[node.ForkchoiceParent-pr.indexOffset]`). -/
def pass1 (offset : Nat) : Nat → List Node → List Int → Option (List Node × List Int)
  | 0, ns, ds => some (ns, ds)
  | i + 1, ns, ds =>
    match ns[i]?, ds[i]? with
    | some n, some d =>
      let ns' := ns.set i { n with weight := n.weight + d }
      match n.fparent with
      | none => pass1 offset i ns' ds
      | some p =>
        if p < offset then none else
        match ds[p - offset]? with
        | none => none
        | some dp => pass1 offset i ns' (ds.set (p - offset) (dp + d))
    | _, _ => none

/-- `ApplyScoreChanges` -/
def applyScoreChanges (pr : PA) (deltas : List Int) (jE fE : Nat) : POut PA Unit :=
  if deltas.length ≠ pr.nodes.length then .err pr else
  let pr1 := { pr with jEpoch := jE, fEpoch := fE }
  match pass1 pr1.offset pr1.nodes.length pr1.nodes deltas with
  | none => .panic
  | some (ns, _) =>
    match ({ pr1 with nodes := ns }).pass2 ns.length with
    | (pr2, true) => .ok { pr2 with updated := true } ()
    | (pr2, false) => .err pr2

/-- append a node, as `ProcessSlot`/`ProcessBlock` do -/
def push (pr : PA) (ref : NodeRef) (tp fp : Option Idx) (parentRoot : Root) (jE fE : Nat) : PA :=
  { pr with
    indices := aSet pr.indices ref (pr.offset + pr.nodes.length),
    nodes := pr.nodes ++ [{ ref := ref, tparent := tp, fparent := fp, parentRoot := parentRoot,
                            jEpoch := jE, fEpoch := fE, weight := 0, bestChild := none, bestDesc := none }] }

/-- the gap-filling loop of `ProcessSlot`: `n` iterations starting at slot `i` -/
def fillGaps (parent : Root) (jE fE : Nat) : Nat → Nat → PA → Option Idx → PA × Option Idx
  | 0, _, pr, pi => (pr, pi)
  | n + 1, i, pr, pi =>
    match aGet pr.indices ⟨i, parent⟩ with
    | some ni => fillGaps parent jE fE n (i + 1) pr (some ni)
    | none =>
      let ni := pr.offset + pr.nodes.length
      fillGaps parent jE fE n (i + 1) (pr.push ⟨i, parent⟩ pi pi parent jE fE) (some ni)

/-- `ProcessSlot` -/
def processSlot (pr : PA) (parent : Root) (slot jE fE : Nat) : PA :=
  if (aGet pr.indices ⟨slot, parent⟩).isSome then pr else
  let (pr1, pi) :=
    match aGet pr.blockSlots parent with
    | some ps =>
      fillGaps parent jE fE (slot - (ps + 1)) (ps + 1) pr (some ((aGet pr.indices ⟨ps, parent⟩).getD 0))
    | none => (pr, none)
  { pr1.push ⟨slot, parent⟩ pi pi parent jE fE with updated := false }

/-- `ProcessBlock`; `none` = the `panic("OnSlot failed to add node …")` -/
def processBlock (pr : PA) (parent blockRoot : Root) (blockSlot jE fE : Nat) : Option (PA × Bool) :=
  if (aGet pr.indices ⟨blockSlot, blockRoot⟩).isSome then some (pr, true) else
  if (aGet pr.blockSlots blockRoot).isSome then some (pr, true) else
  match aGet pr.blockSlots parent with
  | none => some (pr, false)
  | some parentBlockSlot =>
    if parentBlockSlot ≥ blockSlot then some (pr, false) else
    let pr1 := pr.processSlot parent blockSlot jE fE
    match aGet pr1.indices ⟨parentBlockSlot, parent⟩ with
    | none => some (pr1, false)
    | some fpi =>
      match aGet pr1.indices ⟨blockSlot, parent⟩ with
      | none => none
      | some tpi =>
        let pr2 := pr1.push ⟨blockSlot, blockRoot⟩ (some tpi) (some fpi) parent jE fE
        some ({ pr2 with blockSlots := aSet pr2.blockSlots blockRoot blockSlot, updated := false }, true)

/-- `FindHead` -/
def findHead (pr : PA) (anchorRoot : Root) (anchorSlot : Nat) : POut PA NodeRef :=
  let step (pr : PA) : POut PA NodeRef :=
    match aGet pr.indices ⟨anchorSlot, anchorRoot⟩ with
    | none => .err pr
    | some anchorIndex =>
      match pr.getNode anchorIndex with
      | none => .err pr
      | some anchorNode =>
        match pr.getNode (anchorNode.bestDesc.getD anchorIndex) with
        | none => .err pr
        | some bestNode => if pr.viable bestNode then .ok pr bestNode.ref else .err pr
  if pr.updated then step pr else
    match pr.updateConnections with
    | (pr', true) => step pr'
    | (pr', false) => .err pr'

/-- the walk of `CanonicalChain`: `none` = error of `getNode` -/
def chainWalk (pr : PA) (anchorIndex : Idx) : Nat → Option Idx → List (NodeRef × Root) → Option (List (NodeRef × Root))
  | 0, _, acc => some acc
  | fuel + 1, oi, acc =>
    match oi with
    | none => some acc
    | some index =>
      if index < pr.offset then some acc else
      match pr.getNode index with
      | none => none
      | some node =>
        let acc' := acc ++ [(node.ref, node.parentRoot)]
        if index = anchorIndex then some acc' else chainWalk pr anchorIndex fuel node.tparent acc'

/-- `CanonicalChain` -/
def canonicalChain (pr : PA) (anchorRoot : Root) (anchorSlot : Nat) : POut PA (List (NodeRef × Root)) :=
  match pr.findHead anchorRoot anchorSlot with
  | .err pr' => .err pr'
  | .panic => .panic
  | .spin => .spin
  | .ok pr' head =>
    let anchorIndex := (aGet pr'.indices ⟨anchorSlot, anchorRoot⟩).getD 0
    let index := (aGet pr'.indices head).getD 0
    match pr'.chainWalk anchorIndex (index + 1) (some index) [] with
    | some l => .ok pr' l
    | none => .err pr'

/-- the binary search of `ClosestToSlot` -/
def bsearch (pr : PA) (anchor : Root) : Nat → Nat → Nat → Nat
  | 0, mn, _ => mn
  | fuel + 1, mn, mx =>
    if mn + 1 < mx then
      let pivot := mn + (mx - mn) / 2
      if (aGet pr.indices ⟨pivot, anchor⟩).isSome then bsearch pr anchor fuel pivot mx
      else bsearch pr anchor fuel mn pivot
    else mn

/-- `ClosestToSlot`; `none` = error -/
def closestToSlot (pr : PA) (anchor : Root) (slot : Nat) : Option NodeRef :=
  if (aGet pr.indices ⟨slot, anchor⟩).isSome then some ⟨slot, anchor⟩ else
  match aGet pr.blockSlots anchor with
  | none => none
  | some anchorSlot =>
    if anchorSlot > slot then none
    else if anchorSlot = slot then some ⟨anchorSlot, anchor⟩
    else some ⟨pr.bsearch anchor slot anchorSlot slot, anchor⟩

/-- result of the backwards walk of `CanonAtSlot` -/
inductive WalkRes where
  | found (r : NodeRef)
  | notFound
  | error

/-- the loop of `CanonAtSlot` -/
def canonWalk (pr : PA) (slot : Nat) (withBlock : Bool) : Nat → Option Idx → WalkRes
  | 0, _ => .notFound
  | fuel + 1, oi =>
    match oi with
    | none => .notFound
    | some index =>
      if index < pr.offset then .notFound else
      match pr.getNode index with
      | none => .error
      | some node =>
        if !withBlock && node.parentRoot ≠ node.ref.root then canonWalk pr slot withBlock fuel node.tparent
        else if node.ref.slot = slot then
          (if withBlock && node.ref.root = node.parentRoot then .found NodeRef.zero else .found node.ref)
        else if node.ref.slot < slot then .notFound
        else canonWalk pr slot withBlock fuel node.tparent

/-- `CanonAtSlot` -/
def canonAtSlot (pr : PA) (anchor : Root) (slot : Nat) (withBlock : Bool) : POut PA NodeRef :=
  match aGet pr.blockSlots anchor with
  | none => .err pr
  | some anchorSlot =>
    if anchorSlot > slot then .err pr
    else if anchorSlot = slot then
      if !withBlock then
        match aGet pr.indices ⟨slot, anchor⟩ with
        | none => .panic
        | some i =>
          match pr.nodes[i]? with
          | none => .panic
          | some node => if node.parentRoot ≠ anchor then .err pr else .ok pr ⟨slot, anchor⟩
      else .ok pr ⟨slot, anchor⟩
    else
      match pr.findHead anchor anchorSlot with
      | .err pr' => .err pr'
      | .panic => .panic
      | .spin => .spin
      | .ok pr' head =>
        if head.slot < slot then .ok pr' head else
        let index := (aGet pr'.indices head).getD 0
        match pr'.canonWalk slot withBlock (index + 1) (some index) with
        | .found r => .ok pr' r
        | .notFound => .err pr'
        | .error => .err pr'

/-- `GetSlot` -/
def getSlot (pr : PA) (root : Root) : Option Nat := aGet pr.blockSlots root

/-- the parent walk of `inSubtree`; `none` = `pr.nodes[i]` out of range -/
def subWalk (pr : PA) (anchorIndex : Idx) (anchorBest : Option Idx) : Nat → Option Idx → Option Bool
  | 0, _ => some false
  | fuel + 1, oi =>
    match oi with
    | none => some false
    | some i =>
      if i < anchorIndex then some false
      else if i = anchorIndex then some true
      else
        match pr.nodes[i]? with
        | none => none
        | some tmp =>
          if anchorBest.isSome && tmp.bestDesc = anchorBest then some true
          else subWalk pr anchorIndex anchorBest fuel tmp.tparent

/-- does the parent walk of `inSubtree` run out of fuel? With the fuel handed over by `inSubtreeIdx`
(more than the number of distinct indices inside the array) this means the Go loop revisits an index and
never terminates (possible only after an effective prune, where `pr.nodes[i]` is indexed without the offset). -/
def subSpins (pr : PA) (anchorIndex : Idx) (anchorBest : Option Idx) : Nat → Option Idx → Bool
  | 0, oi => (match oi with | some i => decide (i ≥ anchorIndex) | none => false)
  | fuel + 1, oi =>
    match oi with
    | none => false
    | some i =>
      if i < anchorIndex then false
      else if i = anchorIndex then false
      else
        match pr.nodes[i]? with
        | none => false
        | some tmp =>
          if anchorBest.isSome && tmp.bestDesc = anchorBest then false
          else subSpins pr anchorIndex anchorBest fuel tmp.tparent

/-- `inSubtree` (on indices); `none` = panic -/
def inSubtreeIdx (pr : PA) (anchorIndex lookupIndex : Idx) : Option (Bool × Bool) :=
  if anchorIndex = lookupIndex then some (false, true) else
  match pr.getNode anchorIndex with
  | none => some (true, false)
  | some anchorNode =>
    match pr.getNode lookupIndex with
    | none => some (true, false)
    | some lookupNode =>
      if anchorNode.ref.slot ≥ lookupNode.ref.slot then some (false, false)
      else if anchorIndex ≥ lookupIndex then some (false, false)
      else if anchorNode.bestDesc.isSome &&
          (anchorNode.bestDesc = some lookupIndex || anchorNode.bestDesc = lookupNode.bestDesc) then
        some (false, true)
      else
        match pr.subWalk anchorIndex anchorNode.bestDesc (lookupIndex + 1 + pr.nodes.length) lookupNode.tparent with
        | none => none
        | some b => some (false, b)

/-- the call `inSubtree(anchorIndex, lookupIndex)` never returns (see `subSpins`) -/
def inSubtreeSpins (pr : PA) (anchorIndex lookupIndex : Idx) : Bool :=
  if anchorIndex = lookupIndex then false else
  match pr.getNode anchorIndex, pr.getNode lookupIndex with
  | some anchorNode, some lookupNode =>
    if anchorNode.ref.slot ≥ lookupNode.ref.slot then false
    else if anchorIndex ≥ lookupIndex then false
    else if anchorNode.bestDesc.isSome &&
        (anchorNode.bestDesc = some lookupIndex || anchorNode.bestDesc = lookupNode.bestDesc) then false
    else pr.subSpins anchorIndex anchorNode.bestDesc (lookupIndex + 1 + pr.nodes.length) lookupNode.tparent
  | _, _ => false

/-- `InSubtree` (on roots) -/
def inSubtree (pr : PA) (anchor root : Root) : POut PA (Bool × Bool) :=
  if anchor = root then
    (match aGet pr.blockSlots anchor with
     | some _ => .ok pr (false, true)
     | none => .ok pr (true, false)) else
  let step (pr : PA) : POut PA (Bool × Bool) :=
    match aGet pr.blockSlots anchor with
    | none => .ok pr (true, false)
    | some anchorSlot =>
      match aGet pr.indices ⟨anchorSlot, anchor⟩ with
      | none => .ok pr (true, false)
      | some anchorIndex =>
        match aGet pr.blockSlots root with
        | none => .ok pr (true, false)
        | some slot =>
          match aGet pr.indices ⟨slot, root⟩ with
          | none => .ok pr (true, false)
          | some lookupIndex =>
            if pr.inSubtreeSpins anchorIndex lookupIndex then .spin else
            match pr.inSubtreeIdx anchorIndex lookupIndex with
            | none => .panic
            | some r => .ok pr r
  if pr.updated then step pr else
    match pr.updateConnections with
    | (pr', true) => step pr'
    | (pr', false) => .ok pr' (true, false)

/-- how the loop of `Search` ends -/
inductive LoopRes where
  | done (nonCanon canon : List NodeRef)
  | oob
  | spin

/-- the loop of `Search` over `pr.nodes[i]`, `i = k, k+1, …` -/
def searchLoop (pr : PA) (anchorIndex headIndex : Idx) (head : NodeRef) (parentRoot : Option Root)
    (slot : Option Nat) (hasChildBlock : List Root) : List Node → List NodeRef → List NodeRef → LoopRes
  | [], nc, c => .done nc c
  | node :: rest, nc, c =>
    let next := searchLoop pr anchorIndex headIndex head parentRoot slot hasChildBlock rest
    if node.ref.root = node.parentRoot then next nc c else
    -- `skip`: the filter of the loop body
    let skip : Bool :=
      if parentRoot.isNone && slot.isNone then hasChildBlock.contains node.ref.root
      else
        ((match parentRoot with | some p => node.parentRoot ≠ p | none => false) ||
         (match slot with | some s => node.ref.slot ≠ s | none => false))
    match skip with
    | true => next nc c
    | false =>
      let index := (aGet pr.indices node.ref).getD 0
      if pr.inSubtreeSpins anchorIndex index then .spin else
      match pr.inSubtreeIdx anchorIndex index with
      | none => .oob
      | some (_, false) => next nc c
      | some (_, true) =>
        if node.ref = head || node.bestDesc = some headIndex then next nc (c ++ [node.ref])
        else next (nc ++ [node.ref]) c

/-- `Search` -/
def search (pr : PA) (anchor : NodeRef) (parentRoot : Option Root) (slot : Option Nat) :
    POut PA (List NodeRef × List NodeRef) :=
  match pr.findHead anchor.root anchor.slot with
  | .err pr' => .err pr'
  | .panic => .panic
  | .spin => .spin
  | .ok pr' head =>
    let anchorIndex := (aGet pr'.indices anchor).getD 0
    let headIndex := (aGet pr'.indices head).getD 0
    -- the set `hasChildBlock` (only filled for a search without options): the parent roots of the block nodes
    let hasChildBlock : List Root :=
      if parentRoot.isNone && slot.isNone then
        (pr'.nodes.filter (fun n => n.ref.root ≠ n.parentRoot)).map (·.parentRoot)
      else []
    match pr'.searchLoop anchorIndex headIndex head parentRoot slot hasChildBlock pr'.nodes [] [] with
    | .oob => .panic
    | .spin => .spin
    | .done nc c => .ok pr' (nc, c)

/-- one call of the sink -/
def sinkCall (pr : PA) (ref : NodeRef) (canonical : Bool) : PA × Bool :=
  let n := pr.sinkLog.length
  let ok := match pr.sink with
    | .failAt k => decide (n ≠ k)
    | _ => true
  ({ pr with sinkLog := pr.sinkLog ++ [(ref, canonical, ok)] }, ok)

/-- `rel` of `OnPrune`: the position in `pr.nodes` of a parent of the node at position `i` (parents come first) -/
def relPos (offset : Nat) (parent : Option Idx) (i : Nat) : Option Nat :=
  match parent with
  | none => none
  | some p => if p < offset ∨ p - offset ≥ i then none else some (p - offset)

/-- first loop of `OnPrune`: what stays (the anchor and its transition descendants, except a block at the slot of
the anchor hanging from it); `acc` = the flags of the positions already visited -/
def keepFlags (offset anchor anchorSlot : Nat) : List Node → List Bool → List Bool
  | [], acc => acc
  | n :: rest, acc =>
    let i := acc.length
    let flag :=
      if i = anchor then true else
      match relPos offset n.tparent i with
      | some p => acc.getD p false && !(p == anchor && n.ref.slot == anchorSlot)
      | none => false
    keepFlags offset anchor anchorSlot rest (acc ++ [flag])

/-- second loop of `OnPrune`: the transition ancestors of the anchor are canonical -/
def canonFlags (offset : Nat) (ns : List Node) : Nat → Option Nat → List Bool → List Bool
  | 0, _, acc => acc
  | _ + 1, none, acc => acc
  | fuel + 1, some p, acc =>
    canonFlags offset ns fuel (match ns[p]? with | some n => relPos offset n.tparent p | none => none) (acc.set p true)

/-- third loop of `OnPrune`: send what goes away to the sink (if any) until it fails; whether every call succeeded -/
def sinkLoop : List (NodeRef × Bool × Bool) → PA → PA × Bool
  | [], pr => (pr, true)
  | (ref, keep, canonical) :: rest, pr =>
    if keep then sinkLoop rest pr
    else if pr.sink = .absent then sinkLoop rest pr
    else
      match pr.sinkCall ref canonical with
      | (pr', true) => sinkLoop rest pr'
      | (pr', false) => (pr', false)

/-- `newIndex[i]` for a node that stays -/
def newIndex (offset : Nat) (keep : List Bool) (i : Nat) : Nat := offset + (keep.take i).count true

/-- `renumber` -/
def renumber (offset : Nat) (keep : List Bool) (index : Option Idx) : Option Idx :=
  match index with
  | none => none
  | some x =>
    if x < offset ∨ x - offset ≥ keep.length then none
    else if keep.getD (x - offset) false then some (newIndex offset keep (x - offset))
    else none

/-- the nodes that stay, renumbered -/
def compact (offset : Nat) (keep : List Bool) : Nat → List Node → List Node
  | _, [] => []
  | i, n :: rest =>
    if keep.getD i false then
      { n with tparent := renumber offset keep n.tparent, fparent := renumber offset keep n.fparent,
               bestChild := renumber offset keep n.bestChild, bestDesc := renumber offset keep n.bestDesc }
        :: compact offset keep (i + 1) rest
    else compact offset keep (i + 1) rest

/-- the rebuilt `indices` map: node at position `i` ↦ `offset + i` -/
def rebuildIndices (offset : Nat) : Nat → List Node → List (NodeRef × Idx) → List (NodeRef × Idx)
  | _, [], m => m
  | i, n :: rest, m => rebuildIndices offset (i + 1) rest (aSet m n.ref (offset + i))

/-- the rebuilt `blockSlots` map: for every root that was known, the first slot still there -/
def rebuildBlockSlots (old : List (Root × Nat)) : List Node → List (Root × Nat) → List (Root × Nat)
  | [], m => m
  | n :: rest, m =>
    if (aGet old n.ref.root).isSome then
      match aGet m n.ref.root with
      | some s => if n.ref.slot < s then rebuildBlockSlots old rest (aSet m n.ref.root n.ref.slot)
                  else rebuildBlockSlots old rest m
      | none => rebuildBlockSlots old rest (aSet m n.ref.root n.ref.slot)
    else rebuildBlockSlots old rest m

/-- last loop of `OnPrune`: a block whose fork-choice parent went away hangs from the first node left of its parent
root, which takes over its weight; `i` counts up over the positions -/
def reparent (offset : Nat) (indices : List (NodeRef × Idx)) (blockSlots : List (Root × Nat)) : Nat → Nat → List Node → List Node
  | 0, _, ns => ns
  | todo + 1, i, ns =>
    let next := reparent offset indices blockSlots todo (i + 1)
    match ns[i]? with
    | none => ns
    | some node =>
      if node.fparent.isSome || node.parentRoot = node.ref.root then next ns else
      match aGet blockSlots node.parentRoot with
      | none => next ns
      | some parentSlot =>
        if parentSlot < node.ref.slot then
          let parentIndex := (aGet indices ⟨parentSlot, node.parentRoot⟩).getD 0
          if parentIndex ≥ offset ∧ parentIndex - offset < i then
            match ns[parentIndex - offset]? with
            | none => next ns
            | some parent =>
              next ((ns.set i { node with fparent := some parentIndex }).set (parentIndex - offset)
                { parent with weight := parent.weight + node.weight })
          else next ns
        else next ns

/-- `OnPrune` -/
def onPrune (pr : PA) (anchorRoot : Root) (anchorSlot : Nat) : POut PA Unit :=
  match aGet pr.indices ⟨anchorSlot, anchorRoot⟩ with
  | none => .ok pr ()
  | some anchorIndex =>
    match pr.getNode anchorIndex with
    | none => .err pr
    | some anchorNode =>
      let anchor := anchorIndex - pr.offset
      let keep := keepFlags pr.offset anchor anchorSlot pr.nodes []
      let canonical := canonFlags pr.offset pr.nodes pr.nodes.length (relPos pr.offset anchorNode.tparent anchor)
        (List.replicate pr.nodes.length false)
      let triples := (pr.nodes.zip (keep.zip canonical)).map (fun x => (x.1.ref, x.2.1, x.2.2))
      match sinkLoop triples pr with
      | (pr1, false) => .err pr1
      | (pr1, true) =>
        if keep.count false = 0 then .ok pr1 () else
        let remaining := compact pr1.offset keep 0 pr1.nodes
        let indices := rebuildIndices pr1.offset 0 remaining []
        let blockSlots := rebuildBlockSlots pr1.blockSlots remaining []
        let remaining := reparent pr1.offset indices blockSlots remaining.length 0 remaining
        .ok { pr1 with nodes := remaining, indices := indices, blockSlots := blockSlots, updated := false } ()

end PA

/-! ## ProtoVoteStore -/

/-- `VoteTracker` -/
structure Vote where
  cur : NodeRef
  next : NodeRef
  curEpoch : Nat
  nextEpoch : Nat
  deriving DecidableEq, Repr, Inhabited

def Vote.zero : Vote := ⟨NodeRef.zero, NodeRef.zero, 0, 0⟩

/-- `ProtoVoteStore.ProcessAttestation` (always returns true) -/
def voteProcess (spe : Nat) (votes : List Vote) (changed : Bool) (index : Nat) (root : Root) (headSlot : Nat) :
    List Vote × Bool :=
  let votes1 := if index ≥ votes.length then votes ++ List.replicate (index + 1 - votes.length) Vote.zero else votes
  let vote := votes1.getD index Vote.zero
  let targetEpoch := headSlot / spe
  if targetEpoch > vote.nextEpoch || (targetEpoch == 0 && vote == Vote.zero) then
    (votes1.set index { vote with nextEpoch := targetEpoch, next := ⟨headSlot, root⟩ }, true)
  else (votes1, changed)

/-- `deltas[i] += x`; `none` = index out of range -/
def addAt (ds : List Int) (i : Nat) (x : Int) : Option (List Int) :=
  match ds[i]? with
  | some d => some (ds.set i (d + x))
  | none => none

/-- the loop of `ComputeDeltas` from validator `i` on; `none` = index out of range -/
def computeDeltasLoop (indices : List (NodeRef × Idx)) (oldB newB : List Nat) :
    Nat → List Vote → List Int → Option (List Int × List Vote)
  | _, [], ds => some (ds, [])
  | i, v :: vs, ds =>
    let continue_ (v' : Vote) (ds' : List Int) : Option (List Int × List Vote) :=
      match computeDeltasLoop indices oldB newB (i + 1) vs ds' with
      | some (d, l) => some (d, v' :: l)
      | none => none
    if v.cur = NodeRef.zero ∧ v.next = NodeRef.zero then continue_ v ds else
    let oldBal := oldB.getD i 0
    let newBal := newB.getD i 0
    if v.cur = NodeRef.zero ∨ v.curEpoch < v.nextEpoch ∨ oldBal ≠ newBal then
      let ci := aGet indices v.cur
      match (match ci with | some c => addAt ds c (- (oldBal : Int)) | none => some ds) with
      | none => none
      | some ds1 =>
        match aGet indices v.next with
        | some n =>
          match addAt ds1 n (newBal : Int) with
          | none => none
          | some ds2 => continue_ { v with cur := v.next, curEpoch := v.nextEpoch } ds2
        | none =>
          match ci with
          | some c =>
            match addAt ds1 c (newBal : Int) with
            | none => none
            | some ds2 => continue_ v ds2
          | none => continue_ v ds1
    else continue_ v ds

/-- `ComputeDeltas` (also resets `changed`, done by the caller) -/
def computeDeltas (indices : List (NodeRef × Idx)) (votes : List Vote) (oldB newB : List Nat) :
    Option (List Int × List Vote) :=
  computeDeltasLoop indices oldB newB 0 votes (List.replicate indices.length 0)

/-! ## ProtoForkChoice -/

/-- Outcome of an exported method of the wrapper. -/
inductive Out (σ α : Type) where
  | ok (s : σ) (a : α)
  | err (s : σ)
  | panic
  | blocked
  deriving Repr

structure FC where
  pa : PA
  votes : List Vote
  changed : Bool
  spe : Nat
  balances : List Nat
  pin : Option NodeRef
  justified : Checkpoint
  finalized : Checkpoint
  /-- `mu` is held -/
  held : Bool
  deriving Repr, Inhabited

namespace FC

/-- `fc.mu.Lock(); defer fc.mu.Unlock()` around `body` (the deferred unlock also runs on a panic, but the
harness abandons the instance then). -/
def withLock {α : Type} (fc : FC) (body : FC → Out FC α) : Out FC α :=
  if fc.held then .blocked else
  match body { fc with held := true } with
  | .ok s a => .ok { s with held := false } a
  | .err s => .err { s with held := false }
  | .panic => .panic
  | .blocked => .blocked

/-- `SetPin` without the lock -/
def setPinBody (fc : FC) (root : Root) (slot : Nat) : Out FC Unit :=
  match fc.pa.closestToSlot root slot with
  | none => .err fc
  | some closest => if closest.slot < slot then .err fc else .ok { fc with pin := some ⟨slot, root⟩ } ()

def setPin (fc : FC) (root : Root) (slot : Nat) : Out FC Unit := fc.withLock (·.setPinBody root slot)

/-- the subtree check of `updateJustified` for a new checkpoint `cp` (skipped when the checkpoint is unchanged) -/
def checkCp (fc : FC) (changed : Bool) (cp : Checkpoint) (k : FC → Out FC Unit) : Out FC Unit :=
  if changed then
    match fc.pa.inSubtree fc.finalized.root cp.root with
    | .panic => .panic
    | .spin => .blocked
    | .err pa => .err { fc with pa := pa }
    | .ok pa (unknown, inS) =>
      let fc := { fc with pa := pa }
      if unknown then .err fc
      else if !inS || fc.finalized.epoch > cp.epoch then .err fc
      else k fc
  else k fc

/-- `updateJustified(finalized, justified, balances)` (unexported; runs under the caller's lock) -/
def updateJustifiedInner (fc : FC) (finalized justified : Checkpoint) (balances : Option (List Nat)) : Out FC Unit :=
  if justified.epoch < finalized.epoch then .err fc else
  fc.checkCp (fc.finalized ≠ finalized) finalized fun fc =>
  fc.checkCp (fc.justified ≠ justified) justified fun fc =>
  match balances with
  | none => .err fc
  | some newBals =>
    match computeDeltas fc.pa.indices fc.votes fc.balances newBals with
    | none => .panic
    | some (deltas, votes') =>
      let fc := { fc with votes := votes', changed := false }
      match fc.pa.applyScoreChanges deltas justified.epoch finalized.epoch with
      | .panic => .panic
      | .spin => .blocked
      | .err pa => .err { fc with pa := pa }
      | .ok pa _ => .ok { fc with pa := pa, balances := newBals, justified := justified, finalized := finalized } ()

/-- `UpdateJustified` -/
def updateJustified (fc : FC) (trigger : Root) (justified finalized : Checkpoint) (balances : Option (List Nat)) :
    Out FC Unit :=
  fc.withLock fun fc =>
  if fc.justified.epoch ≥ justified.epoch && fc.finalized.epoch ≥ finalized.epoch then .ok fc () else
  let afterPin (fc : FC) : Out FC Unit :=
    let prevFinalized := fc.finalized
    match fc.updateJustifiedInner finalized justified balances with
    | .panic => .panic
    | .blocked => .blocked
    | .err fc => .err fc
    | .ok fc _ =>
      if prevFinalized ≠ finalized then
        let fc := { fc with pin := none }
        match fc.pa.onPrune finalized.root (finalized.epoch * fc.spe) with
        | .panic => .panic
        | .spin => .blocked
        | .err pa => .err { fc with pa := pa }
        | .ok pa _ => .ok { fc with pa := pa } ()
      else .ok fc ()
  match fc.pin with
  | some pin =>
    if trigger ≠ pin.root then
      match fc.pa.inSubtree pin.root trigger with
      | .panic => .panic
      | .spin => .blocked
      | .err pa => .err { fc with pa := pa }
      | .ok pa (unknown, inS) =>
        let fc := { fc with pa := pa }
        if unknown then .err fc else if !inS then .err fc else afterPin fc
    else afterPin fc
  | none => afterPin fc

/-- `updateVotesMaybe` -/
def updateVotesMaybe (fc : FC) : Out FC Unit :=
  if !fc.changed then .ok fc () else
  match computeDeltas fc.pa.indices fc.votes fc.balances fc.balances with
  | none => .panic
  | some (deltas, votes') =>
    let fc := { fc with votes := votes', changed := false }
    match fc.pa.applyScoreChanges deltas fc.justified.epoch fc.finalized.epoch with
    | .panic => .panic
    | .spin => .blocked
    | .err pa => .err { fc with pa := pa }
    | .ok pa _ => .ok { fc with pa := pa } ()

/-- lift a proto-array call into the wrapper -/
def liftPA {α : Type} (fc : FC) (r : POut PA α) : Out FC α :=
  match r with
  | .ok pa a => .ok { fc with pa := pa } a
  | .err pa => .err { fc with pa := pa }
  | .panic => .panic
  | .spin => .blocked

/-- `updateVotesMaybe` followed by a proto-array call -/
def afterVotes {α : Type} (fc : FC) (f : PA → POut PA α) : Out FC α :=
  match fc.updateVotesMaybe with
  | .ok fc _ => fc.liftPA (f fc.pa)
  | .err fc => .err fc
  | .panic => .panic
  | .blocked => .blocked

/-- `ProcessAttestation` -/
def processAttestation (fc : FC) (index : Nat) (root : Root) (headSlot : Nat) : Out FC Bool :=
  fc.withLock fun fc =>
  match fc.pa.getSlot root with
  | none => .ok fc false
  | some blockSlot =>
    if headSlot < blockSlot then .ok fc false
    else if (aGet fc.pa.indices ⟨headSlot, root⟩).isNone then .ok fc false
    else
      let (votes, changed) := voteProcess fc.spe fc.votes fc.changed index root headSlot
      .ok { fc with votes := votes, changed := changed } true

def processSlot (fc : FC) (parent : Root) (slot jE fE : Nat) : Out FC Unit :=
  fc.withLock fun fc => .ok { fc with pa := fc.pa.processSlot parent slot jE fE } ()

def processBlock (fc : FC) (parent root : Root) (slot jE fE : Nat) : Out FC Bool :=
  fc.withLock fun fc =>
  match fc.pa.processBlock parent root slot jE fE with
  | none => .panic
  | some (pa, b) => .ok { fc with pa := pa } b

def canonicalChain (fc : FC) (root : Root) (slot : Nat) : Out FC (List (NodeRef × Root)) :=
  fc.withLock fun fc => fc.afterVotes (·.canonicalChain root slot)

def inSubtree (fc : FC) (anchor root : Root) : Out FC (Bool × Bool) :=
  fc.withLock fun fc => fc.liftPA (fc.pa.inSubtree anchor root)

def search (fc : FC) (anchor : NodeRef) (parentRoot : Option Root) (slot : Option Nat) :
    Out FC (List NodeRef × List NodeRef) :=
  fc.withLock fun fc => fc.afterVotes (·.search anchor parentRoot slot)

def closestToSlot (fc : FC) (anchor : Root) (slot : Nat) : Out FC NodeRef :=
  fc.withLock fun fc =>
  match fc.pa.closestToSlot anchor slot with
  | some r => .ok fc r
  | none => .err fc

def canonAtSlot (fc : FC) (anchor : Root) (slot : Nat) (withBlock : Bool) : Out FC NodeRef :=
  fc.withLock fun fc => fc.afterVotes (·.canonAtSlot anchor slot withBlock)

def getSlot (fc : FC) (root : Root) : Out FC (Option Nat) :=
  fc.withLock fun fc => .ok fc (fc.pa.getSlot root)

def findHead (fc : FC) (root : Root) (slot : Nat) : Out FC NodeRef :=
  fc.withLock fun fc => fc.afterVotes (·.findHead root slot)

/-- `Head` -/
def head (fc : FC) : Out FC NodeRef :=
  fc.withLock fun fc =>
  match fc.updateVotesMaybe with
  | .err fc => .err fc
  | .panic => .panic
  | .blocked => .blocked
  | .ok fc _ =>
    match fc.pin with
    | some pin => fc.liftPA (fc.pa.findHead pin.root pin.slot)
    | none => fc.liftPA (fc.pa.findHead fc.justified.root (fc.justified.epoch * fc.spe))

/-- `proto.NewProtoForkChoice` = `NewProtoArray` + `NewProtoVoteStore` + `NewForkChoice` -/
def new (spe : Nat) (finalized justified : Checkpoint) (anchorRoot : Root) (anchorSlot : Nat) (anchorParent : Root)
    (balances : List Nat) (sink : SinkKind) : Out FC Unit :=
  let fc : FC :=
    { pa := PA.new anchorParent anchorRoot anchorSlot justified.epoch finalized.epoch sink,
      votes := [], changed := true, spe := spe, balances := [], pin := none,
      justified := justified, finalized := finalized, held := false }
  match fc.setPin anchorRoot anchorSlot with
  | .ok fc _ => fc.updateJustifiedInner finalized justified (some balances)
  | .err fc => .err fc
  | .panic => .panic
  | .blocked => .blocked

end FC

/-! ## The machine the harness drives: no instance / live instance / abandoned after a panic or a block -/

inductive MState where
  | none
  | live (fc : FC)
  | dead
  deriving Repr, Inhabited

/-- successful sink calls and the failing one, from the log of the last `UpdateJustified` -/
def sinkReport (log : List (NodeRef × Bool × Bool)) : List (NodeRef × Bool) × Option (NodeRef × Bool) :=
  ((log.filter (·.2.2)).map (fun e => (e.1, e.2.1)),
   ((log.filter (fun e => !e.2.2)).head?).map (fun e => (e.1, e.2.1)))

/-- wrap the outcome of an exported call into the next machine state and a canonical answer -/
def finish {α : Type} (r : Out FC α) (f : α → Ans) : MState × Ans :=
  match r with
  | .ok fc a => (.live fc, f a)
  | .err fc => (.live fc, .err)
  | .panic => (.dead, .panic)
  | .blocked => (.dead, .blocked)

def stepLive (fc : FC) : Op → MState × Ans
  | .init .. => (.live fc, .err)  -- handled by `step`
  | .slot p s j f => finish (fc.processSlot p s j f) fun _ => .unit
  | .block p r s j f => finish (fc.processBlock p r s j f) .bool
  | .att v r s => finish (fc.processAttestation v r s) .bool
  | .justify t j f b =>
    let fc0 := { fc with pa := { fc.pa with sinkLog := [] } }
    match fc0.updateJustified t j f b with
    | .ok fc' _ => let (p, x) := sinkReport fc'.pa.sinkLog; (.live fc', .justify true p x)
    | .err fc' => let (p, x) := sinkReport fc'.pa.sinkLog; (.live fc', .justify false p x)
    | .panic => (.dead, .panic)
    | .blocked => (.dead, .blocked)
  | .pin r s => finish (fc.setPin r s) fun _ => .unit
  | .head => finish fc.head .ref
  | .findHead r s => finish (fc.findHead r s) .ref
  | .chain r s => finish (fc.canonicalChain r s) .chain
  | .closest r s => finish (fc.closestToSlot r s) .ref
  | .canonAt r s w => finish (fc.canonAtSlot r s w) .ref
  | .getSlot r => finish (fc.getSlot r) .slotOpt
  | .inSub a r => finish (fc.inSubtree a r) fun p => .inSub p.1 p.2
  | .search a p s => finish (fc.search a p s) fun r => .search r.1 r.2
  | .just => (.live fc, .cp fc.justified)
  | .fin => (.live fc, .cp fc.finalized)
  | .pinq => (.live fc, .refOpt fc.pin)
  | .nodes => (.live fc, .nodes (fc.pa.indices.map (·.1)))

def step (st : MState) (op : Op) : MState × Ans :=
  match op with
  | .init spe ar as ap j f sink bals =>
    match FC.new spe f j ar as ap bals sink with
    | .ok fc _ => (.live fc, .unit)
    | .err _ => (.none, .err)
    | .panic => (.dead, .panic)
    | .blocked => (.dead, .blocked)
  | op =>
    match st with
    | .none => (.none, .noinit)
    | .dead => (.dead, .dead)
    | .live fc => stepLive fc op

/-- run a whole history, collecting the answers -/
def run : MState → List Op → MState × List Ans
  | st, [] => (st, [])
  | st, op :: ops =>
    let (st1, a) := step st op
    let (st2, as) := run st1 ops
    (st2, a :: as)

end Zrnt.ForkChoice
