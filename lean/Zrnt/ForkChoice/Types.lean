/-!
# Fork choice (C09, C10, C11): shared vocabulary of the code-shaped model and of the specification

Only data that crosses the boundary lives here: roots, node references, checkpoints, the operations of the
harness line protocol (`Op`) and the canonical answers (`Ans`). `Model.lean` (the code-shaped model of
`eth2/forkchoice`) and `Spec.lean` (the independent oracle) both import this file and nothing of each other.

A root is the big-endian number of its 32 bytes, so Go's `bytes.Compare` on roots is `<` on `Nat`.
-/
namespace Zrnt.ForkChoice

abbrev Root := Nat
abbrev Idx := Nat

structure NodeRef where
  slot : Nat
  root : Root
  deriving DecidableEq, Repr, Inhabited

/-- Go's `NodeRef{}`: the vote store uses it as "no vote". -/
def NodeRef.zero : NodeRef := ⟨0, 0⟩

structure Checkpoint where
  epoch : Nat
  root : Root
  deriving DecidableEq, Repr, Inhabited

/-- The prune sink handed to `NewProtoArray`: absent, recording, or failing at its `k`-th call
(0-based, counted inside one `UpdateJustified`). -/
inductive SinkKind where
  | absent
  | recording
  | failAt (k : Nat)
  deriving DecidableEq, Repr, Inhabited

/-- One call of the exported API (one line of the harness protocol). -/
inductive Op where
  | init (spe : Nat) (anchorRoot : Root) (anchorSlot : Nat) (anchorParent : Root)
      (justified finalized : Checkpoint) (sink : SinkKind) (balances : List Nat)
  | slot (parent : Root) (slot jE fE : Nat)
  | block (parent root : Root) (slot jE fE : Nat)
  | att (validator : Nat) (root : Root) (slot : Nat)
  /-- `balances = none`: the balance callback fails -/
  | justify (trigger : Root) (justified finalized : Checkpoint) (balances : Option (List Nat))
  | pin (root : Root) (slot : Nat)
  | head
  | findHead (root : Root) (slot : Nat)
  | chain (root : Root) (slot : Nat)
  | closest (root : Root) (slot : Nat)
  | canonAt (root : Root) (slot : Nat) (withBlock : Bool)
  | getSlot (root : Root)
  | inSub (anchor root : Root)
  | search (anchor : NodeRef) (parentRoot : Option Root) (slot : Option Nat)
  | just
  | fin
  | pinq
  | nodes
  deriving DecidableEq, Repr, Inhabited

/-- Canonical answers. Lists that come out of a map or whose order the property does not fix are sorted
when rendered. -/
inductive Ans where
  | unit
  | bool (b : Bool)
  | ref (r : NodeRef)
  | chain (l : List (NodeRef × Root))
  | slotOpt (o : Option Nat)
  /-- `InSubtree`: `(unknown, inSubtree)`; rendered `unknown` whenever the first component is set -/
  | inSub (unknown inS : Bool)
  | search (nonCanon canon : List NodeRef)
  | cp (c : Checkpoint)
  | refOpt (o : Option NodeRef)
  | nodes (l : List NodeRef)
  /-- `UpdateJustified`: returned nil?, successful sink calls, the failing sink call -/
  | justify (ok : Bool) (pruned : List (NodeRef × Bool)) (failed : Option (NodeRef × Bool))
  | err
  | panic
  | blocked
  | noinit
  | dead
  /-- specification only: the property does not constrain this answer -/
  | any
  deriving DecidableEq, Repr, Inhabited

/-! ## association lists standing for Go maps (unique keys, so `length` is Go's `len`) -/

def aGet {κ ν : Type} [DecidableEq κ] : List (κ × ν) → κ → Option ν
  | [], _ => none
  | (k', v) :: t, k => if k' = k then some v else aGet t k

def aSet {κ ν : Type} [DecidableEq κ] : List (κ × ν) → κ → ν → List (κ × ν)
  | [], k, v => [(k, v)]
  | (k', v') :: t, k, v => if k' = k then (k, v) :: t else (k', v') :: aSet t k v

def aDel {κ ν : Type} [DecidableEq κ] (m : List (κ × ν)) (k : κ) : List (κ × ν) :=
  m.filter (fun p => decide (p.1 ≠ k))

/-! ## ordering used for canonical printing -/

def NodeRef.le (a b : NodeRef) : Bool :=
  a.slot < b.slot || (a.slot == b.slot && a.root ≤ b.root)

def sortRefs (l : List NodeRef) : List NodeRef := l.mergeSort NodeRef.le

def prunedLe (a b : NodeRef × Bool) : Bool :=
  a.1.slot < b.1.slot || (a.1.slot == b.1.slot &&
    (a.1.root < b.1.root || (a.1.root == b.1.root && (!a.2 || b.2))))

def sortPruned (l : List (NodeRef × Bool)) : List (NodeRef × Bool) := l.mergeSort prunedLe

end Zrnt.ForkChoice
