/-!
# `Res`: outcome of a translated Go function

`ok a`      the Go function returned `a` (with a nil error when it has an error result)
`err`       the Go function returned a non-nil error
`panic`     the Go function would panic (integer division by zero, index out of range, nil map write …)
`outOfFuel` a translated `for` loop did not finish within the supplied fuel (theorems prove this unreachable)
-/
namespace Zrnt

inductive Res (α : Type) where
  | ok : α → Res α
  | err : Res α
  | panic : Res α
  | outOfFuel : Res α
  deriving Repr, DecidableEq, Inhabited

namespace Res

@[inline] def bind {α β : Type} (x : Res α) (f : α → Res β) : Res β :=
  match x with
  | ok a => f a
  | err => err
  | panic => panic
  | outOfFuel => outOfFuel

instance : Monad Res where
  pure := ok
  bind := bind

@[simp] theorem bind_ok {α β} (a : α) (f : α → Res β) : (ok a >>= f) = f a := rfl
@[simp] theorem bind_err {α β} (f : α → Res β) : ((err : Res α) >>= f) = err := rfl
@[simp] theorem bind_panic {α β} (f : α → Res β) : ((panic : Res α) >>= f) = panic := rfl
@[simp] theorem bind_outOfFuel {α β} (f : α → Res β) : ((outOfFuel : Res α) >>= f) = outOfFuel := rfl
@[simp] theorem pure_eq {α} (a : α) : (pure a : Res α) = ok a := rfl

/-- Go `a / b` on uint64. -/
@[inline] def udiv (a b : UInt64) : Res UInt64 := if b = 0 then panic else ok (a / b)
/-- Go `a % b` on uint64. -/
@[inline] def umod (a b : UInt64) : Res UInt64 := if b = 0 then panic else ok (a % b)
/-- Go `a << s` on uint64 with an unsigned shift count (counts ≥ 64 give 0). -/
@[inline] def shl (a s : UInt64) : UInt64 := if s < 64 then a <<< s else 0
/-- Go `a >> s` on uint64 with an unsigned shift count (counts ≥ 64 give 0). -/
@[inline] def shr (a s : UInt64) : UInt64 := if s < 64 then a >>> s else 0

def render {α} (f : α → String) : Res α → String
  | ok a => "ok " ++ f a
  | err => "err"
  | panic => "panic"
  | outOfFuel => "outOfFuel"

end Res
end Zrnt
