/-! Line-protocol helpers: tokenising, decimal and hex parsing/printing. Core Lean only. -/
namespace Zrnt.Text

def tokens (line : String) : List String :=
  (line.trimAscii.toString.splitOn " ").filter (· ≠ "")

def hexDigit (c : Char) : Option Nat :=
  if '0' ≤ c ∧ c ≤ '9' then some (c.toNat - '0'.toNat)
  else if 'a' ≤ c ∧ c ≤ 'f' then some (c.toNat - 'a'.toNat + 10)
  else if 'A' ≤ c ∧ c ≤ 'F' then some (c.toNat - 'A'.toNat + 10)
  else none

/-- Parse lower/upper-case hex without prefix into bytes; `-` denotes the empty byte string. -/
def parseHex (s : String) : Option ByteArray :=
  if s = "-" then some ByteArray.empty else
  let cs := s.toList
  let rec go : List Char → ByteArray → Option ByteArray
    | [], acc => some acc
    | [_], _ => none
    | a :: b :: rest, acc =>
      match hexDigit a, hexDigit b with
      | some x, some y => go rest (acc.push (UInt8.ofNat (x * 16 + y)))
      | _, _ => none
  go cs (ByteArray.emptyWithCapacity (cs.length / 2))

def hexChar (n : Nat) : Char :=
  if n < 10 then Char.ofNat ('0'.toNat + n) else Char.ofNat ('a'.toNat + n - 10)

def toHex (b : ByteArray) : String :=
  if b.size = 0 then "-" else
  b.foldl (fun s x => (s.push (hexChar (x.toNat / 16))).push (hexChar (x.toNat % 16))) ""

def parseU64 (s : String) : Option UInt64 :=
  match s.toNat? with
  | some n => if n < 2^64 then some (UInt64.ofNat n) else none
  | none => none

def parseInt (s : String) : Option Int := s.toInt?

def boolStr (b : Bool) : String := if b then "true" else "false"

def parseBool (s : String) : Option Bool :=
  if s = "true" || s = "1" then some true else if s = "false" || s = "0" then some false else none

end Zrnt.Text
