import Zrnt.Driver.Loop
import Zrnt.Prelude.Text
import Zrnt.Prelude.Res
import Zrnt.Sha256
import Zrnt.Shuffle.Model
import Zrnt.Shuffle.Spec
/-! `zmodel shuffle` (property C06), real SHA-256 on the Lean side.

* `list <n> <offset> <rounds> <seed>`  — `ShuffleList` and `UnshuffleList` of `[offset, offset+n)`.
  model: the code-shaped whole-list model; spec: `compute_shuffled_index` evaluated at **every**
  position `k`, the expected lists being `out[π k] = L[k]` (shuffle) and `out[k] = L[π k]` (unshuffle).
* `idx <n> <rounds> <seed>` — `PermuteIndex`/`UnpermuteIndex` at every index below `n`.
* `par <workers> <repetitions> <n> <rounds> <seed>` — `ShuffleList`/`UnshuffleList` of `[0,n)` called from `workers`
  goroutines simultaneously, worker `g` with `seed[0] ^= g`, each repeated; every worker must obtain the
  sequential result every time (answer: the per-worker results).
* `one <p|u> <rounds> <index> <n> <seed>` — one call, also outside the documented domain
  (`n = 0`, `index ≥ n`): there the spec column is `any`.
Lists are answered as `<sha256 of the little-endian uint64 encoding>` and, up to 40 elements, in full. -/
namespace Zrnt.Shuffle
open Zrnt Zrnt.Text

def le64Bytes (v : Nat) (acc : ByteArray) : ByteArray := Id.run do
  let mut b := acc
  let mut x := v
  for _ in [0:8] do
    b := b.push (UInt8.ofNat (x % 256))
    x := x / 256
  return b

def fmtList (xs : Array Nat) : String :=
  let d := toHex (Sha256.hash (xs.foldl (fun acc v => le64Bytes v acc) (ByteArray.emptyWithCapacity (8 * xs.size))))
  if xs.size ≤ 40 then d ++ "[" ++ ",".intercalate (xs.toList.map toString) ++ "]" else d

def parseSeed (s : String) : Option ByteArray :=
  match parseHex s with
  | some b => if b.size = 32 then some b else none
  | none => none

def realHasher (seed : ByteArray) : Hasher := Hasher.ofHash Sha256.hash seed

/-- `π k` for all `k < n` by the literal spec function -/
def specPerm (rounds n : Nat) (seed : ByteArray) : Option (Array Nat) :=
  (Array.range n).mapM fun k => Spec.computeShuffledIndex Sha256.hash rounds k n seed

/-- `out[π k] = xs[k]` -/
def scatter (π xs : Array Nat) : Array Nat := Id.run do
  let mut out := Array.replicate xs.size 0
  for k in [0:xs.size] do
    out := out.set! π[k]! xs[k]!
  return out

def resNat (r : Res Nat) : String := r.render toString

def shuffleLine (line : String) : String :=
  let toks := tokens line
  let bad := "bad-op"
  match toks with
  | ["list", nS, offS, rS, seedS] =>
    match nS.toNat?, offS.toNat?, rS.toNat?, parseSeed seedS with
    | some n, some off, some rounds, some seed =>
      if rounds > 255 ∨ n > 1000000 ∨ off + n > 2 ^ 64 then bad else
      let xs := (Array.range n).map (· + off)
      let h := realHasher seed
      let m := "ok s=" ++ fmtList (shuffleList h rounds xs) ++ " u=" ++ fmtList (unshuffleList h rounds xs)
      let s := match specPerm rounds n seed with
        | some π => "ok s=" ++ fmtList (scatter π xs) ++ " u=" ++ fmtList (π.map (fun p => xs[p]!))
        | none => "any"
      m ++ " | " ++ s
    | _, _, _, _ => bad
  | ["par", wS, repS, nS, rS, seedS] =>
    -- the same list operations from `workers` goroutines at once: every worker must get the sequential result
    match wS.toNat?, repS.toNat?, nS.toNat?, rS.toNat?, parseSeed seedS with
    | some workers, some reps, some n, some rounds, some seed =>
      if rounds > 255 ∨ n > 100000 ∨ workers = 0 ∨ workers > 64 ∨ reps = 0 ∨ reps > 100000 then bad else
      let xs := Array.range n
      let per (f : ByteArray → String) : String :=
        "ok " ++ " ; ".intercalate ((List.range workers).map fun g =>
          f (seed.set! 0 ((seed.get! 0) ^^^ UInt8.ofNat g)))
      let m := per fun sd =>
        let h := realHasher sd
        "s=" ++ fmtList (shuffleList h rounds xs) ++ " u=" ++ fmtList (unshuffleList h rounds xs)
      let sp := per fun sd =>
        match specPerm rounds n sd with
        | some π => "s=" ++ fmtList (scatter π xs) ++ " u=" ++ fmtList (π.map (fun p => xs[p]!))
        | none => "any"
      m ++ " | " ++ sp
    | _, _, _, _, _ => bad
  | ["idx", nS, rS, seedS] =>
    match nS.toNat?, rS.toNat?, parseSeed seedS with
    | some n, some rounds, some seed =>
      if rounds > 255 ∨ n > 100000 ∨ n = 0 then bad else
      let h := realHasher seed
      let get (f : Nat → Res Nat) : Option (Array Nat) :=
        (Array.range n).mapM fun k => match f k with | .ok v => some v | _ => none
      let m := match get (fun k => permuteIndex h rounds k n), get (fun k => unpermuteIndex h rounds k n) with
        | some p, some u => "ok p=" ++ fmtList p ++ " u=" ++ fmtList u
        | _, _ => "panic"
      let s := match specPerm rounds n seed with
        | some π => "ok p=" ++ fmtList π ++ " u=" ++ fmtList (scatter π (Array.range n))
        | none => "any"
      m ++ " | " ++ s
    | _, _, _ => bad
  | ["one", dirS, rS, iS, nS, seedS] =>
    match rS.toNat?, parseU64 iS, parseU64 nS, parseSeed seedS with
    | some rounds, some i, some n, some seed =>
      if rounds > 255 ∨ (dirS ≠ "p" ∧ dirS ≠ "u") then bad else
      let h := realHasher seed
      let (i, n) := (i.toNat, n.toNat)
      let m := resNat (innerPermuteIndex h rounds i n (dirS = "p"))
      let s :=
        if dirS = "p" then
          match Spec.computeShuffledIndex Sha256.hash rounds i n seed with
          | some v => s!"ok {v}"
          | none => "any"
        else if i < n ∧ n ≤ 300 then
          match specPerm rounds n seed with
          | some π => match (List.range n).find? (fun k => π[k]! = i) with
            | some k => s!"ok {k}"
            | none => "any"
          | none => "any"
        else "any"
      m ++ " | " ++ s
    | _, _, _, _ => bad
  | _ => bad

def shuffleMode : Driver.Mode := Driver.stateless "shuffle" shuffleLine

end Zrnt.Shuffle
