import Zrnt.Prelude.Res
/-!
# Model of `eth2/beacon/common/shuffle.go` (property C06)

Transcribed **with the implementation's structure**:

* `innerPermuteIndex`: early return for `rounds = 0`, division by `listSize` (panic for 0), the
  `pivot + (listSize - index)` computation in wrapping `uint64` arithmetic, `uint32(position >> 8)`
  truncation, do-while loop with the round counter going up (`dir = true`) or down.
* `innerShuffleList`: early return for `len ≤ 1 ∨ rounds = 0`; per round the two segments
  `[0, pivot]` and `(pivot, n)`, each walked with `i` ascending / `j` descending up to `mirror`;
  `source` re-hashed when `j & 0xff = 0xff`, `byteV` re-read when `j & 7 = 7`; the initial
  `source`/`byteV` taken at `pivot` resp. at `end`; swap when the selected bit is 1.

The hash is abstracted (`Hasher`): theorems in `Proofs/Properties/C06.lean` hold for every hash.
`Hasher.ofHash` instantiates it from a byte-level hash function exactly as the Go code fills `buf`.
Arithmetic is over `Nat`; where Go's `uint64` could wrap (`innerPermuteIndex` only) the wrap is explicit
(`add64`, `sub64`). In `innerShuffleList` all quantities are bounded by `2·len+1` and Go's `len` is
an `int` (< 2^63), so no wrap is possible there; `uint32(· >> 8)` is kept in both.
-/
namespace Zrnt.Shuffle

/-- what the shuffling code asks of the hash function, for one fixed seed -/
structure Hasher where
  /-- `binary.LittleEndian.Uint64(hash(seed ‖ round)[:8])` -/
  pivotRaw : Nat → Nat
  /-- `hash(seed ‖ round ‖ le32(window))` (32 bytes) -/
  blockOf : Nat → Nat → ByteArray

def W64 : Nat := 18446744073709551616
/-- Go `a + b` on uint64 -/
@[inline] def add64 (a b : Nat) : Nat := (a + b) % W64
/-- Go `a - b` on uint64 (for `a, b < 2^64`) -/
@[inline] def sub64 (a b : Nat) : Nat := (W64 + a - b) % W64
/-- Go `uint32(a)` -/
@[inline] def u32 (a : Nat) : Nat := a % 4294967296

/-- `source[i]` -/
@[inline] def byteAt (b : ByteArray) (i : Nat) : Nat := (b.get! i).toNat
/-- `(byteV >> (pos & 0x7)) & 0x1` -/
@[inline] def bitV (byteV pos : Nat) : Nat := (byteV >>> (pos &&& 0x7)) &&& 0x1

/-! ## per-index functions -/

/-- body of the `for` loop of `innerPermuteIndex` for round `r` -/
def permRound (h : Hasher) (n r index : Nat) : Nat :=
  let pivot := h.pivotRaw r % n
  let flip := add64 pivot (sub64 n index) % n
  let position := if flip > index then flip else index
  let source := h.blockOf r (u32 (position >>> 8))
  let byteV := byteAt source ((position &&& 0xff) >>> 3)
  if bitV byteV position = 1 then flip else index

/-- `dir = true`: `r` starts at 0; after the body `r++; if r == rounds {break}` -/
def permLoopUp (h : Hasher) (n rounds : Nat) : Nat → Nat → Nat → Nat
  | 0, _, index => index
  | fuel + 1, r, index =>
    let index := permRound h n r index
    let r := r + 1
    if r = rounds then index else permLoopUp h n rounds fuel r index

/-- `dir = false`: `r` starts at `rounds-1`; after the body `if r == 0 {break}; r--` -/
def permLoopDown (h : Hasher) (n : Nat) : Nat → Nat → Nat
  | 0, index => permRound h n 0 index
  | r + 1, index => permLoopDown h n r (permRound h n (r + 1) index)

def innerPermuteIndex (h : Hasher) (rounds input listSize : Nat) (dir : Bool) : Res Nat :=
  if rounds = 0 then .ok input
  else if listSize = 0 then .panic   -- `% listSize`: integer divide by zero
  else if dir then .ok (permLoopUp h listSize rounds rounds 0 input)
  else .ok (permLoopDown h listSize (rounds - 1) input)

def permuteIndex (h : Hasher) (rounds index listSize : Nat) : Res Nat :=
  innerPermuteIndex h rounds index listSize true
def unpermuteIndex (h : Hasher) (rounds index listSize : Nat) : Res Nat :=
  innerPermuteIndex h rounds index listSize false

/-! ## whole-list functions -/

/-- one of the two inner `for i, j := …; i < mirror; i, j = i+1, j-1` loops; `k` = iterations left
(`mirror - i`), `source`/`byteV` are the cached hash block and byte -/
def segLoop {α : Type} (h : Hasher) (r : Nat) :
    Nat → Nat → Nat → ByteArray → Nat → Array α → Array α
  | 0, _, _, _, _, a => a
  | k + 1, i, j, source, byteV, a =>
    let source := if j &&& 0xff = 0xff then h.blockOf r (u32 (j >>> 8)) else source
    let byteV := if j &&& 0x7 = 0x7 then byteAt source ((j &&& 0xff) >>> 3) else byteV
    let a := if bitV byteV j = 1 then a.swapIfInBounds i j else a
    segLoop h r k (i + 1) (j - 1) source byteV a

/-- body of the outer `for` loop of `innerShuffleList` for round `r` (`a.size ≥ 1`) -/
def listRound {α : Type} (h : Hasher) (r : Nat) (a : Array α) : Array α :=
  let listSize := a.size
  let pivot := h.pivotRaw r % listSize
  let mirror := (pivot + 1) >>> 1
  let source := h.blockOf r (u32 (pivot >>> 8))
  let byteV := byteAt source ((pivot &&& 0xff) >>> 3)
  let a := segLoop h r (mirror - 0) 0 pivot source byteV a
  let mirror := (pivot + listSize + 1) >>> 1
  let end_ := listSize - 1
  let source := h.blockOf r (u32 (end_ >>> 8))
  let byteV := byteAt source ((end_ &&& 0xff) >>> 3)
  segLoop h r (mirror - (pivot + 1)) (pivot + 1) end_ source byteV a

def listLoopUp {α : Type} (h : Hasher) (rounds : Nat) : Nat → Nat → Array α → Array α
  | 0, _, a => a
  | fuel + 1, r, a =>
    let a := listRound h r a
    let r := r + 1
    if r = rounds then a else listLoopUp h rounds fuel r a

def listLoopDown {α : Type} (h : Hasher) : Nat → Array α → Array α
  | 0, a => listRound h 0 a
  | r + 1, a => listLoopDown h r (listRound h (r + 1) a)

def innerShuffleList {α : Type} (h : Hasher) (rounds : Nat) (input : Array α) (dir : Bool) : Array α :=
  if input.size ≤ 1 ∨ rounds = 0 then input
  else if dir then listLoopUp h rounds rounds 0 input
  else listLoopDown h (rounds - 1) input

def shuffleList {α : Type} (h : Hasher) (rounds : Nat) (input : Array α) : Array α :=
  innerShuffleList h rounds input true
def unshuffleList {α : Type} (h : Hasher) (rounds : Nat) (input : Array α) : Array α :=
  innerShuffleList h rounds input false

/-! ## the hash inputs, as the Go code lays them out in `buf` -/

/-- `binary.LittleEndian.PutUint32` -/
def putUint32 (v : Nat) : ByteArray :=
  ⟨#[UInt8.ofNat (v % 256), UInt8.ofNat (v / 256 % 256), UInt8.ofNat (v / 65536 % 256),
     UInt8.ofNat (v / 16777216 % 256)]⟩

/-- `binary.LittleEndian.Uint64(b[:8])` -/
def leUint64 (b : ByteArray) : Nat :=
  byteAt b 0 + 256 * (byteAt b 1 + 256 * (byteAt b 2 + 256 * (byteAt b 3 + 256 * (byteAt b 4 +
    256 * (byteAt b 5 + 256 * (byteAt b 6 + 256 * byteAt b 7))))))

/-- `buf[:33]` hashed for the pivot, `buf[:37]` hashed for the source block; the round is a `uint8` -/
def Hasher.ofHash (H : ByteArray → ByteArray) (seed : ByteArray) : Hasher where
  pivotRaw r := leUint64 (H (seed.push (UInt8.ofNat r)))
  blockOf r w := H (seed.push (UInt8.ofNat r) ++ putUint32 w)

end Zrnt.Shuffle
