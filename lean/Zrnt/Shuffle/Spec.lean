/-!
# The consensus specification's `compute_shuffled_index` (phase0 beacon-chain.md), literally

```python
def compute_shuffled_index(index: uint64, index_count: uint64, seed: Bytes32) -> uint64:
    assert index < index_count
    # Swap or not (https://link.springer.com/content/pdf/10.1007%2F978-3-642-32009-5_1.pdf)
    # See the 'generalized domain' algorithm on page 3
    for current_round in range(SHUFFLE_ROUND_COUNT):
        pivot = bytes_to_uint64(hash(seed + uint_to_bytes(uint8(current_round)))[0:8]) % index_count
        flip = (pivot + index_count - index) % index_count
        position = max(index, flip)
        source = hash(
            seed
            + uint_to_bytes(uint8(current_round))
            + uint_to_bytes(uint32(position // 256))
        )
        byte = uint8(source[(position % 256) // 8])
        bit = (byte >> (position % 8)) % 2
        index = flip if bit else index
    return index
```

`none` = the specification rejects the input (failed `assert`, or a value that does not fit the
declared `uint8`/`uint32` type, which raises in the pyspec). The hash is a parameter. This file is
the oracle of C06 and part of the trusted base; it shares no definition with `Shuffle/Model.lean`.
-/
namespace Zrnt.Shuffle.Spec

/-- `uint_to_bytes(uintN(v))` for `N = 8·len`: little-endian, `len` bytes -/
def uintToBytes (len v : Nat) : ByteArray :=
  ⟨(List.range len).toArray.map (fun i => UInt8.ofNat (v / 256 ^ i % 256))⟩

/-- `bytes_to_uint64(data)`: little-endian -/
def bytesToUint (data : ByteArray) : Nat :=
  data.data.foldr (fun b acc => b.toNat + 256 * acc) 0

def computeShuffledIndex (hash : ByteArray → ByteArray) (SHUFFLE_ROUND_COUNT : Nat)
    (index indexCount : Nat) (seed : ByteArray) : Option Nat :=
  if ¬ index < indexCount then none else
  (List.range SHUFFLE_ROUND_COUNT).foldlM (init := index) fun index currentRound =>
    if ¬ currentRound < 2 ^ 8 then none else     -- uint8(current_round)
    let pivot := bytesToUint ((hash (seed ++ uintToBytes 1 currentRound)).extract 0 8) % indexCount
    let flip := (pivot + indexCount - index) % indexCount
    let position := max index flip
    if ¬ position / 256 < 2 ^ 32 then none else   -- uint32(position // 256)
    let source := hash (seed ++ uintToBytes 1 currentRound ++ uintToBytes 4 (position / 256))
    let byte := (source.get! (position % 256 / 8)).toNat
    let bit := (byte >>> (position % 8)) % 2
    some (if bit ≠ 0 then flip else index)

end Zrnt.Shuffle.Spec
