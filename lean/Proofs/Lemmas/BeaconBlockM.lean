import Zrnt.Beacon.Impl.BlockM
import Proofs.Lemmas.BeaconBlock
import Proofs.Lemmas.Merkle
/-!
# Refinement lemmas: the code-shaped model `M` of block processing (`Zrnt/Beacon/Impl/BlockM.lean`) equals the
specification `S` (`Zrnt/Beacon/Spec/BlockOps.lean`), operation by operation: accept/reject AND post-state.
`toRes` maps every rejection of `S` to `Res.err`.
-/
set_option linter.unusedSimpArgs false
set_option linter.unusedVariables false
namespace Zrnt.Proofs.BlockM
open Zrnt Zrnt.Beacon Zrnt.Beacon.Spec Zrnt.Beacon.BlockImpl Zrnt.Beacon.BlockM Zrnt.Proofs.BeaconBlock

/-! ### `toRes` calculus: pushing the outcome map through the specification's monadic code -/

@[simp] theorem toRes_pure {α} (a : α) : toRes (pure a : SM α) = Res.ok a := rfl
@[simp] theorem toRes_ok {α} (a : α) : toRes (Except.ok a : SM α) = Res.ok a := rfl
@[simp] theorem toRes_error {α} (e : Err) : toRes (Except.error e : SM α) = Res.err := rfl
@[simp] theorem toRes_throw {α} (e : Err) : toRes (throw e : SM α) = Res.err := rfl
@[simp] theorem toRes_invalid {α} (m : String) : toRes (invalid m : SM α) = Res.err := rfl

theorem toRes_bind {α β} (x : SM α) (f : α → SM β) :
    toRes (x >>= f) = (toRes x >>= fun a => toRes (f a)) := by
  cases x <;> rfl

@[simp] theorem toRes_require (c : Bool) (m : String) : toRes (require c m) = BlockM.guard c := by
  unfold require BlockM.guard; cases c <;> rfl

@[simp] theorem toRes_idx {α} (l : List α) (i : Nat) (m : String) : toRes (idx l i m) = rget l i := by
  unfold idx rget; cases l[i]? <;> rfl

theorem toRes_ite {α} (c : Prop) [Decidable c] (a b : SM α) :
    toRes (if c then a else b) = if c then toRes a else toRes b := by
  split <;> rfl

theorem u64_ok (n : Nat) (m : String) (h : n < 2 ^ 64) : u64 n m = Except.ok n := by
  unfold u64; simp [h, pure, Except.pure]

theorem w64_id (n : Nat) (h : n < 2 ^ 64) : w64 n = n := Nat.mod_eq_of_lt h

@[simp] theorem res_bind_ok {α β} (a : α) (f : α → Res β) : (Res.ok a >>= f) = f a := rfl
@[simp] theorem res_bind_err {α β} (f : α → Res β) : ((Res.err : Res α) >>= f) = Res.err := rfl

theorem guard_true : BlockM.guard true = Res.ok () := rfl
theorem guard_false : BlockM.guard false = Res.err := rfl

/-! ### balances -/

theorem increaseBalance_eq (s : State) (i d : Nat) (h : ∀ b, s.balances[i]? = some b → b + d < 2 ^ 64) :
    increaseBalance s i d = toRes (increase_balance s i d) := by
  unfold increaseBalance increase_balance
  rw [toRes_bind, toRes_idx]
  unfold rget
  cases hb : s.balances[i]? with
  | none => rfl
  | some b =>
    simp only [res_bind_ok]
    rw [toRes_bind, u64_ok _ _ (h b hb)]
    simp [w64_id _ (h b hb)]

theorem decreaseBalance_eq (s : State) (i d : Nat) :
    decreaseBalance s i d = toRes (decrease_balance s i d) := by
  unfold decreaseBalance decrease_balance
  rw [toRes_bind, toRes_idx]
  unfold rget
  cases hb : s.balances[i]? with
  | none => rfl
  | some b =>
    simp only [res_bind_ok, toRes_pure]
    by_cases hd : d > b
    · have : ¬ b ≥ d := by omega
      simp [hd, this]
    · have : b ≥ d := by omega
      simp [hd, this]


theorem guard_bind {β} (c : Bool) (f : Unit → Res β) : (BlockM.guard c >>= f) = if c = true then f () else Res.err := by
  cases c <;> rfl

theorem rget_bind {α β} (l : List α) (i : Nat) (f : α → Res β) :
    (rget l i >>= f) = match l[i]? with | some a => f a | none => Res.err := by
  unfold rget; cases l[i]? <;> rfl

theorem ofOpt_bind {α β} (o : Option α) (f : α → Res β) :
    (ofOpt o >>= f) = match o with | some a => f a | none => Res.err := by
  cases o <;> rfl

/-! ### (e) header, randao, eth1 vote -/

/-- `ProcessHeader` = `process_block_header` when the expected proposer handed in is the specification's. -/
theorem header_eq (cfg : Config) (s : State) (block : SignedBlock) (p : Nat)
    (hp : Block.get_beacon_proposer_index cfg s = .ok p) :
    processHeader s block p = toRes (Block.process_block_header cfg s block) := by
  unfold processHeader Block.process_block_header
  simp only [toRes_bind, toRes_require, hp, toRes_idx, toRes_pure, toRes_ok, res_bind_ok, guard_bind, rget_bind]
  cases hv : s.validators[block.proposer_index]? with
  | none =>
    have : ¬ block.proposer_index < s.validators.length := by
      intro hlt; simp [List.getElem?_eq_getElem hlt] at hv
    repeat' split
    all_goals first | rfl | (exfalso; simp_all; done) | (simp_all; done) | (exfalso; simp_all; omega)
  | some v =>
    have : block.proposer_index < s.validators.length := (List.getElem?_eq_some_iff.mp hv).1
    repeat' split
    all_goals first | rfl | (exfalso; simp_all; done) | (simp_all; done) | (exfalso; simp_all; omega)

theorem fork_ge (a b : Fork) : (a ≥ b) = (b.toNat ≤ a.toNat) := rfl
theorem fork_le (a b : Fork) : (a ≤ b) = (a.toNat ≤ b.toNat) := rfl

/-- finishing tactic for goals that are nested `if`/`match` on both sides after normalisation -/
macro "close_cases" : tactic =>
  `(tactic| (repeat' split) <;> first | rfl | (exfalso; simp_all [fork_ge, fork_le, Fork.toNat]; done) | (simp_all [fork_ge, fork_le, Fork.toNat]; done) | (exfalso; simp_all [fork_ge, fork_le, Fork.toNat]; omega) | (simp_all [fork_ge, fork_le, Fork.toNat]; omega))

/-- `ProcessRandaoReveal` = `process_randao` -/
theorem randao_eq (cfg : Config) (ctx : Ctx) (s : State) (block : SignedBlock) (p : Nat)
    (hp : Block.get_beacon_proposer_index cfg s = .ok p) (hctx : ctx.proposer = some p)
    (hpv : p < s.validators.length)
    (hlen : s.randao_mixes.length = cfg.EPOCHS_PER_HISTORICAL_VECTOR) (hpos : 0 < cfg.EPOCHS_PER_HISTORICAL_VECTOR) :
    processRandaoReveal cfg ctx s block = toRes (Block.process_randao cfg s block) := by
  unfold processRandaoReveal Block.process_randao get_randao_mix setIdx get_current_epoch compute_epoch_at_slot
  have hne : ¬ cfg.EPOCHS_PER_HISTORICAL_VECTOR = 0 := by omega
  have hne2 : ¬ s.randao_mixes.length = 0 := by omega
  have hmod : s.slot / cfg.SLOTS_PER_EPOCH % cfg.EPOCHS_PER_HISTORICAL_VECTOR < cfg.EPOCHS_PER_HISTORICAL_VECTOR :=
    Nat.mod_lt _ hpos
  simp only [toRes_bind, toRes_require, hp, hctx, toRes_idx, toRes_pure, toRes_ok, res_bind_ok, guard_bind, rget_bind,
    ofOpt_bind, hne, hne2, if_false, toRes_ite, hlen, toRes_invalid, hmod, if_true]
  close_cases

/-- `ProcessEth1Vote` (counts only when a majority is possible at all, wrapping products) = `process_eth1_data` -/
theorem eth1vote_eq (cfg : Config) (s : State) (block : SignedBlock)
    (hsmall : cfg.EPOCHS_PER_ETH1_VOTING_PERIOD * cfg.SLOTS_PER_EPOCH * 2 + 2 < 2 ^ 64) :
    processEth1Vote cfg s block.eth1_data = toRes (Block.process_eth1_data cfg s block) := by
  unfold processEth1Vote Block.process_eth1_data
  have hp : w64 (cfg.EPOCHS_PER_ETH1_VOTING_PERIOD * cfg.SLOTS_PER_EPOCH) = cfg.EPOCHS_PER_ETH1_VOTING_PERIOD * cfg.SLOTS_PER_EPOCH :=
    w64_id _ (by omega)
  have hcnt : ((s.eth1_data_votes ++ [block.eth1_data]).filter (· = block.eth1_data)).length ≤ s.eth1_data_votes.length + 1 := by
    have := List.length_filter_le (fun x => decide (x = block.eth1_data)) (s.eth1_data_votes ++ [block.eth1_data])
    simpa using this
  simp only [toRes_bind, toRes_require, toRes_pure, res_bind_ok, guard_bind, hp, toRes_ite]
  generalize cfg.EPOCHS_PER_ETH1_VOTING_PERIOD * cfg.SLOTS_PER_EPOCH = period at *
  generalize ((s.eth1_data_votes ++ [block.eth1_data]).filter (· = block.eth1_data)).length = count at *
  by_cases hfull : s.eth1_data_votes.length < period
  · have h1 : (!decide (s.eth1_data_votes.length ≥ period)) = true := by simp; omega
    have h2 : decide (s.eth1_data_votes.length < period) = true := by simp; omega
    have hw1 : w64 ((s.eth1_data_votes.length + 1) * 2) = (s.eth1_data_votes.length + 1) * 2 := w64_id _ (by omega)
    have hw2 : w64 (count * 2) = count * 2 := w64_id _ (by omega)
    simp only [h1, h2, if_true, hw1, hw2]
    close_cases
  · have h1 : (!decide (s.eth1_data_votes.length ≥ period)) = false := by simp; omega
    have h2 : decide (s.eth1_data_votes.length < period) = false := by simp; omega
    simp [h1, h2]

/-- `ProcessBLSToExecutionChange` = `process_bls_to_execution_change` -/
theorem blsChange_eq (cfg : Config) (s : State) (op : SignedBLSToExecutionChange) :
    processBLSToExecutionChange s op = toRes (Block.process_bls_to_execution_change cfg s op) := by
  unfold processBLSToExecutionChange Block.process_bls_to_execution_change
  simp only [toRes_bind, toRes_require, toRes_idx, toRes_pure, res_bind_ok, guard_bind, rget_bind]
  cases hv : s.validators[op.validator_index]? with
  | none =>
    have : ¬ op.validator_index < s.validators.length := by
      intro hlt; simp [List.getElem?_eq_getElem hlt] at hv
    close_cases
  | some v =>
    have : op.validator_index < s.validators.length := (List.getElem?_eq_some_iff.mp hv).1
    close_cases

theorem timeAtSlot_eq (cfg : Config) (s : State) (hsps : 0 < cfg.SECONDS_PER_SLOT) (hg : s.genesis_time < 2 ^ 64) :
    timeAtSlot cfg s.slot s.genesis_time = toRes (Block.compute_timestamp_at_slot cfg s s.slot) := by
  unfold timeAtSlot Block.compute_timestamp_at_slot GENESIS_SLOT
  have hne : ¬ cfg.SECONDS_PER_SLOT = 0 := by omega
  simp only [hne, if_false, Nat.sub_zero]
  by_cases h : s.slot > (2 ^ 64 - 1 - s.genesis_time) / cfg.SECONDS_PER_SLOT
  · have h2 : 2 ^ 64 - 1 - s.genesis_time < s.slot * cfg.SECONDS_PER_SLOT := (Nat.div_lt_iff_lt_mul hsps).mp h
    have h3 : ¬ s.genesis_time + s.slot * cfg.SECONDS_PER_SLOT < 2 ^ 64 := by omega
    simp [h, u64, h3, toRes, throw, throwThe, MonadExceptOf.throw]
  · have h2 : s.slot * cfg.SECONDS_PER_SLOT ≤ 2 ^ 64 - 1 - s.genesis_time := by
      have := (Nat.le_div_iff_mul_le hsps).mp (Nat.le_of_not_gt h)
      exact this
    have h3 : s.genesis_time + s.slot * cfg.SECONDS_PER_SLOT < 2 ^ 64 := by omega
    simp only [h, if_false, u64_ok _ _ h3, toRes_ok]
    rw [w64_id (s.slot * cfg.SECONDS_PER_SLOT) (by omega), w64_id _ (by omega), Nat.add_comm]

set_option maxHeartbeats 2000000 in
/-- `ProcessExecutionPayload` of the three forks = `process_execution_payload` -/
theorem payload_eq (cfg : Config) (s : State) (block : SignedBlock) (payload : ExecutionPayload)
    (hf : s.fork ≥ .bellatrix) (hx : payload.fields.extra_data.size ≤ cfg.MAX_EXTRA_DATA_BYTES)
    (hlen : s.randao_mixes.length = cfg.EPOCHS_PER_HISTORICAL_VECTOR) (hpos : 0 < cfg.EPOCHS_PER_HISTORICAL_VECTOR)
    (hsps : 0 < cfg.SECONDS_PER_SLOT) (hg : s.genesis_time < 2 ^ 64) :
    processExecutionPayload cfg s block payload = toRes (Block.process_execution_payload cfg s block payload) := by
  unfold processExecutionPayload Block.process_execution_payload get_randao_mix get_current_epoch compute_epoch_at_slot
  generalize ({ s with latest_execution_payload_header := some payload.fields } : State) = post
  have hne : ¬ cfg.EPOCHS_PER_HISTORICAL_VECTOR = 0 := by omega
  have hne2 : ¬ s.randao_mixes.length = 0 := by omega
  rw [timeAtSlot_eq cfg s hsps hg]
  cases s.latest_execution_payload_header with
  | none => simp only [toRes_bind, guard_bind, ofOpt_bind, hx, decide_true, if_true, toRes_invalid]
  | some latest =>
    cases hfk : s.fork <;> rw [hfk] at hf <;> (try (exact absurd hf (by decide))) <;>
      cases ht : Block.compute_timestamp_at_slot cfg s s.slot <;>
      simp only [toRes_bind, toRes_require, toRes_idx, toRes_pure, toRes_ok, toRes_error, res_bind_ok, res_bind_err, guard_bind, rget_bind,
        ofOpt_bind, hne, hne2, if_false, toRes_ite, hlen, toRes_invalid, hx, decide_true, if_true] <;>
      close_cases


/-- every epoch stored in the registry is a `uint64` -/
def RegU64 (vals : List Validator) : Prop := ∀ v ∈ vals, v.exit_epoch < 2 ^ 64 ∧ v.withdrawable_epoch < 2 ^ 64

/-- magnitude hypothesis of exits: the queue end plus the delays stays inside `uint64` -/
def ExitSmall (cfg : Config) (s : State) : Prop :=
  maxOf (s.slot / cfg.SLOTS_PER_EPOCH + 1 + cfg.MAX_SEED_LOOKAHEAD) (s.validators.map (·.exit_epoch)) + 1 +
    cfg.MIN_VALIDATOR_WITHDRAWABILITY_DELAY < 2 ^ 64

theorem initiateExit_state_eq (cfg : Config) (ctx : Ctx) (s : State) (index : Nat)
    (hact : ctx.activeCount = (s.validators.filter (is_active_validator · (s.slot / cfg.SLOTS_PER_EPOCH))).length)
    (hq : cfg.CHURN_LIMIT_QUOTIENT ≠ 0) (hreg : RegU64 s.validators) (hsmall : ExitSmall cfg s) :
    initiateExit cfg ctx s index = toRes (initiate_validator_exit cfg s index) := by
  unfold initiateExit initiate_validator_exit get_current_epoch compute_epoch_at_slot
  by_cases hidx : index < s.validators.length
  · have hex : ∀ v ∈ s.validators, v.exit_epoch ≤ FAR_FUTURE_EPOCH := by
      intro v hv; have := (hreg v hv).1; unfold FAR_FUTURE_EPOCH; omega
    rw [BeaconBlock.initiateExit_eq cfg _ ctx.activeCount s.validators index hidx hact hq hex hsmall]
    have h1 : idx s.validators index "validators" = Except.ok s.validators[index] := idx_ok _ _ _ hidx
    simp only [toRes_bind, h1, toRes_ok, res_bind_ok, hq, if_false, toRes_ite]
    -- the validator at `index` after the update
    generalize hvals : initiate_validator_exit_pure cfg (s.slot / cfg.SLOTS_PER_EPOCH) s.validators index = vals
    have hlen : vals.length = s.validators.length := by
      rw [← hvals]; unfold initiate_validator_exit_pure
      rw [List.getElem?_eq_getElem hidx]; simp only; split <;> simp
    have hidx' : index < vals.length := by omega
    have h2 : idx vals index "validators" = Except.ok vals[index] := idx_ok _ _ _ hidx'
    have hb : vals[index].exit_epoch < 2 ^ 64 ∧ vals[index].withdrawable_epoch < 2 ^ 64 := by
      subst hvals
      unfold initiate_validator_exit_pure
      simp only [List.getElem?_eq_getElem hidx]
      by_cases hfar : s.validators[index].exit_epoch ≠ FAR_FUTURE_EPOCH
      · simp only [hfar, ne_eq, not_false_eq_true, if_true]
        exact hreg _ (List.getElem_mem hidx)
      · simp only [hfar, if_false, List.getElem_set_self]
        rw [spec_max_eq]
        unfold ExitSmall at hsmall
        unfold compute_activation_exit_epoch
        constructor <;> (split <;> omega)
    simp only [h2, toRes_ok, res_bind_ok, u64_ok _ _ hb.1, u64_ok _ _ hb.2, toRes_pure]
    rfl
  · have h1 : s.validators[index]? = none := by simp; omega
    simp [initiateValidatorExit, h1, idx, toRes_bind, invalid, throw, throwThe, MonadExceptOf.throw, toRes, bind, Except.bind, Res.bind]

/-- (c) `ProcessVoluntaryExit` (`ValidateVoluntaryExit` + `InitiateValidatorExit`) = `process_voluntary_exit`,
accept/reject and post-state. -/
theorem exit_eq (cfg : Config) (ctx : Ctx) (s : State) (exit : SignedVoluntaryExit)
    (hact : ctx.activeCount = (s.validators.filter (is_active_validator · (s.slot / cfg.SLOTS_PER_EPOCH))).length)
    (hq : cfg.CHURN_LIMIT_QUOTIENT ≠ 0) (hreg : RegU64 s.validators) (hsmall : ExitSmall cfg s)
    (hshard : s.slot / cfg.SLOTS_PER_EPOCH + cfg.SHARD_COMMITTEE_PERIOD < 2 ^ 64) :
    processVoluntaryExit cfg ctx s exit = toRes (Block.process_voluntary_exit cfg s exit) := by
  unfold processVoluntaryExit Block.process_voluntary_exit
  rw [initiateExit_state_eq cfg ctx s exit.validator_index hact hq hreg hsmall]
  unfold get_current_epoch compute_epoch_at_slot is_active_validator
  simp only [toRes_bind, toRes_require, toRes_idx, toRes_pure, toRes_ok, res_bind_ok, guard_bind, rget_bind]
  generalize toRes (initiate_validator_exit cfg s exit.validator_index) = fin
  cases hv : s.validators[exit.validator_index]? with
  | none =>
    have : ¬ exit.validator_index < s.validators.length := by
      intro hlt; simp [List.getElem?_eq_getElem hlt] at hv
    simp [this]
  | some v =>
    have hlt : exit.validator_index < s.validators.length := (List.getElem?_eq_some_iff.mp hv).1
    simp only [hlt, decide_true, if_true]
    by_cases hactv : v.activation_epoch ≤ s.slot / cfg.SLOTS_PER_EPOCH
    · have hsum : v.activation_epoch + cfg.SHARD_COMMITTEE_PERIOD < 2 ^ 64 := by omega
      rw [w64_id _ hsum, u64_ok _ _ hsum]
      simp only [toRes_ok, res_bind_ok]
      close_cases
    · by_cases hsum : v.activation_epoch + cfg.SHARD_COMMITTEE_PERIOD < 2 ^ 64
      · rw [w64_id _ hsum, u64_ok _ _ hsum]
        simp only [toRes_ok, res_bind_ok]
        close_cases
      · simp [hactv]


/-! ### frame: what the proposer of the slot depends on -/

/-- `s'` has the same slot and the same proposer seed of the current epoch as `s` (the randao mix `MIN_SEED_LOOKAHEAD + 1`
epochs back), the same number of validators, and every validator has the same effective balance and the same activity
in the current epoch. -/
def SameDuties (cfg : Config) (s s' : State) : Prop :=
  s'.slot = s.slot ∧
  get_seed cfg s' (get_current_epoch cfg s) DOMAIN_BEACON_PROPOSER = get_seed cfg s (get_current_epoch cfg s) DOMAIN_BEACON_PROPOSER ∧
  s'.validators.length = s.validators.length ∧
  ∀ (i : Nat) (v v' : Validator), s.validators[i]? = some v → s'.validators[i]? = some v' →
    v'.effective_balance = v.effective_balance ∧
    is_active_validator v' (get_current_epoch cfg s) = is_active_validator v (get_current_epoch cfg s)

theorem SameDuties.refl (cfg : Config) (s : State) : SameDuties cfg s s :=
  ⟨rfl, rfl, rfl, fun i v v' h h' => by rw [h] at h'; cases h'; exact ⟨rfl, rfl⟩⟩

theorem active_indices_frame (cfg : Config) (s s' : State) (h : SameDuties cfg s s') :
    get_active_validator_indices s' (get_current_epoch cfg s) = get_active_validator_indices s (get_current_epoch cfg s) := by
  unfold get_active_validator_indices active_indices_of
  rw [h.2.2.1]
  apply List.filter_congr
  intro i hi
  have hi' : i < s.validators.length := by simpa using hi
  have hi'' : i < s'.validators.length := by rw [h.2.2.1]; exact hi'
  have h1 : s.validators[i]? = some s.validators[i] := List.getElem?_eq_getElem hi'
  have h2 : s'.validators[i]? = some s'.validators[i] := List.getElem?_eq_getElem hi''
  rw [h1, h2]
  exact (h.2.2.2 i _ _ h1 h2).2

theorem proposer_loop_frame (cfg : Config) (s s' : State) (indices : List Nat) (seed : Bytes)
    (heff : ∀ (i : Nat) (v v' : Validator), s.validators[i]? = some v → s'.validators[i]? = some v' → v'.effective_balance = v.effective_balance)
    (hlen : s'.validators.length = s.validators.length) :
    ∀ fuel i, Block.compute_proposer_index.loop cfg s' indices seed indices.length fuel i =
              Block.compute_proposer_index.loop cfg s indices seed indices.length fuel i := by
  intro fuel
  induction fuel with
  | zero => intro i; rfl
  | succ f ih =>
    intro i
    unfold Block.compute_proposer_index.loop
    cases hsh : compute_shuffled_index cfg (i % indices.length) indices.length seed with
    | error e => rfl
    | ok j =>
      simp only [bind, Except.bind]
      cases hc : idx indices j "indices" with
      | error e => rfl
      | ok c =>
        simp only []
        unfold idx
        by_cases hcl : c < s.validators.length
        · have hcl' : c < s'.validators.length := by omega
          have h1 : s.validators[c]? = some s.validators[c] := List.getElem?_eq_getElem hcl
          have h2 : s'.validators[c]? = some s'.validators[c] := List.getElem?_eq_getElem hcl'
          rw [h1, h2]
          simp only [pure, Except.pure, heff c _ _ h1 h2, ih]
        · have hcl' : ¬ c < s'.validators.length := by omega
          have h1 : s.validators[c]? = none := by simp; omega
          have h2 : s'.validators[c]? = none := by simp; omega
          rw [h1, h2]
          rfl

theorem compute_proposer_index_frame (cfg : Config) (s s' : State)
    (heff : ∀ (i : Nat) (v v' : Validator), s.validators[i]? = some v → s'.validators[i]? = some v' → v'.effective_balance = v.effective_balance)
    (hlen : s'.validators.length = s.validators.length) (indices : List Nat) (seed : Bytes) :
    Block.compute_proposer_index cfg s' indices seed = Block.compute_proposer_index cfg s indices seed := by
  unfold Block.compute_proposer_index
  simp only [proposer_loop_frame cfg s s' indices seed heff hlen]

/-- the proposer of the slot only depends on the duties-relevant part of the state -/
theorem proposer_frame (cfg : Config) (s s' : State) (h : SameDuties cfg s s') :
    Block.get_beacon_proposer_index cfg s' = Block.get_beacon_proposer_index cfg s := by
  have hcur : get_current_epoch cfg s' = get_current_epoch cfg s := by
    unfold get_current_epoch; rw [h.1]
  have hseed : get_seed cfg s' (get_current_epoch cfg s) DOMAIN_BEACON_PROPOSER = get_seed cfg s (get_current_epoch cfg s) DOMAIN_BEACON_PROPOSER :=
    h.2.1
  unfold Block.get_beacon_proposer_index
  simp only [hcur, active_indices_frame cfg s s' h, h.1, hseed,
    compute_proposer_index_frame cfg s s' (fun i v v' h1 h2 => (h.2.2.2 i v v' h1 h2).1) h.2.2.1]


/-- the same randao history gives the same seed -/
theorem seed_of_mixes (cfg : Config) (s s' : State) (e : Nat) (d : Bytes) (h : s'.randao_mixes = s.randao_mixes) :
    get_seed cfg s' e d = get_seed cfg s e d := by
  unfold get_seed get_randao_mix; rw [h]

theorem mod_shift_ne (e n d : Nat) (hn : 0 < n) (hd : d % n ≠ 0) (hle : d ≤ e + n) : (e + n - d) % n ≠ e % n := by
  intro h
  have h1 : (e + n - d + d) % n = (e + d) % n := by
    rw [Nat.add_mod, h, ← Nat.add_mod]
  have h2 : e + n - d + d = e + n := by omega
  rw [h2, Nat.add_mod_right] at h1
  -- e % n = (e + d) % n
  rw [Nat.add_mod e d n] at h1
  have hr := Nat.mod_lt e hn
  have ht := Nat.mod_lt d hn
  generalize e % n = r at *
  generalize d % n = t at *
  by_cases hlt : r + t < n
  · rw [Nat.mod_eq_of_lt hlt] at h1; omega
  · have : (r + t) % n = r + t - n := by
      rw [Nat.mod_eq_sub_mod (by omega)]
      exact Nat.mod_eq_of_lt (by omega)
    rw [this] at h1; omega

/-- mixing the RANDAO reveal into the current epoch's mix leaves the proposer seed of the current epoch alone (it
reads the mix `MIN_SEED_LOOKAHEAD + 1` epochs back, another entry unless that distance is a multiple of the vector) -/
theorem seed_set_frame (cfg : Config) (s s' : State) (x : Bytes) (d : Bytes)
    (hlook : (cfg.MIN_SEED_LOOKAHEAD + 1) % cfg.EPOCHS_PER_HISTORICAL_VECTOR ≠ 0)
    (hmix : s'.randao_mixes = s.randao_mixes.set (get_current_epoch cfg s % cfg.EPOCHS_PER_HISTORICAL_VECTOR) x) :
    get_seed cfg s' (get_current_epoch cfg s) d = get_seed cfg s (get_current_epoch cfg s) d := by
  unfold get_seed get_randao_mix
  generalize get_current_epoch cfg s = e at *
  cases hu : u64 (e + cfg.EPOCHS_PER_HISTORICAL_VECTOR) "get_seed" with
  | error err => rfl
  | ok v =>
    have hv : v = e + cfg.EPOCHS_PER_HISTORICAL_VECTOR := by
      unfold u64 at hu; split at hu
      · cases hu; rfl
      · cases hu
    subst hv
    simp only [bind, Except.bind]
    by_cases hlt : e + cfg.EPOCHS_PER_HISTORICAL_VECTOR < cfg.MIN_SEED_LOOKAHEAD + 1
    · simp only [hlt, if_true]; rfl
    · simp only [hlt, if_false]
      by_cases h0 : cfg.EPOCHS_PER_HISTORICAL_VECTOR = 0
      · simp only [h0, if_true]; rfl
      · simp only [h0, if_false]
        have hne := mod_shift_ne e cfg.EPOCHS_PER_HISTORICAL_VECTOR (cfg.MIN_SEED_LOOKAHEAD + 1) (by omega) hlook (by omega)
        have hidx : (e + cfg.EPOCHS_PER_HISTORICAL_VECTOR - cfg.MIN_SEED_LOOKAHEAD - 1) = (e + cfg.EPOCHS_PER_HISTORICAL_VECTOR - (cfg.MIN_SEED_LOOKAHEAD + 1)) := by omega
        rw [hidx, hmix]
        unfold idx
        rw [List.getElem?_set_ne (fun h => hne h.symm)]

/-! ### (b) deposits -/

theorem bytes_beq (a b : ByteArray) : (a == b) = true ↔ a = b := by
  cases a; cases b
  show (ByteArray.beq _ _) = true ↔ _
  simp [ByteArray.beq]

theorem contains_iff_mem (l : List Bytes) (x : Bytes) : l.contains x = true ↔ x ∈ l := by
  induction l with
  | nil => simp
  | cons a t ih =>
    simp only [List.contains_cons, Bool.or_eq_true, ih, List.mem_cons, bytes_beq]

theorem merkle_eq (leaf : Bytes) (branch : List Bytes) (depth index : Nat) (root : Bytes) (h : depth ≤ branch.length) :
    verifyMerkleBranch leaf branch depth index root = toRes (Block.is_valid_merkle_branch leaf branch depth index root) := by
  unfold verifyMerkleBranch Block.is_valid_merkle_branch Zrnt.Util.Merkle.verifyMerkleBranch
  rw [Zrnt.Proofs.Merkle.fold_eq_spec _ branch index depth 0 leaf (by omega)]
  have : ¬ branch.length < depth := by omega
  simp [this, toRes_bind, toRes_ite, pure, Except.pure, toRes]

theorem addValidator_eq (cfg : Config) (s : State) (pk wc : Bytes) (amount : Nat) (hebi : cfg.EFFECTIVE_BALANCE_INCREMENT ≠ 0) :
    addValidator cfg s pk wc amount = toRes (Block.add_validator_to_registry cfg s pk wc amount) := by
  unfold addValidator Block.add_validator_to_registry Block.get_validator_from_deposit
  have hmin : (if amount - amount % cfg.EFFECTIVE_BALANCE_INCREMENT > cfg.MAX_EFFECTIVE_BALANCE then cfg.MAX_EFFECTIVE_BALANCE
      else amount - amount % cfg.EFFECTIVE_BALANCE_INCREMENT) = min (amount - amount % cfg.EFFECTIVE_BALANCE_INCREMENT) cfg.MAX_EFFECTIVE_BALANCE := by
    split <;> omega
  simp only [hebi, if_false, toRes_bind, toRes_require, toRes_pure, res_bind_ok, guard_bind, hmin, toRes_ite]
  by_cases hlim : s.validators.length < cfg.VALIDATOR_REGISTRY_LIMIT
  · simp only [hlim, decide_true, if_true]
    cases s.fork <;> rfl
  · simp [hlim]

theorem addValidator_appends (cfg : Config) (s s2 : State) (pk wc : Bytes) (amount : Nat)
    (h : toRes (Block.add_validator_to_registry cfg s pk wc amount) = Res.ok s2) :
    ∃ v, s2.validators = s.validators ++ [v] := by
  unfold Block.add_validator_to_registry Block.get_validator_from_deposit at h
  simp only [toRes_bind, toRes_require, guard_bind, toRes_ite, toRes_pure, toRes_invalid, res_bind_ok] at h
  split at h
  · split at h
    · cases h
    · simp only [res_bind_ok] at h
      split at h <;> (cases h; exact ⟨_, rfl⟩)
  · cases h

/-- the pubkey cache answers as the registry does -/
def PubkeyOK (s : State) (ctx : Ctx) : Prop :=
  ∀ pk, ctx.pubkeyIndex pk = (let i := (s.validators.map (·.pubkey)).findIdx (· = pk); if i < s.validators.length then some i else none)

/-- (b) `ProcessDeposit` = `process_deposit` (state component), for a pubkey cache that answers as the registry does
(the C16 invariant `lookup_refines_history`: index below the registry length ⇔ pubkey in the registry). -/
theorem deposit_eq (cfg : Config) (ctx : Ctx) (s : State) (dep : Deposit)
    (hpk : PubkeyOK s ctx) (hproof : dep.proof.length = Block.DEPOSIT_CONTRACT_TREE_DEPTH + 1)
    (hebi : cfg.EFFECTIVE_BALANCE_INCREMENT ≠ 0) (hidx : s.eth1_deposit_index + 1 < 2 ^ 64)
    (hbal : ∀ b ∈ s.balances, b + dep.data.amount < 2 ^ 64) :
    (processDeposit cfg ctx s dep >>= fun r => Res.ok r.2) = toRes (Block.process_deposit cfg s dep) := by
  unfold processDeposit Block.process_deposit
  rw [merkle_eq _ _ _ _ _ (by omega)]
  simp only [toRes_bind, toRes_require, res_bind_ok, u64_ok _ _ hidx, toRes_ok, w64_id _ hidx]
  cases hm : toRes (Block.is_valid_merkle_branch dep.data_root dep.proof (Block.DEPOSIT_CONTRACT_TREE_DEPTH + 1) s.eth1_deposit_index s.eth1_data.deposit_root) with
  | err => rfl
  | panic => rfl
  | outOfFuel => rfl
  | ok okb =>
    simp only [res_bind_ok, guard_bind]
    cases okb with
    | false => rfl
    | true =>
      simp only [if_true]
      unfold Block.apply_deposit
      generalize hs1 : ({ s with eth1_deposit_index := s.eth1_deposit_index + 1 } : State) = s1
      have hv1 : s1.validators = s.validators := by rw [← hs1]
      have hb1 : s1.balances = s.balances := by rw [← hs1]
      rw [hv1, hpk dep.data.pubkey]
      simp only []
      by_cases hin : (s.validators.map (·.pubkey)).contains dep.data.pubkey = true
      · have hlt : (s.validators.map (·.pubkey)).findIdx (· = dep.data.pubkey) < s.validators.length := by
          have hex : ∃ x ∈ s.validators.map (·.pubkey), decide (x = dep.data.pubkey) = true := by
            have : dep.data.pubkey ∈ s.validators.map (·.pubkey) := (contains_iff_mem _ _).mp hin
            exact ⟨_, this, by simp⟩
          have := List.findIdx_lt_length_of_exists hex
          simpa using this
        simp only [hlt, if_true, hin, Bool.not_true, Bool.false_eq_true, if_false]
        rw [increaseBalance_eq s1 _ _ (by
          intro b hb; rw [hb1] at hb; exact hbal b (List.mem_of_getElem? hb))]
        cases toRes (increase_balance s1 _ dep.data.amount) <;> rfl
      · have hnl : ¬ (s.validators.map (·.pubkey)).findIdx (· = dep.data.pubkey) < s.validators.length := by
          intro hlt
          apply hin
          have : (s.validators.map (·.pubkey)).findIdx (· = dep.data.pubkey) < (s.validators.map (·.pubkey)).length := by simpa using hlt
          have h1 := List.findIdx_getElem (w := this)
          have h2 := List.getElem_mem this
          have h3 : (s.validators.map (·.pubkey))[(s.validators.map (·.pubkey)).findIdx (· = dep.data.pubkey)] = dep.data.pubkey := by
            simpa using h1
          rw [h3] at h2
          exact (contains_iff_mem _ _).mpr h2
        have hin' : (s.validators.map (·.pubkey)).contains dep.data.pubkey = false := by simpa using hin
        simp only [hnl, if_false, hin', Bool.not_false, if_true]
        by_cases hsig : dep.sig_ok = true
        · simp only [hsig, Bool.not_true, Bool.false_eq_true, if_false, if_true]
          rw [addValidator_eq cfg s1 _ _ _ hebi]
          cases hadd : toRes (Block.add_validator_to_registry cfg s1 dep.data.pubkey dep.data.withdrawal_credentials dep.data.amount) with
          | ok s2 =>
            obtain ⟨v, hv⟩ := addValidator_appends cfg s1 s2 _ _ _ hadd
            have hget : s2.validators[s.validators.length]? = some v := by
              rw [hv, hv1]; simp
            simp only [res_bind_ok, rget, hget]
            split <;> rfl
          | err => rfl
          | panic => rfl
          | outOfFuel => rfl
        · have : dep.sig_ok = false := by simpa using hsig
          simp [this]


/-! ### (f) `process_withdrawals`: comparison, balances, index and cursor update -/

def optRes {α} : Option α → Res α
  | some a => .ok a
  | none => .err

theorem applyLoop_self : ∀ (es : List Withdrawal) (s : State),
    withdrawalsApplyLoop es es s = match es.foldlM Block.decBal s.balances with
      | some b => Res.ok { s with balances := b }
      | none => Res.err := by
  intro es
  induction es with
  | nil => intro s; rfl
  | cons e es ih =>
    intro s
    unfold withdrawalsApplyLoop
    simp only [ne_eq, not_true_eq_false, decide_false, Bool.or_self, Bool.false_eq_true, if_false]
    unfold decreaseBalance rget
    simp only [List.foldlM_cons, Block.decBal]
    cases hb : s.balances[e.validator_index]? with
    | none => rfl
    | some x =>
      simp only [res_bind_ok, pure, Res.ok.injEq]
      have h1 : (if x ≥ e.amount then x - e.amount else 0) = (if e.amount > x then 0 else x - e.amount) := by
        split <;> split <;> omega
      rw [h1]
      have := ih { s with balances := s.balances.set e.validator_index (if e.amount > x then 0 else x - e.amount) }
      simp only [bind, Option.bind] at this ⊢
      rw [this]

theorem applyLoop_ne : ∀ (es ws : List Withdrawal) (s : State), es.length = ws.length → ws ≠ es →
    withdrawalsApplyLoop es ws s = Res.err := by
  intro es
  induction es with
  | nil => intro ws s hl hne; cases ws with
    | nil => exact absurd rfl hne
    | cons _ _ => simp at hl
  | cons e es ih =>
    intro ws s hl hne
    cases ws with
    | nil => simp at hl
    | cons w ws' =>
      unfold withdrawalsApplyLoop
      by_cases hw : w = e
      · subst hw
        simp only [ne_eq, not_true_eq_false, decide_false, Bool.or_self, Bool.false_eq_true, if_false]
        have hne' : ws' ≠ es := by intro h; apply hne; rw [h]
        cases hd : decreaseBalance s w.validator_index w.amount with
        | ok s' => simp only; exact ih ws' s' (by simpa using hl) hne'
        | err => rfl
        | panic =>
          unfold decreaseBalance rget at hd
          cases hb : s.balances[w.validator_index]? <;> simp [hb, bind, Res.bind, pure] at hd
        | outOfFuel =>
          unfold decreaseBalance rget at hd
          cases hb : s.balances[w.validator_index]? <;> simp [hb, bind, Res.bind, pure] at hd
      · have : (decide (w.index ≠ e.index) || decide (w.validator_index ≠ e.validator_index) || decide (w.address ≠ e.address) ||
            decide (w.amount ≠ e.amount)) = true := by
          by_cases h1 : w.index = e.index <;> by_cases h2 : w.validator_index = e.validator_index <;>
            by_cases h3 : w.address = e.address <;> by_cases h4 : w.amount = e.amount <;> simp [h1, h2, h3, h4]
          apply hw
          cases w; cases e; simp_all
        simp only [this, if_true]

/-- (f) `capella.ProcessWithdrawals` = the specification's `process_withdrawals` state update — the element-wise
comparison interleaved with the balance decreases, the withdrawal index, and the sweep-cursor update of BOTH branches,
for every registry size (also smaller than `MAX_VALIDATORS_PER_WITHDRAWALS_SWEEP`) — given that the sweep returned
`expected` (`withdrawals_eq`) and the indices stay inside `uint64`. -/
theorem withdrawalsApply_eq (cfg : Config) (s : State) (payload : ExecutionPayload) (expected : List Withdrawal)
    (hexp : expectedWithdrawals cfg s = .ok expected)
    (hidx : ∀ w ∈ expected, w.index + 1 < 2 ^ 64 ∧ w.validator_index + 1 < 2 ^ 64)
    (hcur : s.next_withdrawal_validator_index + cfg.MAX_VALIDATORS_PER_WITHDRAWALS_SWEEP < 2 ^ 64)
    (hmax : cfg.MAX_WITHDRAWALS_PER_PAYLOAD ≠ 0) :
    processWithdrawals cfg s payload = optRes (Block.process_withdrawals_pure cfg s expected payload.withdrawals) := by
  unfold processWithdrawals Block.process_withdrawals_pure
  simp only [hexp, res_bind_ok, guard_bind]
  by_cases hlen : expected.length = payload.withdrawals.length
  · simp only [hlen, decide_true, if_true]
    by_cases heq : payload.withdrawals = expected
    · rw [heq, applyLoop_self]
      simp only [ne_eq, not_true_eq_false, if_false]
      -- the sweep returned something only if the registry is not empty
      have hne : ¬ s.validators.length = 0 := by
        intro h0
        unfold expectedWithdrawals withdrawalsLoop at hexp
        have : s.validators[s.next_withdrawal_validator_index]? = none := by simp; omega
        simp [this, h0] at hexp
      cases hf : expected.foldlM Block.decBal s.balances with
      | none => simp [hne, optRes]
      | some b =>
        simp only [res_bind_ok, hne, if_false]
        cases hl : expected.getLast? with
        | none =>
          have hnil : expected = [] := List.getLast?_eq_none_iff.mp hl
          have hlen0 : ¬ expected.length = cfg.MAX_WITHDRAWALS_PER_PAYLOAD := by rw [hnil]; simp; omega
          simp only [hlen0, if_false]
          rw [w64_id _ hcur]
          simp [optRes, pure, hne]
        | some l =>
          have hm := hidx l (List.mem_of_getLast? hl)
          simp only []
          rw [w64_id _ hm.1, w64_id _ hm.2, w64_id _ hcur]
          split <;> simp [optRes, pure, hne]
    · rw [applyLoop_ne expected payload.withdrawals s hlen heq]
      simp [heq, optRes]
  · have hne : payload.withdrawals ≠ expected := by intro h; apply hlen; rw [h]
    simp [hlen, hne, optRes]

/-! ### (f) sync aggregate -/


theorem mapM_length {α β} (f : α → Option β) : ∀ (l : List α) (r : List β), l.mapM f = some r → r.length = l.length := by
  intro l
  induction l with
  | nil => intro r h; simp [List.mapM_nil, pure] at h; rw [h]; rfl
  | cons a t ih =>
    intro r h
    rw [List.mapM_cons] at h
    cases hf : f a with
    | none => simp [hf, bind, Option.bind] at h
    | some b =>
      cases ht : t.mapM f with
      | none => simp [hf, ht, bind, Option.bind] at h
      | some r' =>
        simp [hf, ht, bind, Option.bind, pure] at h
        rw [← h]; simp [ih r' ht]

theorem mem_set_le (l : List Nat) (i v B : Nat) (h : ∀ x ∈ l, x ≤ B) (hv : v ≤ B) : ∀ x ∈ l.set i v, x ≤ B := by
  intro x hx
  rcases List.mem_or_eq_of_mem_set hx with h1 | h1
  · exact h x h1
  · rw [h1]; exact hv

/-- the balance loop of `ProcessSyncAggregate` (wrapping additions) = the specification's loop, as long as no balance can
reach `2^64` (`B` bounds every balance, with room for all remaining rewards) -/
theorem syncLoop_eq (pr prr p : Nat) : ∀ (idxs : List Nat) (bits : List Bool) (s : State) (B : Nat),
    (∀ x ∈ s.balances, x ≤ B) → B + idxs.length * (pr + prr) < 2 ^ 64 →
    syncLoop pr prr p idxs bits s =
      match Block.sync_apply_pure pr prr p idxs bits s.balances with
      | some b => Res.ok { s with balances := b }
      | none => Res.err := by
  intro idxs
  induction idxs with
  | nil => intro bits s B _ _; rfl
  | cons vi rest ih =>
    intro bits s B hB hsum
    cases bits with
    | nil => rfl
    | cons bit bits =>
      unfold syncLoop Block.sync_apply_pure
      simp only [List.length_cons] at hsum
      have hmul : (rest.length + 1) * (pr + prr) = rest.length * (pr + prr) + (pr + prr) := by
        rw [Nat.add_mul, Nat.one_mul]
      cases hx : s.balances[vi]? with
      | none =>
        cases bit <;> simp [increaseBalance, decreaseBalance, rget, hx, bind, Res.bind]
      | some x =>
        have hxB : x ≤ B := hB x (List.mem_of_getElem? hx)
        cases bit with
        | false =>
          simp only [Bool.false_eq_true, if_false, decreaseBalance, rget, hx, res_bind_ok, pure]
          have h1 : (if x ≥ pr then x - pr else 0) = (if pr > x then 0 else x - pr) := by split <;> split <;> omega
          rw [h1]
          have := ih bits { s with balances := s.balances.set vi (if pr > x then 0 else x - pr) } B
            (mem_set_le _ _ _ _ hB (by split <;> omega)) (by omega)
          simp only at this
          rw [this]
        | true =>
          simp only [if_true, increaseBalance, rget, hx, res_bind_ok, pure]
          rw [w64_id (x + pr) (by omega)]
          cases hy : (s.balances.set vi (x + pr))[p]? with
          | none => simp [bind, Res.bind]
          | some y =>
            simp only [res_bind_ok]
            have hyB : y ≤ B + pr := by
              have := mem_set_le s.balances vi (x + pr) (B + pr) (fun z hz => Nat.le_trans (hB z hz) (Nat.le_add_right _ _)) (by omega)
              exact this y (List.mem_of_getElem? hy)
            rw [w64_id (y + prr) (by omega)]
            have := ih bits { s with balances := (s.balances.set vi (x + pr)).set p (y + prr) } (B + pr + prr)
              (mem_set_le _ _ _ _ (mem_set_le _ _ _ _ (fun z hz => by have := hB z hz; omega) (by omega)) (by omega)) (by omega)
            simp only at this
            rw [this]


/-- (f) `altair.ProcessSyncAggregate` (as repaired) = the specification's `process_sync_aggregate` (pure core, which the
monadic `S` is compared with on every evaluation): bitvector sanity, block root of the previous slot, participant and
proposer reward arithmetic (wrapping products = exact products under the stated bounds), rewards and penalties in
committee order with the proposer paid per participant. -/
theorem syncAggregate_eq (cfg : Config) (ctx : Ctx) (s : State) (agg : SyncAggregate) (T p B : Nat) (committee : SyncCommittee)
    (hsc : s.current_sync_committee = some committee)
    (hp : ctx.proposer = some p) (hidx : ctx.syncIndices = committee.pubkeys.mapM (Block.pubkey_index s))
    (hT : ctx.totalActiveStake = T) (hsq : ctx.totalActiveStakeSqRoot = integer_squareroot T)
    (hclen : committee.pubkeys.length = cfg.SYNC_COMMITTEE_SIZE)
    (hbits : agg.sync_committee_bits.length = 8 * ((cfg.SYNC_COMMITTEE_SIZE + 7) / 8))
    (hpad : (agg.sync_committee_bits.drop cfg.SYNC_COMMITTEE_SIZE).all (· = false) = true)
    (hslot : s.slot + cfg.SLOTS_PER_HISTORICAL_ROOT < 2 ^ 64)
    (h1 : cfg.EFFECTIVE_BALANCE_INCREMENT * cfg.BASE_REWARD_FACTOR < 2 ^ 64)
    (h2 : cfg.EFFECTIVE_BALANCE_INCREMENT * cfg.BASE_REWARD_FACTOR / integer_squareroot T * (T / cfg.EFFECTIVE_BALANCE_INCREMENT) * SYNC_REWARD_WEIGHT < 2 ^ 64)
    (h3 : (Block.sync_rewards cfg T).1 * PROPOSER_WEIGHT < 2 ^ 64)
    (hB : ∀ x ∈ s.balances, x ≤ B)
    (hsum : B + cfg.SYNC_COMMITTEE_SIZE * ((Block.sync_rewards cfg T).1 + (Block.sync_rewards cfg T).2) < 2 ^ 64)
    (hnz : cfg.EFFECTIVE_BALANCE_INCREMENT ≠ 0 ∧ cfg.SLOTS_PER_EPOCH ≠ 0 ∧ cfg.SYNC_COMMITTEE_SIZE ≠ 0 ∧ integer_squareroot T ≠ 0) :
    processSyncAggregate cfg ctx s agg = optRes (Block.process_sync_aggregate_pure cfg s agg T p) := by
  unfold processSyncAggregate Block.process_sync_aggregate_pure
  obtain ⟨hz1, hz2, hz3, hz4⟩ := hnz
  have htake : (agg.sync_committee_bits.take cfg.SYNC_COMMITTEE_SIZE).length = cfg.SYNC_COMMITTEE_SIZE := by
    rw [List.length_take, hbits]; omega
  have hprev : max s.slot 1 - 1 = s.slot - 1 := by omega
  simp only [hsc, hp, hidx, hT, hsq, hbits, hpad, decide_true, guard_bind, if_true, ofOpt_bind, htake, ne_eq,
    not_true_eq_false, if_false, hprev]
  cases hm : committee.pubkeys.mapM (Block.pubkey_index s) with
  | none =>
    simp only []
    repeat' split
    all_goals first | rfl | (simp_all [optRes]; done)
  | some idxs =>
    have hil : idxs.length = cfg.SYNC_COMMITTEE_SIZE := by
      rw [← hclen]; exact (mapM_length _ _ _ hm)
    simp only []
    unfold getBlockRootAtSlot
    rw [w64_id (s.slot - 1 + cfg.SLOTS_PER_HISTORICAL_ROOT) (by omega)]
    simp only [guard_bind, rget_bind]
    by_cases hr : (s.slot - 1 < s.slot ∧ s.slot ≤ s.slot - 1 + cfg.SLOTS_PER_HISTORICAL_ROOT)
    · have hr' : (decide (s.slot - 1 < s.slot) && decide (s.slot ≤ s.slot - 1 + cfg.SLOTS_PER_HISTORICAL_ROOT)) = true := by
        simp [hr.1, hr.2]
      have hsphr : ¬ cfg.SLOTS_PER_HISTORICAL_ROOT = 0 := by omega
      simp only [hr', if_true, hsphr, if_false, hr, not_true_eq_false, rget_bind]
      cases hbr : s.block_roots[(s.slot - 1) % cfg.SLOTS_PER_HISTORICAL_ROOT]? with
      | none => simp [rget, hbr, optRes, bind, Res.bind]
      | some root =>
        simp only [rget, hbr, res_bind_ok]
        by_cases hsig : agg.sig_ok = true
        · have hor : ¬ (cfg.EFFECTIVE_BALANCE_INCREMENT = 0 ∨ cfg.SLOTS_PER_EPOCH = 0 ∨ cfg.SYNC_COMMITTEE_SIZE = 0 ∨ integer_squareroot T = 0) := by
            simp [hz1, hz2, hz3, hz4]
          have hor2 : ¬ (((cfg.EFFECTIVE_BALANCE_INCREMENT = 0 ∨ integer_squareroot T = 0) ∨ cfg.SLOTS_PER_EPOCH = 0) ∨ cfg.SYNC_COMMITTEE_SIZE = 0) := by
            simp [hz1, hz2, hz3, hz4]
          have hlt : ¬ idxs.length < cfg.SYNC_COMMITTEE_SIZE := by omega
          simp only [hsig, if_true, Bool.not_true, Bool.false_eq_true, if_false, hor, hor2, hlt]
          -- the reward arithmetic
          have e1 : w64 (cfg.EFFECTIVE_BALANCE_INCREMENT * cfg.BASE_REWARD_FACTOR) = cfg.EFFECTIVE_BALANCE_INCREMENT * cfg.BASE_REWARD_FACTOR := w64_id _ h1
          have hsr : Block.sync_rewards cfg T = Block.sync_rewards cfg T := rfl
          unfold Block.sync_rewards at h3 hsum ⊢
          simp only [] at h3 hsum ⊢
          rw [e1]
          have e2 : w64 (cfg.EFFECTIVE_BALANCE_INCREMENT * cfg.BASE_REWARD_FACTOR / integer_squareroot T * (T / cfg.EFFECTIVE_BALANCE_INCREMENT)) =
              cfg.EFFECTIVE_BALANCE_INCREMENT * cfg.BASE_REWARD_FACTOR / integer_squareroot T * (T / cfg.EFFECTIVE_BALANCE_INCREMENT) := by
            apply w64_id
            have : SYNC_REWARD_WEIGHT = 2 := rfl
            rw [this] at h2; omega
          rw [e2, w64_id _ h2, w64_id _ h3]
          rw [List.take_of_length_le (by omega : idxs.length ≤ cfg.SYNC_COMMITTEE_SIZE)]
          rw [syncLoop_eq _ _ p idxs _ s B hB (by rw [hil]; exact hsum)]
          generalize Block.sync_apply_pure _ _ p idxs (List.take cfg.SYNC_COMMITTEE_SIZE agg.sync_committee_bits) s.balances = res
          cases res <;> simp [optRes, hsc, hz1, hz2, hz3, hz4, hr]
        · have : agg.sig_ok = false := by simpa using hsig
          simp [this, optRes]
    · have hr' : (decide (s.slot - 1 < s.slot) && decide (s.slot ≤ s.slot - 1 + cfg.SLOTS_PER_HISTORICAL_ROOT)) = false := by
        simp only [Bool.and_eq_false_iff, decide_eq_false_iff_not]
        by_cases hx : s.slot - 1 < s.slot
        · right; intro hy; exact hr ⟨hx, hy⟩
        · left; exact hx
      simp [hr', hr, optRes]

end Zrnt.Proofs.BlockM
