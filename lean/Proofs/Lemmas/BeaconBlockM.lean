import Zrnt.Beacon.Impl.BlockM
import Proofs.Lemmas.BeaconBlock
/-!
# Refinement lemmas: the code-shaped model `M` of block processing (`Zrnt/Beacon/Impl/BlockM.lean`) equals the
specification `S` (`Zrnt/Beacon/Spec/BlockOps.lean`), operation by operation: accept/reject AND post-state.
`toRes` maps every rejection of `S` to `Res.err`.
-/
set_option linter.unusedSimpArgs false
set_option linter.unusedVariables false
namespace Zrnt.Proofs.BlockM
open Zrnt Zrnt.Beacon Zrnt.Beacon.Spec Zrnt.Beacon.BlockImpl Zrnt.Beacon.BlockM Zrnt.Proofs.BeaconBlock

/-! ### `toRes` calculus: pushing the outcome map through the specification's monadic code -/

@[simp] theorem toRes_pure {α} (a : α) : toRes (pure a : SM α) = Res.ok a := rfl
@[simp] theorem toRes_ok {α} (a : α) : toRes (Except.ok a : SM α) = Res.ok a := rfl
@[simp] theorem toRes_error {α} (e : Err) : toRes (Except.error e : SM α) = Res.err := rfl
@[simp] theorem toRes_throw {α} (e : Err) : toRes (throw e : SM α) = Res.err := rfl
@[simp] theorem toRes_invalid {α} (m : String) : toRes (invalid m : SM α) = Res.err := rfl

theorem toRes_bind {α β} (x : SM α) (f : α → SM β) :
    toRes (x >>= f) = (toRes x >>= fun a => toRes (f a)) := by
  cases x <;> rfl

@[simp] theorem toRes_require (c : Bool) (m : String) : toRes (require c m) = BlockM.guard c := by
  unfold require BlockM.guard; cases c <;> rfl

@[simp] theorem toRes_idx {α} (l : List α) (i : Nat) (m : String) : toRes (idx l i m) = rget l i := by
  unfold idx rget; cases l[i]? <;> rfl

theorem toRes_ite {α} (c : Prop) [Decidable c] (a b : SM α) :
    toRes (if c then a else b) = if c then toRes a else toRes b := by
  split <;> rfl

theorem u64_ok (n : Nat) (m : String) (h : n < 2 ^ 64) : u64 n m = Except.ok n := by
  unfold u64; simp [h, pure, Except.pure]

theorem w64_id (n : Nat) (h : n < 2 ^ 64) : w64 n = n := Nat.mod_eq_of_lt h

@[simp] theorem res_bind_ok {α β} (a : α) (f : α → Res β) : (Res.ok a >>= f) = f a := rfl
@[simp] theorem res_bind_err {α β} (f : α → Res β) : ((Res.err : Res α) >>= f) = Res.err := rfl

theorem guard_true : BlockM.guard true = Res.ok () := rfl
theorem guard_false : BlockM.guard false = Res.err := rfl

/-! ### balances -/

theorem increaseBalance_eq (s : State) (i d : Nat) (h : ∀ b, s.balances[i]? = some b → b + d < 2 ^ 64) :
    increaseBalance s i d = toRes (increase_balance s i d) := by
  unfold increaseBalance increase_balance
  rw [toRes_bind, toRes_idx]
  unfold rget
  cases hb : s.balances[i]? with
  | none => rfl
  | some b =>
    simp only [res_bind_ok]
    rw [toRes_bind, u64_ok _ _ (h b hb)]
    simp [w64_id _ (h b hb)]

theorem decreaseBalance_eq (s : State) (i d : Nat) :
    decreaseBalance s i d = toRes (decrease_balance s i d) := by
  unfold decreaseBalance decrease_balance
  rw [toRes_bind, toRes_idx]
  unfold rget
  cases hb : s.balances[i]? with
  | none => rfl
  | some b =>
    simp only [res_bind_ok, toRes_pure]
    by_cases hd : d > b
    · have : ¬ b ≥ d := by omega
      simp [hd, this]
    · have : b ≥ d := by omega
      simp [hd, this]


theorem guard_bind {β} (c : Bool) (f : Unit → Res β) : (BlockM.guard c >>= f) = if c = true then f () else Res.err := by
  cases c <;> rfl

theorem rget_bind {α β} (l : List α) (i : Nat) (f : α → Res β) :
    (rget l i >>= f) = match l[i]? with | some a => f a | none => Res.err := by
  unfold rget; cases l[i]? <;> rfl

theorem ofOpt_bind {α β} (o : Option α) (f : α → Res β) :
    (ofOpt o >>= f) = match o with | some a => f a | none => Res.err := by
  cases o <;> rfl

/-! ### (e) header, randao, eth1 vote -/

/-- `ProcessHeader` = `process_block_header` when the expected proposer handed in is the specification's. -/
theorem header_eq (cfg : Config) (s : State) (block : SignedBlock) (p : Nat)
    (hp : Block.get_beacon_proposer_index cfg s = .ok p) :
    processHeader s block p = toRes (Block.process_block_header cfg s block) := by
  unfold processHeader Block.process_block_header
  simp only [toRes_bind, toRes_require, hp, toRes_idx, toRes_pure, toRes_ok, res_bind_ok, guard_bind, rget_bind]
  cases hv : s.validators[block.proposer_index]? with
  | none =>
    have : ¬ block.proposer_index < s.validators.length := by
      intro hlt; simp [List.getElem?_eq_getElem hlt] at hv
    repeat' split
    all_goals first | rfl | (exfalso; simp_all; done) | (simp_all; done) | (exfalso; simp_all; omega)
  | some v =>
    have : block.proposer_index < s.validators.length := (List.getElem?_eq_some_iff.mp hv).1
    repeat' split
    all_goals first | rfl | (exfalso; simp_all; done) | (simp_all; done) | (exfalso; simp_all; omega)

theorem fork_ge (a b : Fork) : (a ≥ b) = (b.toNat ≤ a.toNat) := rfl
theorem fork_le (a b : Fork) : (a ≤ b) = (a.toNat ≤ b.toNat) := rfl

/-- finishing tactic for goals that are nested `if`/`match` on both sides after normalisation -/
macro "close_cases" : tactic =>
  `(tactic| (repeat' split) <;> first | rfl | (exfalso; simp_all [fork_ge, fork_le, Fork.toNat]; done) | (simp_all [fork_ge, fork_le, Fork.toNat]; done) | (exfalso; simp_all [fork_ge, fork_le, Fork.toNat]; omega) | (simp_all [fork_ge, fork_le, Fork.toNat]; omega))

/-- `ProcessRandaoReveal` = `process_randao` -/
theorem randao_eq (cfg : Config) (ctx : Ctx) (s : State) (block : SignedBlock) (p : Nat)
    (hp : Block.get_beacon_proposer_index cfg s = .ok p) (hctx : ctx.proposer = some p)
    (hpv : p < s.validators.length)
    (hlen : s.randao_mixes.length = cfg.EPOCHS_PER_HISTORICAL_VECTOR) (hpos : 0 < cfg.EPOCHS_PER_HISTORICAL_VECTOR) :
    processRandaoReveal cfg ctx s block = toRes (Block.process_randao cfg s block) := by
  unfold processRandaoReveal Block.process_randao get_randao_mix setIdx get_current_epoch compute_epoch_at_slot
  have hne : ¬ cfg.EPOCHS_PER_HISTORICAL_VECTOR = 0 := by omega
  have hne2 : ¬ s.randao_mixes.length = 0 := by omega
  have hmod : s.slot / cfg.SLOTS_PER_EPOCH % cfg.EPOCHS_PER_HISTORICAL_VECTOR < cfg.EPOCHS_PER_HISTORICAL_VECTOR :=
    Nat.mod_lt _ hpos
  simp only [toRes_bind, toRes_require, hp, hctx, toRes_idx, toRes_pure, toRes_ok, res_bind_ok, guard_bind, rget_bind,
    ofOpt_bind, hne, hne2, if_false, toRes_ite, hlen, toRes_invalid, hmod, if_true]
  close_cases

/-- `ProcessEth1Vote` (counts only when a majority is possible at all, wrapping products) = `process_eth1_data` -/
theorem eth1vote_eq (cfg : Config) (s : State) (block : SignedBlock)
    (hsmall : cfg.EPOCHS_PER_ETH1_VOTING_PERIOD * cfg.SLOTS_PER_EPOCH * 2 + 2 < 2 ^ 64) :
    processEth1Vote cfg s block.eth1_data = toRes (Block.process_eth1_data cfg s block) := by
  unfold processEth1Vote Block.process_eth1_data
  have hp : w64 (cfg.EPOCHS_PER_ETH1_VOTING_PERIOD * cfg.SLOTS_PER_EPOCH) = cfg.EPOCHS_PER_ETH1_VOTING_PERIOD * cfg.SLOTS_PER_EPOCH :=
    w64_id _ (by omega)
  have hcnt : ((s.eth1_data_votes ++ [block.eth1_data]).filter (· = block.eth1_data)).length ≤ s.eth1_data_votes.length + 1 := by
    have := List.length_filter_le (fun x => decide (x = block.eth1_data)) (s.eth1_data_votes ++ [block.eth1_data])
    simpa using this
  simp only [toRes_bind, toRes_require, toRes_pure, res_bind_ok, guard_bind, hp, toRes_ite]
  generalize cfg.EPOCHS_PER_ETH1_VOTING_PERIOD * cfg.SLOTS_PER_EPOCH = period at *
  generalize ((s.eth1_data_votes ++ [block.eth1_data]).filter (· = block.eth1_data)).length = count at *
  by_cases hfull : s.eth1_data_votes.length < period
  · have h1 : (!decide (s.eth1_data_votes.length ≥ period)) = true := by simp; omega
    have h2 : decide (s.eth1_data_votes.length < period) = true := by simp; omega
    have hw1 : w64 ((s.eth1_data_votes.length + 1) * 2) = (s.eth1_data_votes.length + 1) * 2 := w64_id _ (by omega)
    have hw2 : w64 (count * 2) = count * 2 := w64_id _ (by omega)
    simp only [h1, h2, if_true, hw1, hw2]
    close_cases
  · have h1 : (!decide (s.eth1_data_votes.length ≥ period)) = false := by simp; omega
    have h2 : decide (s.eth1_data_votes.length < period) = false := by simp; omega
    simp [h1, h2]

/-- `ProcessBLSToExecutionChange` = `process_bls_to_execution_change` -/
theorem blsChange_eq (cfg : Config) (s : State) (op : SignedBLSToExecutionChange) :
    processBLSToExecutionChange s op = toRes (Block.process_bls_to_execution_change cfg s op) := by
  unfold processBLSToExecutionChange Block.process_bls_to_execution_change
  simp only [toRes_bind, toRes_require, toRes_idx, toRes_pure, res_bind_ok, guard_bind, rget_bind]
  cases hv : s.validators[op.validator_index]? with
  | none =>
    have : ¬ op.validator_index < s.validators.length := by
      intro hlt; simp [List.getElem?_eq_getElem hlt] at hv
    close_cases
  | some v =>
    have : op.validator_index < s.validators.length := (List.getElem?_eq_some_iff.mp hv).1
    close_cases

theorem timeAtSlot_eq (cfg : Config) (s : State) (hsps : 0 < cfg.SECONDS_PER_SLOT) (hg : s.genesis_time < 2 ^ 64) :
    timeAtSlot cfg s.slot s.genesis_time = toRes (Block.compute_timestamp_at_slot cfg s s.slot) := by
  unfold timeAtSlot Block.compute_timestamp_at_slot GENESIS_SLOT
  have hne : ¬ cfg.SECONDS_PER_SLOT = 0 := by omega
  simp only [hne, if_false, Nat.sub_zero]
  by_cases h : s.slot > (2 ^ 64 - 1 - s.genesis_time) / cfg.SECONDS_PER_SLOT
  · have h2 : 2 ^ 64 - 1 - s.genesis_time < s.slot * cfg.SECONDS_PER_SLOT := (Nat.div_lt_iff_lt_mul hsps).mp h
    have h3 : ¬ s.genesis_time + s.slot * cfg.SECONDS_PER_SLOT < 2 ^ 64 := by omega
    simp [h, u64, h3, toRes, throw, throwThe, MonadExceptOf.throw]
  · have h2 : s.slot * cfg.SECONDS_PER_SLOT ≤ 2 ^ 64 - 1 - s.genesis_time := by
      have := (Nat.le_div_iff_mul_le hsps).mp (Nat.le_of_not_gt h)
      exact this
    have h3 : s.genesis_time + s.slot * cfg.SECONDS_PER_SLOT < 2 ^ 64 := by omega
    simp only [h, if_false, u64_ok _ _ h3, toRes_ok]
    rw [w64_id (s.slot * cfg.SECONDS_PER_SLOT) (by omega), w64_id _ (by omega), Nat.add_comm]

set_option maxHeartbeats 2000000 in
/-- `ProcessExecutionPayload` of the three forks = `process_execution_payload` -/
theorem payload_eq (cfg : Config) (s : State) (block : SignedBlock) (payload : ExecutionPayload)
    (hf : s.fork ≥ .bellatrix) (hx : payload.fields.extra_data.size ≤ cfg.MAX_EXTRA_DATA_BYTES)
    (hlen : s.randao_mixes.length = cfg.EPOCHS_PER_HISTORICAL_VECTOR) (hpos : 0 < cfg.EPOCHS_PER_HISTORICAL_VECTOR)
    (hsps : 0 < cfg.SECONDS_PER_SLOT) (hg : s.genesis_time < 2 ^ 64) :
    processExecutionPayload cfg s block payload = toRes (Block.process_execution_payload cfg s block payload) := by
  unfold processExecutionPayload Block.process_execution_payload get_randao_mix get_current_epoch compute_epoch_at_slot
  generalize ({ s with latest_execution_payload_header := some payload.fields } : State) = post
  have hne : ¬ cfg.EPOCHS_PER_HISTORICAL_VECTOR = 0 := by omega
  have hne2 : ¬ s.randao_mixes.length = 0 := by omega
  rw [timeAtSlot_eq cfg s hsps hg]
  cases s.latest_execution_payload_header with
  | none => simp only [toRes_bind, guard_bind, ofOpt_bind, hx, decide_true, if_true, toRes_invalid]
  | some latest =>
    cases hfk : s.fork <;> rw [hfk] at hf <;> (try (exact absurd hf (by decide))) <;>
      cases ht : Block.compute_timestamp_at_slot cfg s s.slot <;>
      simp only [toRes_bind, toRes_require, toRes_idx, toRes_pure, toRes_ok, toRes_error, res_bind_ok, res_bind_err, guard_bind, rget_bind,
        ofOpt_bind, hne, hne2, if_false, toRes_ite, hlen, toRes_invalid, hx, decide_true, if_true] <;>
      close_cases

end Zrnt.Proofs.BlockM
