import Zrnt.Gen.GoFuns
import Zrnt.Util.MathSpec
import Mathlib.Tactic.Linarith
/-! Bit-level lemmas for `IsPowerOfTwo` and `NextPowerOfTwo` (regenerated from math_util.go). Kernel-only: no `bv_decide`. -/
namespace Zrnt.Proofs.Pow2
open Zrnt Zrnt.Gen.GoFuns Zrnt.Util

theorem testBit_top (m L : Nat) (h1 : 2 ^ L ≤ m) (h2 : m < 2 ^ (L + 1)) : m.testBit L = true := by
  rw [Nat.testBit_eq_decide_div_mod_eq]
  have : m / 2 ^ L = 1 := by
    apply Nat.div_eq_of_lt_le
    · simpa using h1
    · rw [Nat.pow_succ] at h2; omega
  simp [this]

theorem and_pred_eq_zero_iff (n : Nat) (hn : 0 < n) : n &&& (n - 1) = 0 ↔ n = 2 ^ n.log2 := by
  have hne : n ≠ 0 := by omega
  constructor
  · intro h
    by_contra hcon
    have hL := Nat.log2_self_le hne
    have hU := @Nat.lt_log2_self n
    have h1 : 2 ^ n.log2 ≤ n - 1 := by omega
    have b1 : n.testBit n.log2 = true := Nat.testBit_log2 hne
    have b2 : (n - 1).testBit n.log2 = true := testBit_top _ _ h1 (by omega)
    have : (n &&& (n - 1)).testBit n.log2 = true := by rw [Nat.testBit_and, b1, b2]; rfl
    rw [h, Nat.zero_testBit] at this
    exact Bool.noConfusion this
  · intro h
    rw [h]
    apply Nat.eq_of_testBit_eq
    intro i
    rw [Nat.testBit_and, Nat.testBit_two_pow, Nat.testBit_two_pow_sub_one, Nat.zero_testBit]
    by_cases hi : n.log2 = i
    · subst hi; simp
    · simp [hi]

theorem ne_zero_pos (x : UInt64) (h : x ≠ 0) : 0 < x.toNat := by
  rcases Nat.eq_zero_or_pos x.toNat with h0 | h0
  · exact absurd (UInt64.toNat_inj.mp (by rw [h0]; rfl)) h
  · exact h0

/-- window predicate: bit `i` of `w` is set iff some bit `i+d`, `d < W`, of `v` is set -/
def Win (v w W : Nat) : Prop := ∀ i, w.testBit i = true ↔ ∃ d, d < W ∧ v.testBit (i + d) = true

theorem win_one (v : Nat) : Win v v 1 := by
  intro i; constructor
  · intro h; exact ⟨0, by omega, by simpa using h⟩
  · rintro ⟨d, hd, h⟩; have : d = 0 := by omega
    subst this; simpa using h

theorem win_step (v w W : Nat) (h : Win v w W) : Win v (w ||| (w >>> W)) (2 * W) := by
  intro i
  rw [Nat.testBit_or, Nat.testBit_shiftRight, Bool.or_eq_true, h i, h (W + i)]
  constructor
  · rintro (⟨d, hd, hb⟩ | ⟨d, hd, hb⟩)
    · exact ⟨d, by omega, hb⟩
    · exact ⟨W + d, by omega, by rw [← hb]; congr 1; omega⟩
  · rintro ⟨d, hd, hb⟩
    by_cases hlt : d < W
    · exact Or.inl ⟨d, hlt, hb⟩
    · exact Or.inr ⟨d - W, by omega, by rw [← hb]; congr 1; omega⟩

/-- a full 64-bit window over `v` with `2^L ≤ v < 2^(L+1)`, `L < 64`, is `2^(L+1) - 1` -/
theorem win_full (v w L : Nat) (h : Win v w 64) (h1 : 2 ^ L ≤ v) (h2 : v < 2 ^ (L + 1)) (hL : L < 64) :
    w = 2 ^ (L + 1) - 1 := by
  apply Nat.eq_of_testBit_eq
  intro i
  rw [Nat.testBit_two_pow_sub_one]
  by_cases hi : i < L + 1
  · have : w.testBit i = true := (h i).mpr ⟨L - i, by omega, by
      have : i + (L - i) = L := by omega
      rw [this]
      rw [Nat.testBit_eq_decide_div_mod_eq]
      have : v / 2 ^ L = 1 := by
        apply Nat.div_eq_of_lt_le
        · simpa using h1
        · rw [Nat.pow_succ] at h2; omega
      simp [this]⟩
    simp [this, hi]
  · have : w.testBit i = false := by
      cases hb : w.testBit i with
      | false => rfl
      | true =>
        obtain ⟨d, _, hd⟩ := (h i).mp hb
        have hlt : v < 2 ^ (i + d) := Nat.lt_of_lt_of_le h2 (Nat.pow_le_pow_right (by decide) (by omega))
        rw [Nat.testBit_lt_two_pow hlt] at hd
        exact Bool.noConfusion hd
    simp [this, hi]

def smear (v : Nat) : Nat :=
  let v := v ||| (v >>> 1)
  let v := v ||| (v >>> 2)
  let v := v ||| (v >>> 4)
  let v := v ||| (v >>> 8)
  let v := v ||| (v >>> 16)
  let v := v ||| (v >>> 32)
  v

theorem smear_win (v : Nat) : Win v (smear v) 64 := by
  unfold smear
  exact win_step _ _ 32 (win_step _ _ 16 (win_step _ _ 8 (win_step _ _ 4 (win_step _ _ 2 (win_step _ _ 1 (win_one v))))))

theorem smear_zero : smear 0 = 0 := by decide

theorem smear_pos (v : Nat) (hv : 0 < v) (hlt : v < 2 ^ 64) : smear v = 2 ^ (v.log2 + 1) - 1 := by
  have hne : v ≠ 0 := by omega
  exact win_full v _ v.log2 (smear_win v) (Nat.log2_self_le hne) Nat.lt_log2_self
    ((Nat.log2_lt hne).mpr hlt)

theorem shr_toNat (v : UInt64) (k : UInt64) (hk : k.toNat < 64) :
    (Res.shr v k).toNat = v.toNat >>> k.toNat := by
  have : k < 64 := UInt64.lt_iff_toNat_lt.mpr (by simpa using hk)
  simp only [Res.shr, this, ite_true]
  rw [UInt64.toNat_shiftRight, Nat.mod_eq_of_lt hk]

theorem nextPow2_toNat (x : UInt64) :
    (NextPowerOfTwo x).toNat = (smear ((x - 1).toNat) + 1) % 2 ^ 64 := by
  unfold NextPowerOfTwo smear
  have e0 : Res.shl 1 0 = 1 := by decide
  have e1 : Res.shl 1 1 = 2 := by decide
  have e2 : Res.shl 1 2 = 4 := by decide
  have e3 : Res.shl 1 3 = 8 := by decide
  have e4 : Res.shl 1 4 = 16 := by decide
  have e5 : Res.shl 1 5 = 32 := by decide
  simp only [e0, e1, e2, e3, e4, e5]
  rw [UInt64.toNat_add]
  simp only [UInt64.toNat_or, shr_toNat _ 1 (by decide), shr_toNat _ 2 (by decide), shr_toNat _ 4 (by decide),
    shr_toNat _ 8 (by decide), shr_toNat _ 16 (by decide), shr_toNat _ 32 (by decide)]
  rfl

end Zrnt.Proofs.Pow2
