import Proofs.Lemmas.PubkeyCache
/-!
# Pubkey cache: the slot machine over cache levels simulates the slot machine over histories
-/
namespace Zrnt.PubkeyCache
open Spec (SState)

theorem Hist.depth_le {s : Store} (hw : WF s) {h : Nat} {H : List Key} {d : Nat} (hh : Hist s h H d) : d ≤ h + 1 := by
  induction hh with
  | root _ _ => omega
  | child hl hp _ ih => have := (hw _ _ hl).parent_lt _ hp; omega

/-! ## slots -/

theorem slotGet_set {slots : List (Option Nat)} {dst i : Nat} {v : Option Nat} (hd : dst < slots.length) :
    slotGet (slots.set dst v) i = if i = dst then v else slotGet slots i := by
  unfold slotGet
  rw [List.getElem?_set]
  by_cases e : dst = i
  · subst e; simp [hd]
  · simp [e, Ne.symm e]

/-! ## `NewPubkeyCache` -/

theorem newLevelLoop_spec (ks : List Key) : ∀ (l : Level), l.parent = none → l.tpc = 0 →
    (∀ k i, l.pub2idx.lookup k = some i ↔ l.idx2pub[i]? = some k) → (l.idx2pub ++ ks).Nodup →
    (newLevelLoop ks l).parent = none ∧ (newLevelLoop ks l).tpc = 0 ∧ (newLevelLoop ks l).idx2pub = l.idx2pub ++ ks ∧
    (∀ k i, (newLevelLoop ks l).pub2idx.lookup k = some i ↔ (l.idx2pub ++ ks)[i]? = some k) := by
  induction ks with
  | nil => intro l hp ht hm _; simp [newLevelLoop, hp, ht, hm]
  | cons a t ih =>
    intro l hp ht hm hn
    have hn' : (l.idx2pub ++ [a] ++ t).Nodup := by simpa using hn
    have hnot : a ∉ l.idx2pub := by
      have := (List.nodup_append.mp hn).2.2
      intro hm'; exact this a hm' a (by simp) rfl
    have := ih { l with pub2idx := (a, l.idx2pub.length) :: l.pub2idx, idx2pub := l.idx2pub ++ [a] } hp ht
      (by
        intro k i
        simp only [List.lookup_cons]
        by_cases ek : k = a
        · subst ek
          simp only [beq_self_eq_true]
          constructor
          · intro hq; cases hq; simp
          · intro h2
            by_cases hlt : i < l.idx2pub.length
            · rw [List.getElem?_append_left hlt] at h2
              exact absurd (List.mem_iff_getElem?.mpr ⟨_, h2⟩) hnot
            · have hb := (List.getElem?_eq_some_iff.mp h2).1
              simp at hb
              congr 1; omega
        · have hf : (k == a) = false := by simpa using ek
          simp only [hf, hm]
          constructor
          · intro h2; rw [List.getElem?_append_left (List.getElem?_eq_some_iff.mp h2).1]; exact h2
          · intro h2
            by_cases hlt : i < l.idx2pub.length
            · rwa [List.getElem?_append_left hlt] at h2
            · rw [List.getElem?_append_right (by omega)] at h2
              have hb := (List.getElem?_eq_some_iff.mp h2).1
              simp at hb
              have : i - l.idx2pub.length = 0 := by omega
              rw [this] at h2; simp at h2; exact absurd h2.symm ek)
      hn'
    simpa [newLevelLoop, List.append_assoc] using this

theorem newLevel_spec {ks : List Key} (hn : ks.Nodup) :
    (newLevel ks).parent = none ∧ (newLevel ks).tpc = 0 ∧ (newLevel ks).idx2pub = ks ∧
    (∀ k i, (newLevel ks).pub2idx.lookup k = some i ↔ ks[i]? = some k) := by
  have := newLevelLoop_spec ks emptyLevel rfl rfl (by simp [emptyLevel]) (by simpa [emptyLevel] using hn)
  simpa [newLevel, emptyLevel] using this

theorem Hist.push_mono {s : Store} {l : Level} {x : Nat} {H : List Key} {d : Nat} (hh : Hist s x H d) :
    Hist (s ++ [l]) x H d := by
  induction hh with
  | root hl hp => exact Hist.root (by rw [List.getElem?_append_left (List.getElem?_eq_some_iff.mp hl).1]; exact hl) hp
  | child hl hp _ ih =>
    exact Hist.child (by rw [List.getElem?_append_left (List.getElem?_eq_some_iff.mp hl).1]; exact hl) hp ih

theorem wf_push_root {s : Store} (hw : WF s) {ks : List Key} (hn : ks.Nodup) :
    WF (s ++ [newLevel ks]) ∧ Hist (s ++ [newLevel ks]) s.length ks 1 := by
  obtain ⟨hp, ht, hi, hm⟩ := newLevel_spec hn
  have hget : (s ++ [newLevel ks])[s.length]? = some (newLevel ks) := by simp
  have hnew : Hist (s ++ [newLevel ks]) s.length ks 1 := by
    have := Hist.root (s := s ++ [newLevel ks]) hget hp
    rwa [hi] at this
  have inv : ∀ x H d, x < s.length → Hist (s ++ [newLevel ks]) x H d → Hist s x H d := by
    intro x H d hx hh
    obtain ⟨H', d', h', _⟩ := hw.exists_hist x hx
    obtain ⟨e1, e2⟩ := (h'.push_mono (l := newLevel ks)).functional hh
    subst e1; subst e2; exact h'
  refine ⟨?_, hnew⟩
  intro x lx hlx
  have hxl : x < s.length + 1 := by
    have := (List.getElem?_eq_some_iff.mp hlx).1; simpa using this
  by_cases hx : x < s.length
  · rw [List.getElem?_append_left hx] at hlx
    have ok := hw _ _ hlx
    exact {
      parent_lt := ok.parent_lt
      root_tpc := ok.root_tpc
      tpc_le := fun p Hp d' hp' hr => ok.tpc_le p Hp d' hp' (inv p Hp d' (by have := ok.parent_lt p hp'; omega) hr)
      map_ok := ok.map_ok
      nodup := fun H' d' hr => ok.nodup H' d' (inv x H' d' hx hr) }
  · have hxe : x = s.length := by omega
    subst hxe
    rw [hget] at hlx; cases hlx
    exact {
      parent_lt := fun p hp' => by rw [hp] at hp'; cases hp'
      root_tpc := fun _ => ht
      tpc_le := fun p Hp d' hp' _ => by rw [hp] at hp'; cases hp'
      map_ok := fun k i => by rw [hm, ht, hi]; simp
      nodup := fun H' d' hr => by
        obtain ⟨e1, _⟩ := hr.functional hnew
        subst e1; exact hn }

/-! ## the simulation relation -/

structure Rel (m : MState) (sp : SState) : Prop where
  wf : WF m.store
  mlen : m.slots.length = nSlots
  slen : sp.slots.length = nSlots
  none_iff : ∀ i, slotGet m.slots i = none ↔ slotGet sp.slots i = none
  live : ∀ i mh sh, slotGet m.slots i = some mh → slotGet sp.slots i = some sh →
    ∃ H d, Hist m.store mh H d ∧ sp.hists[sh]? = some H
  alias : ∀ i j mh mh' sh sh', slotGet m.slots i = some mh → slotGet m.slots j = some mh' →
    slotGet sp.slots i = some sh → slotGet sp.slots j = some sh' → (mh = mh' ↔ sh = sh')

theorem rel_init : Rel MState.init SState.init := by
  have hw : WF [emptyLevel] := by
    have := (wf_push_root (s := []) (by intro h l hl; simp at hl) (ks := []) (by simp)).1
    simpa [newLevel, newLevelLoop] using this
  have hh : Hist [emptyLevel] 0 [] 1 := Hist.root (l := emptyLevel) rfl rfl
  have hs : ∀ i, slotGet (some 0 :: List.replicate (nSlots - 1) none) i = if i = 0 then some 0 else none := by
    intro i
    unfold slotGet
    cases i with
    | zero => simp
    | succ j =>
      simp only [List.getElem?_cons_succ, Nat.add_eq_zero_iff, Nat.succ_ne_self, and_false, ↓reduceIte]
      rw [List.getElem?_replicate]
      split <;> simp
  refine ⟨hw, by simp [MState.init, nSlots], by simp [SState.init, nSlots], ?_, ?_, ?_⟩
  · intro i; simp only [MState.init, SState.init, hs]
  · intro i mh sh h1 h2
    simp only [MState.init, SState.init, hs] at h1 h2 ⊢
    by_cases e : i = 0
    · simp [e] at h1 h2; subst h1; subst h2; exact ⟨[], 1, hh, by simp⟩
    · simp [e] at h1
  · intro i j mh mh' sh sh' h1 h2 h3 h4
    simp only [MState.init, SState.init, hs] at h1 h2 h3 h4
    by_cases ei : i = 0
    · by_cases ej : j = 0
      · simp [ei, ej] at h1 h2 h3 h4; omega
      · simp [ej] at h2
    · simp [ei] at h1

/-- re-pointing slot `dst` at a related pair of handles, possibly in grown stores -/
theorem Rel.set_slot {m : MState} {sp : SState} (r : Rel m sp) {store' : Store} {hists' : List (List Key)}
    {a b dst : Nat} (hd : dst < nSlots) (hw' : WF store')
    (hold : ∀ i mh sh, slotGet m.slots i = some mh → slotGet sp.slots i = some sh →
      ∃ H d, Hist store' mh H d ∧ hists'[sh]? = some H)
    (hnew : ∃ H d, Hist store' a H d ∧ hists'[b]? = some H)
    (hal : ∀ i mh sh, slotGet m.slots i = some mh → slotGet sp.slots i = some sh → (mh = a ↔ sh = b)) :
    Rel ⟨store', m.slots.set dst (some a)⟩ ⟨hists', sp.slots.set dst (some b)⟩ := by
  have hdm : dst < m.slots.length := by rw [r.mlen]; exact hd
  have hds : dst < sp.slots.length := by rw [r.slen]; exact hd
  refine ⟨hw', by simp [r.mlen], by simp [r.slen], ?_, ?_, ?_⟩
  · intro i
    simp only [slotGet_set hdm, slotGet_set hds]
    split
    · simp
    · exact r.none_iff i
  · intro i mh sh h1 h2
    simp only [slotGet_set hdm, slotGet_set hds] at h1 h2
    by_cases ei : i = dst
    · simp [ei] at h1 h2; subst h1; subst h2; exact hnew
    · simp only [ei, ↓reduceIte] at h1 h2
      exact hold i mh sh h1 h2
  · intro i j mh mh' sh sh' h1 h2 h3 h4
    simp only [slotGet_set hdm, slotGet_set hds] at h1 h2 h3 h4
    by_cases ei : i = dst <;> by_cases ej : j = dst <;> simp only [ei, ej, ↓reduceIte] at h1 h2 h3 h4
    · simp at h1 h2 h3 h4; omega
    · simp at h1 h3; subst h1; subst h3
      have := hal j mh' sh' h2 h4
      constructor
      · intro e; exact (this.mp e.symm).symm
      · intro e; exact (this.mpr e.symm).symm
    · simp at h2 h4; subst h2; subst h4
      exact hal i mh sh h1 h3
    · exact r.alias i j mh mh' sh sh' h1 h2 h3 h4

theorem step_refines {m : MState} {sp : SState} (r : Rel m sp) (op : Op) :
    Rel (m.step op).1 (sp.step op).1 ∧ (m.step op).2 = (sp.step op).2 := by
  cases op with
  | add src index key dst =>
    simp only [MState.step, SState.step]
    by_cases hb : src ≥ nSlots ∨ dst ≥ nSlots
    · simp [hb, r]
    · simp only [hb, ↓reduceIte]
      have hd : dst < nSlots := by omega
      cases hm : slotGet m.slots src with
      | none =>
        have := (r.none_iff src).mp hm
        simp [this, r]
      | some mh =>
        cases hs : slotGet sp.slots src with
        | none => exact absurd ((r.none_iff src).mpr hs) (by simp [hm])
        | some sh =>
          obtain ⟨H, d, hh, hH⟩ := r.live src mh sh hm hs
          have hgetD : sp.hists.getD sh [] = H := by simp [List.getD, hH]
          have hshl : sh < sp.hists.length := (List.getElem?_eq_some_iff.mp hH).1
          have hfuel : d + 4 ≤ driverFuel m.store := by
            have := hh.depth_le r.wf; have := hh.lt_length; simp [driverFuel]; omega
          have main := addValidator_spec r.wf hh index key hfuel
          simp only [hgetD]
          cases ha : Spec.add H index key with
          | noop =>
            rw [ha] at main
            simp only [main]
            refine ⟨?_, by simp⟩
            exact r.set_slot hd r.wf (fun i a b h1 h2 => r.live i a b h1 h2) ⟨H, d, hh, hH⟩
              (fun i a b h1 h2 => r.alias i src a mh b sh h1 hm h2 hs)
          | append =>
            rw [ha] at main
            obtain ⟨s', hr, hw', hl', hh', hpres⟩ := main
            simp only [hr]
            refine ⟨?_, by simp⟩
            refine r.set_slot hd hw' ?_ ⟨_, d, hh', by simp [hshl]⟩
              (fun i a b h1 h2 => r.alias i src a mh b sh h1 hm h2 hs)
            intro i a b h1 h2
            obtain ⟨Hi, di, hhi, hHi⟩ := r.live i a b h1 h2
            by_cases e : a = mh
            · have eb : b = sh := (r.alias i src a mh b sh h1 hm h2 hs).mp e
              subst e; subst eb
              obtain ⟨e1, e2⟩ := hhi.functional hh
              subst e1; subst e2
              exact ⟨_, _, hh', by simp [hshl]⟩
            · have eb : b ≠ sh := fun c => e ((r.alias i src a mh b sh h1 hm h2 hs).mpr c)
              exact ⟨Hi, di, hpres a Hi di e hhi, by rw [List.getElem?_set]; simp [Ne.symm eb]; exact hHi⟩
          | fork H' =>
            rw [ha] at main
            obtain ⟨s', h', d', hr, hw', hge, _, hh', _, hpres⟩ := main
            simp only [hr]
            have hne : h' ≠ mh := by have := hh.lt_length; omega
            refine ⟨?_, by simp [hne]⟩
            refine r.set_slot hd hw' ?_ ⟨H', d', hh', by simp⟩ ?_
            · intro i a b h1 h2
              obtain ⟨Hi, di, hhi, hHi⟩ := r.live i a b h1 h2
              exact ⟨Hi, di, hpres a Hi di hhi, by
                rw [List.getElem?_append_left (List.getElem?_eq_some_iff.mp hHi).1]; exact hHi⟩
            · intro i a b h1 h2
              obtain ⟨Hi, di, hhi, hHi⟩ := r.live i a b h1 h2
              have := hhi.lt_length
              have := (List.getElem?_eq_some_iff.mp hHi).1
              constructor <;> intro <;> omega
          | err =>
            rw [ha] at main
            obtain ⟨s', hr⟩ := main
            simp only [hr]
            exact ⟨r, trivial⟩
  | init dst keys =>
    simp only [MState.step, SState.step]
    by_cases hb : dst ≥ nSlots ∨ ¬ keys.Nodup
    · simp [hb, r]
    · simp only [hb, ↓reduceIte]
      have hd : dst < nSlots := by omega
      have hn : keys.Nodup := by
        by_cases c : keys.Nodup
        · exact c
        · exact absurd (Or.inr c) hb
      obtain ⟨hw', hh'⟩ := wf_push_root r.wf hn
      refine ⟨?_, trivial⟩
      refine r.set_slot hd hw' ?_ ⟨keys, 1, hh', by simp⟩ ?_
      · intro i a b h1 h2
        obtain ⟨Hi, di, hhi, hHi⟩ := r.live i a b h1 h2
        exact ⟨Hi, di, hhi.push_mono, by
          rw [List.getElem?_append_left (List.getElem?_eq_some_iff.mp hHi).1]; exact hHi⟩
      · intro i a b h1 h2
        obtain ⟨Hi, di, hhi, hHi⟩ := r.live i a b h1 h2
        have := hhi.lt_length
        have := (List.getElem?_eq_some_iff.mp hHi).1
        constructor <;> intro <;> omega
  | pub h index =>
    simp only [MState.step, SState.step]
    by_cases hb : h ≥ nSlots
    · simp [hb, r]
    · simp only [hb, ↓reduceIte]
      cases hm : slotGet m.slots h with
      | none => have := (r.none_iff h).mp hm; simp [this, r]
      | some mh =>
        cases hs : slotGet sp.slots h with
        | none => exact absurd ((r.none_iff h).mpr hs) (by simp [hm])
        | some sh =>
          obtain ⟨H, d, hh, hH⟩ := r.live h mh sh hm hs
          have hgetD : sp.hists.getD sh [] = H := by simp [List.getD, hH]
          have hfuel : d ≤ driverFuel m.store := by
            have := hh.depth_le r.wf; have := hh.lt_length; simp [driverFuel]; omega
          refine ⟨r, ?_⟩
          simp only [pubkey_eq r.wf hh _ hfuel, hgetD, Spec.pubkey]
          cases H[index]? <;> rfl
  | idx h key =>
    simp only [MState.step, SState.step]
    by_cases hb : h ≥ nSlots
    · simp [hb, r]
    · simp only [hb, ↓reduceIte]
      cases hm : slotGet m.slots h with
      | none => have := (r.none_iff h).mp hm; simp [this, r]
      | some mh =>
        cases hs : slotGet sp.slots h with
        | none => exact absurd ((r.none_iff h).mpr hs) (by simp [hm])
        | some sh =>
          obtain ⟨H, d, hh, hH⟩ := r.live h mh sh hm hs
          have hgetD : sp.hists.getD sh [] = H := by simp [List.getD, hH]
          have hfuel : d ≤ driverFuel m.store := by
            have := hh.depth_le r.wf; have := hh.lt_length; simp [driverFuel]; omega
          refine ⟨r, ?_⟩
          simp only [validatorIndex_eq r.wf hh _ hfuel, hgetD, Spec.validatorIndex]
          cases H.idxOf? key <;> rfl

theorem run_refines {m : MState} {sp : SState} (r : Rel m sp) (ops : List Op) :
    Rel (m.run ops).1 (sp.run ops).1 ∧ (m.run ops).2 = (sp.run ops).2 := by
  induction ops generalizing m sp with
  | nil => exact ⟨r, rfl⟩
  | cons op rest ih =>
    obtain ⟨r1, e1⟩ := step_refines r op
    obtain ⟨r2, e2⟩ := ih r1
    simp only [MState.run, SState.run]
    exact ⟨r2, by rw [e1, e2]⟩

end Zrnt.PubkeyCache
