import Zrnt.Gossip.Spec
/-! Helper lemmas for C12 (gossip validation): `UInt64` ↔ `Nat` bridges used by the property theorems. -/
namespace Zrnt.Proofs.GossipLemmas
open Zrnt Zrnt.Gossip

theorem mod_beq_zero (a b : UInt64) : (a % b == 0) = (a.toNat % b.toNat == 0) := by
  have : (a % b == 0) = decide ((a % b).toNat = 0) := by
    rw [Bool.eq_iff_iff]; simp [← UInt64.toNat_inj]
  rw [this, UInt64.toNat_mod]
  by_cases h : a.toNat % b.toNat = 0 <;> simp [h]

theorem any_congr_mem {α} (l : List α) (p q : α → Bool) (h : ∀ a ∈ l, p a = q a) : l.any p = l.any q := by
  induction l with
  | nil => rfl
  | cons a t ih =>
    simp only [List.any_cons]
    rw [h a (List.mem_cons_self), ih (fun b hb => h b (List.mem_cons_of_mem _ hb))]

theorem toNat_pos_of_ne_zero (a : UInt64) (h : a ≠ 0) : 0 < a.toNat := by
  rcases Nat.eq_zero_or_pos a.toNat with h0 | h0
  · exact absurd (UInt64.toNat_inj.mp (by rw [h0]; rfl)) h
  · exact h0

end Zrnt.Proofs.GossipLemmas
