import Zrnt.Gossip.Spec
/-! Helper lemmas for C12 (gossip validation): `UInt64` ↔ `Nat` bridges used by the property theorems. -/
namespace Zrnt.Proofs.GossipLemmas
open Zrnt Zrnt.Gossip

theorem mod_beq_zero (a b : UInt64) : (a % b == 0) = (a.toNat % b.toNat == 0) := by
  have : (a % b == 0) = decide ((a % b).toNat = 0) := by
    rw [Bool.eq_iff_iff]; simp [← UInt64.toNat_inj]
  rw [this, UInt64.toNat_mod]
  by_cases h : a.toNat % b.toNat = 0 <;> simp [h]

theorem any_congr_mem {α} (l : List α) (p q : α → Bool) (h : ∀ a ∈ l, p a = q a) : l.any p = l.any q := by
  induction l with
  | nil => rfl
  | cons a t ih =>
    simp only [List.any_cons]
    rw [h a (List.mem_cons_self), ih (fun b hb => h b (List.mem_cons_of_mem _ hb))]

theorem toNat_pos_of_ne_zero (a : UInt64) (h : a ≠ 0) : 0 < a.toNat := by
  rcases Nat.eq_zero_or_pos a.toNat with h0 | h0
  · exact absurd (UInt64.toNat_inj.mp (by rw [h0]; rfl)) h
  · exact h0

theorem beq_toNat (a b : UInt64) : (a == b) = (a.toNat == b.toNat) := by
  by_cases h : a = b
  · subst h; simp
  · have : a.toNat ≠ b.toNat := fun e => h (UInt64.toNat_inj.mp e)
    have h1 : (a == b) = false := by simpa using h
    have h2 : (a.toNat == b.toNat) = false := by simpa using this
    rw [h1, h2]

theorem bne_toNat (a b : UInt64) : (a != b) = (a.toNat != b.toNat) := by
  unfold bne; rw [beq_toNat]

open Zrnt.Gen.GoFuns in
/-- Go: `s, _ := spec.EpochStartSlot(e)` is `e * SLOTS_PER_EPOCH` when that fits 64 bits -/
theorem epochStartSlotOr0_toNat (spe e : UInt64) (hspe : spe ≠ 0) (hov : e.toNat * spe.toNat < 2 ^ 64) :
    (epochStartSlotOr0 spe e).toNat = e.toNat * spe.toNat := by
  have hpos := toNat_pos_of_ne_zero spe hspe
  unfold epochStartSlotOr0 EpochStartSlot SlotToEpoch specOf Res.udiv
  have hmul : (e * spe).toNat = e.toNat * spe.toNat := by
    rw [UInt64.toNat_mul]; exact Nat.mod_eq_of_lt hov
  have hdiv : e * spe / spe = e := by
    apply UInt64.toNat_inj.mp
    rw [UInt64.toNat_div, hmul, Nat.mul_div_cancel _ hpos]
  simp [hspe, hdiv, hmul]

open Zrnt.Gen.GoFuns in
/-- `spec.EpochStartSlot(e)` succeeds exactly when `e * SLOTS_PER_EPOCH` fits 64 bits -/
theorem epochStartSlot_ok_iff (spe e : UInt64) (hspe : spe ≠ 0) :
    (∃ s, EpochStartSlot (specOf spe) e = .ok s) ↔ e.toNat * spe.toNat < 2 ^ 64 := by
  have hpos := toNat_pos_of_ne_zero spe hspe
  unfold EpochStartSlot SlotToEpoch specOf Res.udiv
  simp only [hspe, if_false, Res.bind_ok]
  constructor
  · rintro ⟨s, hs⟩
    by_cases hne : e = e * spe / spe
    · -- no wrap: (e*spe mod 2^64)/spe = e forces e*spe < 2^64
      have h1 := congrArg UInt64.toNat hne
      rw [UInt64.toNat_div, UInt64.toNat_mul] at h1
      rcases Nat.lt_or_ge (e.toNat * spe.toNat) (2 ^ 64) with h | h
      · exact h
      · exfalso
        have hlt : e.toNat * spe.toNat % 2 ^ 64 < e.toNat * spe.toNat := by
          have := Nat.mod_lt (e.toNat * spe.toNat) (by decide : 0 < 2 ^ 64); omega
        have : e.toNat * spe.toNat % 2 ^ 64 / spe.toNat < e.toNat := by
          apply Nat.div_lt_of_lt_mul; rw [Nat.mul_comm spe.toNat e.toNat]; exact hlt
        omega
    · simp [hne] at hs
  · intro hov
    have hmul : (e * spe).toNat = e.toNat * spe.toNat := by
      rw [UInt64.toNat_mul]; exact Nat.mod_eq_of_lt hov
    have hdiv : e * spe / spe = e := by
      apply UInt64.toNat_inj.mp
      rw [UInt64.toNat_div, hmul, Nat.mul_div_cancel _ hpos]
    exact ⟨e * spe, by simp [hdiv]⟩

theorem allHold_mem {cs : List Cond} (h : allHold cs = true) {c : Cond} (hc : c ∈ cs) : c.holds = true := by
  unfold allHold at h
  exact (List.all_eq_true.mp h) c hc

end Zrnt.Proofs.GossipLemmas

namespace Zrnt.Proofs.GossipLemmas
open Zrnt Zrnt.Gossip

theorem finCheck_some {b : Bool} {f : Tri} {fe te : UInt64} {q : List String} {o : Out}
    (h : finCheck b f fe te q = some o) : o = ign q := by
  unfold finCheck at h
  split at h
  · split at h <;> simp_all
  · split at h <;> simp_all

theorem finCheck_none_iff (b : Bool) (f : Tri) (fe te : UInt64) (q : List String) :
    finCheck b f fe te q = none ↔ ((b = false ∧ f = .yes) ∨ (b = true ∧ fe.toNat ≤ te.toNat)) := by
  unfold finCheck
  cases b <;> cases f <;> simp [UInt64.lt_iff_toNat_lt, Nat.not_lt]

theorem finCheck_some_cond {b : Bool} {f : Tri} {fe te : UInt64} {q : List String} {o : Out}
    (h : finCheck b f fe te q = some o) : ¬ ((b = false ∧ f = .yes) ∨ (b = true ∧ fe.toNat ≤ te.toNat)) := by
  intro hc
  rw [(finCheck_none_iff b f fe te q).mpr hc] at h
  cases h

theorem div_mono_not_lt (a b s : Nat) : a < b → ¬ (b / s < a / s) := by
  intro hlt hgt
  have := Nat.div_le_div_right (c := s) (Nat.le_of_lt hlt)
  omega

/-- normal form for the C12 case analyses: unfold verdict constructors and the condition-list combinators,
turn every `UInt64` comparison into a `Nat` comparison -/
macro "gossip_norm" : tactic => `(tactic|
  simp (config := {zetaDelta := true}) only [ign, rej, acc, allHold, onlyTimingFails, Spec.I, Spec.R, Spec.L,
    List.all_cons, List.all_nil, ge_iff_le, gt_iff_lt, UInt64.lt_iff_toNat_lt, UInt64.le_iff_toNat_le,
    beq_toNat, bne_toNat, Spec.startSlot, Spec.epochAt, epochOf, UInt64.toNat_div] at *)

end Zrnt.Proofs.GossipLemmas
