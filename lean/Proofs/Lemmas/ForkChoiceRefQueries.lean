import Proofs.Lemmas.ForkChoiceSimBase
/-!
# Fork choice (C11): the navigation queries `ClosestToSlot` and `CanonicalChain` refine the specification

For a related pair `Ref fc a` with the invariants `FI fc`:

* `closest_refines`: the specification's linear scan `Abs.closest` answers as the model's map lookup + binary
  search `PA.closestToSlot` (through `closestToSlot_eq_linear`; both return the greatest slot `≤ slot` with a node).
* `chain_refines`: on a settled state (`LI`, every vote applied) `PA.canonicalChain` — `findHead`, then `chainWalk`
  along transition-parent INDICES from the head to the anchor — leaves a related state and answers as
  `Abs.chain` — `headFrom`, then `walkBack` along transition-parent REFERENCES.

The corner of `chain_refines`: when the anchor is not a transition-ancestor-or-self of the start node the two walks
differ (`chainWalk` runs until `tparent = none` and returns the whole list, `walkBack` returns `none`, i.e. an
error; see the `example` after `RefQ.walk_eq`). This never happens for a head found from that anchor: the head is the
anchor or its best descendant, a fork-choice descendant (`WF.bd_desc`), and a fork-choice ancestor is a transition
ancestor (`tanc_of_anc`, from `Chain`); `RefQ.findHead_anc` proves it, so `chain_refines` needs no extra hypothesis.

Auxiliary lemmas carry the prefix `RefQ.` (namespace `Zrnt.ForkChoice.RefQ`).
-/
namespace Zrnt.ForkChoice
open Spec

/-! ## 1. `ClosestToSlot` -/

/-- the last element of the filtered range is the greatest index that passes -/
theorem RefQ.getLast_filter_range (p : Nat → Bool) (r : Nat) (hr : p r = true) :
    ∀ n, r ≤ n → (∀ s, r < s → s ≤ n → p s = false) →
      ((List.range (n + 1)).filter p).getLast? = some r := by
  intro n
  induction n with
  | zero =>
    intro h _
    have : r = 0 := by omega
    subst this
    simp [List.range_succ, hr]
  | succ n ih =>
    intro h hs
    rw [List.range_succ, List.filter_append]
    by_cases e : r = n + 1
    · subst e
      simp [hr]
    · have hf : p (n + 1) = false := hs (n + 1) (by omega) (Nat.le_refl _)
      simp only [List.filter_cons, hf, List.filter_nil, Bool.false_eq_true, if_false, List.append_nil]
      exact ih (by omega) (fun s h1 h2 => hs s h1 (by omega))

theorem RefQ.le_foldl_max : ∀ (l : List Nat) (m : Nat), m ≤ l.foldl max m ∧ ∀ x ∈ l, x ≤ l.foldl max m := by
  intro l
  induction l with
  | nil => intro m; exact ⟨Nat.le_refl _, fun x hx => by cases hx⟩
  | cons y t ih =>
    intro m
    obtain ⟨h1, h2⟩ := ih (max m y)
    refine ⟨Nat.le_trans (Nat.le_max_left m y) h1, fun x hx => ?_⟩
    rcases List.mem_cons.mp hx with e | hx
    · subst e; exact Nat.le_trans (Nat.le_max_right m x) h1
    · exact h2 x hx

/-- no node lies above `maxSlot` -/
theorem RefQ.has_le_maxSlot (a : Abs) (ref : NodeRef) (h : a.has ref = true) : ref.slot ≤ a.maxSlot := by
  unfold Abs.has Abs.find at h
  cases hf : a.nodes.find? (fun n => n.ref = ref) with
  | none => rw [hf] at h; cases h
  | some n =>
    have hm := List.mem_of_find?_eq_some hf
    have he : n.ref = ref := by simpa using List.find?_some hf
    unfold Abs.maxSlot
    rw [← he]
    exact (RefQ.le_foldl_max _ 0).2 _ (List.mem_map.mpr ⟨n, hm, rfl⟩)

/-- **`ClosestToSlot` refines the specification's linear scan** (value or error). -/
theorem closest_refines (fc : FC) (a : Abs) (I : FI fc) (r : Ref fc a) (root : Root) (slot : Nat) :
    a.closest root slot =
      (match fc.pa.closestToSlot root slot with | some ref => Ans.ref ref | none => Ans.err) := by
  rw [closestToSlot_eq_linear fc.pa (contig_of_chain I.wf I.chain) I.wf.bs_node]
  unfold Abs.closest closestLinear
  rw [has_iff I.wf r, firstSlot_eq I.wf I.chain r]
  show (if hasRef fc.pa root slot = true then _ else _) = _
  by_cases hs : hasRef fc.pa root slot = true
  · simp only [hs, if_true]
  · simp only [hs, Bool.false_eq_true, if_false]
    cases hb : aGet fc.pa.blockSlots root with
    | none => rfl
    | some s0 =>
      simp only
      by_cases hgt : s0 > slot
      · simp only [hgt, if_true]
      · simp only [hgt, if_false]
        have h0 : hasRef fc.pa root s0 = true := I.wf.bs_node root s0 hb
        obtain ⟨b1, b2, b3, b4⟩ := scanDown_spec fc.pa root s0 h0 (slot - s0)
        have hp : (fun s => a.has ⟨s, root⟩) = hasRef fc.pa root := by
          funext s; rw [has_iff I.wf r]; rfl
        have hmax : scanDown fc.pa root s0 (slot - s0) ≤ a.maxSlot := by
          have hh : a.has ⟨scanDown fc.pa root s0 (slot - s0), root⟩ = true := by rw [has_iff I.wf r]; exact b3
          exact RefQ.has_le_maxSlot a _ hh
        rw [hp, RefQ.getLast_filter_range (hasRef fc.pa root) _ b3 (min slot a.maxSlot) (by omega)
          (fun s h1 h2 => b4 s h1 (by omega))]
/-! ## 2. `CanonicalChain` -/

/-- a head returned by `findHeadStep` is the anchor or a fork-choice descendant of it -/
theorem RefQ.findHeadStep_anc (q : PA) (h : WF q) (root : Root) (slot : Nat) {s : PA} {ref : NodeRef}
    (e : findHeadStep q root slot = .ok s ref) :
    s = q ∧ ∃ ai hi, aGet q.indices ⟨slot, root⟩ = some ai ∧ aGet q.indices ref = some hi ∧
      anc q.nodes ai hi = true := by
  unfold findHeadStep at e
  cases h1 : aGet q.indices ⟨slot, root⟩ with
  | none => rw [h1] at e; cases e
  | some ai =>
    rw [h1] at e
    simp only [getNode_eq h] at e
    cases h2 : q.nodes[ai]? with
    | none => rw [h2] at e; cases e
    | some an =>
      rw [h2] at e
      simp only at e
      cases h3 : q.nodes[an.bestDesc.getD ai]? with
      | none => rw [h3] at e; cases e
      | some bn =>
        rw [h3] at e
        simp only at e
        split at e
        · cases e
          refine ⟨rfl, ai, an.bestDesc.getD ai, rfl, h.idx_complete _ _ h3, ?_⟩
          cases hd : an.bestDesc with
          | none => exact anc_self _ _
          | some d => exact (h.bd_desc ai an d h2 hd).2.2
        · cases e

/-- `findHead` returns a well-formed, framed state, and its head is a fork-choice descendant-or-self of the anchor -/
theorem RefQ.findHead_anc (pr : PA) (h : WF pr) (root : Root) (slot : Nat) {s : PA} {ref : NodeRef}
    (e : pr.findHead root slot = .ok s ref) :
    WF s ∧ Frame pr s ∧ ∃ ai hi, aGet s.indices ⟨slot, root⟩ = some ai ∧ aGet s.indices ref = some hi ∧
      anc s.nodes ai hi = true := by
  rw [findHead_eq] at e
  cases hu : pr.updated with
  | true =>
    rw [hu] at e
    simp only [if_true] at e
    obtain ⟨e1, h2⟩ := RefQ.findHeadStep_anc pr h root slot e
    subst e1
    exact ⟨h, Frame.refl _, h2⟩
  | false =>
    rw [hu] at e
    obtain ⟨pr1, hc, hw1, _, hf1⟩ := wf_updateConnections pr h
    simp only [Bool.false_eq_true, if_false, hc] at e
    obtain ⟨e1, h2⟩ := RefQ.findHeadStep_anc pr1 hw1 root slot e
    subst e1
    exact ⟨hw1, hf1, h2⟩

/-- the two walks agree whenever the anchor (index `ai`) is a transition-ancestor-or-self of the start index `i`:
`chainWalk` appends to `acc` exactly the `(ref, parentRoot)` pairs of `walkBack`'s list, for any fuels above `i` -/
theorem RefQ.walk_eq {fc : FC} {a : Abs} (h : WF fc.pa) (r : Ref fc a) {ai : Nat} {na : Node}
    (hna : fc.pa.nodes[ai]? = some na) :
    ∀ (f1 f2 i : Nat) (n : Node) (acc : List (NodeRef × Root)), fc.pa.nodes[i]? = some n → i < f1 → i < f2 →
      PReach (tpar fc.pa.nodes) ai i →
      ∃ l, a.walkBack na.ref f1 n.ref = some l ∧
        fc.pa.chainWalk ai f2 (some i) acc = some (acc ++ l.map (fun n => (n.ref, n.parentRoot))) := by
  intro f1
  induction f1 with
  | zero => intro f2 i n acc _ h1; omega
  | succ k ih =>
    intro f2 i n acc hn h1 h2 hr
    cases f2 with
    | zero => omega
    | succ m =>
      simp only [Abs.walkBack, PA.chainWalk, find_node h r hn, getNode_eq h, hn, h.off, Nat.not_lt_zero, if_false]
      by_cases e : i = ai
      · subst e
        rw [hna] at hn; cases hn
        exact ⟨[absNode fc.pa.nodes na], by simp, by simp [absNode_ref]; rfl⟩
      · have hne : ¬ n.ref = na.ref := fun e' => e (h.ref_inj hn hna e')
        simp only [hne, e, if_false]
        cases hr with
        | refl => exact absurd rfl e
        | @step _ p hp hr' =>
          rw [tpar_of_node hn] at hp
          obtain ⟨np, hnp, et⟩ := absNode_tparent_of h hn hp
          have hlt := h.tpar_lt i n p hn hp
          obtain ⟨l, hl1, hl2⟩ := ih m p np (acc ++ [(n.ref, n.parentRoot)]) hnp (by omega) (by omega) hr'
          refine ⟨absNode fc.pa.nodes n :: l, ?_, ?_⟩
          · rw [et]; simp only [hl1]; rfl
          · rw [hp]; simp only [hl2, List.map_cons, List.append_assoc]; rfl

/-- the corner: anchor index 2 `(root 2, slot 1)` is not a transition ancestor of index 1 `(root 1, slot 1)`;
`chainWalk` returns the whole path to the root of the array, `walkBack` fails -/
example : refExFC2.pa.chainWalk 2 2 (some 1) [] = some [(⟨1, 1⟩, 1), (⟨0, 1⟩, 0)] ∧
    refExAbs2.walkBack ⟨1, 2⟩ refExAbs2.fuel ⟨1, 1⟩ = none ∧ tanc refExFC2.pa.nodes 2 1 = false := by decide

/-- **`CanonicalChain` refines the specification's walk** (state stays related; value or error). -/
theorem chain_refines (fc : FC) (a : Abs) (I : FI fc) (r : Ref fc a) (hl : LI fc.pa)
    (hset : ∀ v ∈ fc.votes, v.cur = v.next) (root : Root) (slot : Nat) :
    match fc.pa.canonicalChain root slot with
    | .ok s l => Ref { fc with pa := s } a ∧ a.chain root slot = Ans.chain l
    | .err s => Ref { fc with pa := s } a ∧ a.chain root slot = Ans.err
    | _ => False := by
  have hs := findHead_sim fc a I hl r hset root slot
  unfold PA.canonicalChain
  cases hq : fc.pa.findHead root slot with
  | ok s ref =>
    rw [hq] at hs
    obtain ⟨r', hh⟩ := hs
    obtain ⟨hw, hf, ai, hi, h1, h2, h3⟩ := RefQ.findHead_anc fc.pa I.wf root slot hq
    have I' : FI { fc with pa := s } := PInv.frame I hw hf
    obtain ⟨na, hna, ena⟩ := hw.idx_sound _ _ h1
    obtain ⟨nh, hnh, enh⟩ := hw.idx_sound _ _ h2
    have ht := (tanc_iff_reach _ hw.tpar_lt2 ai hi).1 (tanc_of_anc hw I'.chain h3)
    have hlen : hi < s.nodes.length := (List.getElem?_eq_some_iff.1 hnh).1
    obtain ⟨l, hl1, hl2⟩ := RefQ.walk_eq (fc := { fc with pa := s }) hw r' hna a.fuel (hi + 1) hi nh [] hnh
      (by rw [fuel_eq r']; exact Nat.lt_succ_of_lt hlen) (Nat.lt_succ_self hi) ht
    rw [ena, enh] at hl1
    simp only [h1, h2, Option.getD_some]
    have hl2' : s.chainWalk ai (hi + 1) (some hi) [] = some (l.map (fun n => (n.ref, n.parentRoot))) := by
      simpa using hl2
    rw [hl2']
    refine ⟨r', ?_⟩
    unfold Abs.chain
    rw [hh]
    simp only [hl1]
  | err s =>
    rw [hq] at hs
    refine ⟨hs.1, ?_⟩
    unfold Abs.chain
    rw [hs.2]
  | panic => rw [hq] at hs; exact hs.elim
  | spin => rw [hq] at hs; exact hs.elim

/-! ## non-vacuity -/

theorem RefQ.refEx2_fi : FI refExFC2 :=
  ⟨refEx2_ok.1, refEx2_ok.2, (by show aGet refExFC2.pa.indices NodeRef.zero = none; decide),
   (by
    intro i n hn
    have key : ∀ i ∈ List.range refExFC2.pa.nodes.length,
        (refExFC2.pa.nodes[i]?).map (·.weight) = some (wsum refExFC2.pa refExFC2.votes refExFC2.balances i) := by
      decide
    have := key i (List.mem_range.2 (List.getElem?_eq_some_iff.1 hn).1)
    rw [hn] at this
    exact Option.some.inj this)⟩

theorem RefQ.refEx2_li : LI refExFC2.pa := fun hu => absurd hu (by decide)

/-- the hypotheses of `closest_refines` and `chain_refines` hold together -/
example : FI refExFC2 ∧ Ref refExFC2 refExAbs2 ∧ LI refExFC2.pa ∧ (∀ v ∈ refExFC2.votes, v.cur = v.next) :=
  ⟨RefQ.refEx2_fi, refEx2_ref, RefQ.refEx2_li, fun v hv => by cases hv⟩

/-- both sides of `closest_refines` on the instance (nodes `0:(1,0) 1:(1,1) 2:(2,1)`): an exact hit, the greatest
slot below, a slot before the first one, an unknown root -/
example :
    refExAbs2.closest 1 1 = .ref ⟨1, 1⟩ ∧ refExFC2.pa.closestToSlot 1 1 = some ⟨1, 1⟩ ∧
    refExAbs2.closest 1 7 = .ref ⟨1, 1⟩ ∧ refExFC2.pa.closestToSlot 1 7 = some ⟨1, 1⟩ ∧
    refExAbs2.closest 2 0 = .err ∧ refExFC2.pa.closestToSlot 2 0 = none ∧
    refExAbs2.closest 9 3 = .err ∧ refExFC2.pa.closestToSlot 9 3 = none := by decide

/-- both sides of `chain_refines` on the instance: from the anchor the head is `(root 2, slot 1)` (tie, greater
root) and the chain runs back through the empty-slot node `(root 1, slot 1)`; an unknown anchor is an error -/
example :
    refExAbs2.chain 1 0 = .chain [(⟨1, 2⟩, 1), (⟨1, 1⟩, 1), (⟨0, 1⟩, 0)] ∧
    (match refExFC2.pa.canonicalChain 1 0 with | .ok _ l => some l | _ => none) =
      some [(⟨1, 2⟩, 1), (⟨1, 1⟩, 1), (⟨0, 1⟩, 0)] ∧
    refExAbs2.chain 1 1 = .chain [(⟨1, 1⟩, 1)] ∧
    (match refExFC2.pa.canonicalChain 1 1 with | .ok _ l => some l | _ => none) = some [(⟨1, 1⟩, 1)] ∧
    refExAbs2.chain 9 3 = .err ∧
    (match refExFC2.pa.canonicalChain 9 3 with | .err _ => true | _ => false) = true := by decide

/-- … as the theorems say -/
example (root : Root) (slot : Nat) :
    refExAbs2.closest root slot =
      (match refExFC2.pa.closestToSlot root slot with | some ref => Ans.ref ref | none => Ans.err) :=
  closest_refines refExFC2 refExAbs2 RefQ.refEx2_fi refEx2_ref root slot

example (root : Root) (slot : Nat) :
    match refExFC2.pa.canonicalChain root slot with
    | .ok s l => Ref { refExFC2 with pa := s } refExAbs2 ∧ refExAbs2.chain root slot = Ans.chain l
    | .err s => Ref { refExFC2 with pa := s } refExAbs2 ∧ refExAbs2.chain root slot = Ans.err
    | _ => False :=
  chain_refines refExFC2 refExAbs2 RefQ.refEx2_fi refEx2_ref RefQ.refEx2_li (fun v hv => by cases hv) root slot

end Zrnt.ForkChoice
