import Proofs.Lemmas.ForkChoiceW0Links
import Proofs.Lemmas.ForkChoiceDeltas
/-! Every proto-array query on an array satisfying the weak invariant `WF0`: returns without panic or endless loop
and keeps `WF0`. (Port of the `WF` development in ForkChoiceChain/ForkChoiceOps/ForkChoiceDeltas; written against the
current model.) -/
namespace Zrnt.ForkChoice
namespace W0

/-- `ComputeDeltas` never indexes outside the delta vector, which has one entry per node -/
theorem computeDeltas_ok (pr : PA) (h : WF0 pr) (votes : List Vote) (oldB newB : List Nat) :
    ∃ ds vs', computeDeltas pr.indices votes oldB newB = some (ds, vs') ∧
      ds.length = pr.nodes.length ∧ vs'.length = votes.length := by
  unfold computeDeltas
  apply computeDeltasLoop_ok pr.indices pr.nodes.length
  · intro r i hi
    exact h.idx_lt hi
  · simp [h.len]

/-- the walk never leaves the array -/
theorem subWalk_some {pr : PA} (h : WF0 pr) (a : Nat) (best : Option Idx) :
    ∀ fuel oi, (∀ i, oi = some i → i < pr.nodes.length) → ∃ b, pr.subWalk a best fuel oi = some b := by
  intro fuel
  induction fuel with
  | zero => intro oi _; exact ⟨false, rfl⟩
  | succ f ih =>
    intro oi hoi
    cases oi with
    | none => exact ⟨false, rfl⟩
    | some i =>
      have hi := hoi i rfl
      obtain ⟨n, hn⟩ : ∃ n, pr.nodes[i]? = some n := ⟨pr.nodes[i], List.getElem?_eq_getElem hi⟩
      simp only [PA.subWalk, hn]
      split
      · exact ⟨_, rfl⟩
      · split
        · exact ⟨_, rfl⟩
        · split
          · exact ⟨_, rfl⟩
          · exact ih n.tparent (fun p hp => by have := h.tpar_lt i n p hn hp; omega)

/-- the walk cannot run out of fuel: indices strictly decrease -/
theorem subSpins_false {pr : PA} (h : WF0 pr) (a : Nat) (best : Option Idx) :
    ∀ fuel oi, (∀ i, oi = some i → i < fuel) → pr.subSpins a best fuel oi = false := by
  intro fuel
  induction fuel with
  | zero =>
    intro oi hoi
    cases oi with
    | none => rfl
    | some i => have := hoi i rfl; omega
  | succ f ih =>
    intro oi hoi
    cases oi with
    | none => rfl
    | some i =>
      have hi := hoi i rfl
      simp only [PA.subSpins]
      split
      · rfl
      · split
        · rfl
        · split
          · rfl
          next tmp htmp =>
          split
          · rfl
          · exact ih tmp.tparent (fun p hp => by have := h.tpar_lt i tmp p htmp hp; omega)

/-- `inSubtree` on indices always returns -/
theorem inSubtreeSpins_false (pr : PA) (h : WF0 pr) (a l : Nat) : pr.inSubtreeSpins a l = false := by
  unfold PA.inSubtreeSpins
  split
  · rfl
  · rw [getNode_eq h, getNode_eq h]
    split
    next na nl hna hnl =>
      split
      · rfl
      · split
        · rfl
        · split
          · rfl
          · exact subSpins_false h a na.bestDesc _ _
              (fun p hp => by have := h.tpar_lt l nl p hnl hp; omega)
    · rfl

theorem inSubtreeIdx_some {pr : PA} (h : WF0 pr) (a l : Nat) : ∃ r, pr.inSubtreeIdx a l = some r := by
  unfold PA.inSubtreeIdx
  by_cases hal : a = l
  · simp [hal]
  · simp only [hal, if_false]
    rw [getNode_eq h, getNode_eq h]
    cases hna : pr.nodes[a]? with
    | none => exact ⟨_, rfl⟩
    | some na =>
      cases hnl : pr.nodes[l]? with
      | none => exact ⟨_, rfl⟩
      | some nl =>
        simp only
        obtain ⟨b, hb⟩ := subWalk_some h a na.bestDesc (l + 1 + pr.nodes.length) nl.tparent
          (fun i hi => h.tpar_valid hnl i hi)
        rw [hb]
        repeat' split
        all_goals first | exact ⟨_, rfl⟩ | simp_all

/-- `InSubtree`: returns, keeps `WF0`, changes only links/flag -/
theorem inSubtree_wf (pr : PA) (h : WF0 pr) (a r : Root) :
    ∃ pr' res, pr.inSubtree a r = .ok pr' res ∧ WF0 pr' ∧ Frame pr pr' := by
  unfold PA.inSubtree
  split
  · split <;> exact ⟨pr, _, rfl, h, Frame.refl pr⟩
  · have step : ∀ (q : PA), WF0 q → Frame pr q → ∃ pr' res,
        (match aGet q.blockSlots a with
          | none => POut.ok q (true, false)
          | some anchorSlot =>
            match aGet q.indices ⟨anchorSlot, a⟩ with
            | none => POut.ok q (true, false)
            | some anchorIndex =>
              match aGet q.blockSlots r with
              | none => POut.ok q (true, false)
              | some slot =>
                match aGet q.indices ⟨slot, r⟩ with
                | none => POut.ok q (true, false)
                | some lookupIndex =>
                  if q.inSubtreeSpins anchorIndex lookupIndex then POut.spin else
                  match q.inSubtreeIdx anchorIndex lookupIndex with
                  | none => POut.panic
                  | some r => POut.ok q r) = .ok pr' res ∧ WF0 pr' ∧ Frame pr pr' := by
      intro q hq fq
      repeat' split
      all_goals (try exact ⟨q, _, rfl, hq, fq⟩)
      · rename_i hs; rw [inSubtreeSpins_false q hq] at hs; exact absurd hs (by simp)
      · rename_i hnone
        obtain ⟨x, hx⟩ := inSubtreeIdx_some hq _ _
        rw [hx] at hnone; exact absurd hnone (by simp)
    split
    · exact step pr h (Frame.refl pr)
    · obtain ⟨pr1, h1, hw1, _, hf1⟩ := wf_updateConnections pr h
      rw [h1]
      exact step pr1 hw1 hf1

/-- a call returned (value or error) with an array satisfying `WF0` that differs from the old one only in weights,
links, epochs and the `updated` flag -/
def Good {α : Type} (pr : PA) (r : POut PA α) : Prop :=
  match r with
  | .ok s _ => WF0 s ∧ FrameS pr s
  | .err s => WF0 s ∧ FrameS pr s
  | .panic => False
  | .spin => False

theorem good_findHead (pr : PA) (h : WF0 pr) (root : Root) (slot : Nat) : Good pr (pr.findHead root slot) := by
  rcases wf_findHead pr h root slot with ⟨pr', r, e, hw, hf, _⟩ | ⟨pr', e, hw, hf⟩
  · rw [e]; exact ⟨hw, hf⟩
  · rw [e]; exact ⟨hw, hf⟩

theorem good_inSubtree (pr : PA) (h : WF0 pr) (a r : Root) : Good pr (pr.inSubtree a r) := by
  obtain ⟨pr', res, e, hw, hf⟩ := inSubtree_wf pr h a r
  rw [e]; exact ⟨hw, hf.toFrameS⟩

theorem good_canonicalChain (pr : PA) (h : WF0 pr) (root : Root) (slot : Nat) :
    Good pr (pr.canonicalChain root slot) := by
  have hg := good_findHead pr h root slot
  unfold PA.canonicalChain
  cases hf : pr.findHead root slot with
  | ok s a => rw [hf] at hg; simp only; split <;> exact hg
  | err s => rw [hf] at hg; exact hg
  | panic => rw [hf] at hg; exact hg.elim
  | spin => rw [hf] at hg; exact hg.elim

theorem good_canonAtSlot (pr : PA) (h : WF0 pr) (anchor : Root) (slot : Nat) (wb : Bool) :
    Good pr (pr.canonAtSlot anchor slot wb) := by
  unfold PA.canonAtSlot
  have triv : WF0 pr ∧ FrameS pr pr := ⟨h, FrameS.refl pr⟩
  cases hb : aGet pr.blockSlots anchor with
  | none => exact triv
  | some anchorSlot =>
    simp only
    split
    · exact triv
    · split
      · rename_i heq
        split
        · -- the anchor node exists
          have hsome := h.bs_node anchor anchorSlot hb
          rw [heq] at hsome
          cases hi : aGet pr.indices ⟨slot, anchor⟩ with
          | none => rw [hi] at hsome; exact absurd hsome (by simp)
          | some i =>
            simp only
            obtain ⟨n, hn, _⟩ := h.idx_sound _ _ hi
            rw [hn]
            simp only
            split <;> exact triv
        · exact triv
      · have hg := good_findHead pr h anchor anchorSlot
        cases hf : pr.findHead anchor anchorSlot with
        | ok s a =>
          rw [hf] at hg; simp only
          split
          · exact hg
          · split <;> exact hg
        | err s => rw [hf] at hg; exact hg
        | panic => rw [hf] at hg; exact hg.elim
        | spin => rw [hf] at hg; exact hg.elim

theorem searchLoop_done (q : PA) (h : WF0 q) (ai hi : Nat) (head : NodeRef) (pR : Option Root) (sl : Option Nat)
    (hcb : List Root) :
    ∀ (l : List Node) (nc c : List NodeRef),
      ∃ nc' c', q.searchLoop ai hi head pR sl hcb l nc c = .done nc' c' := by
  intro l
  induction l with
  | nil => intro nc c; exact ⟨nc, c, rfl⟩
  | cons node rest ih =>
    intro nc c
    unfold PA.searchLoop
    simp only
    split
    · exact ih nc c
    · split
      · exact ih nc c
      · rw [inSubtreeSpins_false q h]
        simp only [Bool.false_eq_true, if_false]
        obtain ⟨r, hr⟩ := inSubtreeIdx_some h ai ((aGet q.indices node.ref).getD 0)
        rw [hr]
        obtain ⟨u, b2⟩ := r
        cases b2 with
        | false => exact ih nc c
        | true =>
          simp only
          split
          · exact ih _ _
          · exact ih _ _

theorem good_search (pr : PA) (h : WF0 pr) (anchor : NodeRef) (pR : Option Root) (sl : Option Nat) :
    Good pr (pr.search anchor pR sl) := by
  have hg := good_findHead pr h anchor.root anchor.slot
  unfold PA.search
  cases hf : pr.findHead anchor.root anchor.slot with
  | ok s a =>
    rw [hf] at hg; simp only
    obtain ⟨nc', c', e⟩ := searchLoop_done s hg.1 ((aGet s.indices anchor).getD 0) ((aGet s.indices a).getD 0) a pR sl
      (if pR.isNone && sl.isNone then
        (s.nodes.filter (fun n => n.ref.root ≠ n.parentRoot)).map (·.parentRoot) else []) s.nodes [] []
    rw [e]; exact hg
  | err s => rw [hf] at hg; exact hg
  | panic => rw [hf] at hg; exact hg.elim
  | spin => rw [hf] at hg; exact hg.elim

theorem wf_sinkLog {pr : PA} (h : WF0 pr) (l : List (NodeRef × Bool × Bool)) : WF0 { pr with sinkLog := l } :=
  h.congr rfl rfl rfl rfl

end W0
end Zrnt.ForkChoice
