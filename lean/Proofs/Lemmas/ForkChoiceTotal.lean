import Proofs.Lemmas.ForkChoiceInv2
/-!
# Fork choice: no call of an admissible history panics, blocks or loops

`step_alive`: the machine answers `panic` / `blocked` / `dead` only when its next state is `dead`.
`run_total`: along an admissible history (finalizing updates and pruning included) the invariant `MInv2` holds after
every step, so no answer is `panic`, `blocked` or `dead`.
-/
namespace Zrnt.ForkChoice
open FC

/-- an answer that says the call did not return normally -/
def Ans.isFatal : Ans → Bool
  | .panic => true
  | .blocked => true
  | .dead => true
  | _ => false

theorem finish_alive {α : Type} (r : Out FC α) (f : α → Ans) (hf : ∀ x, (f x).isFatal = false)
    (h : (finish r f).1 ≠ .dead) : (finish r f).2.isFatal = false := by
  cases r with
  | ok s x => exact hf x
  | err s => rfl
  | panic => exact (h rfl).elim
  | blocked => exact (h rfl).elim

theorem stepLive_alive (fc : FC) (op : Op) (h : (stepLive fc op).1 ≠ .dead) : (stepLive fc op).2.isFatal = false := by
  cases op with
  | justify t j f b =>
    revert h
    unfold stepLive
    simp only
    cases FC.updateJustified { fc with pa := { fc.pa with sinkLog := [] } } t j f b with
    | ok s u => exact fun _ => rfl
    | err s => exact fun _ => rfl
    | panic => exact fun h => (h rfl).elim
    | blocked => exact fun h => (h rfl).elim
  | init => rfl
  | just => rfl
  | fin => rfl
  | pinq => rfl
  | nodes => rfl
  | _ => exact finish_alive _ _ (fun _ => rfl) h

theorem step_alive (st : MState) (hs : st ≠ .dead) (op : Op) (h : (step st op).1 ≠ .dead) :
    (step st op).2.isFatal = false := by
  cases op with
  | init spe ar aslot ap j f sink bals =>
    revert h
    unfold step
    simp only
    cases FC.new spe f j ar aslot ap bals sink with
    | ok s u => exact fun _ => rfl
    | err s => exact fun _ => rfl
    | panic => exact fun h => (h rfl).elim
    | blocked => exact fun h => (h rfl).elim
  | _ =>
    cases st with
    | none => rfl
    | dead => exact (hs rfl).elim
    | live fc => exact stepLive_alive fc _ h

theorem minv2_alive {st : MState} (h : MInv2 st) : st ≠ .dead := by
  intro e; subst e; exact h

/-- **No call of an admissible history panics, blocks on the mutex or loops**, whatever is finalized and pruned on
the way. -/
theorem run_total : ∀ (ops : List Op) (st : MState), MInv2 st → Admissible st ops →
    ∀ x ∈ (run st ops).2, x.isFatal = false := by
  intro ops
  induction ops with
  | nil => intro st _ _ x hx; simp [run] at hx
  | cons op rest ih =>
    intro st h ha x hx
    have h' := step_inv2 st h op ha.1
    have e2 : (run st (op :: rest)).2 = (step st op).2 :: (run (step st op).1 rest).2 := by simp [run]
    rw [e2] at hx
    rcases List.mem_cons.mp hx with e | hx
    · rw [e]; exact step_alive st (minv2_alive h) op (minv2_alive h')
    · exact ih _ h' ha.2 x hx

end Zrnt.ForkChoice
