import Proofs.Lemmas.ForkChoiceDefs
/-! `ComputeDeltas` on a well-formed array: never indexes outside the delta vector, which has one entry per node. -/
namespace Zrnt.ForkChoice

theorem addAt_ok (ds : List Int) (i : Nat) (x : Int) (h : i < ds.length) :
    ∃ ds', addAt ds i x = some ds' ∧ ds'.length = ds.length := by
  unfold addAt
  rw [List.getElem?_eq_getElem h]
  exact ⟨_, rfl, by simp⟩

theorem computeDeltasLoop_ok (indices : List (NodeRef × Idx)) (n : Nat)
    (hidx : ∀ r i, aGet indices r = some i → i < n) (oldB newB : List Nat) :
    ∀ (votes : List Vote) (k : Nat) (ds : List Int), ds.length = n →
      ∃ ds' vs', computeDeltasLoop indices oldB newB k votes ds = some (ds', vs') ∧
        ds'.length = n ∧ vs'.length = votes.length := by
  intro votes
  induction votes with
  | nil => intro k ds h; exact ⟨ds, [], rfl, h, rfl⟩
  | cons v vs ih =>
    intro k ds h
    have cont : ∀ (v' : Vote) (ds1 : List Int), ds1.length = n →
        ∃ ds' vs', (match computeDeltasLoop indices oldB newB (k + 1) vs ds1 with
          | some (d, l) => some (d, v' :: l)
          | none => none) = some (ds', vs') ∧ ds'.length = n ∧ vs'.length = (v :: vs).length := by
      intro v' ds1 h1
      obtain ⟨d, l, he, hd, hl⟩ := ih (k + 1) ds1 h1
      exact ⟨d, v' :: l, by rw [he], hd, by simp [hl]⟩
    unfold computeDeltasLoop
    simp only
    split
    · exact cont v ds h
    · split
      · -- touched vote
        cases hc : aGet indices v.cur with
        | none =>
          simp only
          cases hn : aGet indices v.next with
          | none => exact cont v ds h
          | some nx =>
            simp only
            obtain ⟨ds2, h2, hl2⟩ := addAt_ok ds nx (↑(newB.getD k 0)) (by rw [h]; exact hidx _ _ hn)
            rw [h2]; exact cont _ ds2 (by rw [hl2, h])
        | some c =>
          simp only
          obtain ⟨ds1, h1, hl1⟩ := addAt_ok ds c (-(↑(oldB.getD k 0))) (by rw [h]; exact hidx _ _ hc)
          rw [h1]
          simp only
          cases hn : aGet indices v.next with
          | none =>
            simp only
            obtain ⟨ds2, h2, hl2⟩ := addAt_ok ds1 c (↑(newB.getD k 0)) (by rw [hl1, h]; exact hidx _ _ hc)
            rw [h2]; exact cont _ ds2 (by rw [hl2, hl1, h])
          | some nx =>
            simp only
            obtain ⟨ds2, h2, hl2⟩ := addAt_ok ds1 nx (↑(newB.getD k 0)) (by rw [hl1, h]; exact hidx _ _ hn)
            rw [h2]; exact cont _ ds2 (by rw [hl2, hl1, h])
      · exact cont v ds h

theorem computeDeltas_ok (pr : PA) (h : WF pr) (votes : List Vote) (oldB newB : List Nat) :
    ∃ ds vs', computeDeltas pr.indices votes oldB newB = some (ds, vs') ∧
      ds.length = pr.nodes.length ∧ vs'.length = votes.length := by
  unfold computeDeltas
  apply computeDeltasLoop_ok pr.indices pr.nodes.length
  · intro r i hi
    obtain ⟨n, hn, _⟩ := h.idx_sound r i hi
    have := List.getElem?_eq_some_iff.mp hn
    exact this.1
  · simp [h.len]

end Zrnt.ForkChoice
