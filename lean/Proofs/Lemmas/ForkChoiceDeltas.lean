import Proofs.Lemmas.ForkChoiceDefs
/-! `ComputeDeltas` on a well-formed array: never indexes outside the delta vector, which has one entry per node. -/
namespace Zrnt.ForkChoice

theorem addAt_ok (ds : List Int) (i : Nat) (x : Int) (h : i < ds.length) :
    ∃ ds', addAt ds i x = some ds' ∧ ds'.length = ds.length := by
  unfold addAt
  rw [List.getElem?_eq_getElem h]
  exact ⟨_, rfl, by simp⟩

theorem computeDeltasLoop_ok (indices : List (NodeRef × Idx)) (n : Nat)
    (hidx : ∀ r i, aGet indices r = some i → i < n) (oldB newB : List Nat) :
    ∀ (votes : List Vote) (k : Nat) (ds : List Int), ds.length = n →
      ∃ ds' vs', computeDeltasLoop indices oldB newB k votes ds = some (ds', vs') ∧
        ds'.length = n ∧ vs'.length = votes.length := by
  intro votes
  induction votes with
  | nil => intro k ds h; exact ⟨ds, [], rfl, h, rfl⟩
  | cons v vs ih =>
    intro k ds h
    have cont : ∀ (v' : Vote) (ds1 : List Int), ds1.length = n →
        ∃ ds' vs', (match computeDeltasLoop indices oldB newB (k + 1) vs ds1 with
          | some (d, l) => some (d, v' :: l)
          | none => none) = some (ds', vs') ∧ ds'.length = n ∧ vs'.length = (v :: vs).length := by
      intro v' ds1 h1
      obtain ⟨d, l, he, hd, hl⟩ := ih (k + 1) ds1 h1
      exact ⟨d, v' :: l, by rw [he], hd, by simp [hl]⟩
    unfold computeDeltasLoop
    simp only
    split
    · exact cont v ds h
    · split
      · -- touched vote
        cases hc : aGet indices v.cur with
        | none =>
          simp only
          cases hn : aGet indices v.next with
          | none => exact cont v ds h
          | some nx =>
            simp only
            obtain ⟨ds2, h2, hl2⟩ := addAt_ok ds nx (↑(newB.getD k 0)) (by rw [h]; exact hidx _ _ hn)
            rw [h2]; exact cont _ ds2 (by rw [hl2, h])
        | some c =>
          simp only
          obtain ⟨ds1, h1, hl1⟩ := addAt_ok ds c (-(↑(oldB.getD k 0))) (by rw [h]; exact hidx _ _ hc)
          rw [h1]
          simp only
          cases hn : aGet indices v.next with
          | none =>
            simp only
            obtain ⟨ds2, h2, hl2⟩ := addAt_ok ds1 c (↑(newB.getD k 0)) (by rw [hl1, h]; exact hidx _ _ hc)
            rw [h2]; exact cont _ ds2 (by rw [hl2, hl1, h])
          | some nx =>
            simp only
            obtain ⟨ds2, h2, hl2⟩ := addAt_ok ds1 nx (↑(newB.getD k 0)) (by rw [hl1, h]; exact hidx _ _ hn)
            rw [h2]; exact cont _ ds2 (by rw [hl2, hl1, h])
      · exact cont v ds h

theorem computeDeltas_ok (pr : PA) (h : WF pr) (votes : List Vote) (oldB newB : List Nat) :
    ∃ ds vs', computeDeltas pr.indices votes oldB newB = some (ds, vs') ∧
      ds.length = pr.nodes.length ∧ vs'.length = votes.length := by
  unfold computeDeltas
  apply computeDeltasLoop_ok pr.indices pr.nodes.length
  · intro r i hi
    obtain ⟨n, hn, _⟩ := h.idx_sound r i hi
    have := List.getElem?_eq_some_iff.mp hn
    exact this.1
  · simp [h.len]

theorem sum_range_set (p : Nat → Bool) (ds : List Int) (c : Nat) (v : Int) (hc : c < ds.length) :
    ∀ n, (((List.range n).filter p).map (fun j => (ds.set c v).getD j 0)).sum =
      (((List.range n).filter p).map (fun j => ds.getD j 0)).sum +
        (if c < n ∧ p c = true then v - ds.getD c 0 else 0) := by
  intro n
  induction n with
  | zero => simp
  | succ n ih =>
    rw [List.range_succ, List.filter_append, List.map_append, List.map_append, List.sum_append, List.sum_append, ih]
    by_cases hp : p n = true
    · simp only [List.filter_cons, hp, List.filter_nil, if_true, List.map_cons, List.map_nil, List.sum_cons, List.sum_nil]
      by_cases hcn : c = n
      · subst hcn
        have h1 : ¬ (c < c) := by omega
        have : (ds.set c v).getD c 0 = v := by simp [List.getD_eq_getElem?_getD, hc]
        rw [this]
        simp [h1, hp]; omega
      · have : (ds.set c v).getD n 0 = ds.getD n 0 := by
          simp [List.getD_eq_getElem?_getD, List.getElem?_set, hcn]
        rw [this]
        by_cases hlt : c < n
        · have : c < n + 1 := by omega
          simp [hlt, this]; omega
        · have : ¬ c < n + 1 := by omega
          simp [hlt, this]
    · have hp' : p n = false := by simpa using hp
      simp only [List.filter_cons, hp', List.filter_nil, List.map_nil, List.sum_nil]
      by_cases hcn : c = n
      · subst hcn; simp [hp']
      · by_cases hlt : c < n
        · have : c < n + 1 := by omega
          simp [hlt, this]
        · have : ¬ c < n + 1 := by omega
          simp [hlt, this]

theorem subSum_addAt (ns : List Node) (ds ds' : List Int) (c : Nat) (x : Int) (hl : ds.length = ns.length)
    (h : addAt ds c x = some ds') (i : Nat) :
    subSum ns ds' i = subSum ns ds i + (if anc ns i c = true then x else 0) := by
  unfold addAt at h
  cases hd : ds[c]? with
  | none => simp [hd] at h
  | some d =>
    simp [hd] at h
    subst h
    have hc : c < ds.length := (List.getElem?_eq_some_iff.mp hd).1
    unfold subSum
    rw [sum_range_set (fun j => anc ns i j) ds c (d + x) hc ns.length]
    have : ds.getD c 0 = d := by simp [List.getD_eq_getElem?_getD, hd]
    rw [this]
    by_cases ha : anc ns i c = true
    · have : c < ns.length := by omega
      simp [ha, this]; omega
    · simp [ha]

/-- what `ComputeDeltas` adds to the subtree sums: new applied votes at the new balances minus the old applied
votes at the old balances -/
theorem computeDeltasLoop_subSum (pr : PA) (hwf : WF pr) (hz : aGet pr.indices NodeRef.zero = none)
    (oldB newB : List Nat) (i : Nat) :
    ∀ (votes : List Vote) (k : Nat) (ds ds' : List Int) (vs' : List Vote), ds.length = pr.nodes.length →
      computeDeltasLoop pr.indices oldB newB k votes ds = some (ds', vs') →
      subSum pr.nodes ds' i = subSum pr.nodes ds i + wsumFrom pr newB i k vs' - wsumFrom pr oldB i k votes := by
  intro votes
  induction votes with
  | nil =>
    intro k ds ds' vs' _ h
    simp [computeDeltasLoop] at h
    obtain ⟨rfl, rfl⟩ := h
    simp [wsumFrom]
  | cons v vs ih =>
    intro k ds ds' vs' hl h
    have hidx : ∀ r j, aGet pr.indices r = some j → j < pr.nodes.length := by
      intro r j hj
      obtain ⟨n, hn, _⟩ := hwf.idx_sound r j hj
      exact (List.getElem?_eq_some_iff.mp hn).1
    -- the continuation
    have cont : ∀ (v' : Vote) (ds1 : List Int), ds1.length = pr.nodes.length →
        (match computeDeltasLoop pr.indices oldB newB (k + 1) vs ds1 with
          | some (d, l) => some (d, v' :: l)
          | none => none) = some (ds', vs') →
        ∃ l, vs' = v' :: l ∧ subSum pr.nodes ds' i = subSum pr.nodes ds1 i +
          wsumFrom pr newB i (k + 1) l - wsumFrom pr oldB i (k + 1) vs := by
      intro v' ds1 h1 he
      cases hr : computeDeltasLoop pr.indices oldB newB (k + 1) vs ds1 with
      | none => simp [hr] at he
      | some p =>
        obtain ⟨d, l⟩ := p
        simp [hr] at he
        obtain ⟨rfl, rfl⟩ := he
        exact ⟨l, rfl, ih (k + 1) ds1 d l h1 hr⟩
    unfold computeDeltasLoop at h
    simp only at h
    split at h
    · -- never voted: both references are zero, which is not a node
      rename_i hzero
      obtain ⟨l, c2, c1⟩ := cont v ds hl h
      subst c2; rw [c1]
      have : appliedIn pr i v = false := by simp [appliedIn, hzero.1, hz]
      simp only [wsumFrom, this, Bool.false_eq_true, ↓reduceIte]
      omega
    · split at h
      · -- touched
        rename_i hnz htouch
        cases hc : aGet pr.indices v.cur with
        | none =>
          have hap : appliedIn pr i v = false := by simp [appliedIn, hc]
          simp only [hc] at h
          cases hn : aGet pr.indices v.next with
          | none =>
            simp only [hn] at h
            obtain ⟨l, c2, c1⟩ := cont v ds hl h
            subst c2; rw [c1]; simp only [wsumFrom, hap, Bool.false_eq_true, ↓reduceIte]; omega
          | some nx =>
            simp only [hn] at h
            obtain ⟨ds2, h2, hl2⟩ := addAt_ok ds nx (↑(newB.getD k 0)) (by rw [hl]; exact hidx _ _ hn)
            rw [h2] at h
            simp only at h
            obtain ⟨l, c2, c1⟩ := cont _ ds2 (by rw [hl2, hl]) h
            subst c2; rw [c1, subSum_addAt pr.nodes ds ds2 nx _ hl h2 i]
            have : appliedIn pr i { v with cur := v.next, curEpoch := v.nextEpoch } = anc pr.nodes i nx := by
              simp [appliedIn, hn]
            simp only [wsumFrom, hap, this]
            cases anc pr.nodes i nx <;> (simp <;> omega)
        | some c =>
          have hap : appliedIn pr i v = anc pr.nodes i c := by simp [appliedIn, hc]
          simp only [hc] at h
          obtain ⟨ds1, h1, hl1⟩ := addAt_ok ds c (-(↑(oldB.getD k 0))) (by rw [hl]; exact hidx _ _ hc)
          rw [h1] at h
          simp only at h
          have e1 := subSum_addAt pr.nodes ds ds1 c _ hl h1 i
          cases hn : aGet pr.indices v.next with
          | none =>
            simp only [hn] at h
            obtain ⟨ds2, h2, hl2⟩ := addAt_ok ds1 c (↑(newB.getD k 0)) (by rw [hl1, hl]; exact hidx _ _ hc)
            rw [h2] at h
            simp only at h
            obtain ⟨l, c2, c1⟩ := cont _ ds2 (by rw [hl2, hl1, hl]) h
            subst c2; rw [c1, subSum_addAt pr.nodes ds1 ds2 c _ (by rw [hl1, hl]) h2 i, e1]
            simp only [wsumFrom, hap]
            cases anc pr.nodes i c <;> (simp <;> omega)
          | some nx =>
            simp only [hn] at h
            obtain ⟨ds2, h2, hl2⟩ := addAt_ok ds1 nx (↑(newB.getD k 0)) (by rw [hl1, hl]; exact hidx _ _ hn)
            rw [h2] at h
            simp only at h
            obtain ⟨l, c2, c1⟩ := cont _ ds2 (by rw [hl2, hl1, hl]) h
            subst c2; rw [c1, subSum_addAt pr.nodes ds1 ds2 nx _ (by rw [hl1, hl]) h2 i, e1]
            have : appliedIn pr i { v with cur := v.next, curEpoch := v.nextEpoch } = anc pr.nodes i nx := by
              simp [appliedIn, hn]
            simp only [wsumFrom, hap, this]
            cases anc pr.nodes i c <;> cases anc pr.nodes i nx <;> (simp <;> omega)
      · -- untouched: same applied vote, same balance
        rename_i hnz hnt
        obtain ⟨l, c2, c1⟩ := cont v ds hl h
        subst c2; rw [c1]
        have hb : oldB.getD k 0 = newB.getD k 0 := by
          by_cases hb : oldB.getD k 0 = newB.getD k 0
          · exact hb
          · exact absurd (Or.inr (Or.inr hb)) hnt
        simp only [wsumFrom, hb]
        cases appliedIn pr i v <;> (simp <;> omega)

end Zrnt.ForkChoice
