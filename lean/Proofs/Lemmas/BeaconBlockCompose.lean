import Proofs.Lemmas.BeaconBlockSlashInv
/-!
# C01/C03 — composing the operation theorems into `process_block`

`Sim x y` ("`y` simulates `x`"): whenever the specification's run `x : SM α` gives a definite verdict — accepts with a
value, or rejects with `invalid` — the model's run `y : Res α` gives the same; and `y` never panics or runs out of fuel.
(`overflow`/`fuel`/`oracle` outcomes of `S` are not verdicts of the specification: they say that `S` as an executable
could not decide. The operation theorems exclude them under their magnitude hypotheses.)
`Sim` composes along `>>=` and along folds with an invariant; every `M = toRes S` theorem and every `M = optRes core`
theorem (with the run-time comparison `crossCheck` of `S` against `core`) yields a `Sim`.
-/
set_option linter.unusedSimpArgs false
set_option linter.unusedVariables false
namespace Zrnt.Proofs.BlockM
open Zrnt Zrnt.Beacon Zrnt.Beacon.Spec Zrnt.Beacon.BlockImpl Zrnt.Beacon.BlockM Zrnt.Proofs.BeaconBlock Zrnt.Proofs.Lemmas

/-- `S` accepts with `a` ⇒ `M` accepts with `a`; `S` rejects (`invalid`) ⇒ `M` rejects -/
def Refines {α} (x : SM α) (y : Res α) : Prop :=
  (∀ a, x = .ok a → y = .ok a) ∧ (∀ m, x = .error (.invalid m) → y = .err)

/-- no panic, no runaway loop -/
def Safe {α} (y : Res α) : Prop := y ≠ .panic ∧ y ≠ .outOfFuel

def Sim {α} (x : SM α) (y : Res α) : Prop := Refines x y ∧ Safe y

theorem sim_ok {α} (a : α) : Sim (Except.ok a : SM α) (Res.ok a) := by
  refine ⟨⟨?_, ?_⟩, ?_, ?_⟩
  · intro b hb; cases hb; rfl
  · intro m hm; cases hm
  · intro h; cases h
  · intro h; cases h

theorem sim_err {α} (e : Err) : Sim (Except.error e : SM α) (Res.err) := by
  refine ⟨⟨?_, ?_⟩, ?_, ?_⟩
  · intro b hb; cases hb
  · intro m hm; rfl
  · intro h; cases h
  · intro h; cases h

/-- an outcome of `S` that is not a verdict of the specification constrains nothing but safety -/
theorem sim_undecided {α} (e : Err) (y : Res α) (hne : ∀ m, e ≠ .invalid m) (hs : Safe y) : Sim (Except.error e : SM α) y := by
  refine ⟨⟨?_, ?_⟩, hs⟩
  · intro b hb; cases hb
  · intro m hm; cases hm; exact absurd rfl (hne m)

theorem Sim.of_eq {α} {x : SM α} {y : Res α} (h : y = toRes x) : Sim x y := by
  subst h
  cases x with
  | ok a => exact sim_ok a
  | error e => exact sim_err e

theorem safe_optRes {α} (o : Option α) : Safe (optRes o) := by
  cases o <;> (constructor <;> (intro h; cases h))

theorem Sim.cross (name : String) (core : Option State) (r : SM State) : Sim (Block.crossCheck name core r) (optRes core) := by
  unfold Block.crossCheck
  cases r with
  | ok st =>
    cases core with
    | none => exact sim_undecided _ _ (fun m h => by cases h) (safe_optRes _)
    | some st' =>
      by_cases he : st = st'
      · subst he
        simp only [if_true]
        exact sim_ok st
      · simp only [he, if_false]
        exact sim_undecided _ _ (fun m h => by cases h) (safe_optRes _)
  | error e =>
    cases core with
    | none => cases e <;> exact sim_err _
    | some st' =>
      cases e with
      | invalid m' => exact sim_undecided _ _ (fun m h => by cases h) (safe_optRes _)
      | overflow m' => exact sim_undecided _ _ (fun m h => by cases h) (safe_optRes _)
      | fuel m' => exact sim_undecided _ _ (fun m h => by cases h) (safe_optRes _)
      | oracle m' => exact sim_undecided _ _ (fun m h => by cases h) (safe_optRes _)

theorem Sim.bind {α β} {x : SM α} {y : Res α} {f : α → SM β} {g : α → Res β}
    (hx : Sim x y) (hf : ∀ a, y = .ok a → Sim (f a) (g a)) : Sim (x >>= f) (y >>= g) := by
  obtain ⟨⟨h1, h2⟩, hs⟩ := hx
  cases hy : y with
  | ok a =>
    have hfa := hf a hy
    cases x with
    | ok a' =>
      have := h1 a' rfl; rw [hy] at this; cases this
      exact hfa
    | error e =>
      cases e with
      | invalid m => have := h2 m rfl; rw [hy] at this; cases this
      | overflow m => exact sim_undecided _ _ (fun m h => by cases h) hfa.2
      | fuel m => exact sim_undecided _ _ (fun m h => by cases h) hfa.2
      | oracle m => exact sim_undecided _ _ (fun m h => by cases h) hfa.2
  | err =>
    cases x with
    | ok a' => have := h1 a' rfl; rw [hy] at this; cases this
    | error e => exact sim_err e
  | panic => exact absurd hy hs.1
  | outOfFuel => exact absurd hy hs.2

theorem Sim.require (c : Bool) (m : String) : Sim (require c m) (BlockM.guard c) := Sim.of_eq (toRes_require c m).symm

theorem Sim.pure {α} (a : α) : Sim (pure a : SM α) (Res.ok a) := Sim.of_eq rfl

theorem Sim.ok_inv {α} {x : SM α} {y : Res α} (h : Sim x y) (a : α) (hx : x = .ok a) : y = .ok a := h.1.1 a hx

/-- folds with a counter-indexed invariant on the model's side: every step uses up one unit -/
theorem Sim.foldlM {α σ} (Inv : Nat → σ → Prop) (f : σ → α → SM σ) (g : σ → α → Res σ) :
    ∀ (l : List α), (∀ k st a, a ∈ l → Inv (k + 1) st → Sim (f st a) (g st a) ∧ ∀ st', g st a = .ok st' → Inv k st') →
      ∀ (k : Nat) (s : σ), Inv (k + l.length) s → Sim (l.foldlM f s) (l.foldlM g s) ∧ ∀ s', l.foldlM g s = .ok s' → Inv k s' := by
  intro l
  induction l with
  | nil =>
    intro _ k s hs
    refine ⟨Sim.of_eq rfl, fun s' h => ?_⟩
    simp only [List.foldlM_nil, Res.pure_eq] at h
    cases h; exact hs
  | cons a t ih =>
    intro hstep k s hs
    have ih' := ih (fun k st b hb => hstep k st b (List.mem_cons_of_mem _ hb))
    simp only [List.foldlM_cons]
    obtain ⟨h1, h2⟩ := hstep (k + t.length) s a List.mem_cons_self hs
    refine ⟨Sim.bind h1 (fun st' hst => (ih' k st' (h2 st' hst)).1), fun s' h => ?_⟩
    cases hg : g s a with
    | ok st' =>
      rw [hg] at h
      simp only [res_bind_ok] at h
      exact (ih' k st' (h2 st' hg)).2 s' h
    | err => rw [hg] at h; cases h
    | panic => rw [hg] at h; cases h
    | outOfFuel => rw [hg] at h; cases h

/-- an assertion the specification makes early and the code makes later (on values the steps in between keep) -/
theorem Sim.delay_guard {α β} {x : SM α} {y : Res α} {f : α → SM β} {g : α → Res β} (c : Bool) (c' : α → Bool) (m : String)
    (hx : Sim x y) (hc : ∀ a, y = .ok a → c' a = c) (hf : ∀ a, y = .ok a → Sim (f a) (g a)) :
    Sim (Spec.require c m >>= fun _ => x >>= f) (y >>= fun a => BlockM.guard (c' a) >>= fun _ => g a) := by
  cases c with
  | true =>
    have : (Spec.require true m >>= fun _ => x >>= f) = (x >>= f) := rfl
    rw [this]
    apply Sim.bind hx
    intro a ha
    rw [hc a ha]
    exact hf a ha
  | false =>
    have : (Spec.require false m >>= fun _ => x >>= f) = (Except.error (.invalid m) : SM β) := rfl
    rw [this]
    cases hy : y with
    | ok a =>
      simp only [res_bind_ok, hc a hy]
      exact sim_err _
    | err => exact sim_err _
    | panic => exact absurd hy hx.2.1
    | outOfFuel => exact absurd hy hx.2.2


theorem res_bind_assoc {α β γ} (x : Res α) (f : α → Res β) (g : β → Res γ) : (x >>= f >>= g) = (x >>= fun a => f a >>= g) := by
  cases x <;> rfl

theorem Sim.bind_proj {α α' β} {x : SM α} {y : Res α'} (π : α' → α) {f : α → SM β} {g : α' → Res β}
    (hx : Sim x (y >>= fun r => Res.ok (π r))) (hf : ∀ r, y = .ok r → Sim (f (π r)) (g r)) : Sim (x >>= f) (y >>= g) := by
  cases hy : y with
  | ok r =>
    rw [hy] at hx
    simp only [res_bind_ok] at hx ⊢
    obtain ⟨⟨h1, h2⟩, _⟩ := hx
    have hfr := hf r hy
    cases x with
    | ok a' =>
      have := h1 a' rfl; cases this
      exact hfr
    | error e =>
      cases e with
      | invalid m => have := h2 m rfl; cases this
      | overflow m => exact sim_undecided _ _ (fun m h => by cases h) hfr.2
      | fuel m => exact sim_undecided _ _ (fun m h => by cases h) hfr.2
      | oracle m => exact sim_undecided _ _ (fun m h => by cases h) hfr.2
  | err =>
    rw [hy] at hx
    obtain ⟨⟨h1, h2⟩, _⟩ := hx
    cases x with
    | ok a' => have := h1 a' rfl; cases this
    | error e => exact sim_err e
  | panic => rw [hy] at hx; exact absurd rfl hx.2.1
  | outOfFuel => rw [hy] at hx; exact absurd rfl hx.2.2

/-- two assertions the specification makes early and the code makes later -/
theorem Sim.delay_guard2 {α β} {x : SM α} {y : Res α} {f : α → SM β} {g : α → Res β} (c1 c2 : Bool) (c1' c2' : α → Bool) (m1 m2 : String)
    (hx : Sim x y) (hc : ∀ a, y = .ok a → c1' a = c1 ∧ c2' a = c2) (hf : ∀ a, y = .ok a → Sim (f a) (g a)) :
    Sim (Spec.require c1 m1 >>= fun _ => Spec.require c2 m2 >>= fun _ => x >>= f)
      (y >>= fun a => BlockM.guard (c1' a) >>= fun _ => BlockM.guard (c2' a) >>= fun _ => g a) := by
  cases c1 with
  | true =>
    have : (Spec.require true m1 >>= fun _ => Spec.require c2 m2 >>= fun _ => x >>= f) = (Spec.require c2 m2 >>= fun _ => x >>= f) := rfl
    rw [this]
    have h := Sim.delay_guard (x := x) (y := y) (f := f) (g := g) c2 c2' m2 hx (fun a ha => (hc a ha).2) hf
    have he : (y >>= fun a => BlockM.guard (c1' a) >>= fun _ => BlockM.guard (c2' a) >>= fun _ => g a) =
        (y >>= fun a => BlockM.guard (c2' a) >>= fun _ => g a) := by
      cases hy : y with
      | ok a => simp only [res_bind_ok, (hc a hy).1]; rfl
      | err => rfl
      | panic => rfl
      | outOfFuel => rfl
    rw [he]; exact h
  | false =>
    have : (Spec.require false m1 >>= fun _ => Spec.require c2 m2 >>= fun _ => x >>= f) = (Except.error (.invalid m1) : SM β) := rfl
    rw [this]
    cases hy : y with
    | ok a =>
      simp only [res_bind_ok, (hc a hy).1]
      exact sim_err _
    | err => exact sim_err _
    | panic => exact absurd hy hx.2.1
    | outOfFuel => exact absurd hy hx.2.2

theorem checkLimits_eq (cfg : Config) (F : Fork) (block : SignedBlock) :
    checkLimits cfg F block = toRes (Block.check_counts cfg F block) := by
  unfold checkLimits Block.check_counts
  cases F <;>
    simp only [toRes_bind, toRes_require, fork_ge, Fork.toNat, toRes_ite, toRes_pure, ge_iff_le] <;> rfl


/-- one operation kind, for the operations `l` of the block: under the invariant with at least one unit of budget the
model simulates the specification, the accepted result satisfies the invariant with one unit less, and (`frame`) the
deposit bookkeeping of the state is left alone -/
def Step {β} (Inv : Nat → State → Prop) (frame : Bool) (l : List β) (f : State → β → SM State) (g : State → β → Res State) : Prop :=
  ∀ k st x, x ∈ l → Inv (k + 1) st → Sim (f st x) (g st x) ∧
    ∀ st', g st x = .ok st' → Inv k st' ∧
      (frame = true → st'.eth1_data = st.eth1_data ∧ st'.eth1_deposit_index = st.eth1_deposit_index)

/-- What the composition needs about the operations of a block of fork `F`, for an invariant `Inv ctx st` on the
context the code carries along and the state. Every field is discharged, for concrete invariants, by one of the
operation theorems (`…_eq`) together with a preservation lemma. -/
structure OpSteps (cfg : Config) (block : SignedBlock) (F : Fork) (Inv : Nat → Ctx → State → Prop) : Prop where
  mono : ∀ k ctx st, Inv (k + 1) ctx st → Inv k ctx st
  fork : ∀ k ctx st, Inv k ctx st → st.fork = F
  header : ∀ k ctx st, Inv (k + 1) ctx st →
    Sim (Block.process_block_header cfg st block) (ofOpt ctx.proposer >>= fun p => processHeader st block p) ∧
    ∀ st', (ofOpt ctx.proposer >>= fun p => processHeader st block p) = .ok st' → Inv k ctx st'
  payload : ∀ ctx payload, block.execution_payload = some payload →
    Step (fun k => Inv k ctx) false [()] (fun st _ => Block.process_execution_payload cfg st block payload)
      (fun st _ => processExecutionPayload cfg st block payload)
  withdrawals : F ≥ .capella → ∀ ctx payload, block.execution_payload = some payload →
    Step (fun k => Inv k ctx) false [()] (fun st _ => Block.process_withdrawals cfg st payload) (fun st _ => processWithdrawals cfg st payload)
  randao : ∀ ctx, Step (fun k => Inv k ctx) false [()] (fun st _ => Block.process_randao cfg st block) (fun st _ => processRandaoReveal cfg ctx st block)
  eth1 : ∀ ctx, Step (fun k => Inv k ctx) false [()] (fun st _ => Block.process_eth1_data cfg st block) (fun st _ => processEth1Vote cfg st block.eth1_data)
  proposerSlashing : ∀ ctx, Step (fun k => Inv k ctx) true block.proposer_slashings (Block.process_proposer_slashing cfg) (processProposerSlashing cfg ctx)
  attesterSlashing : ∀ ctx, Step (fun k => Inv k ctx) true block.attester_slashings (Block.process_attester_slashing cfg) (processAttesterSlashing cfg ctx)
  attestation : ∀ ctx, Step (fun k => Inv k ctx) true block.attestations (Block.process_attestation cfg)
    (if F = .phase0 then processAttestationPhase0 cfg ctx else processAttestationAltair cfg ctx)
  deposit : ∀ k ctx st d, d ∈ block.deposits → Inv (k + 1) ctx st →
    Sim (Block.process_deposit cfg st d) (processDeposit cfg ctx st d >>= fun r => Res.ok r.2) ∧
    ∀ r, processDeposit cfg ctx st d = .ok r → Inv k r.1 r.2
  exit : ∀ ctx, Step (fun k => Inv k ctx) false block.voluntary_exits (Block.process_voluntary_exit cfg) (processVoluntaryExit cfg ctx)
  blsChange : ∀ ctx, Step (fun k => Inv k ctx) false block.bls_to_execution_changes (Block.process_bls_to_execution_change cfg)
    (fun st op => processBLSToExecutionChange st op)
  sync : ∀ ctx agg, block.sync_aggregate = some agg →
    Step (fun k => Inv k ctx) false [()] (fun st _ => Block.process_sync_aggregate cfg st agg) (fun st _ => processSyncAggregate cfg ctx st agg)

theorem OpSteps.mono_le {cfg : Config} {block : SignedBlock} {F : Fork} {Inv : Nat → Ctx → State → Prop} (H : OpSteps cfg block F Inv)
    (ctx : Ctx) (st : State) : ∀ (n k : Nat), Inv (k + n) ctx st → Inv k ctx st := by
  intro n
  induction n with
  | zero => intro k h; exact h
  | succ n ih => intro k h; exact ih k (H.mono (k + n) ctx st h)

theorem Step.fold {β} {Inv : Nat → State → Prop} {frame : Bool} {l : List β} {f : State → β → SM State} {g : State → β → Res State}
    (h : Step Inv frame l f g) (E : Eth1Data) (I : Nat) (k : Nat) (s : State)
    (hs : Inv (k + l.length) s ∧ (frame = true → s.eth1_data = E ∧ s.eth1_deposit_index = I)) :
    Sim (l.foldlM f s) (l.foldlM g s) ∧
    ∀ s', l.foldlM g s = .ok s' → Inv k s' ∧ (frame = true → s'.eth1_data = E ∧ s'.eth1_deposit_index = I) := by
  apply Sim.foldlM (fun k st => Inv k st ∧ (frame = true → st.eth1_data = E ∧ st.eth1_deposit_index = I)) f g l _ k s hs
  intro k st x hx ⟨hi, hfr⟩
  obtain ⟨h1, h2⟩ := h k st x hx hi
  refine ⟨h1, fun st' hst' => ?_⟩
  obtain ⟨h3, h4⟩ := h2 st' hst'
  refine ⟨h3, fun hf => ?_⟩
  obtain ⟨e1, e2⟩ := h4 hf
  obtain ⟨e3, e4⟩ := hfr hf
  exact ⟨by rw [e1, e3], by rw [e2, e4]⟩

theorem sm_assoc3 {α β} (x1 : SM α) (f2 f3 : α → SM α) (F : α → SM β) :
    (x1 >>= fun a => f2 a >>= fun b => f3 b >>= F) = ((x1 >>= fun a => f2 a >>= f3) >>= F) := by
  cases x1 with
  | error e => rfl
  | ok a =>
    show (f2 a >>= fun b => f3 b >>= F) = ((f2 a >>= f3) >>= F)
    cases f2 a <;> rfl

theorem res_assoc3 {α β} (y1 : Res α) (g2 g3 : α → Res α) (G : α → Res β) :
    (y1 >>= fun a => g2 a >>= fun b => g3 b >>= G) = ((y1 >>= fun a => g2 a >>= g3) >>= G) := by
  cases y1 with
  | ok a =>
    show (g2 a >>= fun b => g3 b >>= G) = ((g2 a >>= g3) >>= G)
    cases g2 a <;> rfl
  | err => rfl
  | panic => rfl
  | outOfFuel => rfl

/-- `delay_guard2` across three steps -/
theorem Sim.delay3 {α β} {x1 : SM α} {y1 : Res α} {f2 f3 : α → SM α} {g2 g3 : α → Res α} {F : α → SM β} {G : α → Res β}
    (c1 c2 : Bool) (c1' c2' : α → Bool) (m1 m2 : String)
    (hx : Sim (x1 >>= fun a => f2 a >>= f3) (y1 >>= fun a => g2 a >>= g3))
    (hc : ∀ c, (y1 >>= fun a => g2 a >>= g3) = .ok c → c1' c = c1 ∧ c2' c = c2)
    (hf : ∀ c, (y1 >>= fun a => g2 a >>= g3) = .ok c → Sim (F c) (G c)) :
    Sim (Spec.require c1 m1 >>= fun _ => Spec.require c2 m2 >>= fun _ => x1 >>= fun a => f2 a >>= fun b => f3 b >>= F)
      (y1 >>= fun a => g2 a >>= fun b => g3 b >>= fun c => BlockM.guard (c1' c) >>= fun _ => BlockM.guard (c2' c) >>= fun _ => G c) := by
  rw [sm_assoc3, res_assoc3]
  exact Sim.delay_guard2 c1 c2 c1' c2' m1 m2 hx hc hf


/-- the budget the operation lists of a block use up: one unit per operation -/
def opsNeed (block : SignedBlock) (k : Nat) : Nat :=
  k + block.bls_to_execution_changes.length + block.voluntary_exits.length + block.deposits.length +
    block.attestations.length + block.attester_slashings.length + block.proposer_slashings.length

/-- the budget a whole block uses up: header, withdrawals, payload, randao, eth1 vote, the operations, sync aggregate -/
def blockNeed (block : SignedBlock) (k : Nat) : Nat := opsNeed block (k + 1) + 5

theorem deposits_fold {cfg : Config} {block : SignedBlock} {F : Fork} {Inv : Nat → Ctx → State → Prop} (H : OpSteps cfg block F Inv) :
    ∀ (l : List Deposit), (∀ d ∈ l, d ∈ block.deposits) → ∀ (k : Nat) (ctx : Ctx) (st : State), Inv (k + l.length) ctx st →
      Sim (l.foldlM (Block.process_deposit cfg) st)
        (l.foldlM (fun (acc : Ctx × State) d => processDeposit cfg acc.1 acc.2 d) (ctx, st) >>= fun r => Res.ok r.2) ∧
      ∀ r, l.foldlM (fun (acc : Ctx × State) d => processDeposit cfg acc.1 acc.2 d) (ctx, st) = .ok r → Inv k r.1 r.2 := by
  intro l
  induction l with
  | nil =>
    intro _ k ctx st hi
    refine ⟨Sim.of_eq rfl, fun r hr => ?_⟩
    simp only [List.foldlM_nil, Res.pure_eq] at hr
    cases hr; exact hi
  | cons d t ih =>
    intro hsub k ctx st hi
    have ih := ih (fun x hx => hsub x (List.mem_cons_of_mem _ hx)) k
    simp only [List.foldlM_cons]
    obtain ⟨h1, h2⟩ := H.deposit (k + t.length) ctx st d (hsub d List.mem_cons_self) hi
    constructor
    · rw [res_bind_assoc]
      apply Sim.bind_proj Prod.snd h1
      intro r hr
      exact (ih r.1 r.2 (h2 r hr)).1
    · intro r hr
      cases hd : processDeposit cfg ctx st d with
      | ok r' =>
        rw [hd] at hr
        simp only [res_bind_ok] at hr
        exact (ih r'.1 r'.2 (h2 r' hd)).2 r hr
      | err => rw [hd] at hr; cases hr
      | panic => rw [hd] at hr; cases hr
      | outOfFuel => rw [hd] at hr; cases hr

theorem min_if (a b : Nat) : (if b > a then a else b) = min a b := by
  rw [Nat.min_def]; split <;> split <;> omega

theorem preDeposits_sim {cfg : Config} {block : SignedBlock} {F : Fork} {Inv : Nat → Ctx → State → Prop} (H : OpSteps cfg block F Inv)
    (ctx : Ctx) (st : State) (k : Nat) :
    ∀ s0, Inv (k + block.attestations.length + block.attester_slashings.length + block.proposer_slashings.length) ctx s0 ∧
        (true = true → s0.eth1_data = st.eth1_data ∧ s0.eth1_deposit_index = st.eth1_deposit_index) →
    Sim (List.foldlM (Block.process_proposer_slashing cfg) s0 block.proposer_slashings >>= fun a =>
          List.foldlM (Block.process_attester_slashing cfg) a block.attester_slashings >>= fun b =>
          List.foldlM (Block.process_attestation cfg) b block.attestations)
        (List.foldlM (processProposerSlashing cfg ctx) s0 block.proposer_slashings >>= fun a =>
          List.foldlM (processAttesterSlashing cfg ctx) a block.attester_slashings >>= fun b =>
          (if b.fork = Fork.phase0 then List.foldlM (processAttestationPhase0 cfg ctx) b block.attestations
            else List.foldlM (processAttestationAltair cfg ctx) b block.attestations)) ∧
    ∀ c, (List.foldlM (processProposerSlashing cfg ctx) s0 block.proposer_slashings >>= fun a =>
          List.foldlM (processAttesterSlashing cfg ctx) a block.attester_slashings >>= fun b =>
          (if b.fork = Fork.phase0 then List.foldlM (processAttestationPhase0 cfg ctx) b block.attestations
            else List.foldlM (processAttestationAltair cfg ctx) b block.attestations)) = .ok c →
      Inv k ctx c ∧ (true = true → c.eth1_data = st.eth1_data ∧ c.eth1_deposit_index = st.eth1_deposit_index) := by
  intro s0 hs0
  obtain ⟨p1, p2⟩ := (H.proposerSlashing ctx).fold st.eth1_data st.eth1_deposit_index _ s0 hs0
  have hatt : ∀ j b, Inv j ctx b → (if b.fork = Fork.phase0 then List.foldlM (processAttestationPhase0 cfg ctx) b block.attestations
            else List.foldlM (processAttestationAltair cfg ctx) b block.attestations) =
          List.foldlM (if F = .phase0 then processAttestationPhase0 cfg ctx else processAttestationAltair cfg ctx) b block.attestations := by
    intro j b hb
    rw [H.fork j ctx b hb]
    by_cases hp : F = .phase0 <;> simp only [hp, if_true, if_false]
  constructor
  · apply Sim.bind p1
    intro a ha
    obtain ⟨q1, q2⟩ := (H.attesterSlashing ctx).fold st.eth1_data st.eth1_deposit_index _ a (p2 a ha)
    apply Sim.bind q1
    intro b hb
    rw [hatt _ b (q2 b hb).1]
    exact ((H.attestation ctx).fold st.eth1_data st.eth1_deposit_index k b (q2 b hb)).1
  · intro c hc
    cases ha : List.foldlM (processProposerSlashing cfg ctx) s0 block.proposer_slashings with
    | ok a =>
      rw [ha] at hc
      simp only [res_bind_ok] at hc
      obtain ⟨q1, q2⟩ := (H.attesterSlashing ctx).fold st.eth1_data st.eth1_deposit_index _ a (p2 a ha)
      cases hb : List.foldlM (processAttesterSlashing cfg ctx) a block.attester_slashings with
      | ok b =>
        rw [hb] at hc
        simp only [res_bind_ok] at hc
        rw [hatt _ b (q2 b hb).1] at hc
        exact ((H.attestation ctx).fold st.eth1_data st.eth1_deposit_index k b (q2 b hb)).2 c hc
      | err => rw [hb] at hc; cases hc
      | panic => rw [hb] at hc; cases hc
      | outOfFuel => rw [hb] at hc; cases hc
    | err => rw [ha] at hc; cases hc
    | panic => rw [ha] at hc; cases hc
    | outOfFuel => rw [ha] at hc; cases hc

set_option maxHeartbeats 2000000 in
theorem operations_sim {cfg : Config} {block : SignedBlock} {F : Fork} {Inv : Nat → Ctx → State → Prop} (H : OpSteps cfg block F Inv)
    (k : Nat) (ctx : Ctx) (st : State) (hi : Inv (opsNeed block k) ctx st) :
    Sim (Block.process_operations cfg st block) (processOperations cfg ctx st block >>= fun r => Res.ok r.2) := by
  have hF := H.fork _ ctx st hi
  unfold Block.process_operations processOperations processDeposits foldOps
  simp only [res_bind_assoc]
  apply Sim.bind (Sim.of_eq (checkLimits_eq cfg st.fork block))
  intro _ _
  -- the three folds before the deposits, with the deposit bookkeeping of the state as frame
  have hpre := preDeposits_sim H ctx st (k + block.bls_to_execution_changes.length + block.voluntary_exits.length + block.deposits.length)
  obtain ⟨hx, hpost⟩ := hpre st ⟨hi, fun _ => ⟨rfl, rfl⟩⟩
  refine Sim.delay3 (decide (st.eth1_data.deposit_count ≥ st.eth1_deposit_index))
    (decide (block.deposits.length = min cfg.MAX_DEPOSITS (st.eth1_data.deposit_count - st.eth1_deposit_index)))
    (fun s => !decide (s.eth1_data.deposit_count < s.eth1_deposit_index))
    (fun s => decide (block.deposits.length = if s.eth1_data.deposit_count - s.eth1_deposit_index > cfg.MAX_DEPOSITS then cfg.MAX_DEPOSITS
      else s.eth1_data.deposit_count - s.eth1_deposit_index)) _ _ hx ?_ ?_
  · intro c hc
    obtain ⟨_, hfr⟩ := hpost c hc
    obtain ⟨e1, e2⟩ := hfr rfl
    simp only [e1, e2, min_if]
    constructor
    · by_cases h : st.eth1_data.deposit_count < st.eth1_deposit_index
      · have : ¬ st.eth1_data.deposit_count ≥ st.eth1_deposit_index := by omega
        simp [h, this]
      · have : st.eth1_data.deposit_count ≥ st.eth1_deposit_index := by omega
        simp [h, this]
    · trivial
  · intro c hc
    obtain ⟨hic, _⟩ := hpost c hc
    obtain ⟨d1, d2⟩ := deposits_fold H block.deposits (fun _ h => h) _ ctx c hic
    apply Sim.bind_proj Prod.snd d1
    intro r hr
    have hir := d2 r hr
    obtain ⟨e1, e2⟩ := (H.exit r.1).fold st.eth1_data st.eth1_deposit_index _ r.2 ⟨hir, fun h => by cases h⟩
    apply Sim.bind e1
    intro s5 hs5
    have hi5 := (e2 s5 hs5).1
    rw [H.fork _ r.1 s5 hi5]
    by_cases hcap : F ≥ Fork.capella
    · simp only [hcap, if_true]
      obtain ⟨b1, b2⟩ := (H.blsChange r.1).fold st.eth1_data st.eth1_deposit_index k s5 ⟨hi5, fun h => by cases h⟩
      have hid : ∀ y : Res State, (y >>= fun a => Res.ok a) = y := by intro y; cases y <;> rfl
      simp only [Res.pure_eq, res_bind_ok]
      rw [hid]
      exact b1
    · simp only [hcap, if_false]
      exact Sim.pure s5

set_option maxHeartbeats 2000000 in
theorem operations_inv {cfg : Config} {block : SignedBlock} {F : Fork} {Inv : Nat → Ctx → State → Prop} (H : OpSteps cfg block F Inv)
    (k : Nat) (ctx : Ctx) (st : State) (hi : Inv (opsNeed block k) ctx st) :
    ∀ r, processOperations cfg ctx st block = .ok r → Inv k r.1 r.2 := by
  intro r h
  unfold processOperations processDeposits foldOps at h
  simp only [res_bind_assoc] at h
  cases hl : checkLimits cfg st.fork block with
  | ok u =>
    rw [hl] at h
    simp only [res_bind_ok] at h
    rw [res_assoc3] at h
    obtain ⟨_, hpost⟩ := preDeposits_sim H ctx st (k + block.bls_to_execution_changes.length + block.voluntary_exits.length + block.deposits.length)
      st ⟨hi, fun _ => ⟨rfl, rfl⟩⟩
    cases hc : (List.foldlM (processProposerSlashing cfg ctx) st block.proposer_slashings >>= fun a =>
            List.foldlM (processAttesterSlashing cfg ctx) a block.attester_slashings >>= fun b =>
            (if b.fork = Fork.phase0 then List.foldlM (processAttestationPhase0 cfg ctx) b block.attestations
              else List.foldlM (processAttestationAltair cfg ctx) b block.attestations)) with
    | ok c =>
      rw [hc] at h
      simp only [res_bind_ok, guard_bind] at h
      obtain ⟨hic, _⟩ := hpost c hc
      generalize (!decide (c.eth1_data.deposit_count < c.eth1_deposit_index)) = g1 at h
      generalize decide (block.deposits.length = if c.eth1_data.deposit_count - c.eth1_deposit_index > cfg.MAX_DEPOSITS then cfg.MAX_DEPOSITS
        else c.eth1_data.deposit_count - c.eth1_deposit_index) = g2 at h
      cases g1 with
      | false => simp only [Bool.false_eq_true, if_false] at h; cases h
      | true =>
        cases g2 with
        | false => simp only [Bool.false_eq_true, if_false, if_true] at h; cases h
        | true =>
          simp only [if_true] at h
          obtain ⟨_, d2⟩ := deposits_fold H block.deposits (fun _ h => h) _ ctx c hic
          cases hd : List.foldlM (fun (acc : Ctx × State) d => processDeposit cfg acc.1 acc.2 d) (ctx, c) block.deposits with
          | ok x =>
            rw [hd] at h
            simp only [res_bind_ok] at h
            have hix := d2 x hd
            obtain ⟨_, e2⟩ := (H.exit x.1).fold st.eth1_data st.eth1_deposit_index _ x.2 ⟨hix, fun h => by cases h⟩
            cases he : List.foldlM (processVoluntaryExit cfg x.1) x.2 block.voluntary_exits with
            | ok s5 =>
              rw [he] at h
              simp only [res_bind_ok] at h
              have hi5 := (e2 s5 he).1
              rw [H.fork _ x.1 s5 hi5] at h
              by_cases hcap : F ≥ Fork.capella
              · simp only [hcap, if_true] at h
                obtain ⟨_, b2⟩ := (H.blsChange x.1).fold st.eth1_data st.eth1_deposit_index k s5 ⟨hi5, fun h => by cases h⟩
                cases hb : List.foldlM (fun s op => processBLSToExecutionChange s op) s5 block.bls_to_execution_changes with
                | ok s6 =>
                  rw [hb] at h
                  simp only [res_bind_ok, Res.pure_eq] at h
                  cases h
                  exact (b2 s6 hb).1
                | err => rw [hb] at h; cases h
                | panic => rw [hb] at h; cases h
                | outOfFuel => rw [hb] at h; cases h
              · simp only [hcap, if_false, Res.pure_eq, res_bind_ok] at h
                cases h
                exact H.mono_le x.1 s5 _ k hi5
            | err => rw [he] at h; cases h
            | panic => rw [he] at h; cases h
            | outOfFuel => rw [he] at h; cases h
          | err => rw [hd] at h; cases h
          | panic => rw [hd] at h; cases h
          | outOfFuel => rw [hd] at h; cases h
    | err => rw [hc] at h; cases h
    | panic => rw [hc] at h; cases h
    | outOfFuel => rw [hc] at h; cases h
  | err => rw [hl] at h; cases h
  | panic => rw [hl] at h; cases h
  | outOfFuel => rw [hl] at h; cases h


theorem Sim.bind2 {α β γ} {x : SM α} {y0 : Res γ} {y1 : γ → Res α} {f : α → SM β} {g : α → Res β}
    (hx : Sim x (y0 >>= y1)) (hf : ∀ a, (y0 >>= y1) = .ok a → Sim (f a) (g a)) :
    Sim (x >>= f) (y0 >>= fun p => y1 p >>= g) := by
  rw [← res_bind_assoc]; exact Sim.bind hx hf

/-- `Step` for an operation without an argument, as `Sim` + invariant -/
theorem Step.unit {Inv : Nat → State → Prop} {frame : Bool} {f : State → Unit → SM State} {g : State → Unit → Res State}
    (h : Step Inv frame [()] f g) (k : Nat) (st : State) (hi : Inv (k + 1) st) :
    Sim (f st ()) (g st ()) ∧ ∀ st', g st () = .ok st' → Inv k st' :=
  ⟨(h k st () (List.mem_singleton.mpr rfl) hi).1, fun st' hst' => ((h k st () (List.mem_singleton.mpr rfl) hi).2 st' hst').1⟩

/-- `M`'s counterpart of `Block.process_block_rest` -/
def modelTail (cfg : Config) (ctx : Ctx) (block : SignedBlock) (s : State) : Res State := do
  let s ← processRandaoReveal cfg ctx s block
  let s ← processEth1Vote cfg s block.eth1_data
  let (ctx, s) ← processOperations cfg ctx s block
  if s.fork = .phase0 then pure s else
  let agg ← ofOpt block.sync_aggregate
  processSyncAggregate cfg ctx s agg

set_option maxHeartbeats 4000000 in
theorem tail_sim {cfg : Config} {block : SignedBlock} {F : Fork} {Inv : Nat → Ctx → State → Prop} (H : OpSteps cfg block F Inv)
    (k : Nat) (ctx : Ctx) (s1 : State) (i1 : Inv (opsNeed block (k + 1) + 1 + 1) ctx s1) :
    Sim (Block.process_block_rest cfg s1 block) (modelTail cfg ctx block s1) ∧
    ∀ s', modelTail cfg ctx block s1 = .ok s' → ∃ ctx', Inv k ctx' s' := by
  unfold Block.process_block_rest modelTail
  obtain ⟨h2, h2i⟩ := (H.randao ctx).unit _ s1 i1
  constructor
  · apply Sim.bind h2
    intro s2 hs2
    have i2 := h2i s2 hs2
    obtain ⟨h3, h3i⟩ := (H.eth1 ctx).unit _ s2 i2
    apply Sim.bind h3
    intro s3 hs3
    have i3 := h3i s3 hs3
    have hops := operations_sim H (k + 1) ctx s3 i3
    have hopsi := operations_inv H (k + 1) ctx s3 i3
    apply Sim.bind_proj Prod.snd hops
    intro r hr
    have ir := hopsi r hr
    obtain ⟨c4, s4⟩ := r
    simp only [] at ir ⊢
    rw [H.fork _ c4 s4 ir]
    by_cases hp : F = .phase0
    · simp only [hp, if_true]
      exact Sim.pure _
    · simp only [hp, if_false]
      cases hsa : block.sync_aggregate with
      | none => exact sim_err _
      | some sa =>
        simp only [ofOpt, res_bind_ok]
        exact ((H.sync c4 sa hsa).unit k s4 ir).1
  · intro s' h
    cases hr : processRandaoReveal cfg ctx s1 block with
    | ok s2 =>
      rw [hr] at h
      simp only [res_bind_ok] at h
      obtain ⟨_, h3i⟩ := (H.eth1 ctx).unit _ s2 (h2i s2 hr)
      cases he : processEth1Vote cfg s2 block.eth1_data with
      | ok s3 =>
        rw [he] at h
        simp only [res_bind_ok] at h
        have hopsi := operations_inv H (k + 1) ctx s3 (h3i s3 he)
        cases ho : processOperations cfg ctx s3 block with
        | ok r =>
          rw [ho] at h
          have ir := hopsi r ho
          obtain ⟨c4, s4⟩ := r
          simp only [res_bind_ok] at h ir
          rw [H.fork _ c4 s4 ir] at h
          by_cases hp : F = .phase0
          · simp only [hp, if_true, Res.pure_eq] at h
            cases h
            exact ⟨c4, H.mono k c4 _ ir⟩
          · simp only [hp, if_false] at h
            cases hsa : block.sync_aggregate with
            | none => rw [hsa] at h; cases h
            | some sa =>
              rw [hsa] at h
              simp only [ofOpt, res_bind_ok] at h
              exact ⟨c4, ((H.sync c4 sa hsa).unit k s4 ir).2 s' h⟩
        | err => rw [ho] at h; cases h
        | panic => rw [ho] at h; cases h
        | outOfFuel => rw [ho] at h; cases h
      | err => rw [he] at h; cases h
      | panic => rw [he] at h; cases h
      | outOfFuel => rw [he] at h; cases h
    | err => rw [hr] at h; cases h
    | panic => rw [hr] at h; cases h
    | outOfFuel => rw [hr] at h; cases h

/-- the model's `ProcessBlock`, written with `modelTail` -/
theorem processBlock_unfold (cfg : Config) (ctx : Ctx) (st : State) (block : SignedBlock) :
    processBlock cfg ctx st block = (do
      BlockM.guard (block.fork = st.fork)
      let p ← ofOpt ctx.proposer
      let s ← processHeader st block p
      let s ← (match s.fork with
        | .phase0 | .altair => pure s
        | .bellatrix => do
          let payload ← ofOpt block.execution_payload
          if Block.is_execution_enabled cfg s payload then processExecutionPayload cfg s block payload else pure s
        | .capella | .deneb => do
          let payload ← ofOpt block.execution_payload
          let s ← processWithdrawals cfg s payload
          processExecutionPayload cfg s block payload)
      modelTail cfg ctx block s) := rfl

set_option maxHeartbeats 4000000 in
/-- `process_block` of `S` against `ProcessBlock` of `M` (any fork), given the operation steps: the simulation, and the
invariant (with the budget that is left, for some context) after an accepted block -/
theorem processBlock_sim {cfg : Config} {block : SignedBlock} {F : Fork} {Inv : Nat → Ctx → State → Prop} (H : OpSteps cfg block F Inv)
    (k : Nat) (ctx : Ctx) (st : State) (hi : Inv (blockNeed block k) ctx st) (htyped : Block.check_types cfg block = .ok ()) :
    Sim (Block.process_block cfg st block) (processBlock cfg ctx st block) := by
  have hF := H.fork _ ctx st hi
  rw [processBlock_unfold]
  unfold Block.process_block
  apply Sim.bind (Sim.require _ _)
  intro _ _
  rw [htyped]
  obtain ⟨h1, h1i⟩ := H.header _ ctx st hi
  show Sim (Block.process_block_header cfg st block >>= _) _
  apply Sim.bind2 h1
  intro s1 hs1
  have i1 : Inv (opsNeed block (k + 1) + 1 + 1 + 1 + 1) ctx s1 := h1i s1 hs1
  have i1' : Inv (opsNeed block (k + 1) + 1 + 1) ctx s1 := H.mono _ ctx s1 (H.mono _ ctx s1 i1)
  rw [H.fork _ ctx s1 i1]
  cases F with
  | phase0 =>
    simp only [Res.pure_eq, res_bind_ok]
    exact (tail_sim H k ctx s1 i1').1
  | altair =>
    simp only [Res.pure_eq, res_bind_ok]
    exact (tail_sim H k ctx s1 i1').1
  | bellatrix =>
    simp only []
    cases hpl : block.execution_payload with
    | none => exact sim_err _
    | some payload =>
      simp only [ofOpt, res_bind_ok]
      by_cases hen : Block.is_execution_enabled cfg s1 payload = true
      · simp only [hen, if_true]
        obtain ⟨p1, p1i⟩ := (H.payload ctx payload hpl).unit _ s1 (H.mono _ ctx s1 i1)
        apply Sim.bind p1
        intro s2 hs2
        exact (tail_sim H k ctx s2 (p1i s2 hs2)).1
      · simp only [hen, if_false, Res.pure_eq, res_bind_ok]
        exact (tail_sim H k ctx s1 i1').1
  | capella =>
    simp only []
    cases hpl : block.execution_payload with
    | none => exact sim_err _
    | some payload =>
      simp only [ofOpt, res_bind_ok, res_bind_assoc]
      obtain ⟨w1, w1i⟩ := (H.withdrawals (by decide) ctx payload hpl).unit _ s1 i1
      show Sim (Block.process_withdrawals cfg s1 payload >>= _ >>= _) _
      rw [bind_assoc]
      apply Sim.bind w1
      intro s2 hs2
      obtain ⟨p1, p1i⟩ := (H.payload ctx payload hpl).unit _ s2 (w1i s2 hs2)
      apply Sim.bind p1
      intro s3 hs3
      exact (tail_sim H k ctx s3 (p1i s3 hs3)).1
  | deneb =>
    simp only []
    cases hpl : block.execution_payload with
    | none => exact sim_err _
    | some payload =>
      simp only [ofOpt, res_bind_ok, res_bind_assoc]
      obtain ⟨w1, w1i⟩ := (H.withdrawals (by decide) ctx payload hpl).unit _ s1 i1
      show Sim (Block.process_withdrawals cfg s1 payload >>= _ >>= _) _
      rw [bind_assoc]
      apply Sim.bind w1
      intro s2 hs2
      obtain ⟨p1, p1i⟩ := (H.payload ctx payload hpl).unit _ s2 (w1i s2 hs2)
      apply Sim.bind p1
      intro s3 hs3
      exact (tail_sim H k ctx s3 (p1i s3 hs3)).1


set_option maxHeartbeats 4000000 in
/-- the invariant (with the budget that is left, for some context) after a block the model accepts -/
theorem processBlock_inv {cfg : Config} {block : SignedBlock} {F : Fork} {Inv : Nat → Ctx → State → Prop} (H : OpSteps cfg block F Inv)
    (k : Nat) (ctx : Ctx) (st : State) (hi : Inv (blockNeed block k) ctx st) :
    ∀ st', processBlock cfg ctx st block = .ok st' → ∃ ctx', Inv k ctx' st' := by
  intro st' h
  rw [processBlock_unfold] at h
  simp only [guard_bind, ofOpt_bind] at h
  obtain ⟨_, h1i⟩ := H.header _ ctx st hi
  split at h
  · cases hp : ctx.proposer with
    | none => rw [hp] at h; cases h
    | some p =>
      rw [hp] at h
      simp only [] at h
      cases hh : processHeader st block p with
      | ok s1 =>
        rw [hh] at h
        simp only [res_bind_ok] at h
        have i1 : Inv (opsNeed block (k + 1) + 1 + 1 + 1 + 1) ctx s1 := h1i s1 (by rw [hp]; exact hh)
        have i1' : Inv (opsNeed block (k + 1) + 1 + 1) ctx s1 := H.mono _ ctx s1 (H.mono _ ctx s1 i1)
        rw [H.fork _ ctx s1 i1] at h
        cases F with
        | phase0 =>
          simp only [Res.pure_eq, res_bind_ok] at h
          exact (tail_sim H k ctx s1 i1').2 st' h
        | altair =>
          simp only [Res.pure_eq, res_bind_ok] at h
          exact (tail_sim H k ctx s1 i1').2 st' h
        | bellatrix =>
          simp only [] at h
          cases hpl : block.execution_payload with
          | none => rw [hpl] at h; cases h
          | some payload =>
            rw [hpl] at h
            simp only [ofOpt, res_bind_ok] at h
            by_cases hen : Block.is_execution_enabled cfg s1 payload = true
            · simp only [hen, if_true] at h
              obtain ⟨_, p1i⟩ := (H.payload ctx payload hpl).unit _ s1 (H.mono _ ctx s1 i1)
              cases hx : processExecutionPayload cfg s1 block payload with
              | ok s2 => rw [hx] at h; exact (tail_sim H k ctx s2 (p1i s2 hx)).2 st' h
              | err => rw [hx] at h; cases h
              | panic => rw [hx] at h; cases h
              | outOfFuel => rw [hx] at h; cases h
            · simp only [hen, if_false, Res.pure_eq, res_bind_ok] at h
              exact (tail_sim H k ctx s1 i1').2 st' h
        | capella =>
          simp only [] at h
          cases hpl : block.execution_payload with
          | none => rw [hpl] at h; cases h
          | some payload =>
            rw [hpl] at h
            simp only [ofOpt, res_bind_ok, res_bind_assoc] at h
            obtain ⟨_, w1i⟩ := (H.withdrawals (by decide) ctx payload hpl).unit _ s1 i1
            cases hw : processWithdrawals cfg s1 payload with
            | ok s2 =>
              rw [hw] at h
              simp only [res_bind_ok] at h
              obtain ⟨_, p1i⟩ := (H.payload ctx payload hpl).unit _ s2 (w1i s2 hw)
              cases hx : processExecutionPayload cfg s2 block payload with
              | ok s3 => rw [hx] at h; exact (tail_sim H k ctx s3 (p1i s3 hx)).2 st' h
              | err => rw [hx] at h; cases h
              | panic => rw [hx] at h; cases h
              | outOfFuel => rw [hx] at h; cases h
            | err => rw [hw] at h; cases h
            | panic => rw [hw] at h; cases h
            | outOfFuel => rw [hw] at h; cases h
        | deneb =>
          simp only [] at h
          cases hpl : block.execution_payload with
          | none => rw [hpl] at h; cases h
          | some payload =>
            rw [hpl] at h
            simp only [ofOpt, res_bind_ok, res_bind_assoc] at h
            obtain ⟨_, w1i⟩ := (H.withdrawals (by decide) ctx payload hpl).unit _ s1 i1
            cases hw : processWithdrawals cfg s1 payload with
            | ok s2 =>
              rw [hw] at h
              simp only [res_bind_ok] at h
              obtain ⟨_, p1i⟩ := (H.payload ctx payload hpl).unit _ s2 (w1i s2 hw)
              cases hx : processExecutionPayload cfg s2 block payload with
              | ok s3 => rw [hx] at h; exact (tail_sim H k ctx s3 (p1i s3 hx)).2 st' h
              | err => rw [hx] at h; cases h
              | panic => rw [hx] at h; cases h
              | outOfFuel => rw [hx] at h; cases h
            | err => rw [hw] at h; cases h
            | panic => rw [hw] at h; cases h
            | outOfFuel => rw [hw] at h; cases h
      | err => rw [hh] at h; cases h
      | panic => rw [hh] at h; cases h
      | outOfFuel => rw [hh] at h; cases h
  · cases h

/-- what an accepted `ProcessHeader` has checked -/
theorem processHeader_ok (st st' : State) (block : SignedBlock) (p : Nat) (h : processHeader st block p = .ok st') :
    block.slot = st.slot ∧ block.proposer_index = p ∧ p < st.validators.length := by
  unfold processHeader at h
  simp only [guard_bind] at h
  by_cases h1 : block.slot = st.slot
  · by_cases h3 : block.proposer_index < st.validators.length
    · by_cases h4 : block.proposer_index = p
      · exact ⟨h1, h4, h4 ▸ h3⟩
      · simp [h1, h3, h4] at h
    · simp [h1, h3] at h
  · simp [h1] at h

set_option maxHeartbeats 4000000 in
/-- `state_transition` after `process_slots` (block signature, `process_block`, state root) against
`common.PostSlotTransition` with result validation. `o_post_root` is the hash-tree-root of the state the real code
reaches; the hypothesis says that the harness could compute it. -/
theorem postSlot_sim {cfg : Config} {block : SignedBlock} {F : Fork} {Inv : Nat → Ctx → State → Prop} (H : OpSteps cfg block F Inv)
    (k : Nat) (ctx : Ctx) (st : State) (hi : Inv (blockNeed block k) ctx st) (htyped : Block.check_types cfg block = .ok ())
    (r : Bytes) (hroot : block.o_post_root = some r) :
    Sim (Block.state_transition_post_slots cfg st block) (postSlotTransition cfg ctx st block) := by
  have hb := processBlock_sim H k ctx st hi htyped
  unfold Block.state_transition_post_slots postSlotTransition Block.verify_block_signature
  simp only [hroot, guard_bind, ofOpt_bind]
  -- facts the model's own early checks need, from the model's `ProcessHeader`
  have hhdr : ∀ st', processBlock cfg ctx st block = .ok st' →
      ∃ p, ctx.proposer = some p ∧ block.slot = st.slot ∧ block.proposer_index = p ∧ p < st.validators.length := by
    intro st' h
    unfold processBlock at h
    simp only [guard_bind, ofOpt_bind] at h
    split at h
    · cases hp : ctx.proposer with
      | none => rw [hp] at h; cases h
      | some p =>
        rw [hp] at h
        simp only [] at h
        cases hh : processHeader st block p with
        | ok s1 => exact ⟨p, rfl, processHeader_ok st s1 block p hh⟩
        | err => rw [hh] at h; cases h
        | panic => rw [hh] at h; cases h
        | outOfFuel => rw [hh] at h; cases h
    · cases h
  constructor
  · constructor
    · -- S accepts
      intro a ha
      cases hv : idx st.validators block.proposer_index "block_signature.proposer_out_of_range" with
      | error e => rw [hv] at ha; cases ha
      | ok v =>
        rw [hv] at ha
        simp only [bind, Except.bind, pure, Except.pure] at ha
        cases hsig : block.o_block_sig with
        | false => simp [hsig, require, invalid, throw, throwThe, MonadExceptOf.throw] at ha
        | true =>
          simp only [hsig, require, if_true, pure, Except.pure] at ha
          cases hpb : Block.process_block cfg st block with
          | error e => rw [hpb] at ha; cases ha
          | ok st' =>
            rw [hpb] at ha
            simp only [] at ha
            have hM := hb.1.1 st' hpb
            obtain ⟨p, hp, hslot, hpi, hpl⟩ := hhdr st' hM
            by_cases hr : block.state_root = r
            · simp only [hr, decide_true, if_true] at ha
              cases ha
              simp [hp, hslot, hpi, hpl, hsig, hM, hr]
            · simp [hr, invalid, throw, throwThe, MonadExceptOf.throw] at ha
    · -- S rejects
      intro m hm
      by_cases hslot : st.slot = block.slot
      · simp only [hslot, decide_true, if_true]
        cases hp : ctx.proposer with
        | none => rfl
        | some p =>
          simp only []
          by_cases hpl : p < st.validators.length
          · simp only [hpl, decide_true, if_true]
            by_cases hpi : block.proposer_index = p
            · cases hsig : block.o_block_sig with
              | false => simp [hpi, hsig]
              | true =>
                have hv : idx st.validators block.proposer_index "block_signature.proposer_out_of_range" = .ok st.validators[p] := by
                  rw [hpi]; exact idx_ok _ _ _ hpl
                rw [hv] at hm
                simp only [hsig, require, if_true, bind, Except.bind, pure, Except.pure] at hm
                simp only [hpi, hsig, decide_true, Bool.and_self, if_true]
                cases hpb : Block.process_block cfg st block with
                | error e =>
                  rw [hpb] at hm
                  simp only [] at hm
                  cases hm
                  rw [hb.1.2 m hpb]; rfl
                | ok st' =>
                  rw [hpb] at hm
                  simp only [] at hm
                  rw [hb.1.1 st' hpb]
                  by_cases hr : block.state_root = r
                  · simp [hr] at hm
                  · simp [hr]
            · simp [hpi]
          · simp [hpl]
      · simp [hslot]
  · -- the model never panics
    constructor <;>
    · intro hbad
      by_cases hslot : st.slot = block.slot
      · simp only [hslot, decide_true, if_true] at hbad
        cases hp : ctx.proposer with
        | none => rw [hp] at hbad; cases hbad
        | some p =>
          rw [hp] at hbad
          simp only [] at hbad
          split at hbad
          · split at hbad
            · cases hpb : processBlock cfg ctx st block with
              | ok st' => rw [hpb] at hbad; simp only [res_bind_ok] at hbad; split at hbad <;> cases hbad
              | err => rw [hpb] at hbad; cases hbad
              | panic => exact absurd hpb hb.2.1
              | outOfFuel => exact absurd hpb hb.2.2
            · cases hbad
          · cases hbad
      · simp [hslot] at hbad

end Zrnt.Proofs.BlockM
