import Proofs.Lemmas.PoolMap
import Proofs.Lemmas.PoolAttSpec
/-!
# AttestationPool: the four-map model against the list-of-accepted-items specification
-/
set_option linter.unusedSectionVars false
set_option linter.unusedSimpArgs false
namespace Zrnt.Pool
open Zrnt Zrnt.Pool.Spec

/-! ## the two loops over the committee -/

/-- committee members from position `i` on whose bit is set -/
def partsFrom (bits : Bits) (committee : List Nat) (i : Nat) : List Nat :=
  (committee.zipIdx i).filterMap fun p => if bitAt bits p.2 then some p.1 else none

theorem participants_eq (bits : Bits) (c : List Nat) : participants bits c = partsFrom bits c 0 := rfl

theorem partsFrom_nil (bits : Bits) (i : Nat) : partsFrom bits [] i = [] := rfl

theorem partsFrom_cons (bits : Bits) (v : Nat) (rest : List Nat) (i : Nat) :
    partsFrom bits (v :: rest) i = if bitAt bits i then v :: partsFrom bits rest (i + 1) else partsFrom bits rest (i + 1) := by
  by_cases h : bitAt bits i <;> simp [partsFrom, List.zipIdx_cons, h]

theorem markLoop_ok (bits : Bits) (d : AttData) (c : List Nat) (i : Nat) (apv : GoMap Assignment AttData)
    (hwf : apv.WF) (hb : i + c.length ≤ 8 * bits.length) :
    ∃ apv', markLoop bits d c i apv = .ok apv' ∧ apv'.WF ∧
      ∀ k, k ∈ apv'.keys ↔ k ∈ apv.keys ∨ ∃ v ∈ partsFrom bits c i, k = (v, d.target) := by
  induction c generalizing i apv with
  | nil => exact ⟨apv, rfl, hwf, by simp [partsFrom_nil]⟩
  | cons vi rest ih =>
    simp only [List.length_cons] at hb
    have hg : getBit bits i = .ok (bitAt bits i) := getBit_eq (by omega)
    simp only [markLoop, hg, partsFrom_cons]
    cases hbit : bitAt bits i
    · simpa using ih (i + 1) apv hwf (by omega)
    · simp only [GoMap.set_of_wf hwf, if_true]
      obtain ⟨apv', h1, h2, h3⟩ := ih (i + 1) (apv.insert (vi, d.target) d) (GoMap.wf_insert hwf.nodup _ _) (by omega)
      refine ⟨apv', h1, h2, fun k => ?_⟩
      rw [h3 k, GoMap.mem_keys_insert]
      simp only [List.mem_cons, exists_eq_or_imp]
      constructor
      · rintro ((h | h) | h)
        · exact Or.inr (Or.inl h)
        · exact Or.inl h
        · exact Or.inr (Or.inr h)
      · rintro (h | h | h)
        · exact Or.inl (Or.inr h)
        · exact Or.inl (Or.inl h)
        · exact Or.inr h

theorem newLoop_ok (bits : Bits) (d : AttData) (c : List Nat) (i : Nat) (apv : GoMap Assignment AttData)
    (has : Bool) (hwf : apv.WF) (hb : i + c.length ≤ 8 * bits.length) :
    ∃ apv' has', newLoop bits d c i apv has = .ok (apv', has') ∧ apv'.WF ∧
      (∀ k, k ∈ apv'.keys ↔ k ∈ apv.keys ∨ ∃ v ∈ partsFrom bits c i, k = (v, d.target)) ∧
      has' = (has || (partsFrom bits c i).any (fun v => decide ((v, d.target) ∉ apv.keys))) ∧
      (has' = false → apv' = apv) := by
  induction c generalizing i apv has with
  | nil => exact ⟨apv, has, rfl, hwf, by simp [partsFrom_nil], by simp [partsFrom_nil], fun _ => rfl⟩
  | cons vi rest ih =>
    simp only [List.length_cons] at hb
    have hg : getBit bits i = .ok (bitAt bits i) := getBit_eq (by omega)
    simp only [newLoop, hg, partsFrom_cons]
    cases hbit : bitAt bits i
    · simpa using ih (i + 1) apv has hwf (by omega)
    · simp only [if_true]
      cases hget : apv.get? (vi, d.target) with
      | some x =>
        have hmem : (vi, d.target) ∈ apv.keys := GoMap.mem_keys_iff.mpr ⟨x, hget⟩
        obtain ⟨apv', has', h1, h2, h3, h4, h5⟩ := ih (i + 1) apv has hwf (by omega)
        refine ⟨apv', has', h1, h2, fun k => ?_, ?_, h5⟩
        · rw [h3 k]
          simp only [List.mem_cons, exists_eq_or_imp]
          constructor
          · rintro (h | h)
            · exact Or.inl h
            · exact Or.inr (Or.inr h)
          · rintro (h | h | h)
            · exact Or.inl h
            · exact Or.inl (h ▸ hmem)
            · exact Or.inr h
        · rw [h4]; simp [hmem]
      | none =>
        have hmem : (vi, d.target) ∉ apv.keys := GoMap.get?_eq_none_iff.mp hget
        simp only [GoMap.set_of_wf hwf]
        obtain ⟨apv', has', h1, h2, h3, h4, h5⟩ :=
          ih (i + 1) (apv.insert (vi, d.target) d) true (GoMap.wf_insert hwf.nodup _ _) (by omega)
        have htrue : has' = true := by rw [h4]; rfl
        refine ⟨apv', has', h1, h2, fun k => ?_, ?_, ?_⟩
        · rw [h3 k, GoMap.mem_keys_insert]
          simp only [List.mem_cons, exists_eq_or_imp]
          constructor
          · rintro ((h | h) | h)
            · exact Or.inr (Or.inl h)
            · exact Or.inl h
            · exact Or.inr (Or.inr h)
          · rintro (h | h | h)
            · exact Or.inl (Or.inr h)
            · exact Or.inl (Or.inl h)
            · exact Or.inr h
        · rw [htrue]; simp [hmem]
        · rw [htrue]; intro h; cases h

/-! ## the simulation relation -/

structure AttInv (p : AttPool) (log : AttSpec) : Prop where
  datasWF : p.datas.WF
  indWF : p.individual.WF
  aggWF : p.aggregate.WF
  apvWF : p.aggPerValidator.WF
  /-- `datas` maps a root to the data with that root -/
  datasKey : ∀ k v, p.datas.get? k = some v → v.1 = k
  /-- every aggregated data is a known data -/
  aggSub : ∀ k, k ∈ p.aggregate.keys → k ∈ p.datas.keys
  aggNone : ∀ d, p.aggregate.get? d = none ↔ aggsFor log d = []
  /-- the stored aggregates of `d` are the accepted ones, oldest first; `Participants` is their OR -/
  aggSome : ∀ d m, p.aggregate.get? d = some m →
    m.aggregates = aggsFor log d ∧ m.participants = unionAll (aggsFor log d)
  /-- the individual vote of `(v, e)` is the first accepted one -/
  ind : ∀ v e, p.individual.get? (v, e) = singleRef log v e
  /-- `(v, e)` is marked iff `v` takes part in an accepted aggregate with target `e` -/
  apv : ∀ v e, (v, e) ∈ p.aggPerValidator.keys ↔ votedAgg log v e = true

theorem attInv_new : AttInv (AttPool.new Cfg.fixed) [] := by
  refine ⟨GoMap.wf_make, GoMap.wf_make, GoMap.wf_make, GoMap.wf_make, ?_, ?_, ?_, ?_, ?_, ?_⟩ <;>
    simp [AttPool.new, Cfg.fixed, aggsFor, singleRef, votedAgg]

/-- replacing the entry of one data in `aggregate` (and the marks) -/
theorem attInv_update {p : AttPool} {log log' : AttSpec} (h : AttInv p log) {d : AttData}
    (hd : d ∈ p.datas.keys) (m : MinAgg) (apv' : GoMap Assignment AttData)
    (hagg : ∀ d', aggsFor log' d' = if d' = d then m.aggregates else aggsFor log d')
    (hne : m.aggregates ≠ [])
    (hpart : m.participants = unionAll m.aggregates)
    (hind : ∀ v e, singleRef log' v e = singleRef log v e)
    (hapvwf : apv'.WF)
    (hapv : ∀ v e, (v, e) ∈ apv'.keys ↔ votedAgg log' v e = true) :
    AttInv { p with aggregate := p.aggregate.insert d m, aggPerValidator := apv' } log' := by
  refine ⟨h.datasWF, h.indWF, GoMap.wf_insert h.aggWF.nodup _ _, hapvwf, h.datasKey, ?_, ?_, ?_, ?_, hapv⟩
  · intro k hk
    rcases GoMap.mem_keys_insert.mp hk with rfl | hk
    · exact hd
    · exact h.aggSub k hk
  · intro d'
    simp only [GoMap.get?_insert, hagg d']
    by_cases e : d' = d
    · simp [e, hne]
    · simp only [e, if_false]; exact h.aggNone d'
  · intro d' m' hm'
    simp only [GoMap.get?_insert] at hm'
    rw [hagg d']
    by_cases e : d' = d
    · simp only [e, if_true, Option.some.injEq] at hm' ⊢
      subst hm'; exact ⟨rfl, hpart⟩
    · simp only [e, if_false] at hm' ⊢
      exact h.aggSome d' m' hm'
  · intro v e; rw [hind v e]; exact h.ind v e

/-! ## `AddAttestation` -/

theorem storeData_sim {p : AttPool} {log : AttSpec} (h : AttInv p log) (d : AttData) (c : List Nat) :
    ∃ datas', p.storeData d c = .ok datas' ∧ AttInv { p with datas := datas' } log ∧ d ∈ datas'.keys := by
  unfold AttPool.storeData
  cases hg : p.datas.get? d with
  | some x => exact ⟨p.datas, rfl, h, GoMap.mem_keys_iff.mpr ⟨x, hg⟩⟩
  | none =>
    refine ⟨p.datas.insert d (d, c), by simp [GoMap.set_of_wf h.datasWF], ?_, GoMap.mem_keys_insert.mpr (Or.inl rfl)⟩
    refine ⟨GoMap.wf_insert h.datasWF.nodup _ _, h.indWF, h.aggWF, h.apvWF, ?_, ?_, h.aggNone, h.aggSome, h.ind, h.apv⟩
    · intro k v hk
      simp only [GoMap.get?_insert] at hk
      by_cases e : k = d
      · simp only [e, if_true, Option.some.injEq] at hk; subst hk; exact e.symm
      · simp only [e, if_false] at hk; exact h.datasKey k v hk
    · intro k hk
      exact GoMap.mem_keys_insert.mpr (Or.inr (h.aggSub k hk))

/-- the `count == 1` branch of the specification -/
def specAddSingle (log : AttSpec) (att : Att) (committee : List Nat) : AttSpec × Bool :=
  match singleParticipant att.bits committee with
  | .ok v =>
    match singleVote log v att.data.target with
    | some d' => (log, d' = att.data)
    | none => (log ++ [.single v att.data att.sig], true)
  | _ => (log, false)

/-- the aggregate branch of the specification -/
def specAddAgg (log : AttSpec) (att : Att) (committee : List Nat) : AttSpec × Bool :=
  match aggsFor log att.data with
  | first :: rest =>
    match covers (unionBits first.bits rest) att.bits with
    | .ok true => (log, true)
    | .ok false => (log ++ [.agg att.data att.bits att.sig committee], true)
    | _ => (log, false)
  | [] =>
    if (participants att.bits committee).any (fun v => !votedAgg log v att.data.target) then
      (log ++ [.agg att.data att.bits att.sig committee], true)
    else (log, false)

theorem spec_add_eq (log : AttSpec) (att : Att) (c : List Nat) :
    Spec.add log att c =
      if onesCount att.bits = 0 then (log, false)
      else if onesCount att.bits = 1 then specAddSingle log att c
      else if bitlistLen att.bits ≠ c.length then (log, false)
      else specAddAgg log att c := rfl

theorem singleParticipant_cases (a : Bits) (c : List Nat) :
    (∃ v, singleParticipant a c = .ok v) ∨ singleParticipant a c = .err := by
  rw [singleParticipant_spec']
  unfold BitSpec.singleParticipant
  split
  · exact Or.inr rfl
  · split
    · exact Or.inl ⟨_, rfl⟩
    · exact Or.inr rfl

theorem addSingle_sim {p : AttPool} {log : AttSpec} (h : AttInv p log) (att : Att) (c : List Nat) :
    ∃ p', p.addSingle att c = .ok (p', (specAddSingle log att c).2) ∧ AttInv p' (specAddSingle log att c).1 := by
  unfold AttPool.addSingle specAddSingle
  rcases singleParticipant_cases att.bits c with ⟨v, hv⟩ | hv
  · simp only [hv, singleVote_eq, ← h.ind v att.data.target]
    cases hget : p.individual.get? (v, att.data.target) with
    | some ex =>
      by_cases e : ex.1 = att.data
      · exact ⟨p, by simp [e], h⟩
      · exact ⟨p, by simp [e], h⟩
    | none =>
      simp only [GoMap.set_of_wf h.indWF, Option.map_none]
      refine ⟨_, rfl, h.datasWF, GoMap.wf_insert h.indWF.nodup _ _, h.aggWF, h.apvWF, h.datasKey, h.aggSub, ?_, ?_, ?_, ?_⟩
      · intro d; rw [aggsFor_append_single]; exact h.aggNone d
      · intro d m; rw [aggsFor_append_single]; exact h.aggSome d m
      · intro v' e'
        rw [GoMap.get?_insert, singleRef_append_single]
        by_cases e : (v', e') = (v, att.data.target)
        · obtain ⟨rfl, rfl⟩ := Prod.mk.inj e
          have : singleRef log v' att.data.target = none := by rw [← h.ind]; exact hget
          simp [this]
        · have e2 : ¬ (v = v' ∧ att.data.target = e') := by
            rintro ⟨rfl, rfl⟩; exact e rfl
          simp only [e, if_false, e2, Option.or_none]
          exact h.ind v' e'
      · intro v' e'; rw [votedAgg_append_single]; exact h.apv v' e'
  · simp only [hv]
    exact ⟨p, rfl, h⟩

theorem covers_cases (a b : Bits) :
    (∃ r, covers a b = .ok r ∧ a.length = b.length) ∨ covers a b = .err := by
  unfold covers
  split
  · exact Or.inr rfl
  · split
    · exact Or.inr rfl
    · rename_i h; exact Or.inl ⟨_, rfl, by simpa using h⟩

theorem mem_partsFrom_iff_contains (bits : Bits) (c : List Nat) (v : Nat) :
    (participants bits c).contains v = true ↔ v ∈ partsFrom bits c 0 := by
  simp [participants_eq]

theorem addAggregate_sim {p : AttPool} {log : AttSpec} (h : AttInv p log) (att : Att) (c : List Nat)
    (hd : att.data ∈ p.datas.keys) (hlen : bitlistLen att.bits = c.length) :
    ∃ p', p.addAggregate Cfg.fixed att c = .ok (p', (specAddAgg log att c).2) ∧
      AttInv p' (specAddAgg log att c).1 := by
  have hbound : 0 + c.length ≤ 8 * att.bits.length := by have := bitlistLen_le att.bits; omega
  unfold AttPool.addAggregate specAddAgg
  cases hget : p.aggregate.get? att.data with
  | none =>
    have hnil := (h.aggNone att.data).mp hget
    obtain ⟨apv', has', hl, hwf', hkeys, hhas, hsame⟩ :=
      newLoop_ok att.bits att.data c 0 p.aggPerValidator false h.apvWF hbound
    have hcond : (participants att.bits c).any (fun v => !votedAgg log v att.data.target) = has' := by
      rw [hhas, participants_eq, Bool.false_or]
      apply List.any_congr rfl
      intro v
      have := h.apv v att.data.target
      cases hv : votedAgg log v att.data.target
      · have : (v, att.data.target) ∉ p.aggPerValidator.keys := fun hm => by rw [this.mp hm] at hv; cases hv
        simp [this]
      · simp [this.mpr hv]
    simp only [hget, hnil, hl, hcond]
    cases has' with
    | false =>
      have := hsame rfl; subst this
      exact ⟨p, by simp, h⟩
    | true =>
      simp only [GoMap.set_of_wf h.aggWF, if_true]
      refine ⟨_, rfl, attInv_update h hd ⟨[⟨att.bits, att.sig⟩], att.bits, []⟩ apv' ?_ (by simp) rfl ?_ hwf' ?_⟩
      · intro d'; rw [aggsFor_append_agg]
        by_cases e : d' = att.data
        · subst e; simp [hnil]
        · have e' : ¬ att.data = d' := fun x => e x.symm
          simp [e, e']
      · intro v e; exact singleRef_append_agg ..
      · intro v e
        rw [hkeys, votedAgg_append_agg, h.apv v e, Bool.or_eq_true, Bool.and_eq_true,
          mem_partsFrom_iff_contains, decide_eq_true_eq]
        constructor
        · rintro (hh | ⟨v', hv', hk⟩)
          · exact Or.inl hh
          · obtain ⟨rfl, rfl⟩ := Prod.mk.inj hk; exact Or.inr ⟨rfl, hv'⟩
        · rintro (hh | ⟨rfl, hv'⟩)
          · exact Or.inl hh
          · exact Or.inr ⟨v, hv', rfl⟩
  | some ex =>
    obtain ⟨hex1, hex2⟩ := h.aggSome att.data ex hget
    have hne : aggsFor log att.data ≠ [] := fun e => by
      rw [(h.aggNone att.data).mpr e] at hget; cases hget
    cases haf : aggsFor log att.data with
    | nil => exact absurd haf hne
    | cons first rest =>
      have hun : unionBits first.bits rest = ex.participants := by rw [hex2, haf]; rfl
      simp only [hget, haf, hun]
      rcases covers_cases ex.participants att.bits with ⟨r, hr, hlen2⟩ | hr
      · simp only [hr]
        cases r with
        | true =>
          simp only
          by_cases hx : ex.extra.length < p.maxExtra
          · simp only [hx, if_true, GoMap.set_of_wf h.aggWF]
            have := attInv_update (log' := log) h hd
              { ex with extra := ex.extra ++ [⟨att.bits, att.sig⟩] } p.aggPerValidator
              (by intro d'; by_cases e : d' = att.data
                  · subst e; simp [hex1]
                  · simp [e])
              (by simp only [hex1]; exact hne) (by simp only [hex1, hex2]) (fun _ _ => rfl) h.apvWF h.apv
            exact ⟨_, rfl, this⟩
          · simp only [hx, if_false]
            exact ⟨p, rfl, h⟩
        | false =>
          have hor : Pool.or ex.participants att.bits = .ok (ex.participants.zipWith (· ||| ·) att.bits) := by
            simp [Pool.or, hlen2]
          obtain ⟨apv', hl, hwf', hkeys⟩ := markLoop_ok att.bits att.data c 0 p.aggPerValidator h.apvWF hbound
          simp only [Cfg.fixed, if_true, hor, GoMap.set_of_wf h.aggWF, hl]
          refine ⟨_, rfl, attInv_update h hd
            { ex with aggregates := ex.aggregates ++ [⟨att.bits, att.sig⟩],
                      participants := ex.participants.zipWith (· ||| ·) att.bits } apv' ?_ (by simp) ?_ ?_ hwf' ?_⟩
          · intro d'; rw [aggsFor_append_agg]
            by_cases e : d' = att.data
            · subst e; simp [hex1]
            · have e' : ¬ att.data = d' := fun x => e x.symm
              simp [e, e']
          · simp only [hex1]
            rw [unionAll_append_singleton _ hne, ← hex2, hor]
          · intro v e; exact singleRef_append_agg ..
          · intro v e
            rw [hkeys, votedAgg_append_agg, h.apv v e, Bool.or_eq_true, Bool.and_eq_true,
              mem_partsFrom_iff_contains, decide_eq_true_eq]
            constructor
            · rintro (hh | ⟨v', hv', hk⟩)
              · exact Or.inl hh
              · obtain ⟨rfl, rfl⟩ := Prod.mk.inj hk; exact Or.inr ⟨rfl, hv'⟩
            · rintro (hh | ⟨rfl, hv'⟩)
              · exact Or.inl hh
              · exact Or.inr ⟨v, hv', rfl⟩
      · simp only [hr]
        exact ⟨p, rfl, h⟩

theorem att_add_sim {p : AttPool} {log : AttSpec} (h : AttInv p log) (att : Att) (c : List Nat) :
    ∃ p', p.add Cfg.fixed att c = .ok (p', (Spec.add log att c).2) ∧ AttInv p' (Spec.add log att c).1 := by
  rw [spec_add_eq]
  unfold AttPool.add
  by_cases h0 : onesCount att.bits = 0
  · simp only [h0, if_true]; exact ⟨p, rfl, h⟩
  · obtain ⟨datas', hs, hinv, hd⟩ := storeData_sim h att.data c
    simp only [h0, if_false, hs]
    by_cases h1 : onesCount att.bits = 1
    · simp only [h1, if_true]
      exact addSingle_sim hinv att c
    · simp only [h1, if_false]
      by_cases hl : bitlistLen att.bits = c.length
      · simp only [hl, Cfg.fixed, bne_self_eq_false, Bool.and_false, Bool.false_eq_true, if_false, ne_eq,
          not_true_eq_false]
        exact addAggregate_sim hinv att c hd hl
      · have : (bitlistLen att.bits != c.length) = true := by simpa using hl
        simp only [Cfg.fixed, this, Bool.and_self, if_true, ne_eq, hl, not_false_eq_true]
        exact ⟨_, rfl, hinv⟩

/-! ## `Prune` -/

theorem prune_eq {p : AttPool} {log : AttSpec} (h : AttInv p log) (e : Nat) :
    p.prune e =
      { datas := p.datas.eraseIf (fun x => decide (x.1.target < e - 1)),
        individual := p.individual.eraseIf (fun x => decide (x.1.2 < e - 1)),
        aggregate := p.aggregate.eraseIf (fun x => decide (x.1.target < e - 1)),
        aggPerValidator := p.aggPerValidator.eraseIf (fun x => decide (x.1.2 < e - 1)),
        maxExtra := p.maxExtra } := by
  unfold AttPool.prune
  simp only []
  congr 1
  · apply GoMap.eraseIf_congr
    intro x hx
    have := h.datasKey x.1 x.2 (GoMap.get?_of_mem h.datasWF.nodup hx)
    simp only [this]
  · apply GoMap.eraseIf_congr
    intro x hx
    have hk : x.1 ∈ p.aggregate.keys := List.mem_map.mpr ⟨x, hx, rfl⟩
    obtain ⟨v, hv⟩ := GoMap.mem_keys_iff.mp (h.aggSub _ hk)
    simp only [hv, h.datasKey _ _ hv]

theorem att_prune_sim {p : AttPool} {log : AttSpec} (h : AttInv p log) (e : Nat) :
    AttInv (p.prune e) (Spec.prune log e) := by
  rw [prune_eq h e]
  refine ⟨GoMap.wf_eraseIf h.datasWF _, GoMap.wf_eraseIf h.indWF _, GoMap.wf_eraseIf h.aggWF _,
    GoMap.wf_eraseIf h.apvWF _, ?_, ?_, ?_, ?_, ?_, ?_⟩
  · intro k v hk
    simp only [GoMap.get?_eraseIf h.datasWF.nodup] at hk
    cases hg : p.datas.get? k with
    | none => simp [hg] at hk
    | some v' =>
      simp only [hg, Option.filter_some] at hk
      split at hk
      · rw [← Option.some.inj hk]; exact h.datasKey k v' hg
      · cases hk
  · intro k hk
    have := (GoMap.mem_keys_eraseIf_key (fun k : AttData => decide (k.target < e - 1)) k).mp hk
    exact (GoMap.mem_keys_eraseIf_key (fun k : AttData => decide (k.target < e - 1)) k).mpr
      ⟨h.aggSub k this.1, this.2⟩
  · intro d
    simp only [GoMap.get?_eraseIf h.aggWF.nodup, aggsFor_prune]
    by_cases hd : d.target < e - 1
    · simp [hd, Option.filter]
      cases p.aggregate.get? d <;> simp
    · have := h.aggNone d
      cases hg : p.aggregate.get? d with
      | none => simpa [hd, hg] using this
      | some m => simpa [hd, hg, Option.filter] using this
  · intro d m hm
    simp only [GoMap.get?_eraseIf h.aggWF.nodup] at hm
    rw [aggsFor_prune]
    cases hg : p.aggregate.get? d with
    | none => simp [hg] at hm
    | some m' =>
      simp only [hg, Option.filter_some] at hm
      by_cases hd : d.target < e - 1
      · simp [hd] at hm
      · simp only [hd, decide_false, Bool.not_false, if_true, Option.some.injEq] at hm
        subst hm
        simp only [hd, if_false]
        exact h.aggSome d m' hg
  · intro v ep
    simp only [GoMap.get?_eraseIf h.indWF.nodup, singleRef_prune, h.ind v ep]
    by_cases hd : ep < e - 1
    · cases singleRef log v ep <;> simp [hd, Option.filter]
    · cases singleRef log v ep <;> simp [hd, Option.filter]
  · intro v ep
    rw [votedAgg_prune, Bool.and_eq_true, ← h.apv v ep]
    have := GoMap.mem_keys_eraseIf_key (m := p.aggPerValidator) (fun k : Assignment => decide (k.2 < e - 1)) (v, ep)
    rw [this]
    simp

/-! ## `Search` -/

theorem flatMap_update_perm {α β : Type} [DecidableEq α] (ks : List α) (hn : ks.Nodup) (d : α) (hd : d ∈ ks)
    (F F' : α → List β) (x : β) (h1 : F' d = x :: F d) (h2 : ∀ k, k ≠ d → F' k = F k) :
    (ks.flatMap F').Perm (x :: ks.flatMap F) := by
  induction ks with
  | nil => simp at hd
  | cons a ks ih =>
    simp only [List.nodup_cons] at hn
    simp only [List.flatMap_cons]
    by_cases e : a = d
    · subst e
      have : ks.flatMap F' = ks.flatMap F := by
        have hall : ∀ k ∈ ks, F' k = F k := fun k hk => h2 k (fun e => hn.1 (e ▸ hk))
        clear ih hd hn
        induction ks with
        | nil => rfl
        | cons b ks ih2 =>
          simp only [List.flatMap_cons, hall b List.mem_cons_self,
            ih2 (fun k hk => hall k (List.mem_cons_of_mem _ hk))]
      rw [h1, this]; exact List.Perm.refl _
    · have hd' : d ∈ ks := by
        rcases List.mem_cons.mp hd with rfl | h
        · exact absurd rfl e
        · exact h
      rw [h2 a e]
      exact ((ih hn.2 hd').append_left (F a)).trans List.perm_middle

/-- what `Search` collects for one data -/
def searchOne (log : AttSpec) (slot? idx? : Option Nat) (k : AttData) : List Att :=
  if matchesFilter slot? idx? k then (aggsFor log k).map (fun a => ⟨k, a.bits, a.sig⟩) else []

theorem search_cons_single (v : Nat) (d : AttData) (sg : Nat) (log : AttSpec) (s i : Option Nat) :
    Spec.search (.single v d sg :: log) s i = Spec.search log s i := by simp [Spec.search]

theorem search_cons_agg (d : AttData) (b : Bits) (sg : Nat) (c : List Nat) (log : AttSpec) (s i : Option Nat) :
    Spec.search (.agg d b sg c :: log) s i =
      if matchesFilter s i d then ⟨d, b, sg⟩ :: Spec.search log s i else Spec.search log s i := by
  by_cases h : matchesFilter s i d <;> simp [Spec.search, h]

theorem search_perm_spec (log : AttSpec) (s i : Option Nat) (ks : List AttData) (hn : ks.Nodup)
    (hks : ∀ d, aggsFor log d ≠ [] → d ∈ ks) :
    (ks.flatMap (searchOne log s i)).Perm (Spec.search log s i) := by
  induction log with
  | nil =>
    have : ks.flatMap (searchOne [] s i) = [] := by
      apply List.flatMap_eq_nil_iff.mpr
      intro k _; simp [searchOne, aggsFor]
    rw [this]; exact List.Perm.refl _
  | cons ev log ih =>
    cases ev with
    | single v d sg =>
      rw [search_cons_single]
      have : searchOne (.single v d sg :: log) s i = searchOne log s i := by
        funext k; simp [searchOne, aggsFor_cons_single]
      rw [this]
      exact ih (fun d' hd' => hks d' (by rwa [aggsFor_cons_single]))
    | agg d b sg c =>
      have ih' := ih (fun d' hd' => hks d' (by
        rw [aggsFor_cons_agg]; split
        · simp
        · exact hd'))
      have hdk : d ∈ ks := hks d (by simp [aggsFor_cons_agg])
      rw [search_cons_agg]
      by_cases hm : matchesFilter s i d
      · simp only [hm, if_true]
        refine (flatMap_update_perm ks hn d hdk (searchOne log s i) _ ⟨d, b, sg⟩ ?_ ?_).trans (ih'.cons _)
        · simp [searchOne, hm, aggsFor_cons_agg]
        · intro k hk
          have : ¬ d = k := fun e => hk e.symm
          simp [searchOne, aggsFor_cons_agg, this]
      · simp only [hm, if_false]
        have : searchOne (.agg d b sg c :: log) s i = searchOne log s i := by
          funext k
          by_cases e : d = k
          · subst e; simp [searchOne, hm]
          · simp [searchOne, aggsFor_cons_agg, e]
        rw [this]; exact ih'

theorem searchLoop_eq {p : AttPool} {log : AttSpec} (h : AttInv p log) (s i : Option Nat)
    (l : List (AttData × (AttData × List Nat))) (hl : ∀ x ∈ l, x.2.1 = x.1) :
    searchLoop Cfg.fixed p s i l = .ok ((l.map (·.1)).flatMap (searchOne log s i)) := by
  induction l with
  | nil => rfl
  | cons x l ih =>
    obtain ⟨k, d⟩ := x
    have hk : d.1 = k := hl (k, d) List.mem_cons_self
    have ih' := ih (fun x hx => hl x (List.mem_cons_of_mem _ hx))
    simp only [searchLoop, hk, ih', List.map_cons, List.flatMap_cons, searchOne]
    by_cases hm : matchesFilter s i k
    · simp only [hm, if_true]
      cases hg : p.aggregate.get? k with
      | none =>
        simp [Cfg.fixed, (h.aggNone k).mp hg]
      | some m =>
        simp [(h.aggSome k m hg).1]
    · simp [hm]

theorem att_search_sim {p : AttPool} {log : AttSpec} (h : AttInv p log) (s i : Option Nat) :
    ∃ l, p.search Cfg.fixed s i = .ok l ∧ l.Perm (Spec.search log s i) := by
  refine ⟨_, searchLoop_eq h s i p.datas.entries ?_, ?_⟩
  · intro x hx; exact h.datasKey x.1 x.2 (GoMap.get?_of_mem h.datasWF.nodup hx)
  · apply search_perm_spec log s i _ h.datasWF.nodup
    intro d hd
    apply h.aggSub
    cases hg : p.aggregate.get? d with
    | none => exact absurd ((h.aggNone d).mp hg) hd
    | some m => exact GoMap.mem_keys_iff.mpr ⟨m, hg⟩

end Zrnt.Pool
