import Proofs.Lemmas.PoolMap
import Proofs.Lemmas.PoolAttSpec
/-!
# AttestationPool: the four-map model against the list-of-accepted-items specification
-/
set_option linter.unusedSectionVars false
set_option linter.unusedSimpArgs false
namespace Zrnt.Pool
open Zrnt Zrnt.Pool.Spec

/-! ## the two loops over the committee -/

/-- committee members from position `i` on whose bit is set -/
def partsFrom (bits : Bits) (committee : List Nat) (i : Nat) : List Nat :=
  (committee.zipIdx i).filterMap fun p => if bitAt bits p.2 then some p.1 else none

theorem participants_eq (bits : Bits) (c : List Nat) : participants bits c = partsFrom bits c 0 := rfl

theorem partsFrom_nil (bits : Bits) (i : Nat) : partsFrom bits [] i = [] := rfl

theorem partsFrom_cons (bits : Bits) (v : Nat) (rest : List Nat) (i : Nat) :
    partsFrom bits (v :: rest) i = if bitAt bits i then v :: partsFrom bits rest (i + 1) else partsFrom bits rest (i + 1) := by
  by_cases h : bitAt bits i <;> simp [partsFrom, List.zipIdx_cons, h]

theorem markLoop_ok (bits : Bits) (d : AttData) (c : List Nat) (i : Nat) (apv : GoMap Assignment AttData)
    (hwf : apv.WF) (hb : i + c.length ≤ 8 * bits.length) :
    ∃ apv', markLoop bits d c i apv = .ok apv' ∧ apv'.WF ∧
      ∀ k, k ∈ apv'.keys ↔ k ∈ apv.keys ∨ ∃ v ∈ partsFrom bits c i, k = (v, d.target) := by
  induction c generalizing i apv with
  | nil => exact ⟨apv, rfl, hwf, by simp [partsFrom_nil]⟩
  | cons vi rest ih =>
    simp only [List.length_cons] at hb
    have hg : getBit bits i = .ok (bitAt bits i) := getBit_eq (by omega)
    simp only [markLoop, hg, partsFrom_cons]
    cases hbit : bitAt bits i
    · simpa using ih (i + 1) apv hwf (by omega)
    · simp only [GoMap.set_of_wf hwf, if_true]
      obtain ⟨apv', h1, h2, h3⟩ := ih (i + 1) (apv.insert (vi, d.target) d) (GoMap.wf_insert hwf.nodup _ _) (by omega)
      refine ⟨apv', h1, h2, fun k => ?_⟩
      rw [h3 k, GoMap.mem_keys_insert]
      simp only [List.mem_cons, exists_eq_or_imp]
      constructor
      · rintro ((h | h) | h)
        · exact Or.inr (Or.inl h)
        · exact Or.inl h
        · exact Or.inr (Or.inr h)
      · rintro (h | h | h)
        · exact Or.inl (Or.inr h)
        · exact Or.inl (Or.inl h)
        · exact Or.inr h

theorem newLoop_ok (bits : Bits) (d : AttData) (c : List Nat) (i : Nat) (apv : GoMap Assignment AttData)
    (has : Bool) (hwf : apv.WF) (hb : i + c.length ≤ 8 * bits.length) :
    ∃ apv' has', newLoop bits d c i apv has = .ok (apv', has') ∧ apv'.WF ∧
      (∀ k, k ∈ apv'.keys ↔ k ∈ apv.keys ∨ ∃ v ∈ partsFrom bits c i, k = (v, d.target)) ∧
      has' = (has || (partsFrom bits c i).any (fun v => decide ((v, d.target) ∉ apv.keys))) ∧
      (has' = false → apv' = apv) := by
  induction c generalizing i apv has with
  | nil => exact ⟨apv, has, rfl, hwf, by simp [partsFrom_nil], by simp [partsFrom_nil], fun _ => rfl⟩
  | cons vi rest ih =>
    simp only [List.length_cons] at hb
    have hg : getBit bits i = .ok (bitAt bits i) := getBit_eq (by omega)
    simp only [newLoop, hg, partsFrom_cons]
    cases hbit : bitAt bits i
    · simpa using ih (i + 1) apv has hwf (by omega)
    · simp only [if_true]
      cases hget : apv.get? (vi, d.target) with
      | some x =>
        have hmem : (vi, d.target) ∈ apv.keys := GoMap.mem_keys_iff.mpr ⟨x, hget⟩
        obtain ⟨apv', has', h1, h2, h3, h4, h5⟩ := ih (i + 1) apv has hwf (by omega)
        refine ⟨apv', has', h1, h2, fun k => ?_, ?_, h5⟩
        · rw [h3 k]
          simp only [List.mem_cons, exists_eq_or_imp]
          constructor
          · rintro (h | h)
            · exact Or.inl h
            · exact Or.inr (Or.inr h)
          · rintro (h | h | h)
            · exact Or.inl h
            · exact Or.inl (h ▸ hmem)
            · exact Or.inr h
        · rw [h4]; simp [hmem]
      | none =>
        have hmem : (vi, d.target) ∉ apv.keys := GoMap.get?_eq_none_iff.mp hget
        simp only [GoMap.set_of_wf hwf]
        obtain ⟨apv', has', h1, h2, h3, h4, h5⟩ :=
          ih (i + 1) (apv.insert (vi, d.target) d) true (GoMap.wf_insert hwf.nodup _ _) (by omega)
        have htrue : has' = true := by rw [h4]; rfl
        refine ⟨apv', has', h1, h2, fun k => ?_, ?_, ?_⟩
        · rw [h3 k, GoMap.mem_keys_insert]
          simp only [List.mem_cons, exists_eq_or_imp]
          constructor
          · rintro ((h | h) | h)
            · exact Or.inr (Or.inl h)
            · exact Or.inl h
            · exact Or.inr (Or.inr h)
          · rintro (h | h | h)
            · exact Or.inl (Or.inr h)
            · exact Or.inl (Or.inl h)
            · exact Or.inr h
        · rw [htrue]; simp [hmem]
        · rw [htrue]; intro h; cases h

end Zrnt.Pool
