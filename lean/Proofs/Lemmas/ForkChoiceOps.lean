import Proofs.Lemmas.ForkChoiceLinks
import Proofs.Lemmas.ForkChoiceChain
import Proofs.Lemmas.ForkChoiceDeltas
/-! Every proto-array operation on a well-formed array (nothing pruned yet): returns without panic or endless loop and
keeps the array well formed. -/
namespace Zrnt.ForkChoice

theorem WF.tpar_valid {pr : PA} (h : WF pr) {i : Nat} {n : Node} (hn : pr.nodes[i]? = some n) :
    ∀ p, n.tparent = some p → p < pr.nodes.length := by
  intro p hp
  have h1 := h.tpar_lt i n p hn hp
  have h2 := (List.getElem?_eq_some_iff.mp hn).1
  exact Nat.lt_trans h1 h2

theorem inSubtreeIdx_some {pr : PA} (h : WF pr) (a l : Nat) : ∃ r, pr.inSubtreeIdx a l = some r := by
  unfold PA.inSubtreeIdx
  by_cases hal : a = l
  · simp [hal]
  · simp only [hal, if_false]
    rw [getNode_eq h, getNode_eq h]
    cases hna : pr.nodes[a]? with
    | none => exact ⟨_, rfl⟩
    | some na =>
      cases hnl : pr.nodes[l]? with
      | none => exact ⟨_, rfl⟩
      | some nl =>
        simp only
        obtain ⟨b, hb⟩ := subWalk_some h a na.bestDesc (l + 1 + pr.nodes.length) nl.tparent
          (fun i hi => h.tpar_valid hnl i hi)
        rw [hb]
        repeat' split
        all_goals first | exact ⟨_, rfl⟩ | simp_all

/-- `InSubtree` on a well-formed array: returns, keeps the array well formed, changes only links/flag -/
theorem inSubtree_wf (pr : PA) (h : WF pr) (a r : Root) :
    ∃ pr' res, pr.inSubtree a r = .ok pr' res ∧ WF pr' ∧ Frame pr pr' := by
  unfold PA.inSubtree
  split
  · split <;> exact ⟨pr, _, rfl, h, Frame.refl pr⟩
  · have step : ∀ (q : PA), WF q → Frame pr q → ∃ pr' res,
        (match aGet q.blockSlots a with
          | none => POut.ok q (true, false)
          | some anchorSlot =>
            match aGet q.indices ⟨anchorSlot, a⟩ with
            | none => POut.ok q (true, false)
            | some anchorIndex =>
              match aGet q.blockSlots r with
              | none => POut.ok q (true, false)
              | some slot =>
                match aGet q.indices ⟨slot, r⟩ with
                | none => POut.ok q (true, false)
                | some lookupIndex =>
                  if q.inSubtreeSpins anchorIndex lookupIndex then POut.spin else
                  match q.inSubtreeIdx anchorIndex lookupIndex with
                  | none => POut.panic
                  | some r => POut.ok q r) = .ok pr' res ∧ WF pr' ∧ Frame pr pr' := by
      intro q hq fq
      repeat' split
      all_goals (try exact ⟨q, _, rfl, hq, fq⟩)
      · rename_i hs; rw [inSubtreeSpins_false q hq] at hs; exact absurd hs (by simp)
      · rename_i hnone
        obtain ⟨x, hx⟩ := inSubtreeIdx_some hq _ _
        rw [hx] at hnone; exact absurd hnone (by simp)
    split
    · exact step pr h (Frame.refl pr)
    · obtain ⟨pr1, h1, hw1, _, hf1⟩ := wf_updateConnections pr h
      rw [h1]
      exact step pr1 hw1 hf1

/-- a call on a well-formed array returned (value or error) with a well-formed array that differs from the
old one only in weights, links, epochs and the `updated` flag -/
def Good {α : Type} (pr : PA) (r : POut PA α) : Prop :=
  match r with
  | .ok s _ => WF s ∧ FrameS pr s
  | .err s => WF s ∧ FrameS pr s
  | .panic => False
  | .spin => False

theorem good_findHead (pr : PA) (h : WF pr) (root : Root) (slot : Nat) : Good pr (pr.findHead root slot) := by
  rcases wf_findHead pr h root slot with ⟨pr', r, e, hw, hf, _⟩ | ⟨pr', e, hw, hf⟩
  · rw [e]; exact ⟨hw, hf⟩
  · rw [e]; exact ⟨hw, hf⟩

theorem good_inSubtree (pr : PA) (h : WF pr) (a r : Root) : Good pr (pr.inSubtree a r) := by
  obtain ⟨pr', res, e, hw, hf⟩ := inSubtree_wf pr h a r
  rw [e]; exact ⟨hw, hf.toFrameS⟩

theorem good_canonicalChain (pr : PA) (h : WF pr) (root : Root) (slot : Nat) :
    Good pr (pr.canonicalChain root slot) := by
  have hg := good_findHead pr h root slot
  unfold PA.canonicalChain
  cases hf : pr.findHead root slot with
  | ok s a => rw [hf] at hg; simp only; split <;> exact hg
  | err s => rw [hf] at hg; exact hg
  | panic => rw [hf] at hg; exact hg.elim
  | spin => rw [hf] at hg; exact hg.elim

theorem good_canonAtSlot (pr : PA) (h : WF pr) (anchor : Root) (slot : Nat) (wb : Bool) :
    Good pr (pr.canonAtSlot anchor slot wb) := by
  unfold PA.canonAtSlot
  have triv : WF pr ∧ FrameS pr pr := ⟨h, FrameS.refl pr⟩
  cases hb : aGet pr.blockSlots anchor with
  | none => exact triv
  | some anchorSlot =>
    simp only
    split
    · exact triv
    · split
      · rename_i heq
        split
        · -- the anchor node exists
          have hsome := h.bs_node anchor anchorSlot hb
          rw [heq] at hsome
          cases hi : aGet pr.indices ⟨slot, anchor⟩ with
          | none => rw [hi] at hsome; exact absurd hsome (by simp)
          | some i =>
            simp only
            obtain ⟨n, hn, _⟩ := h.idx_sound _ _ hi
            rw [hn]
            simp only
            split <;> exact triv
        · exact triv
      · have hg := good_findHead pr h anchor anchorSlot
        cases hf : pr.findHead anchor anchorSlot with
        | ok s a =>
          rw [hf] at hg; simp only
          split
          · exact hg
          · split <;> exact hg
        | err s => rw [hf] at hg; exact hg
        | panic => rw [hf] at hg; exact hg.elim
        | spin => rw [hf] at hg; exact hg.elim

theorem searchLoop_done (q : PA) (h : WF q) (ai hi : Nat) (head : NodeRef) (pR : Option Root) (sl : Option Nat)
    (hcb : List Root) :
    ∀ (l : List Node) (nc c : List NodeRef), (∀ n ∈ l, ∃ i : Nat, q.nodes[i]? = some n) →
      ∃ nc' c', q.searchLoop ai hi head pR sl hcb l nc c = .done nc' c' := by
  intro l
  induction l with
  | nil => intro nc c _; exact ⟨nc, c, rfl⟩
  | cons node rest ih =>
    intro nc c hmem
    have ihr : ∀ nc c, ∃ nc' c', q.searchLoop ai hi head pR sl hcb rest nc c = .done nc' c' :=
      fun nc c => ih nc c (fun n hn => hmem n (List.mem_cons_of_mem _ hn))
    unfold PA.searchLoop
    simp only
    split
    · exact ihr nc c
    · split
      · exact ihr nc c
      · rw [inSubtreeSpins_false q h]
        simp only [Bool.false_eq_true, if_false]
        obtain ⟨r, hr⟩ := inSubtreeIdx_some h ai ((aGet q.indices node.ref).getD 0)
        rw [hr]
        obtain ⟨u, b2⟩ := r
        cases b2 with
        | false => exact ihr nc c
        | true =>
          simp only
          split
          · exact ihr _ _
          · exact ihr _ _

theorem good_search (pr : PA) (h : WF pr) (anchor : NodeRef) (pR : Option Root) (sl : Option Nat) :
    Good pr (pr.search anchor pR sl) := by
  have hg := good_findHead pr h anchor.root anchor.slot
  unfold PA.search
  cases hf : pr.findHead anchor.root anchor.slot with
  | ok s a =>
    rw [hf] at hg; simp only
    obtain ⟨nc', c', e⟩ := searchLoop_done s hg.1 ((aGet s.indices anchor).getD 0) ((aGet s.indices a).getD 0) a pR sl _
      s.nodes [] [] (fun n hn => by
        obtain ⟨i, hi, e⟩ := List.mem_iff_getElem.mp hn
        exact ⟨i, by rw [List.getElem?_eq_getElem hi, e]⟩)
    rw [e]; exact hg
  | err s => rw [hf] at hg; exact hg
  | panic => rw [hf] at hg; exact hg.elim
  | spin => rw [hf] at hg; exact hg.elim

theorem wf_sinkLog {pr : PA} (h : WF pr) (l : List (NodeRef × Bool × Bool)) : WF { pr with sinkLog := l } :=
  ⟨h.off, h.len, h.idx_sound, h.idx_complete, h.tpar_lt, h.fpar_lt, h.bc_child, h.bd_desc, h.bc_bd, h.bs_node⟩

end Zrnt.ForkChoice
