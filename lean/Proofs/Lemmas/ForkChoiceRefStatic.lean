import Proofs.Lemmas.ForkChoiceRefDefs
import Proofs.Lemmas.ForkChoiceChain
import Proofs.Lemmas.ForkChoiceLinks
/-!
# Fork choice: the static bridge between the specification state and the model state

For a fixed pair `Ref fc a` (with `WF fc.pa`, and `Chain fc.pa` where said) the specification's lookups and walks
on `a : Spec.Abs` are the model's on `fc.pa`:

1. lookups: `find_of_index`, `find_none`, `find_node`, `has_iff`, `refAt_some`, `absNode_fparent_some`, …
2. first slots: `firstSlot_eq`, `known_iff`
3. viability: `viable_eq`
4. children: `children_eq` (list equality, same order), `children_eq_map`, `mem_children`, `children_idx`,
   `children_not_node`
5. ancestry: `fcAncestorOrSelf_eq`, `tAncestorOrSelf_eq` (and `_idx`, `_not_node`; for every fuel:
   `fcAnc_eq_ancF`, `tAnc_eq_tancF`)
6. `inside_eq`
7. weights: `weightFrom_eq`, `subtreeWeight_eq`
8. `leads_eq` (for every fuel: `leads_eq_leadsF`)

Generic list/fuel helpers carry the prefix `RefStatic.`. Non-vacuity: `refEx_ref`, `refEx2_ref` at the end.
-/
namespace Zrnt.ForkChoice
open Spec

/-! ## 1. lookups -/

theorem absNode_ref (ns : List Node) (n : Node) : (absNode ns n).ref = n.ref := rfl

/-- two nodes with the same reference sit at the same index -/
theorem WF.ref_inj {pr : PA} (h : WF pr) {i j : Nat} {ni nj : Node} (hi : pr.nodes[i]? = some ni)
    (hj : pr.nodes[j]? = some nj) (e : ni.ref = nj.ref) : i = j := by
  have h1 := h.idx_complete i ni hi
  have h2 := h.idx_complete j nj hj
  rw [e, h2] at h1
  exact (Option.some.inj h1).symm

theorem WF.ref_eq_iff {pr : PA} (h : WF pr) {i j : Nat} {ni nj : Node} (hi : pr.nodes[i]? = some ni)
    (hj : pr.nodes[j]? = some nj) : ni.ref = nj.ref ↔ i = j := by
  constructor
  · exact h.ref_inj hi hj
  · intro e; subst e; rw [hi] at hj; cases hj; rfl

theorem find_absNodes (ns : List Node) (ref : NodeRef) :
    (absNodes ns).find? (fun n => n.ref = ref) = (ns.find? (fun n => n.ref = ref)).map (absNode ns) := by
  unfold absNodes
  rw [List.find?_map]
  rfl

theorem find_of_index {fc : FC} {a : Abs} (h : WF fc.pa) (r : Ref fc a) {ref : NodeRef} {i : Nat} {n : Node}
    (hi : aGet fc.pa.indices ref = some i) (hn : fc.pa.nodes[i]? = some n) :
    a.find ref = some (absNode fc.pa.nodes n) := by
  unfold Abs.find
  rw [r.nodes, find_absNodes]
  obtain ⟨n', hn', hr⟩ := h.idx_sound ref i hi
  rw [hn] at hn'; cases hn'
  cases hf : fc.pa.nodes.find? (fun n => n.ref = ref) with
  | none =>
    have := List.find?_eq_none.1 hf n (List.mem_of_getElem? hn)
    simp [hr] at this
  | some m =>
    have hm := List.find?_some hf
    have hmem := List.mem_of_find?_eq_some hf
    obtain ⟨j, hj⟩ := List.getElem?_of_mem hmem
    have hmr : m.ref = ref := by simpa using hm
    have := h.ref_inj hj hn (by rw [hmr, hr])
    subst this
    rw [hn] at hj; cases hj
    rfl

theorem find_none {fc : FC} {a : Abs} (h : WF fc.pa) (r : Ref fc a) {ref : NodeRef}
    (hi : aGet fc.pa.indices ref = none) : a.find ref = none := by
  unfold Abs.find
  rw [r.nodes, find_absNodes]
  cases hf : fc.pa.nodes.find? (fun n => n.ref = ref) with
  | none => rfl
  | some m =>
    have hm := List.find?_some hf
    have hmem := List.mem_of_find?_eq_some hf
    obtain ⟨j, hj⟩ := List.getElem?_of_mem hmem
    have hmr : m.ref = ref := by simpa using hm
    have := h.idx_complete j m hj
    rw [hmr, hi] at this
    cases this

theorem has_iff {fc : FC} {a : Abs} (h : WF fc.pa) (r : Ref fc a) (ref : NodeRef) :
    a.has ref = (aGet fc.pa.indices ref).isSome := by
  unfold Abs.has
  cases hi : aGet fc.pa.indices ref with
  | none => rw [find_none h r hi]; rfl
  | some i =>
    obtain ⟨n, hn, _⟩ := h.idx_sound ref i hi
    rw [find_of_index h r hi hn]; rfl

/-- lookup through the node's own index -/
theorem find_node {fc : FC} {a : Abs} (h : WF fc.pa) (r : Ref fc a) {i : Nat} {n : Node}
    (hn : fc.pa.nodes[i]? = some n) : a.find n.ref = some (absNode fc.pa.nodes n) :=
  find_of_index h r (h.idx_complete i n hn) hn

theorem refAt_of_node {ns : List Node} {p : Nat} {n : Node} (hp : ns[p]? = some n) : refAt ns p = some n.ref := by
  simp [refAt, hp]

theorem refAt_isSome {ns : List Node} {p : Nat} (hp : p < ns.length) : (refAt ns p).isSome := by
  simp [refAt, hp]

theorem refAt_some {ns : List Node} {p : Nat} {ref : NodeRef} :
    refAt ns p = some ref ↔ ∃ n, ns[p]? = some n ∧ n.ref = ref := by
  unfold refAt
  cases ns[p]? <;> simp

theorem absNode_fparent_some (ns : List Node) (n : Node) (ref' : NodeRef) :
    (absNode ns n).fparent = some ref' ↔ ∃ p np, n.fparent = some p ∧ ns[p]? = some np ∧ np.ref = ref' := by
  show n.fparent.bind (refAt ns) = some ref' ↔ _
  cases n.fparent with
  | none => simp
  | some p => simp [refAt_some]

theorem absNode_tparent_some (ns : List Node) (n : Node) (ref' : NodeRef) :
    (absNode ns n).tparent = some ref' ↔ ∃ p np, n.tparent = some p ∧ ns[p]? = some np ∧ np.ref = ref' := by
  show n.tparent.bind (refAt ns) = some ref' ↔ _
  cases n.tparent with
  | none => simp
  | some p => simp [refAt_some]

/-- under `WF` the parent reference of a node with a parent always exists -/
theorem absNode_fparent_of {pr : PA} (h : WF pr) {j p : Nat} {n : Node} (hn : pr.nodes[j]? = some n)
    (hp : n.fparent = some p) : ∃ np, pr.nodes[p]? = some np ∧ (absNode pr.nodes n).fparent = some np.ref := by
  have hlt := h.fpar_lt j n p hn hp
  have hj : j < pr.nodes.length := (List.getElem?_eq_some_iff.1 hn).1
  have hpl : p < pr.nodes.length := by omega
  refine ⟨pr.nodes[p], List.getElem?_eq_getElem hpl, ?_⟩
  show n.fparent.bind (refAt pr.nodes) = _
  rw [hp]; simp [refAt, hpl]

theorem absNode_tparent_of {pr : PA} (h : WF pr) {j p : Nat} {n : Node} (hn : pr.nodes[j]? = some n)
    (hp : n.tparent = some p) : ∃ np, pr.nodes[p]? = some np ∧ (absNode pr.nodes n).tparent = some np.ref := by
  have hlt := h.tpar_lt j n p hn hp
  have hj : j < pr.nodes.length := (List.getElem?_eq_some_iff.1 hn).1
  have hpl : p < pr.nodes.length := by omega
  refine ⟨pr.nodes[p], List.getElem?_eq_getElem hpl, ?_⟩
  show n.tparent.bind (refAt pr.nodes) = _
  rw [hp]; simp [refAt, hpl]

theorem absNode_fparent_none (ns : List Node) {n : Node} (hp : n.fparent = none) : (absNode ns n).fparent = none := by
  show n.fparent.bind (refAt ns) = _
  rw [hp]; rfl

theorem absNode_tparent_none (ns : List Node) {n : Node} (hp : n.tparent = none) : (absNode ns n).tparent = none := by
  show n.tparent.bind (refAt ns) = _
  rw [hp]; rfl

/-! ## 5. ancestry -/

theorem fcAnc_not_node {fc : FC} {a : Abs} (h : WF fc.pa) (r : Ref fc a) (ri rj : NodeRef)
    (hj : aGet fc.pa.indices rj = none) (fuel : Nat) :
    a.fcAncestorOrSelf ri fuel rj = decide (rj = ri) := by
  cases fuel with
  | zero => rfl
  | succ f => simp [Abs.fcAncestorOrSelf, find_none h r hj]

theorem tAnc_not_node {fc : FC} {a : Abs} (h : WF fc.pa) (r : Ref fc a) (ri rj : NodeRef)
    (hj : aGet fc.pa.indices rj = none) (fuel : Nat) :
    a.tAncestorOrSelf ri fuel rj = decide (rj = ri) := by
  cases fuel with
  | zero => rfl
  | succ f => simp [Abs.tAncestorOrSelf, find_none h r hj]

theorem RefStatic.decide_ref_eq {pr : PA} (h : WF pr) {i j : Nat} {ni nj : Node} (hi : pr.nodes[i]? = some ni)
    (hj : pr.nodes[j]? = some nj) : decide (nj.ref = ni.ref) = (i == j) := by
  by_cases e : i = j
  · subst e; rw [hi] at hj; cases hj; simp
  · have : ¬ nj.ref = ni.ref := fun e' => e (h.ref_inj hj hi e').symm
    simp [e, this]

/-- the specification's walk and the model's walk agree for every fuel -/
theorem fcAnc_eq_ancF {fc : FC} {a : Abs} (h : WF fc.pa) (r : Ref fc a) {i : Nat} {ni : Node}
    (hi : fc.pa.nodes[i]? = some ni) :
    ∀ (fuel j : Nat) (nj : Node), fc.pa.nodes[j]? = some nj →
      a.fcAncestorOrSelf ni.ref fuel nj.ref = ancF fc.pa.nodes i fuel j := by
  intro fuel
  induction fuel with
  | zero => intro j nj hj; simp only [Abs.fcAncestorOrSelf, ancF]; exact RefStatic.decide_ref_eq h hi hj
  | succ f ih =>
    intro j nj hj
    simp only [Abs.fcAncestorOrSelf, ancF, find_node h r hj, fpar_of_node hj, RefStatic.decide_ref_eq h hi hj]
    cases hp : nj.fparent with
    | none => rw [absNode_fparent_none _ hp]
    | some p =>
      obtain ⟨np, hnp, e⟩ := absNode_fparent_of h hj hp
      rw [e]
      simp only [ih p np hnp]

theorem tAnc_eq_tancF {fc : FC} {a : Abs} (h : WF fc.pa) (r : Ref fc a) {i : Nat} {ni : Node}
    (hi : fc.pa.nodes[i]? = some ni) :
    ∀ (fuel j : Nat) (nj : Node), fc.pa.nodes[j]? = some nj →
      a.tAncestorOrSelf ni.ref fuel nj.ref = tancF fc.pa.nodes i fuel j := by
  intro fuel
  induction fuel with
  | zero => intro j nj hj; simp only [Abs.tAncestorOrSelf, tancF]; exact RefStatic.decide_ref_eq h hi hj
  | succ f ih =>
    intro j nj hj
    simp only [Abs.tAncestorOrSelf, tancF, find_node h r hj, tpar_of_node hj, RefStatic.decide_ref_eq h hi hj]
    cases hp : nj.tparent with
    | none => rw [absNode_tparent_none _ hp]
    | some p =>
      obtain ⟨np, hnp, e⟩ := absNode_tparent_of h hj hp
      rw [e]
      simp only [ih p np hnp]

theorem fuel_eq {fc : FC} {a : Abs} (r : Ref fc a) : a.fuel = fc.pa.nodes.length + 1 := by
  unfold Abs.fuel; rw [r.nodes]; simp [absNodes]

/-- one more unit of fuel does not change a walk along parents with smaller indices -/
theorem RefStatic.reachF_succ_len (par : Nat → Option Nat) (hlt : ∀ j p, par j = some p → p < j) (len : Nat)
    (hnone : ∀ j, len ≤ j → par j = none) (i j : Nat) :
    reachF par i (len + 1) j = reachF par i len j := by
  rw [Bool.eq_iff_iff, reachF_iff par hlt len hnone,
    reachF_iff par hlt (len + 1) (fun j hj => hnone j (by omega))]

theorem fcAncestorOrSelf_eq {fc : FC} {a : Abs} (h : WF fc.pa) (r : Ref fc a) {i j : Nat} {ni nj : Node}
    {ri rj : NodeRef} (hi : fc.pa.nodes[i]? = some ni) (hri : ni.ref = ri)
    (hj : fc.pa.nodes[j]? = some nj) (hrj : nj.ref = rj) :
    a.fcAncestorOrSelf ri a.fuel rj = anc fc.pa.nodes i j := by
  subst hri hrj
  rw [fuel_eq r, fcAnc_eq_ancF h r hi _ j nj hj]
  unfold anc
  rw [ancF_eq_reachF, ancF_eq_reachF]
  exact RefStatic.reachF_succ_len _ h.fpar_lt2 _ (fpar_none_of_ge _) i j

theorem tAncestorOrSelf_eq {fc : FC} {a : Abs} (h : WF fc.pa) (r : Ref fc a) {i j : Nat} {ni nj : Node}
    {ri rj : NodeRef} (hi : fc.pa.nodes[i]? = some ni) (hri : ni.ref = ri)
    (hj : fc.pa.nodes[j]? = some nj) (hrj : nj.ref = rj) :
    a.tAncestorOrSelf ri a.fuel rj = tanc fc.pa.nodes i j := by
  subst hri hrj
  rw [fuel_eq r, tAnc_eq_tancF h r hi _ j nj hj]
  unfold tanc
  rw [tancF_eq_reachF, tancF_eq_reachF]
  exact RefStatic.reachF_succ_len _ h.tpar_lt2 _ (tpar_none_of_ge _) i j

/-- the same, keyed by the index map -/
theorem fcAncestorOrSelf_idx {fc : FC} {a : Abs} (h : WF fc.pa) (r : Ref fc a) {i j : Nat} {ri rj : NodeRef}
    (hi : aGet fc.pa.indices ri = some i) (hj : aGet fc.pa.indices rj = some j) :
    a.fcAncestorOrSelf ri a.fuel rj = anc fc.pa.nodes i j := by
  obtain ⟨ni, hni, e1⟩ := h.idx_sound ri i hi
  obtain ⟨nj, hnj, e2⟩ := h.idx_sound rj j hj
  exact fcAncestorOrSelf_eq h r hni e1 hnj e2

theorem tAncestorOrSelf_idx {fc : FC} {a : Abs} (h : WF fc.pa) (r : Ref fc a) {i j : Nat} {ri rj : NodeRef}
    (hi : aGet fc.pa.indices ri = some i) (hj : aGet fc.pa.indices rj = some j) :
    a.tAncestorOrSelf ri a.fuel rj = tanc fc.pa.nodes i j := by
  obtain ⟨ni, hni, e1⟩ := h.idx_sound ri i hi
  obtain ⟨nj, hnj, e2⟩ := h.idx_sound rj j hj
  exact tAncestorOrSelf_eq h r hni e1 hnj e2

theorem fcAncestorOrSelf_not_node {fc : FC} {a : Abs} (h : WF fc.pa) (r : Ref fc a) (ri rj : NodeRef)
    (hj : aGet fc.pa.indices rj = none) : a.fcAncestorOrSelf ri a.fuel rj = decide (rj = ri) :=
  fcAnc_not_node h r ri rj hj _

theorem tAncestorOrSelf_not_node {fc : FC} {a : Abs} (h : WF fc.pa) (r : Ref fc a) (ri rj : NodeRef)
    (hj : aGet fc.pa.indices rj = none) : a.tAncestorOrSelf ri a.fuel rj = decide (rj = ri) :=
  tAnc_not_node h r ri rj hj _

/-! ## 3. viability -/

theorem viable_eq {fc : FC} {a : Abs} (r : Ref fc a) (n : Node) :
    a.viable (absNode fc.pa.nodes n) = fc.pa.viable n := by
  unfold Abs.viable PA.viable
  rw [r.justified, r.finalized, r.jE, r.fE]
  rfl

/-! ## 4. children -/

theorem RefStatic.snoc_induction {α : Type} {P : List α → Prop} (nil : P []) (snoc : ∀ l x, P l → P (l ++ [x])) :
    ∀ l, P l := by
  intro l
  rw [← List.reverse_reverse l]
  induction l.reverse with
  | nil => exact nil
  | cons x t ih => rw [List.reverse_cons]; exact snoc _ _ ih

theorem RefStatic.filterMap_congr' {α β : Type} {f g : α → Option β} {l : List α} (h : ∀ x ∈ l, f x = g x) :
    l.filterMap f = l.filterMap g := by
  induction l with
  | nil => rfl
  | cons x t ih =>
    rw [List.filterMap_cons, List.filterMap_cons, h x (List.mem_cons_self ..),
      ih (fun y hy => h y (List.mem_cons_of_mem _ hy))]

/-- filtering a mapped list = selecting the indices whose element passes, in index order -/
theorem RefStatic.filter_map_eq_range {α β : Type} (f : α → β) (q : β → Bool) (qi : Nat → Bool) :
    ∀ (l : List α), (∀ c x, l[c]? = some x → q (f x) = qi c) →
      (l.map f).filter q = ((List.range l.length).filter qi).filterMap (fun c => (l[c]?).map f) := by
  intro l
  induction l using RefStatic.snoc_induction with
  | nil => intro _; rfl
  | snoc l x ih =>
    intro hq
    have hq' : ∀ c y, l[c]? = some y → q (f y) = qi c := by
      intro c y hc
      have hlt : c < l.length := (List.getElem?_eq_some_iff.1 hc).1
      exact hq c y (by rw [List.getElem?_append_left hlt]; exact hc)
    have hx : q (f x) = qi l.length := hq l.length x (by simp)
    rw [List.map_append, List.filter_append, ih hq', List.length_append, List.length_singleton,
      List.range_succ, List.filter_append, List.filterMap_append]
    congr 1
    · apply RefStatic.filterMap_congr'
      intro c hc
      have hlt : c < l.length := by
        have := (List.mem_filter.1 hc).1
        exact List.mem_range.1 this
      rw [List.getElem?_append_left hlt]
    · simp only [List.map_cons, List.map_nil, List.filter_cons, List.filter_nil, hx]
      cases qi l.length <;> simp

/-- the child test of the specification is the child test of the model -/
theorem RefStatic.child_test_eq {pr : PA} (h : WF pr) {p : Nat} {np : Node} (hp : pr.nodes[p]? = some np)
    {c : Nat} {n : Node} (hn : pr.nodes[c]? = some n) :
    decide ((absNode pr.nodes n).fparent = some np.ref) = decide (fpar pr.nodes c = some p) := by
  rw [fpar_of_node hn]
  cases hf : n.fparent with
  | none => rw [absNode_fparent_none _ hf]; simp
  | some p' =>
    obtain ⟨np', hnp', e⟩ := absNode_fparent_of h hn hf
    rw [e]
    have := h.ref_eq_iff hnp' hp
    simp only [Option.some.injEq, this]

theorem children_eq {fc : FC} {a : Abs} (h : WF fc.pa) (r : Ref fc a) {p : Nat} {np : Node}
    (hp : fc.pa.nodes[p]? = some np) :
    a.children np.ref =
      (childrenOf fc.pa.nodes p).filterMap (fun c => (fc.pa.nodes[c]?).map (absNode fc.pa.nodes)) := by
  unfold Abs.children childrenOf
  rw [r.nodes]
  exact RefStatic.filter_map_eq_range (absNode fc.pa.nodes) _ _ fc.pa.nodes
    (fun c n hn => RefStatic.child_test_eq h hp hn)

theorem RefStatic.mem_childrenOf {ns : List Node} {p c : Nat} : c ∈ childrenOf ns p ↔ fpar ns c = some p := by
  unfold childrenOf
  simp only [List.mem_filter, List.mem_range, decide_eq_true_eq]
  constructor
  · exact fun h => h.2
  · exact fun h => ⟨fpar_lt_length ns c p h, h⟩

/-- the same with `map` (every child index is inside the array) -/
theorem children_eq_map {fc : FC} {a : Abs} (h : WF fc.pa) (r : Ref fc a) {p : Nat} {np : Node}
    (hp : fc.pa.nodes[p]? = some np) :
    a.children np.ref =
      (childrenOf fc.pa.nodes p).map (fun c => absNode fc.pa.nodes (fc.pa.nodes[c]?.getD default)) := by
  rw [children_eq h r hp, ← List.filterMap_eq_map]
  apply RefStatic.filterMap_congr'
  intro c hc
  have hlt := fpar_lt_length _ c p (RefStatic.mem_childrenOf.1 hc)
  simp [hlt]

theorem mem_children {fc : FC} {a : Abs} (h : WF fc.pa) (r : Ref fc a) {p : Nat} {np : Node}
    (hp : fc.pa.nodes[p]? = some np) (sn : SNode) :
    sn ∈ a.children np.ref ↔
      ∃ c n, fc.pa.nodes[c]? = some n ∧ fpar fc.pa.nodes c = some p ∧ sn = absNode fc.pa.nodes n := by
  rw [children_eq h r hp, List.mem_filterMap]
  constructor
  · rintro ⟨c, hc, e⟩
    cases hn : fc.pa.nodes[c]? with
    | none => rw [hn] at e; cases e
    | some n =>
      rw [hn] at e
      exact ⟨c, n, hn, RefStatic.mem_childrenOf.1 hc, (Option.some.inj e).symm⟩
  · rintro ⟨c, n, hn, hf, e⟩
    exact ⟨c, RefStatic.mem_childrenOf.2 hf, by rw [hn, e]; rfl⟩

/-- children keyed by the index map -/
theorem children_idx {fc : FC} {a : Abs} (h : WF fc.pa) (r : Ref fc a) {p : Nat} {ref : NodeRef}
    (hp : aGet fc.pa.indices ref = some p) :
    a.children ref =
      (childrenOf fc.pa.nodes p).filterMap (fun c => (fc.pa.nodes[c]?).map (absNode fc.pa.nodes)) := by
  obtain ⟨np, hnp, e⟩ := h.idx_sound ref p hp
  rw [← e]; exact children_eq h r hnp

/-- a reference that is not a node has no children -/
theorem children_not_node {fc : FC} {a : Abs} (h : WF fc.pa) (r : Ref fc a) {ref : NodeRef}
    (hp : aGet fc.pa.indices ref = none) : a.children ref = [] := by
  unfold Abs.children
  rw [List.filter_eq_nil_iff, r.nodes]
  intro sn hsn
  obtain ⟨n, hn, e⟩ := List.mem_map.1 hsn
  subst e
  obtain ⟨c, hc⟩ := List.getElem?_of_mem hn
  intro hf
  have hf' : (absNode fc.pa.nodes n).fparent = some ref := by simpa using hf
  obtain ⟨q, nq, _, hq, e⟩ := (absNode_fparent_some _ _ _).1 hf'
  have := h.idx_complete q nq hq
  rw [e, hp] at this; cases this

/-! ## 2. first slots -/

/-- the fold of `Abs.firstSlot` -/
def RefStatic.minStep (acc : Option Nat) (n : SNode) : Option Nat :=
  match acc with | none => some n.ref.slot | some m => some (min m n.ref.slot)

theorem RefStatic.firstSlot_unfold (a : Abs) (root : Root) :
    a.firstSlot root = (a.nodes.filter (fun n => n.ref.root = root)).foldl RefStatic.minStep none := rfl

theorem RefStatic.foldl_minStep (s0 : Nat) : ∀ (l : List SNode) (acc : Option Nat),
    (∀ x ∈ l, s0 ≤ x.ref.slot) → (∀ m, acc = some m → s0 ≤ m) →
    (acc = some s0 ∨ ∃ x ∈ l, x.ref.slot = s0) → l.foldl RefStatic.minStep acc = some s0 := by
  intro l
  induction l with
  | nil =>
    intro acc _ _ h3
    rcases h3 with h3 | ⟨x, hx, _⟩
    · exact h3
    · cases hx
  | cons y t ih =>
    intro acc h1 h2 h3
    rw [List.foldl_cons]
    have hy := h1 y (List.mem_cons_self ..)
    apply ih
    · exact fun x hx => h1 x (List.mem_cons_of_mem _ hx)
    · intro m hm
      cases acc with
      | none => simp only [RefStatic.minStep, Option.some.injEq] at hm; omega
      | some m0 =>
        have := h2 m0 rfl
        simp only [RefStatic.minStep, Option.some.injEq] at hm; omega
    · rcases h3 with h3 | ⟨x, hx, e⟩
      · subst h3; left; simp only [RefStatic.minStep]; congr 1; omega
      · rcases List.mem_cons.1 hx with rfl | hx
        · left
          cases acc with
          | none => simp only [RefStatic.minStep, e]
          | some m0 =>
            have := h2 m0 rfl
            simp only [RefStatic.minStep]; congr 1; omega
        · exact Or.inr ⟨x, hx, e⟩

theorem firstSlot_eq {fc : FC} {a : Abs} (h : WF fc.pa) (hc : Chain fc.pa) (r : Ref fc a) (root : Root) :
    a.firstSlot root = aGet fc.pa.blockSlots root := by
  rw [RefStatic.firstSlot_unfold, r.nodes]
  cases hb : aGet fc.pa.blockSlots root with
  | none =>
    have : (absNodes fc.pa.nodes).filter (fun n => n.ref.root = root) = [] := by
      rw [List.filter_eq_nil_iff]
      intro sn hsn
      obtain ⟨n, hn, e⟩ := List.mem_map.1 hsn
      subst e
      obtain ⟨c, hc'⟩ := List.getElem?_of_mem hn
      have := hc.rooted c n hc'
      intro hr
      have hr' : n.ref.root = root := of_decide_eq_true hr
      rw [hr', hb] at this; cases this
    rw [this]; rfl
  | some s0 =>
    apply RefStatic.foldl_minStep
    · intro sn hsn
      obtain ⟨hsn, hr⟩ := List.mem_filter.1 hsn
      obtain ⟨n, hn, e⟩ := List.mem_map.1 hsn
      subst e
      obtain ⟨c, hc'⟩ := List.getElem?_of_mem hn
      have hr' : n.ref.root = root := of_decide_eq_true hr
      have hi := h.idx_complete c n hc'
      have e : n.ref = ⟨n.ref.slot, root⟩ := by rw [← hr']
      rw [e] at hi
      exact hc.first_min h root s0 n.ref.slot c hb hi
    · intro m hm; cases hm
    · right
      obtain ⟨i, hi⟩ := Option.isSome_iff_exists.1 (h.bs_node root s0 hb)
      obtain ⟨n, hn, e⟩ := h.idx_sound _ _ hi
      refine ⟨absNode fc.pa.nodes n, ?_, ?_⟩
      · rw [List.mem_filter]
        refine ⟨List.mem_map.2 ⟨n, List.mem_of_getElem? hn, rfl⟩, ?_⟩
        simp [absNode_ref, e]
      · rw [absNode_ref, e]

theorem known_iff {fc : FC} {a : Abs} (h : WF fc.pa) (hc : Chain fc.pa) (r : Ref fc a) (root : Root) :
    a.known root = (aGet fc.pa.blockSlots root).isSome := by
  unfold Abs.known; rw [firstSlot_eq h hc r]

/-- the first node of a known root: its index and its node -/
theorem first_index {pr : PA} (h : WF pr) {root : Root} {s0 : Nat} (hb : aGet pr.blockSlots root = some s0) :
    ∃ i n, aGet pr.indices ⟨s0, root⟩ = some i ∧ pr.nodes[i]? = some n ∧ n.ref = ⟨s0, root⟩ := by
  obtain ⟨i, hi⟩ := Option.isSome_iff_exists.1 (h.bs_node root s0 hb)
  obtain ⟨n, hn, e⟩ := h.idx_sound _ _ hi
  exact ⟨i, n, hi, hn, e⟩

/-! ## 6. `inside` -/

theorem inside_eq {fc : FC} {a : Abs} (h : WF fc.pa) (hc : Chain fc.pa) (r : Ref fc a) (ra rl : Root) :
    a.inside ra rl =
      (match (aGet fc.pa.blockSlots ra).bind (fun s => aGet fc.pa.indices ⟨s, ra⟩),
             (aGet fc.pa.blockSlots rl).bind (fun s => aGet fc.pa.indices ⟨s, rl⟩) with
       | some x, some l => some (anc fc.pa.nodes x l)
       | _, _ => none) := by
  unfold Abs.inside
  rw [known_iff h hc r, firstSlot_eq h hc r, firstSlot_eq h hc r]
  by_cases e : ra = rl
  · subst e
    rw [if_pos rfl]
    cases hb : aGet fc.pa.blockSlots ra with
    | none => rfl
    | some sa =>
      obtain ⟨x, nx, hx, _, _⟩ := first_index h hb
      simp [hx, anc_self]
  · rw [if_neg e]
    cases hb : aGet fc.pa.blockSlots ra with
    | none => rfl
    | some sa =>
      obtain ⟨x, nx, hx, hnx, ex⟩ := first_index h hb
      cases hb' : aGet fc.pa.blockSlots rl with
      | none => simp
      | some sl =>
        obtain ⟨l, nl, hl, hnl, el⟩ := first_index h hb'
        simp only [Option.bind_some, hx, hl]
        rw [fcAncestorOrSelf_idx h r hx hl]

/-! ## 7. weights -/

/-- a settled tracker counts for the subtree of `ri` on the specification side exactly when it is applied in
the subtree of `i` on the model side -/
theorem countsFor_eq {fc : FC} {a : Abs} (h : WF fc.pa) (r : Ref fc a) {i : Nat} {ni : Node}
    (hi : fc.pa.nodes[i]? = some ni) (v : Vote) (e : Nat) (hs : v.cur = v.next) :
    a.countsFor ni.ref ⟨v.next, e⟩ = appliedIn fc.pa i v := by
  unfold Abs.countsFor appliedIn
  rw [has_iff h r, hs]
  cases hj : aGet fc.pa.indices v.next with
  | none => rfl
  | some j =>
    rw [fcAncestorOrSelf_idx h r (h.idx_complete i ni hi) hj]
    rfl

theorem RefStatic.weightFrom_cons (a : Abs) (r : NodeRef) (k : Nat) (v : Option LatestVote) (vs : List (Option LatestVote)) :
    a.weightFrom r k (v :: vs) =
      (match v with
       | some l => if a.countsFor r l then a.balanceOf k else 0
       | none => 0) + a.weightFrom r (k + 1) vs := rfl

theorem RefStatic.wsumFrom_cons (pr : PA) (bals : List Nat) (i k : Nat) (v : Vote) (vs : List Vote) :
    wsumFrom pr bals i k (v :: vs) =
      (if appliedIn pr i v then ((bals.getD k 0 : Nat) : Int) else 0) + wsumFrom pr bals i (k + 1) vs := rfl

theorem weightFrom_eq {fc : FC} {a : Abs} (h : WF fc.pa) (r : Ref fc a) (hz : NoZero fc.pa)
    {i : Nat} {ni : Node} (hi : fc.pa.nodes[i]? = some ni) :
    ∀ (vs : List Vote) (k : Nat), (∀ v ∈ vs, v.cur = v.next) →
      ((a.weightFrom ni.ref k (vs.map absVote) : Nat) : Int) = wsumFrom fc.pa fc.balances i k vs := by
  intro vs
  induction vs with
  | nil => intro k _; rfl
  | cons v t ih =>
    intro k hs
    have hv := hs v (List.mem_cons_self ..)
    rw [List.map_cons, RefStatic.weightFrom_cons, RefStatic.wsumFrom_cons, Int.natCast_add,
      ih (k + 1) (fun w hw => hs w (List.mem_cons_of_mem _ hw))]
    congr 1
    unfold absVote
    by_cases hzero : v.next = NodeRef.zero
    · rw [if_pos hzero]
      have : appliedIn fc.pa i v = false := by
        unfold appliedIn; rw [hv, hzero, hz]
      rw [this]; rfl
    · rw [if_neg hzero]
      simp only [countsFor_eq h r hi v v.nextEpoch hv, Abs.balanceOf, r.balances]
      cases appliedIn fc.pa i v <;> simp

theorem subtreeWeight_eq {fc : FC} {a : Abs} (h : WF fc.pa) (r : Ref fc a)
    (hz : aGet fc.pa.indices NodeRef.zero = none) (hs : ∀ v ∈ fc.votes, v.cur = v.next)
    {i : Nat} {ni : Node} {ri : NodeRef} (hi : fc.pa.nodes[i]? = some ni) (hri : ni.ref = ri) :
    ((a.subtreeWeight ri : Nat) : Int) = wsum fc.pa fc.votes fc.balances i := by
  subst hri
  unfold Abs.subtreeWeight wsum
  rw [r.votes]
  exact weightFrom_eq h r hz hi fc.votes 0 hs

/-! ## 8. `leads` -/

theorem RefStatic.any_filterMap {α β : Type} (g : α → Option β) (P : β → Bool) (l : List α) :
    (l.filterMap g).any P = l.any (fun c => match g c with | some y => P y | none => false) := by
  induction l with
  | nil => rfl
  | cons x t ih =>
    rw [List.filterMap_cons, List.any_cons]
    cases hg : g x with
    | none => simp only [ih]; rfl
    | some y => simp only [List.any_cons, ih]

theorem RefStatic.any_congr' {α : Type} {P Q : α → Bool} {l : List α} (h : ∀ x ∈ l, P x = Q x) : l.any P = l.any Q := by
  induction l with
  | nil => rfl
  | cons x t ih =>
    rw [List.any_cons, List.any_cons, h x (List.mem_cons_self ..),
      ih (fun y hy => h y (List.mem_cons_of_mem _ hy))]

theorem RefStatic.viableAt_of_node {pr : PA} {i : Nat} {n : Node} (hn : pr.nodes[i]? = some n) :
    viableAt pr i = pr.viable n := by
  unfold viableAt; rw [hn]

/-- the two `leads` walks agree for every fuel -/
theorem leads_eq_leadsF {fc : FC} {a : Abs} (h : WF fc.pa) (r : Ref fc a) :
    ∀ (fuel i : Nat) (n : Node), fc.pa.nodes[i]? = some n →
      a.leads fuel (absNode fc.pa.nodes n) = leadsF fc.pa fuel i := by
  intro fuel
  induction fuel with
  | zero =>
    intro i n hn
    simp only [Abs.leads, leadsF, viable_eq r, RefStatic.viableAt_of_node hn]
  | succ f ih =>
    intro i n hn
    simp only [Abs.leads, leadsF, viable_eq r, RefStatic.viableAt_of_node hn]
    congr 1
    rw [absNode_ref, children_eq h r hn, RefStatic.any_filterMap]
    apply RefStatic.any_congr'
    intro c hc
    obtain ⟨nc, hnc, _⟩ := fpar_node (RefStatic.mem_childrenOf.1 hc)
    simp only [hnc, Option.map_some]
    exact ih c nc hnc

/-- children have larger indices, so depth `length - 1 - i` below index `i` is all there is -/
theorem RefStatic.leadsF_stable {pr : PA} (h : WF pr) :
    ∀ (f i : Nat), pr.nodes.length ≤ f + i + 1 → leadsF pr (f + 1) i = leadsF pr f i := by
  intro f
  induction f with
  | zero =>
    intro i hl
    show (viableAt pr i || (childrenOf pr.nodes i).any (leadsF pr 0)) = viableAt pr i
    have : (childrenOf pr.nodes i).any (leadsF pr 0) = false := by
      rw [List.any_eq_false]
      intro c hc
      have hf := RefStatic.mem_childrenOf.1 hc
      have := h.fpar_lt' c i hf
      have := fpar_lt_length _ c i hf
      omega
    rw [this, Bool.or_false]
  | succ f ih =>
    intro i hl
    show (viableAt pr i || (childrenOf pr.nodes i).any (leadsF pr (f + 1))) =
      (viableAt pr i || (childrenOf pr.nodes i).any (leadsF pr f))
    congr 1
    apply RefStatic.any_congr'
    intro c hc
    have hf := RefStatic.mem_childrenOf.1 hc
    have := h.fpar_lt' c i hf
    exact ih c (by omega)

theorem RefStatic.leadsF_stable_add {pr : PA} (h : WF pr) (i f k : Nat) (hl : pr.nodes.length ≤ f + i + 1) :
    leadsF pr (f + k) i = leadsF pr f i := by
  induction k with
  | zero => rfl
  | succ k ih => rw [← Nat.add_assoc, RefStatic.leadsF_stable h (f + k) i (by omega), ih]

theorem leads_eq {fc : FC} {a : Abs} (h : WF fc.pa) (r : Ref fc a) {i : Nat} {n : Node}
    (hn : fc.pa.nodes[i]? = some n) :
    a.leads a.fuel (absNode fc.pa.nodes n) = leads fc.pa i := by
  rw [fuel_eq r, leads_eq_leadsF h r _ i n hn]
  unfold Zrnt.ForkChoice.leads
  exact RefStatic.leadsF_stable h _ i (by omega)

/-! ## non-vacuity: `WF`, `Chain`, `Ref` and the side conditions of item 7 hold together -/

/-- the wrapper right after `NewProtoForkChoice` with anchor `(root 1, slot 0)` -/
def refExFC : FC :=
  match FC.new 4 ⟨0, 1⟩ ⟨0, 1⟩ 1 0 0 [32] .absent with
  | .ok fc _ => fc
  | _ => default

/-- the specification's initial state for the same arguments -/
def refExAbs : Abs := (Abs.init 4 1 0 0 ⟨0, 1⟩ ⟨0, 1⟩ .absent [32]).getD default

theorem refExFC_eq : refExFC =
    { pa := PA.new 0 1 0 0 0 .absent, votes := [], changed := false, spe := 4, balances := [32],
      pin := some ⟨0, 1⟩, justified := ⟨0, 1⟩, finalized := ⟨0, 1⟩, held := false } := by
  rfl

theorem refExAbs_eq : refExAbs =
    { spe := 4,
      nodes := [{ ref := ⟨0, 1⟩, parentRoot := 0, tparent := none, fparent := none, jEpoch := 0, fEpoch := 0 }],
      votes := [], balances := [32], justified := ⟨0, 1⟩, finalized := ⟨0, 1⟩, pin := some ⟨0, 1⟩,
      sink := .absent, poisoned := false } := by
  rfl

theorem refEx_wf : WF refExFC.pa := by rw [refExFC_eq]; exact wf_new ..

theorem refEx_chain : Chain refExFC.pa := by rw [refExFC_eq]; exact chain_new ..

theorem refEx_ref : Ref refExFC refExAbs := by
  rw [refExFC_eq, refExAbs_eq]
  exact
    { spe := rfl, nodes := rfl, votes := rfl, balances := rfl, justified := rfl,
      finalized := rfl, pin := rfl, sink := rfl, clean := rfl, jE := rfl, fE := rfl,
      fresh := fun v hv => (by cases hv), next_in := fun v hv => (by cases hv),
      cur_le := fun v hv => (by cases hv), settled := fun _ v hv => (by cases hv) }

/-- all hypotheses used in this file hold together (items 1–8) -/
example : WF refExFC.pa ∧ Chain refExFC.pa ∧ Ref refExFC refExAbs ∧
    aGet refExFC.pa.indices NodeRef.zero = none ∧ (∀ v ∈ refExFC.votes, v.cur = v.next) ∧
    ∃ n, refExFC.pa.nodes[0]? = some n ∧ n.ref = ⟨0, 1⟩ :=
  ⟨refEx_wf, refEx_chain, refEx_ref, (by rw [refExFC_eq]; decide), (by rw [refExFC_eq]; intro v hv; cases hv),
   (by rw [refExFC_eq]; exact ⟨_, rfl, rfl⟩)⟩

/-- and the bridge says something on it: the anchor is found, is its own ancestor, leads, and weighs 0 -/
example : refExAbs.find ⟨0, 1⟩ = some (absNode refExFC.pa.nodes (refExFC.pa.nodes[0]?.getD default)) ∧
    refExAbs.fcAncestorOrSelf ⟨0, 1⟩ refExAbs.fuel ⟨0, 1⟩ = anc refExFC.pa.nodes 0 0 ∧
    refExAbs.firstSlot 1 = aGet refExFC.pa.blockSlots 1 := by
  rw [refExFC_eq, refExAbs_eq]; decide

/-! A second instance with a fork-choice child: block `2` at slot `1` on top of the anchor; nodes
`0:(1,0) 1:(1,1) 2:(2,1)`. -/

def refExPA2 : PA := (((PA.new 0 1 0 0 0 .absent).processBlock 1 2 1 0 0).getD (PA.new 0 1 0 0 0 .absent, false)).1

def refExFC2 : FC :=
  { pa := refExPA2, votes := [], changed := false, spe := 4, balances := [32],
    pin := some ⟨0, 1⟩, justified := ⟨0, 1⟩, finalized := ⟨0, 1⟩, held := false }

def refExAbs2 : Abs := (refExAbs.processBlock 1 2 1 0 0).1

theorem refEx2_ok : WF refExFC2.pa ∧ Chain refExFC2.pa :=
  wf_chain_processBlock _ (wf_new 0 1 0 0 0 .absent) (chain_new 0 1 0 0 0 .absent) 1 2 1 0 0

theorem refEx2_ref : Ref refExFC2 refExAbs2 :=
  { spe := rfl, nodes := by decide, votes := rfl, balances := rfl, justified := rfl,
    finalized := rfl, pin := rfl, sink := rfl, clean := rfl, jE := rfl, fE := rfl,
    fresh := fun v hv => (by cases hv), next_in := fun v hv => (by cases hv),
    cur_le := fun v hv => (by cases hv), settled := fun _ v hv => (by cases hv) }

example : refExFC2.pa.nodes.map (·.ref) = [⟨0, 1⟩, ⟨1, 1⟩, ⟨1, 2⟩] ∧
    (refExAbs2.children ⟨0, 1⟩).map (·.ref) = [⟨1, 1⟩, ⟨1, 2⟩] ∧ childrenOf refExFC2.pa.nodes 0 = [1, 2] ∧
    refExAbs2.inside 1 2 = some true ∧ refExAbs2.inside 2 1 = some false := by decide

end Zrnt.ForkChoice
