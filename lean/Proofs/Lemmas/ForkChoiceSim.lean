import Proofs.Lemmas.ForkChoiceSimBase
import Proofs.Lemmas.ForkChoiceRefQueries
import Proofs.Lemmas.ForkChoiceRefQueries2
import Proofs.Lemmas.ForkChoiceRefJustify
import Proofs.Lemmas.ForkChoicePruneRef
import Proofs.Lemmas.ForkChoicePruneInv
import Proofs.Lemmas.ForkChoiceNodesOrd
/-! Simulation of the specification by the code-shaped model on admissible histories: `refines_run`, `head_eq_ghost_run`. -/
namespace Zrnt.ForkChoice
open Spec FC

theorem relock (fc : FC) (hh : fc.held = false) : ({ ({ fc with held := true } : FC) with held := false } : FC) = fc := by
  cases fc; simp_all

theorem relock_pa (fc : FC) (hh : fc.held = false) (X : PA) :
    ({ ({ ({ fc with held := true } : FC) with pa := X } : FC) with held := false } : FC) = { fc with pa := X } := by
  cases fc; simp_all

/-- a wrapper query of the form lock; `updateVotesMaybe`; proto-array query `f`: if `f` answers as the specification
on every settled related state, so does the wrapper -/
theorem afterVotes_sim {α : Type} (fc : FC) (a : Abs) (hh : fc.held = false) (I : FI fc) (hl : LI fc.pa) (r : Ref fc a)
    (f : PA → POut PA α) (g : α → Ans) (specAns : Ans)
    (hf : ∀ fc' : FC, FI fc' → LI fc'.pa → Ref fc' a → (∀ v ∈ fc'.votes, v.cur = v.next) →
      match f fc'.pa with
      | .ok s x => Ref { fc' with pa := s } a ∧ specAns = g x
      | .err s => Ref { fc' with pa := s } a ∧ specAns = Ans.err
      | _ => False) :
    match fc.withLock (·.afterVotes f) with
    | .ok s x => Ref s a ∧ specAns = g x
    | .err s => Ref s a ∧ specAns = Ans.err
    | _ => False := by
  rw [withLock_free fc hh]
  simp only [afterVotes]
  have hl1 := li_updateVotesMaybe { fc with held := true } (fi_held I true) hl
  obtain ⟨fc', e, r', I', hset, _⟩ := ref_updateVotesMaybe { fc with held := true } a (fi_held I true) (ref_held r true)
  rw [e] at hl1 ⊢
  simp only [liftPA]
  have hs := hf fc' I' hl1 r' hset
  cases hq : f fc'.pa with
  | ok s x => rw [hq] at hs; exact ⟨ref_held hs.1 false, hs.2⟩
  | err s => rw [hq] at hs; exact ⟨ref_held hs.1 false, hs.2⟩
  | panic => rw [hq] at hs; exact hs.elim
  | spin => rw [hq] at hs; exact hs.elim

/-- what one step of a live, related pair does: related states again, the specification stays inside its domain,
and on `head` / `findhead` the two answers are equal -/
def SimOK (op : Op) (m : MState × Ans) (s : Abs × Ans) : Prop :=
  (match m.1 with
   | .live fc' => Ref fc' s.1
   | _ => False) ∧ (Refined op = true → m.2 = s.2)

theorem sinkReport_nil : sinkReport [] = ([], none) := rfl

/-- no vote refers to the root, on the specification side -/
theorem refersTo_false (fc : FC) (a : Abs) (r : Ref fc a) (root : Root)
    (h : ∀ v ∈ fc.votes, v.next.root ≠ root ∧ v.cur.root ≠ root) : a.refersTo root = false := by
  unfold Abs.refersTo
  rw [r.votes]
  rw [List.any_eq_false]
  intro x hx
  obtain ⟨v, hv, rfl⟩ := List.mem_map.mp hx
  unfold absVote
  by_cases hz : v.next = NodeRef.zero
  · simp [hz]
  · simp [hz]; exact (h v hv).1

/-- `InSubtree` of the specification, read off the model's maps -/
theorem spec_inSub_eq (fc : FC) (a : Abs) (I : FI fc) (r : Ref fc a) (x rt : Root) :
    a.inSub x rt = .inSub (RefOps.insAns fc.pa x rt).1 (RefOps.insAns fc.pa x rt).2 := by
  unfold Abs.inSub RefOps.insAns
  rw [known_iff I.wf I.chain r, known_iff I.wf I.chain r, inside_eq I.wf I.chain r]
  cases hx : aGet fc.pa.blockSlots x with
  | none => simp
  | some sx =>
    cases hr : aGet fc.pa.blockSlots rt with
    | none => simp
    | some sr =>
      have h1 := I.wf.bs_node x sx hx
      have h2 := I.wf.bs_node rt sr hr
      cases h3 : aGet fc.pa.indices ⟨sx, x⟩ with
      | none => rw [h3] at h1; cases h1
      | some ix =>
        cases h4 : aGet fc.pa.indices ⟨sr, rt⟩ with
        | none => rw [h4] at h2; cases h2
        | some ir => simp [h3, h4]

/-- **`OnPrune` on a related, settled pair**: the invariants survive (`pinv_onPrune`) and the result refines the
specification's prune with the same success flag and the same sink reports (`ref_onPrune`) -/
theorem pruneOK : RefJ.PruneOK := by
  intro fc a I r hset hlog root slot
  have h1 := pinv_onPrune fc.pa fc.votes fc.balances I root slot
  have h2 := ref_onPrune fc a I r hset hlog root slot
  revert h1 h2
  cases fc.pa.onPrune root slot with
  | ok s u => exact fun h1 h2 => ⟨h1, h2⟩
  | err s => exact fun h1 h2 => ⟨h1, h2⟩
  | panic => exact fun h1 _ => h1
  | spin => exact fun h1 _ => h1

theorem stepLive_sim (fc : FC) (a : Abs) (hh : fc.held = false) (I : FI fc) (hl : LI fc.pa) (ho : IdxOrd fc.pa)
    (r : Ref fc a) (op : Op)
    (hok : StepOK (.live fc) op) (hni : ∀ spe ar as ap j f sink bals, op ≠ .init spe ar as ap j f sink bals) :
    SimOK op (stepLive fc op) (a.stepLive op) := by
  -- queries that leave the specification state alone
  have qsim : ∀ {α : Type} (f : PA → POut PA α) (g : α → Ans) (hf : ∀ pr, WF pr → GoodFr pr (f pr)),
      (match (finish (fc.withLock (·.afterVotes f)) g).1 with | .live fc' => Ref fc' a | _ => False) := by
    intro α f g hf
    have h := query_sim fc a hh I r f hf
    unfold finish
    revert h
    cases fc.withLock (·.afterVotes f) <;> exact fun h => h
  cases op with
  | init spe ar as ap j f sink bals => exact absurd rfl (hni spe ar as ap j f sink bals)
  | slot p s j f =>
    show (match (finish (fc.processSlot p s j f) _).1 with | .live fc' => Ref fc' _ | _ => False) ∧
      (_ → (finish (fc.processSlot p s j f) (fun _ => Ans.unit)).2 = Ans.unit)
    unfold FC.processSlot
    rw [withLock_free fc hh]
    simp only [finish, relock_pa fc hh]
    exact ⟨ref_processSlot fc a I r p s j f hok.2.1, fun _ => trivial⟩
  | block p rt s j f =>
    obtain ⟨pr', b, e, _, _⟩ := processBlock_spec fc.pa I.wf p rt s j f
    have hb := ref_processBlock fc a I r p rt s j f pr' b e (fun hn => refersTo_false fc a r rt (hok.2.2.1 hn))
    show (match (finish (fc.processBlock p rt s j f) _).1 with | .live fc' => Ref fc' _ | _ => False) ∧
      (_ → (finish (fc.processBlock p rt s j f) Ans.bool).2 = Ans.bool (a.processBlock p rt s j f).2)
    unfold FC.processBlock
    rw [withLock_free fc hh]
    simp only [e, finish, relock_pa fc hh]
    exact ⟨hb.1, fun _ => by rw [hb.2]⟩
  | att v rt s =>
    obtain ⟨fc', b, e, _, _, r', hb⟩ := ref_processAttestation fc a hh I r v rt s hok
    show (match (finish (fc.processAttestation v rt s) _).1 with | .live fc' => Ref fc' _ | _ => False) ∧
      (_ → (finish (fc.processAttestation v rt s) Ans.bool).2 = Ans.bool (a.processAttestation v rt s).2)
    rw [e]
    exact ⟨r', fun _ => by simp [finish, hb]⟩
  | justify t j f b =>
    have I0 : FI { fc with pa := { fc.pa with sinkLog := [] } } :=
      ⟨wf_sinkLog I.wf [], chain_congr (pr := fc.pa) (pr' := { fc.pa with sinkLog := [] }) rfl rfl rfl (fun _ => rfl) I.chain,
        I.nz, fun i n hn => by
        have := I.w i n hn
        rw [this]
        exact (wsumFrom_congr fc.pa { fc.pa with sinkLog := [] } fc.balances i fc.votes 0 (fun _ _ => rfl)).symm⟩
    have r0 : Ref { fc with pa := { fc.pa with sinkLog := [] } } a :=
      { spe := r.spe, nodes := r.nodes, votes := r.votes, balances := r.balances, justified := r.justified,
        finalized := r.finalized, pin := r.pin, sink := r.sink, clean := r.clean, jE := r.jE, fE := r.fE,
        fresh := r.fresh, next_in := r.next_in, cur_le := r.cur_le, settled := r.settled }
    have hs := ref_updateJustified_full pruneOK { fc with pa := { fc.pa with sinkLog := [] } } a hh I0 r0 t j f b rfl
    show (match (stepLive fc (.justify t j f b)).1 with | .live fc' => Ref fc' (a.updateJustified t j f b).1 | _ => False) ∧
      (_ → (stepLive fc (.justify t j f b)).2 = (a.updateJustified t j f b).2)
    unfold stepLive
    simp only
    revert hs
    cases FC.updateJustified { fc with pa := { fc.pa with sinkLog := [] } } t j f b with
    | ok s u => exact fun hs => ⟨hs.2.2.1, fun _ => hs.2.2.2.symm⟩
    | err s => exact fun hs => ⟨hs.2.2.1, fun _ => hs.2.2.2.symm⟩
    | panic => exact fun hs => hs.elim
    | blocked => exact fun hs => hs.elim
  | pin rt s =>
    show (match (finish (fc.setPin rt s) _).1 with | .live fc' => Ref fc' (a.stepLive (.pin rt s)).1 | _ => False) ∧
      (_ → (finish (fc.setPin rt s) (fun _ => Ans.unit)).2 = (a.stepLive (.pin rt s)).2)
    rcases ref_setPin fc a hh I r rt s with ⟨h1, e, r'⟩ | ⟨h1, e⟩
    · rw [e]; simp only [finish, Abs.stepLive, h1, if_true]; exact ⟨r', fun _ => trivial⟩
    · rw [e]; simp only [finish, Abs.stepLive, h1]; exact ⟨r, fun _ => rfl⟩
  | head =>
    have hs := wrapperHead_sim fc a hh I hl r
    show (match (finish fc.head _).1 with | .live fc' => Ref fc' a | _ => False) ∧
      (_ → (finish fc.head Ans.ref).2 = Abs.refAns (a.headFrom a.startNode))
    revert hs
    cases fc.head with
    | ok s ref => exact fun hs => ⟨hs.1, fun _ => by simp [finish, hs.2, Abs.refAns]⟩
    | err s => exact fun hs => ⟨hs.1, fun _ => by simp [finish, hs.2, Abs.refAns]⟩
    | panic => exact fun hs => hs.elim
    | blocked => exact fun hs => hs.elim
  | findHead rt s =>
    have hs := wrapperFindHead_sim fc a hh I hl r rt s
    show (match (finish (fc.findHead rt s) _).1 with | .live fc' => Ref fc' a | _ => False) ∧
      (_ → (finish (fc.findHead rt s) Ans.ref).2 = Abs.refAns (a.headFrom ⟨s, rt⟩))
    revert hs
    cases fc.findHead rt s with
    | ok s ref => exact fun hs => ⟨hs.1, fun _ => by simp [finish, hs.2, Abs.refAns]⟩
    | err s => exact fun hs => ⟨hs.1, fun _ => by simp [finish, hs.2, Abs.refAns]⟩
    | panic => exact fun hs => hs.elim
    | blocked => exact fun hs => hs.elim
  | chain rt s =>
    have hs := afterVotes_sim fc a hh I hl r (·.canonicalChain rt s) Ans.chain (a.chain rt s)
      (fun fc' I' hl' r' hset' => by
        have := chain_refines fc' a I' r' hl' hset' rt s
        revert this
        cases fc'.pa.canonicalChain rt s with
        | ok s x => exact fun h => ⟨h.1, h.2⟩
        | err s => exact fun h => ⟨h.1, h.2⟩
        | panic => exact fun h => h
        | spin => exact fun h => h)
    show (match (finish (fc.canonicalChain rt s) _).1 with | .live fc' => Ref fc' a | _ => False) ∧
      (_ → (finish (fc.canonicalChain rt s) Ans.chain).2 = a.chain rt s)
    unfold FC.canonicalChain
    revert hs
    cases fc.withLock (·.afterVotes (·.canonicalChain rt s)) with
    | ok s x => exact fun hs => ⟨hs.1, fun _ => hs.2.symm⟩
    | err s => exact fun hs => ⟨hs.1, fun _ => hs.2.symm⟩
    | panic => exact fun hs => hs.elim
    | blocked => exact fun hs => hs.elim
  | canonAt rt s w =>
    have hs := afterVotes_sim fc a hh I hl r (·.canonAtSlot rt s w) Ans.ref (a.canonAt rt s w)
      (fun fc' I' hl' r' hset' => by
        have := canonAt_refines fc' a I' hl' r' hset' rt s w
        revert this
        cases fc'.pa.canonAtSlot rt s w with
        | ok s x => exact fun h => ⟨h.1, h.2⟩
        | err s => exact fun h => ⟨h.1, h.2⟩
        | panic => exact fun h => h
        | spin => exact fun h => h)
    show (match (finish (fc.canonAtSlot rt s w) _).1 with | .live fc' => Ref fc' a | _ => False) ∧
      (_ → (finish (fc.canonAtSlot rt s w) Ans.ref).2 = a.canonAt rt s w)
    unfold FC.canonAtSlot
    revert hs
    cases fc.withLock (·.afterVotes (·.canonAtSlot rt s w)) with
    | ok s x => exact fun hs => ⟨hs.1, fun _ => hs.2.symm⟩
    | err s => exact fun hs => ⟨hs.1, fun _ => hs.2.symm⟩
    | panic => exact fun hs => hs.elim
    | blocked => exact fun hs => hs.elim
  | search x p s => exact ⟨qsim _ _ (fun pr hw => goodFr_search pr hw x p s), fun h => by cases h⟩
  | closest rt s =>
    have hc := closest_refines fc a I r rt s
    show (match (finish (fc.closestToSlot rt s) _).1 with | .live fc' => Ref fc' a | _ => False) ∧
      (_ → (finish (fc.closestToSlot rt s) Ans.ref).2 = a.closest rt s)
    unfold FC.closestToSlot
    rw [withLock_free fc hh]
    revert hc
    cases PA.closestToSlot fc.pa rt s with
    | none => intro hc; simp only [finish]; rw [relock fc hh]; exact ⟨r, fun _ => hc.symm⟩
    | some x => intro hc; simp only [finish]; rw [relock fc hh]; exact ⟨r, fun _ => hc.symm⟩
  | getSlot rt =>
    show (match (finish (fc.getSlot rt) _).1 with | .live fc' => Ref fc' a | _ => False) ∧
      (_ → (finish (fc.getSlot rt) Ans.slotOpt).2 = Ans.slotOpt (a.firstSlot rt))
    unfold FC.getSlot
    rw [withLock_free fc hh]
    simp only [finish, relock fc hh]
    exact ⟨r, fun _ => by rw [firstSlot_eq I.wf I.chain r]; rfl⟩
  | inSub x rt =>
    show (match (finish (fc.inSubtree x rt) _).1 with | .live fc' => Ref fc' a | _ => False) ∧
      (_ → (finish (fc.inSubtree x rt) (fun p => Ans.inSub p.1 p.2)).2 = a.inSub x rt)
    unfold FC.inSubtree
    rw [withLock_free fc hh]
    simp only [liftPA]
    obtain ⟨pr', e, hw, hf⟩ := RefOps.inSubtree_answer fc.pa I.wf I.chain x rt
    rw [e]
    simp only [finish, relock_pa fc hh]
    exact ⟨ref_frame fc a r pr' hf, fun _ => (spec_inSub_eq fc a I r x rt).symm⟩
  | just => exact ⟨r, fun _ => by simp [stepLive, Abs.stepLive, r.justified]⟩
  | fin => exact ⟨r, fun _ => by simp [stepLive, Abs.stepLive, r.finalized]⟩
  | pinq => exact ⟨r, fun _ => by simp [stepLive, Abs.stepLive, r.pin]⟩
  | nodes =>
    refine ⟨r, fun _ => ?_⟩
    rw [nodes_answer fc ho]
    show Ans.nodes (fc.pa.nodes.map (·.ref)) = Ans.nodes (a.nodes.map (·.ref))
    rw [r.nodes]
    simp [absNodes, List.map_map, Function.comp_def, absNode]

/-- `Search`: unless the specification leaves the search unconstrained (`any`), the model's answer is the
specification's (the two result lists element by element) -/
theorem stepLive_search (fc : FC) (a : Abs) (hh : fc.held = false) (I : FI fc) (hl : LI fc.pa) (r : Ref fc a)
    (x : NodeRef) (p : Option Root) (s : Option Nat) :
    (a.stepLive (.search x p s)).2 = Ans.any ∨ (stepLive fc (.search x p s)).2 = (a.stepLive (.search x p s)).2 := by
  by_cases hne : a.search x p s = Ans.any
  · exact Or.inl hne
  · right
    have hs := afterVotes_sim fc a hh I hl r (·.search x p s) (fun q => Ans.search q.1 q.2) (a.search x p s)
      (fun fc' I' hl' r' hset' => by
        have := search_refines_eq fc' a I' hl' r' hset' x p s hne
        revert this
        cases fc'.pa.search x p s with
        | ok s q => obtain ⟨nc, c⟩ := q; exact fun h => ⟨h.1, h.2⟩
        | err s => exact fun h => ⟨h.1, h.2⟩
        | panic => exact fun h => h
        | spin => exact fun h => h)
    show (finish (fc.search x p s) (fun q => Ans.search q.1 q.2)).2 = a.search x p s
    unfold FC.search
    revert hs
    cases fc.withLock (·.afterVotes (·.search x p s)) with
    | ok s q => exact fun hs => hs.2.symm
    | err s => exact fun hs => hs.2.symm
    | panic => exact fun hs => hs.elim
    | blocked => exact fun hs => hs.elim

/-! ## the two machines in lock-step -/

theorem step_search (st : MState) (sa : Option Abs) (h3 : MInv3 st) (hR : MRef st sa) (op : Op)
    (hq : IsSearch op = true) : (Spec.step sa op).2 = Ans.any ∨ (step st op).2 = (Spec.step sa op).2 := by
  cases op <;> simp [IsSearch] at hq
  rename_i x p s
  cases st with
  | dead => exact h3.elim
  | none =>
    cases sa with
    | some a => exact hR.elim
    | none => exact Or.inr rfl
  | live fc =>
    cases sa with
    | none => exact hR.elim
    | some a =>
      have hc : a.poisoned = false := (show Ref fc a from hR).clean
      have hs := stepLive_search fc a h3.1 h3.2.1 h3.2.2 hR x p s
      simp only [step, Spec.step]
      show (if (a.stepLive (.search x p s)).1.poisoned = true then Ans.any else (a.stepLive (.search x p s)).2) = Ans.any ∨
        (stepLive fc (.search x p s)).2 =
          (if (a.stepLive (.search x p s)).1.poisoned = true then Ans.any else (a.stepLive (.search x p s)).2)
      have h1 : (a.stepLive (.search x p s)).1 = a := rfl
      rw [h1, hc]
      simpa using hs

theorem step_sim (st : MState) (sa : Option Abs) (h3 : MInv3 st) (hO : MOrd st) (hR : MRef st sa) (op : Op)
    (hok : StepOK st op) :
    MRef (step st op).1 (Spec.step sa op).1 ∧ (Refined op = true → (step st op).2 = (Spec.step sa op).2) ∧
      (IsSearch op = true → (Spec.step sa op).2 = Ans.any ∨ (step st op).2 = (Spec.step sa op).2) := by
  refine ⟨?_, ?_, step_search st sa h3 hR op⟩
  all_goals
  cases op with
  | init spe ar as ap j f sink bals =>
    have := mref_init st sa spe ar as ap j f sink bals
    first | exact this.1 | exact fun _ => this.2
  | _ =>
    cases st with
    | dead => exact h3.elim
    | none =>
      cases sa with
      | some a => exact hR.elim
      | none => first | exact trivial | exact fun _ => rfl
    | live fc =>
      cases sa with
      | none => exact hR.elim
      | some a =>
        have hs := stepLive_sim fc a h3.1 h3.2.1 h3.2.2 hO hR _ hok (by intros; exact fun h => by cases h)
        obtain ⟨h1, h2⟩ := hs
        simp only [step, Spec.step]
        revert h1 h2
        generalize stepLive fc _ = m
        generalize Abs.stepLive a _ = s
        intro h1 h2
        obtain ⟨m1, m2⟩ := m
        obtain ⟨s1, s2⟩ := s
        cases m1 with
        | none => exact h1.elim
        | dead => exact h1.elim
        | live fc' =>
          have hc : s1.poisoned = false := (show Ref fc' s1 from h1).clean
          simp only [hc, Bool.false_eq_true, if_false]
          first | exact h1 | exact h2

/-- the answers to the refined operations agree position by position -/
def AnswersAgree : List Op → List Ans → List Ans → Prop
  | op :: ops, x :: xs, y :: ys =>
    (Refined op = true → x = y) ∧ (IsSearch op = true → y = Ans.any ∨ x = y) ∧ AnswersAgree ops xs ys
  | [], [], [] => True
  | _, _, _ => False

/-- the answers to `head` / `findhead` agree position by position -/
def HeadsAgree : List Op → List Ans → List Ans → Prop
  | op :: ops, x :: xs, y :: ys => (IsHeadOp op = true → x = y) ∧ HeadsAgree ops xs ys
  | [], [], [] => True
  | _, _, _ => False

/-- **Refinement: the head is the LMD-GHOST winner.** For every admissible history (non-zero roots, well-placed
empty-slot insertions, no vote for Go's zero NodeRef, finalized checkpoint never moved) every `Head()` and
`FindHead(anchor, slot)` answer of the code-shaped model — value or error — is the answer of the specification:
the GHOST walk from the pinned / justified start node over the children that lead to a viable head, choosing the
greatest (subtree weight of latest accepted votes, root). -/
theorem refines_run : ∀ (ops : List Op) (st : MState) (sa : Option Abs), MInv3 st → MOrd st → MRef st sa →
    Admissible st ops →
    AnswersAgree ops (run st ops).2 (Spec.run sa ops).2 ∧ MRef (run st ops).1 (Spec.run sa ops).1 := by
  intro ops
  induction ops with
  | nil => intro st sa _ _ hR _; exact ⟨trivial, hR⟩
  | cons op rest ih =>
    intro st sa h3 hO hR ha
    obtain ⟨hr1, hans, hsrch⟩ := step_sim st sa h3 hO hR op ha.1
    have h3' := step_inv3 st h3 op ha.1
    obtain ⟨hrest, hfin⟩ := ih (step st op).1 (Spec.step sa op).1 h3' (step_ord st op hO) hr1 ha.2
    simp only [run, Spec.run]
    exact ⟨⟨hans, hsrch, hrest⟩, hfin⟩

theorem headsAgree_of_answers : ∀ (ops : List Op) (xs ys : List Ans), AnswersAgree ops xs ys → HeadsAgree ops xs ys := by
  intro ops
  induction ops with
  | nil => intro xs ys h; cases xs <;> cases ys <;> simp_all [AnswersAgree, HeadsAgree]
  | cons op rest ih =>
    intro xs ys h
    cases xs with
    | nil => simp [AnswersAgree] at h
    | cons x xs =>
      cases ys with
      | nil => simp [AnswersAgree] at h
      | cons y ys => exact ⟨fun hh => h.1 (refined_of_head hh), ih xs ys h.2.2⟩

theorem head_eq_ghost_run (ops : List Op) (st : MState) (sa : Option Abs) (h3 : MInv3 st) (hO : MOrd st)
    (hR : MRef st sa) (ha : Admissible st ops) :
    HeadsAgree ops (run st ops).2 (Spec.run sa ops).2 ∧ MRef (run st ops).1 (Spec.run sa ops).1 :=
  ⟨headsAgree_of_answers _ _ _ (refines_run ops st sa h3 hO hR ha).1, (refines_run ops st sa h3 hO hR ha).2⟩

/-- executable version of `HeadsAgree` -/
def headsAgreeB : List Op → List Ans → List Ans → Bool
  | op :: ops, x :: xs, y :: ys => (!IsHeadOp op || decide (x = y)) && headsAgreeB ops xs ys
  | [], [], [] => true
  | _, _, _ => false

theorem headsAgreeB_of : ∀ (ops : List Op) (xs ys : List Ans), HeadsAgree ops xs ys → headsAgreeB ops xs ys = true := by
  intro ops
  induction ops with
  | nil => intro xs ys h; cases xs <;> cases ys <;> simp_all [HeadsAgree, headsAgreeB]
  | cons op rest ih =>
    intro xs ys h
    cases xs with
    | nil => simp [HeadsAgree] at h
    | cons x xs =>
      cases ys with
      | nil => simp [HeadsAgree] at h
      | cons y ys =>
        simp only [HeadsAgree] at h
        simp only [headsAgreeB, Bool.and_eq_true, Bool.or_eq_true, Bool.not_eq_true', decide_eq_true_eq]
        refine ⟨?_, ih xs ys h.2⟩
        cases hop : IsHeadOp op with
        | false => exact Or.inl rfl
        | true => exact Or.inr (h.1 hop)

end Zrnt.ForkChoice
