import Proofs.Lemmas.ForkChoiceW0Insert
import Proofs.Lemmas.ForkChoiceW0Ops
import Proofs.Lemmas.ForkChoiceW0Prune
/-! Exported methods of the wrapper on an instance whose array satisfies the weak invariant `WF0`, and the weak
structure invariant over ALL operation sequences (`inv_structure_all`): malformed insertions combined with pruning
included, no call panics, blocks or loops. -/
namespace Zrnt.ForkChoice
namespace W0
open FC

/-- outcome of a method body (lock held): returned, and the array satisfies `WF0` -/
def SafeB {α : Type} (r : Out FC α) : Prop :=
  match r with
  | .ok s _ => WF0 s.pa
  | .err s => WF0 s.pa
  | .panic => False
  | .blocked => False

/-- outcome of an exported method: as `SafeB`, and the mutex is free again -/
def Safe {α : Type} (r : Out FC α) : Prop :=
  match r with
  | .ok s _ => s.held = false ∧ WF0 s.pa
  | .err s => s.held = false ∧ WF0 s.pa
  | .panic => False
  | .blocked => False

theorem safe_withLock {α : Type} (fc : FC) (hh : fc.held = false) (body : FC → Out FC α)
    (hb : SafeB (body { fc with held := true })) : Safe (fc.withLock body) := by
  unfold withLock
  simp only [hh, Bool.false_eq_true, if_false]
  revert hb
  cases body { fc with held := true } <;> simp [SafeB, Safe]

theorem safeB_liftPA {α : Type} (fc : FC) (r : POut PA α) (hg : Good fc.pa r) : SafeB (fc.liftPA r) := by
  unfold liftPA
  cases r with
  | ok s a => exact hg.1
  | err s => exact hg.1
  | panic => exact hg.elim
  | spin => exact hg.elim

theorem updateVotesMaybe_wf (fc : FC) (h : WF0 fc.pa) :
    (∃ fc', fc.updateVotesMaybe = .ok fc' () ∧ WF0 fc'.pa ∧ FrameS fc.pa fc'.pa) ∨
    (∃ fc', fc.updateVotesMaybe = .err fc' ∧ WF0 fc'.pa ∧ FrameS fc.pa fc'.pa) := by
  unfold updateVotesMaybe
  split
  · exact Or.inl ⟨fc, rfl, h, FrameS.refl _⟩
  · obtain ⟨ds, vs', e, hl, _⟩ := computeDeltas_ok fc.pa h fc.votes fc.balances fc.balances
    rw [e]
    simp only
    obtain ⟨pr', e2, hw, _, _, _, hf⟩ := wf_applyScoreChanges fc.pa h ds hl fc.justified.epoch fc.finalized.epoch
    rw [e2]
    exact Or.inl ⟨_, rfl, hw, hf⟩

theorem safeB_afterVotes {α : Type} (fc : FC) (h : WF0 fc.pa) (f : PA → POut PA α)
    (hf : ∀ pr, WF0 pr → Good pr (f pr)) : SafeB (fc.afterVotes f) := by
  unfold afterVotes
  rcases updateVotesMaybe_wf fc h with ⟨fc', e, hw, _⟩ | ⟨fc', e, hw, _⟩
  · rw [e]; exact safeB_liftPA fc' _ (hf _ hw)
  · rw [e]; exact hw

theorem checkCp_wf (fc : FC) (h : WF0 fc.pa) (changed : Bool) (cp : Checkpoint) (k : FC → Out FC Unit)
    (hk : ∀ fc', WF0 fc'.pa → SafeB (k fc')) : SafeB (fc.checkCp changed cp k) := by
  unfold checkCp
  split
  · obtain ⟨pr', res, e, hw, _⟩ := inSubtree_wf fc.pa h fc.finalized.root cp.root
    rw [e]
    obtain ⟨u, i⟩ := res
    simp only
    split
    · exact hw
    · split
      · exact hw
      · exact hk _ hw
  · exact hk fc h

theorem inner_wf (fc : FC) (h : WF0 fc.pa) (f j : Checkpoint) (b : Option (List Nat)) :
    SafeB (fc.updateJustifiedInner f j b) := by
  unfold updateJustifiedInner
  split
  · exact h
  · apply checkCp_wf fc h
    intro fc1 h1
    apply checkCp_wf fc1 h1
    intro fc2 h2
    cases b with
    | none => exact h2
    | some newBals =>
      simp only
      obtain ⟨ds, vs', e, hl, _⟩ := computeDeltas_ok fc2.pa h2 fc2.votes fc2.balances newBals
      rw [e]
      simp only
      obtain ⟨pr', e2, hw, _⟩ := wf_applyScoreChanges fc2.pa h2 ds hl j.epoch f.epoch
      rw [e2]
      exact hw

/-- the prune at the end of `UpdateJustified` -/
theorem safeB_pruneTail (s : FC) (h : WF0 s.pa) (root : Root) (slot : Nat) :
    SafeB (match s.pa.onPrune root slot with
      | .panic => (Out.panic : Out FC Unit)
      | .spin => .blocked
      | .err pa => .err { s with pa := pa }
      | .ok pa _ => .ok { s with pa := pa } ()) := by
  have ho := onPrune_outWF0 s.pa h root slot
  cases hp : s.pa.onPrune root slot with
  | ok pa u => rw [hp] at ho; exact ho
  | err pa => rw [hp] at ho; exact ho
  | panic => rw [hp] at ho; exact ho.elim
  | spin => rw [hp] at ho; exact ho.elim

theorem safeB_updateJustifiedBody (fc : FC) (h : WF0 fc.pa) (t : Root) (j f : Checkpoint) (b : Option (List Nat)) :
    SafeB (
      if fc.justified.epoch ≥ j.epoch && fc.finalized.epoch ≥ f.epoch then Out.ok fc () else
      let afterPin (fc : FC) : Out FC Unit :=
        let prevFinalized := fc.finalized
        match fc.updateJustifiedInner f j b with
        | .panic => .panic
        | .blocked => .blocked
        | .err fc => .err fc
        | .ok fc _ =>
          if prevFinalized ≠ f then
            let fc := { fc with pin := none }
            match fc.pa.onPrune f.root (f.epoch * fc.spe) with
            | .panic => .panic
            | .spin => .blocked
            | .err pa => .err { fc with pa := pa }
            | .ok pa _ => .ok { fc with pa := pa } ()
          else .ok fc ()
      match fc.pin with
      | some pin =>
        if t ≠ pin.root then
          match fc.pa.inSubtree pin.root t with
          | .panic => .panic
          | .spin => .blocked
          | .err pa => .err { fc with pa := pa }
          | .ok pa (unknown, inS) =>
            let fc := { fc with pa := pa }
            if unknown then .err fc else if !inS then .err fc else afterPin fc
        else afterPin fc
      | none => afterPin fc) := by
  split
  · exact h
  · simp only
    have hafter : ∀ fc1 : FC, WF0 fc1.pa → SafeB (
        match fc1.updateJustifiedInner f j b with
        | .panic => .panic
        | .blocked => .blocked
        | .err fc => .err fc
        | .ok fc _ =>
          if fc1.finalized ≠ f then
            match ({ fc with pin := none } : FC).pa.onPrune f.root (f.epoch * ({ fc with pin := none } : FC).spe) with
            | .panic => .panic
            | .spin => .blocked
            | .err pa => .err { ({ fc with pin := none } : FC) with pa := pa }
            | .ok pa _ => .ok { ({ fc with pin := none } : FC) with pa := pa } ()
          else .ok fc ()) := by
      intro fc1 h1
      have hi := inner_wf fc1 h1 f j b
      cases he : fc1.updateJustifiedInner f j b with
      | panic => rw [he] at hi; exact hi.elim
      | blocked => rw [he] at hi; exact hi.elim
      | err s => rw [he] at hi; exact hi
      | ok s u =>
        rw [he] at hi
        simp only
        split
        · exact safeB_pruneTail (FC.mk s.pa s.votes s.changed s.spe s.balances none s.justified s.finalized s.held)
            hi f.root (f.epoch * s.spe)
        · exact hi
    cases hpin : fc.pin with
    | none => exact hafter fc h
    | some pin =>
      simp only
      split
      · obtain ⟨pr', res, e, hw, _⟩ := inSubtree_wf fc.pa h pin.root t
        rw [e]
        obtain ⟨u, i⟩ := res
        simp only
        split
        · exact hw
        · split
          · exact hw
          · exact hafter _ hw
      · exact hafter fc h

theorem safe_updateJustified (fc : FC) (hh : fc.held = false) (h : WF0 fc.pa) (t : Root) (j f : Checkpoint)
    (b : Option (List Nat)) : Safe (fc.updateJustified t j f b) := by
  unfold updateJustified
  apply safe_withLock fc hh
  exact safeB_updateJustifiedBody { fc with held := true } h t j f b

theorem safe_setPin (fc : FC) (hh : fc.held = false) (h : WF0 fc.pa) (r : Root) (s : Nat) : Safe (fc.setPin r s) := by
  unfold setPin
  apply safe_withLock fc hh
  unfold setPinBody
  repeat' split
  all_goals exact h

theorem safe_processAttestation (fc : FC) (hh : fc.held = false) (h : WF0 fc.pa) (v : Nat) (r : Root) (s : Nat) :
    Safe (fc.processAttestation v r s) := by
  unfold processAttestation
  apply safe_withLock fc hh
  simp only
  repeat' split
  all_goals exact h

theorem safe_processSlot (fc : FC) (hh : fc.held = false) (h : WF0 fc.pa) (p : Root) (s j f : Nat) :
    Safe (fc.processSlot p s j f) := by
  unfold FC.processSlot
  apply safe_withLock fc hh
  exact wf_processSlot fc.pa h p s j f

theorem safe_processBlock (fc : FC) (hh : fc.held = false) (h : WF0 fc.pa) (p r : Root) (s j f : Nat) :
    Safe (fc.processBlock p r s j f) := by
  unfold FC.processBlock
  apply safe_withLock fc hh
  obtain ⟨pr', b, e, hw⟩ := wf_processBlock fc.pa h p r s j f
  simp only
  rw [e]
  exact hw

theorem safe_canonicalChain (fc : FC) (hh : fc.held = false) (h : WF0 fc.pa) (r : Root) (s : Nat) :
    Safe (fc.canonicalChain r s) := by
  unfold FC.canonicalChain
  apply safe_withLock fc hh
  exact safeB_afterVotes { fc with held := true } h _ (fun pr hw => good_canonicalChain pr hw r s)

theorem safe_inSubtree (fc : FC) (hh : fc.held = false) (h : WF0 fc.pa) (a r : Root) : Safe (fc.inSubtree a r) := by
  unfold FC.inSubtree
  apply safe_withLock fc hh
  exact safeB_liftPA _ _ (good_inSubtree fc.pa h a r)

theorem safe_search (fc : FC) (hh : fc.held = false) (h : WF0 fc.pa) (a : NodeRef) (p : Option Root) (s : Option Nat) :
    Safe (fc.search a p s) := by
  unfold FC.search
  apply safe_withLock fc hh
  exact safeB_afterVotes { fc with held := true } h _ (fun pr hw => good_search pr hw a p s)

theorem safe_closestToSlot (fc : FC) (hh : fc.held = false) (h : WF0 fc.pa) (a : Root) (s : Nat) :
    Safe (fc.closestToSlot a s) := by
  unfold FC.closestToSlot
  apply safe_withLock fc hh
  simp only
  split <;> exact h

theorem safe_canonAtSlot (fc : FC) (hh : fc.held = false) (h : WF0 fc.pa) (a : Root) (s : Nat) (w : Bool) :
    Safe (fc.canonAtSlot a s w) := by
  unfold FC.canonAtSlot
  apply safe_withLock fc hh
  exact safeB_afterVotes { fc with held := true } h _ (fun pr hw => good_canonAtSlot pr hw a s w)

theorem safe_getSlot (fc : FC) (hh : fc.held = false) (h : WF0 fc.pa) (r : Root) : Safe (fc.getSlot r) := by
  unfold FC.getSlot
  apply safe_withLock fc hh
  exact h

theorem safe_findHead (fc : FC) (hh : fc.held = false) (h : WF0 fc.pa) (r : Root) (s : Nat) : Safe (fc.findHead r s) := by
  unfold FC.findHead
  apply safe_withLock fc hh
  exact safeB_afterVotes { fc with held := true } h _ (fun pr hw => good_findHead pr hw r s)

theorem safe_head (fc : FC) (hh : fc.held = false) (h : WF0 fc.pa) : Safe fc.head := by
  unfold FC.head
  apply safe_withLock fc hh
  rcases updateVotesMaybe_wf { fc with held := true } h with ⟨fc', e, hw, _⟩ | ⟨fc', e, hw, _⟩
  · rw [e]
    simp only
    split
    · exact safeB_liftPA _ _ (good_findHead _ hw _ _)
    · exact safeB_liftPA _ _ (good_findHead _ hw _ _)
  · rw [e]; exact hw

/-- the outcome's state has the same mutex flag -/
def HeldSame (fc : FC) (r : Out FC Unit) : Prop :=
  match r with
  | .ok s _ => s.held = fc.held
  | .err s => s.held = fc.held
  | _ => True

/-- `updateJustified` (inner) never touches the mutex flag -/
theorem inner_held (fc : FC) (f j : Checkpoint) (b : Option (List Nat)) :
    HeldSame fc (fc.updateJustifiedInner f j b) := by
  unfold updateJustifiedInner checkCp
  simp only
  repeat' split
  all_goals simp [HeldSame]

theorem setPin_eq (fc : FC) (hh : fc.held = false) (r : Root) (s : Nat) :
    fc.setPin r s = .ok { fc with pin := some ⟨s, r⟩ } () ∨ fc.setPin r s = .err fc := by
  unfold FC.setPin FC.withLock FC.setPinBody
  simp only [hh, Bool.false_eq_true, if_false]
  cases fc
  simp only at hh
  subst hh
  simp only
  cases PA.closestToSlot _ r s with
  | none => right; rfl
  | some c =>
    simp only
    by_cases hc : c.slot < s
    · simp [hc]
    · simp [hc]

/-- outcome of the constructor: an instance with the mutex free whose array satisfies `WF0`, or an error -/
def NewOK (r : Out FC Unit) : Prop :=
  match r with
  | .ok fc _ => fc.held = false ∧ WF0 fc.pa
  | .err _ => True
  | .panic => False
  | .blocked => False

theorem newTail_wf (fc0 : FC) (hh0 : fc0.held = false) (hw0 : WF0 fc0.pa) (f j : Checkpoint) (ar : Root) (aslot : Nat)
    (bals : List Nat) :
    NewOK (match fc0.setPin ar aslot with
      | .ok fc _ => fc.updateJustifiedInner f j (some bals)
      | .err fc => .err fc
      | .panic => .panic
      | .blocked => .blocked) := by
  rcases setPin_eq fc0 hh0 ar aslot with e | e
  · rw [e]
    simp only
    have hi := inner_wf { fc0 with pin := some ⟨aslot, ar⟩ } hw0 f j (some bals)
    have hheld := inner_held { fc0 with pin := some ⟨aslot, ar⟩ } f j (some bals)
    cases he : FC.updateJustifiedInner { fc0 with pin := some ⟨aslot, ar⟩ } f j (some bals) with
    | panic => rw [he] at hi; exact hi.elim
    | blocked => rw [he] at hi; exact hi.elim
    | err s2 => trivial
    | ok s2 u2 =>
      rw [he] at hi hheld
      exact ⟨by rw [show s2.held = _ from hheld]; exact hh0, hi⟩
  · rw [e]; trivial

/-- `NewProtoForkChoice`: success gives an instance with the mutex free and `WF0`; it never panics or blocks -/
theorem new_wf (spe : Nat) (f j : Checkpoint) (ar : Root) (aslot : Nat) (ap : Root) (bals : List Nat) (sink : SinkKind) :
    NewOK (FC.new spe f j ar aslot ap bals sink) := by
  unfold FC.new
  exact newTail_wf _ rfl (wf_new ap ar aslot j.epoch f.epoch sink) f j ar aslot bals

end W0

open W0

/-! ## the machine: the weak invariant over every operation sequence -/

/-- weak structure invariant of the machine: mutex free, `WF0`; the machine is never `dead` (no call panicked,
blocked or looped) -/
def MInv0 : MState → Prop
  | .none => True
  | .live fc => fc.held = false ∧ WF0 fc.pa
  | .dead => False

theorem finish_inv0 {α : Type} (r : Out FC α) (f : α → Ans) (hs : Safe r) : MInv0 (finish r f).1 := by
  unfold finish
  cases r with
  | ok s a => exact hs
  | err s => exact hs
  | panic => exact hs.elim
  | blocked => exact hs.elim

theorem stepLive_inv0 (fc : FC) (hh : fc.held = false) (h : WF0 fc.pa) (op : Op) :
    MInv0 (stepLive fc op).1 := by
  cases op with
  | init => exact ⟨hh, h⟩
  | slot p s j f => exact finish_inv0 _ _ (safe_processSlot fc hh h p s j f)
  | block p r s j f => exact finish_inv0 _ _ (safe_processBlock fc hh h p r s j f)
  | att v r s => exact finish_inv0 _ _ (safe_processAttestation fc hh h v r s)
  | justify t j f b =>
    have hs := safe_updateJustified { fc with pa := { fc.pa with sinkLog := [] } } hh (wf_sinkLog h []) t j f b
    unfold stepLive
    simp only
    cases he : FC.updateJustified { fc with pa := { fc.pa with sinkLog := [] } } t j f b with
    | ok s a => rw [he] at hs; exact hs
    | err s => rw [he] at hs; exact hs
    | panic => rw [he] at hs; exact hs.elim
    | blocked => rw [he] at hs; exact hs.elim
  | pin r s => exact finish_inv0 _ _ (safe_setPin fc hh h r s)
  | head => exact finish_inv0 _ _ (safe_head fc hh h)
  | findHead r s => exact finish_inv0 _ _ (safe_findHead fc hh h r s)
  | chain r s => exact finish_inv0 _ _ (safe_canonicalChain fc hh h r s)
  | closest r s => exact finish_inv0 _ _ (safe_closestToSlot fc hh h r s)
  | canonAt r s w => exact finish_inv0 _ _ (safe_canonAtSlot fc hh h r s w)
  | getSlot r => exact finish_inv0 _ _ (safe_getSlot fc hh h r)
  | inSub a r => exact finish_inv0 _ _ (safe_inSubtree fc hh h a r)
  | search a p s => exact finish_inv0 _ _ (safe_search fc hh h a p s)
  | just => exact ⟨hh, h⟩
  | fin => exact ⟨hh, h⟩
  | pinq => exact ⟨hh, h⟩
  | nodes => exact ⟨hh, h⟩

/-- every step of the machine keeps the weak invariant — no hypothesis on the operation -/
theorem step_inv0 (st : MState) (h : MInv0 st) (op : Op) : MInv0 (step st op).1 := by
  cases op with
  | init spe ar aslot ap j f sink bals =>
    have hn := new_wf spe f j ar aslot ap bals sink
    unfold step
    simp only
    cases he : FC.new spe f j ar aslot ap bals sink with
    | ok fc u => rw [he] at hn; exact hn
    | err s => trivial
    | panic => rw [he] at hn; exact hn.elim
    | blocked => rw [he] at hn; exact hn.elim
  | _ =>
    cases st with
    | none => trivial
    | dead => exact h.elim
    | live fc => exact stepLive_inv0 fc h.1 h.2 _

theorem run_cons0 (st : MState) (op : Op) (ops : List Op) :
    (run st (op :: ops)).1 = (run (step st op).1 ops).1 := by
  simp [run]

/-- **Weak structure invariant over ALL operation sequences** (malformed insertions and pruning included): a live
instance has a free mutex and an array satisfying `WF0`, and no call has panicked, blocked or looped. -/
theorem inv_structure_all : ∀ (ops : List Op) (st : MState), MInv0 st → MInv0 (run st ops).1 := by
  intro ops
  induction ops with
  | nil => intro st h; simpa [run] using h
  | cons op rest ih =>
    intro st h
    rw [run_cons0]
    exact ih _ (step_inv0 st h op)

/-- C10: on an instance whose array satisfies `WF0` (whatever insertions and prunes built it) `UpdateJustified`
returns: it does not block on the mutex, does not loop and does not panic — also when it moves the finalized
checkpoint and prunes. -/
theorem updateJustified_returns0 (fc : FC) (hh : fc.held = false) (h : WF0 fc.pa) (t : Root) (j f : Checkpoint)
    (b : Option (List Nat)) :
    fc.updateJustified t j f b ≠ .blocked ∧ fc.updateJustified t j f b ≠ .panic := by
  have hs := safe_updateJustified fc hh h t j f b
  constructor <;> (intro he; rw [he] at hs; exact hs.elim)

/-! ## non-vacuity: a history with malformed insertions and two effective prunes

`witMalformed` inserts an empty-slot node under a root that is not known yet (`.slot (rt 3) 9`: a detached node, which
later becomes the transition parent of block `rt 4`), and an empty-slot node BELOW the first slot of its root
(`.slot (rt 2) 2`, which hangs from the node at slot 4 and becomes the "first slot" of `rt 2` after the prune). The
first finalizing `UpdateJustified` drops the best descendant `9@04` of the new anchor `4@02` (its transition parent is
the detached node) but keeps the best child `5@03`: the full invariant `WF` is broken (`witMalformed_breaks_WF`), the
weak one is not, and every later call — a second effective prune included — returns. -/

namespace W0

def rt (n : Nat) : Root := n * 256 ^ 31

def witMalformed : List Op := [
  .init 4 (rt 1) 0 0 ⟨0, rt 1⟩ ⟨0, rt 1⟩ .recording [32, 32, 32],
  .slot (rt 3) 9 0 0,
  .block (rt 1) (rt 2) 4 0 0, .block (rt 2) (rt 3) 5 0 0, .block (rt 3) (rt 4) 9 1 1,
  .slot (rt 2) 2 0 0,
  .att 0 (rt 4) 9, .att 1 (rt 3) 5, .head,
  .justify (rt 3) ⟨1, rt 2⟩ ⟨1, rt 2⟩ (some [32, 32, 33]),
  .nodes, .head, .inSub (rt 2) (rt 3), .search ⟨4, rt 2⟩ none none,
  .slot (rt 2) 8 1 1, .block (rt 2) (rt 6) 9 2 2, .att 2 (rt 6) 9, .findHead (rt 2) 8,
  .justify (rt 6) ⟨2, rt 2⟩ ⟨2, rt 2⟩ (some [32, 32, 33]),
  .nodes, .head, .search ⟨8, rt 2⟩ none none, .inSub (rt 2) (rt 6)]

/-- the theorem applies to it: the machine is alive and satisfies the weak invariant at the end -/
example : MInv0 (run .none witMalformed).1 := inv_structure_all witMalformed .none trivial

/-- … and these are the answers (two effective prunes: 7 nodes reported to the sink each time) -/
example : (run .none witMalformed).2 = [
    .unit, .unit, .bool true, .bool true, .bool true, .unit, .bool true, .bool true,
    .ref ⟨9, rt 4⟩,
    .justify true [(⟨0, rt 1⟩, true), (⟨9, rt 3⟩, false), (⟨1, rt 1⟩, true), (⟨2, rt 1⟩, true), (⟨3, rt 1⟩, true),
      (⟨4, rt 1⟩, true), (⟨9, rt 4⟩, false)] none,
    .nodes [⟨4, rt 2⟩, ⟨5, rt 2⟩, ⟨5, rt 3⟩, ⟨2, rt 2⟩],
    .err, .inSub false false, .err,
    .unit, .bool true, .bool true, .ref ⟨8, rt 2⟩,
    .justify true [(⟨4, rt 2⟩, true), (⟨5, rt 2⟩, true), (⟨5, rt 3⟩, false), (⟨2, rt 2⟩, false), (⟨3, rt 2⟩, false),
      (⟨6, rt 2⟩, true), (⟨7, rt 2⟩, true)] none,
    .nodes [⟨8, rt 2⟩, ⟨9, rt 2⟩, ⟨9, rt 6⟩],
    .ref ⟨9, rt 6⟩, .search [] [⟨9, rt 6⟩], .inSub false true] := by decide +kernel

/-- the node array of a machine state -/
def stNodes : MState → List Node
  | .live fc => fc.pa.nodes
  | _ => []

/-- after the first prune the anchor has a best child but no best descendant … -/
theorem witMalformed_links :
    (stNodes (run .none (witMalformed.take 10)).1).map (fun n => (n.bestChild, n.bestDesc)) =
      [(some 2, none), (none, none), (none, none), (none, none)] := by decide +kernel

/-- … so the full structure invariant `WF` does NOT hold there (`inv_structure_quiet` cannot be extended to histories
that prune after malformed insertions), while `MInv0` does -/
theorem witMalformed_breaks_WF (fc : FC) (e : (run .none (witMalformed.take 10)).1 = .live fc) : ¬ WF fc.pa := by
  intro hw
  have hl := witMalformed_links
  rw [e] at hl
  simp only [stNodes] at hl
  cases hn : fc.pa.nodes with
  | nil => rw [hn] at hl; simp at hl
  | cons n rest =>
    rw [hn] at hl
    simp only [List.map_cons, List.cons.injEq, Prod.mk.injEq] at hl
    have hbb := hw.bc_bd 0 n (by rw [hn]; rfl)
    rw [hl.1.1, hl.1.2] at hbb
    simp at hbb

example : MInv0 (run .none (witMalformed.take 10)).1 := inv_structure_all _ .none trivial

/-- the hypothesis of `witMalformed_breaks_WF` is satisfiable -/
example : ∃ fc, (run .none (witMalformed.take 10)).1 = .live fc := by
  have h : MInv0 (run .none (witMalformed.take 10)).1 := inv_structure_all _ .none trivial
  have hne : (stNodes (run .none (witMalformed.take 10)).1).length = 4 := by
    have := congrArg List.length witMalformed_links
    simpa using this
  cases hs : (run .none (witMalformed.take 10)).1 with
  | live fc => exact ⟨fc, rfl⟩
  | none => rw [hs] at hne; simp [stNodes] at hne
  | dead => rw [hs] at h; exact h.elim

end W0

end Zrnt.ForkChoice
