import Proofs.Lemmas.ForkChoiceBestDefs
import Zrnt.ForkChoice.Spec
/-!
# Refinement relation between the code-shaped model and the specification (before any prune)

The specification's node list is the abstraction of the model's node array, index by index (both append nodes in
the same order): parent indices become parent references. The specification's latest accepted vote of validator
`k` is the model's *pending* vote `next` of tracker `k` (the applied vote `cur` catches up whenever
`ComputeDeltas` runs).
-/
namespace Zrnt.ForkChoice
open Spec

/-- reference of the node at index `p` -/
def refAt (ns : List Node) (p : Nat) : Option NodeRef := (ns[p]?).map (·.ref)

/-- abstraction of one node: parent indices → parent references -/
def absNode (ns : List Node) (n : Node) : SNode :=
  { ref := n.ref, parentRoot := n.parentRoot,
    tparent := n.tparent.bind (refAt ns), fparent := n.fparent.bind (refAt ns),
    jEpoch := n.jEpoch, fEpoch := n.fEpoch }

def absNodes (ns : List Node) : List SNode := ns.map (absNode ns)

/-- abstraction of one vote tracker: the pending vote, `none` while the tracker is untouched -/
def absVote (v : Vote) : Option LatestVote :=
  if v.next = NodeRef.zero then none else some ⟨v.next, v.nextEpoch⟩

/-- the refinement relation -/
structure Ref (fc : FC) (a : Abs) : Prop where
  spe : a.spe = fc.spe
  nodes : a.nodes = absNodes fc.pa.nodes
  votes : a.votes = fc.votes.map absVote
  balances : a.balances = fc.balances
  justified : a.justified = fc.justified
  finalized : a.finalized = fc.finalized
  pin : a.pin = fc.pin
  sink : a.sink = fc.pa.sink
  clean : a.poisoned = false
  /-- the array judges viability by the wrapper's checkpoints -/
  jE : fc.pa.jEpoch = fc.justified.epoch
  fE : fc.pa.fEpoch = fc.finalized.epoch
  /-- an untouched tracker is all zero (so "first vote in epoch 0" is recognised correctly) -/
  fresh : ∀ v ∈ fc.votes, v.next = NodeRef.zero → v = Vote.zero
  /-- pending votes are nodes, or already applied (then the node may have been pruned since) -/
  next_in : ∀ v ∈ fc.votes, v.next = NodeRef.zero ∨ (aGet fc.pa.indices v.next).isSome ∨ v.cur = v.next
  /-- the applied vote is never newer than the pending one; equal epochs mean equal votes -/
  cur_le : ∀ v ∈ fc.votes, v.cur = NodeRef.zero ∨ (v.curEpoch ≤ v.nextEpoch ∧ (v.curEpoch = v.nextEpoch → v.cur = v.next))
  /-- with no change pending every vote is applied -/
  settled : fc.changed = false → ∀ v ∈ fc.votes, v.cur = v.next

/-- relation between the two machines -/
def MRef : MState → Option Abs → Prop
  | .none, none => True
  | .live fc, some a => Ref fc a
  | _, _ => False

end Zrnt.ForkChoice
