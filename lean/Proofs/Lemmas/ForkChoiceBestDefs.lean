import Proofs.Lemmas.ForkChoiceDefs
/-!
# Best-child / best-descendant links: what "correct" means (model level)

`leads i ⇔ viable i ∨ ∃ child c of i, leads c` on the model's own array; a child is better than another when its
`(weight, root)` is lexicographically greater; `LinksOK` says that every node's best child is the best among its
children that lead (none if none leads) and its best descendant is where following best children ends.
-/
namespace Zrnt.ForkChoice

/-- the fork-choice children of node `p` -/
def childrenOf (ns : List Node) (p : Nat) : List Nat :=
  (List.range ns.length).filter (fun c => fpar ns c = some p)

/-- node `i` is viable for head under the array's current epochs -/
def viableAt (pr : PA) (i : Nat) : Bool :=
  match pr.nodes[i]? with
  | some n => pr.viable n
  | none => false

/-- `leads i ⇔ viable i ∨ ∃ child c, leads c`, by a walk of depth `fuel` -/
def leadsF (pr : PA) : Nat → Nat → Bool
  | 0, i => viableAt pr i
  | fuel + 1, i => viableAt pr i || (childrenOf pr.nodes i).any (leadsF pr fuel)

def leads (pr : PA) (i : Nat) : Bool := leadsF pr pr.nodes.length i

/-- `(weight, root)` of node `b` is lexicographically greater than that of node `a` -/
def beats (ns : List Node) (b a : Nat) : Prop :=
  match ns[b]?, ns[a]? with
  | some nb, some na => nb.weight > na.weight ∨ (nb.weight = na.weight ∧ nb.ref.root > na.ref.root)
  | _, _ => False

/-- the links of node `p` are the GHOST choice among its children -/
def LinkOK (pr : PA) (p : Nat) (n : Node) : Prop :=
  (n.bestChild = none → ∀ c, fpar pr.nodes c = some p → leads pr c = false) ∧
  (∀ b, n.bestChild = some b →
    fpar pr.nodes b = some p ∧ leads pr b = true ∧
    (∀ c, fpar pr.nodes c = some p → leads pr c = true → c = b ∨ beats pr.nodes b c) ∧
    n.bestDesc = some (((pr.nodes[b]?).bind (·.bestDesc)).getD b))

/-- every node's links are correct -/
def LinksOK (pr : PA) : Prop := ∀ (p : Nat) (n : Node), pr.nodes[p]? = some n → LinkOK pr p n

/-- children of one node have pairwise different roots (so `beats` is a strict total order on siblings) -/
def SibDistinct (pr : PA) : Prop :=
  ∀ (c c' p : Nat) (n n' : Node), fpar pr.nodes c = some p → fpar pr.nodes c' = some p →
    pr.nodes[c]? = some n → pr.nodes[c']? = some n' → n.ref.root = n'.ref.root → c = c'

end Zrnt.ForkChoice
