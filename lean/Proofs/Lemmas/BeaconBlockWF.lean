import Proofs.Lemmas.BeaconBlockM
import Proofs.Lemmas.C02WF
/-! The registry invariant `WF` of C02 (`Proofs/Lemmas/C02WF.lean`) under the block operations of `S`. -/
set_option linter.unusedSimpArgs false
set_option linter.unusedVariables false
namespace Zrnt.Proofs.BlockM
open Zrnt Zrnt.Beacon Zrnt.Beacon.Spec Zrnt.Beacon.BlockImpl Zrnt.Beacon.BlockM Zrnt.Proofs.BeaconBlock Zrnt.Proofs.Lemmas

/-! ### the registry invariant `WF` (C02) under block operations -/

/-- `initiate_validator_exit` keeps `WF`, provided the validator was activated no later than the exit it gets -/
theorem WF_initiate_exit (cfg : Config) (cur : Nat) (vals : List Validator) (index : Nat) (h : WF vals)
    (hact : ∀ v, vals[index]? = some v → v.activation_epoch ≤ compute_activation_exit_epoch cfg cur) :
    WF (initiate_validator_exit_pure cfg cur vals index) := by
  unfold initiate_validator_exit_pure
  cases hv : vals[index]? with
  | none => exact h
  | some v =>
    simp only
    split
    · exact h
    · apply WF_set _ _ _ h
      have hge : compute_activation_exit_epoch cfg cur ≤
          (((vals.filter (·.exit_epoch ≠ FAR_FUTURE_EPOCH)).map (·.exit_epoch)) ++ [compute_activation_exit_epoch cfg cur]).foldl max 0 := by
        rw [spec_max_eq]; exact maxOf_ge _ _
      have ha := hact v hv
      refine ⟨fun hs => ?_, ?_, ?_⟩
      · exact absurd hs (by
          have := (WF_getElem? vals index v h hv).1
          intro hsl
          simp only at hsl
          rename_i hfar
          exact hfar (this hsl))
      · simp only; split <;> omega
      · simp only; split <;> omega

/-- appending a fresh validator from a deposit keeps `WF` -/
theorem WF_append_deposit (vals : List Validator) (pk wc : Bytes) (eff : Nat) (h : WF vals) :
    WF (vals ++ [⟨pk, wc, eff, false, FAR_FUTURE_EPOCH, FAR_FUTURE_EPOCH, FAR_FUTURE_EPOCH, FAR_FUTURE_EPOCH⟩]) := by
  intro v hv
  rcases List.mem_append.mp hv with hv | hv
  · exact h v hv
  · simp only [List.mem_singleton] at hv
    subst hv
    exact ⟨fun hs => by simp at hs, Nat.le_refl _, Nat.le_refl _⟩

/-- changing withdrawal credentials keeps `WF` -/
theorem WF_set_credentials (vals : List Validator) (i : Nat) (v : Validator) (wc : Bytes) (h : WF vals)
    (hv : vals[i]? = some v) : WF (vals.set i { v with withdrawal_credentials := wc }) :=
  WF_set _ _ _ h (WF_getElem? vals i v h hv)

/-- `WF` is preserved by an accepted voluntary exit (`S`'s `process_voluntary_exit`) -/
theorem WF_preserved_exit (cfg : Config) (ctx : Ctx) (s s' : State) (exit : SignedVoluntaryExit)
    (hact : ctx.activeCount = (s.validators.filter (is_active_validator · (s.slot / cfg.SLOTS_PER_EPOCH))).length)
    (hq : cfg.CHURN_LIMIT_QUOTIENT ≠ 0) (hreg : RegU64 s.validators) (hsmall : ExitSmall cfg s)
    (hshard : s.slot / cfg.SLOTS_PER_EPOCH + cfg.SHARD_COMMITTEE_PERIOD < 2 ^ 64)
    (hwf : WF s.validators) (hok : Block.process_voluntary_exit cfg s exit = .ok s') : WF s'.validators := by
  have hM : processVoluntaryExit cfg ctx s exit = Res.ok s' := by
    rw [exit_eq cfg ctx s exit hact hq hreg hsmall hshard, hok]; rfl
  unfold processVoluntaryExit at hM
  simp only [guard_bind, rget_bind] at hM
  split at hM
  · rename_i hlt
    cases hv : s.validators[exit.validator_index]? with
    | none => rw [hv] at hM; cases hM
    | some v =>
      rw [hv] at hM
      simp only at hM
      split at hM
      · rename_i hactive
        split at hM <;> try (cases hM)
        split at hM <;> try (cases hM)
        split at hM <;> try (cases hM)
        split at hM <;> try (cases hM)
        unfold initiateExit at hM
        have hidx : exit.validator_index < s.validators.length := by simpa using hlt
        have hex : ∀ v ∈ s.validators, v.exit_epoch ≤ FAR_FUTURE_EPOCH := by
          intro v hv; have := (hreg v hv).1; unfold FAR_FUTURE_EPOCH; omega
        rw [BeaconBlock.initiateExit_eq cfg _ ctx.activeCount s.validators _ hidx hact hq hex hsmall] at hM
        simp only [res_bind_ok] at hM
        cases hM
        apply WF_initiate_exit cfg _ _ _ hwf
        intro v' hv'
        rw [hv] at hv'; cases hv'
        simp only [Bool.and_eq_true, decide_eq_true_eq] at hactive
        unfold compute_activation_exit_epoch; omega
      · cases hM
  · cases hM

end Zrnt.Proofs.BlockM
