import Proofs.Lemmas.BeaconBlockP0
/-!
# C01/C03 — the premise `OpSteps` discharged for phase0 blocks whose operations are attestations

`CommOK`: the context's committee count and committees are the specification's for the attestable epochs (what C07
provides); it survives header, RANDAO mix-in (the attester seeds of the previous and the current epoch read other
entries of the randao vector: `seed_set_other`), eth1 vote and the attestations themselves, which only append to the
pending lists.
-/
set_option linter.unusedSimpArgs false
set_option linter.unusedVariables false
namespace Zrnt.Proofs.BlockM
open Zrnt Zrnt.Beacon Zrnt.Beacon.Spec Zrnt.Beacon.BlockImpl Zrnt.Beacon.BlockM Zrnt.Proofs.BeaconBlock Zrnt.Proofs.Lemmas

/-- the pure core of a phase0 attestation consults the committee count only after the window check and the committee
only for an index below the count -/
theorem phase0_pure_congr (cfg : Config) (s : State) (att : Attestation) (count count' : Option Nat)
    (committee committee' : Option (List Nat)) (proposer : Option Nat)
    (hc : Block.attestation_timing_pure cfg s att.data = true → count = count')
    (hm : Block.attestation_timing_pure cfg s att.data = true → ∀ n, count' = some n → att.data.index < n → committee = committee') :
    Block.process_attestation_phase0_pure cfg s att count committee proposer =
      Block.process_attestation_phase0_pure cfg s att count' committee' proposer := by
  unfold Block.process_attestation_phase0_pure
  cases ht : Block.attestation_timing_pure cfg s att.data with
  | false => simp only [ht, Bool.not_false, if_true]
  | true =>
    rw [hc ht]
    simp only [ht, Bool.not_true, Bool.false_eq_true, if_false]
    cases count' with
    | none => rfl
    | some n =>
      simp only []
      by_cases hlt : att.data.index < n
      · rw [hm ht n rfl hlt]
      · simp only [hlt, not_false_eq_true, if_true]

/-- the window check passes only for the previous or the current epoch, the epoch of the attestation's slot -/
theorem timing_epochs (cfg : Config) (s : State) (data : AttestationData) (ht : Block.attestation_timing_pure cfg s data = true) :
    data.target.epoch = data.slot / cfg.SLOTS_PER_EPOCH ∧ data.target.epoch ≤ s.slot / cfg.SLOTS_PER_EPOCH ∧
    s.slot / cfg.SLOTS_PER_EPOCH ≤ data.target.epoch + 1 := by
  unfold Block.attestation_timing_pure at ht
  simp only [Bool.and_eq_true, Bool.or_eq_true, decide_eq_true_eq] at ht
  obtain ⟨⟨⟨h1, h2⟩, _⟩, _⟩ := ht
  refine ⟨h2, ?_, ?_⟩
  all_goals
    generalize s.slot / cfg.SLOTS_PER_EPOCH = A at *
    rcases h1 with h | h <;> omega

/-- the context's committee count and committees are the specification's for the attestable epochs of `st` -/
structure CommOK (cfg : Config) (ctx : Ctx) (st : State) : Prop where
  cc : ∀ e, e ≤ st.slot / cfg.SLOTS_PER_EPOCH → st.slot / cfg.SLOTS_PER_EPOCH ≤ e + 1 →
    ctx.committeeCount e = (get_committee_count_per_slot cfg st e).toOption
  com : ∀ slot idx n, slot / cfg.SLOTS_PER_EPOCH ≤ st.slot / cfg.SLOTS_PER_EPOCH → st.slot / cfg.SLOTS_PER_EPOCH ≤ slot / cfg.SLOTS_PER_EPOCH + 1 →
    get_committee_count_per_slot cfg st (slot / cfg.SLOTS_PER_EPOCH) = .ok n → idx < n →
    ctx.committee slot idx = (get_beacon_committee cfg st slot idx).toOption

/-- phase0 attestations, with the context's committee facts required for the attestable epochs only -/
theorem sim_attestation_phase0' (cfg : Config) (ctx : Ctx) (s : State) (att : Attestation) (p : Nat)
    (hfork : s.fork = .phase0) (hok : CommOK cfg ctx s)
    (hctxp : ctx.proposer = some p) (hprop : Block.get_beacon_proposer_index cfg s = .ok p)
    (hnd : ∀ c, ctx.committee att.data.slot att.data.index = some c → c.Nodup)
    (hwf : att.bits_wellformed = true) (hmaxbits : att.aggregation_bits.length ≤ cfg.MAX_VALIDATORS_PER_COMMITTEE)
    (hspe : 0 < cfg.SLOTS_PER_EPOCH) (hmin : cfg.MIN_ATTESTATION_INCLUSION_DELAY ≤ cfg.SLOTS_PER_EPOCH)
    (hcur : s.slot + 2 * cfg.SLOTS_PER_EPOCH < 2 ^ 64) :
    Sim (Block.process_attestation cfg s att) (processAttestationPhase0 cfg ctx s att) := by
  unfold Block.process_attestation
  simp only [hfork, if_true]
  rw [attestation_phase0_eq cfg ctx s att _ _ _ hfork rfl rfl rfl hnd hwf hmaxbits hspe hmin hcur]
  have hpe : ctx.proposer = (Block.get_beacon_proposer_index cfg s).toOption := by rw [hctxp, hprop]; rfl
  rw [hpe]
  rw [phase0_pure_congr cfg s att (ctx.committeeCount att.data.target.epoch)
    (get_committee_count_per_slot cfg s att.data.target.epoch).toOption
    (ctx.committee att.data.slot att.data.index) (get_beacon_committee cfg s att.data.slot att.data.index).toOption]
  · exact Sim.cross _ _ _
  · intro ht
    obtain ⟨_, h2, h3⟩ := timing_epochs cfg s att.data ht
    exact hok.cc _ h2 h3
  · intro ht n hn hlt
    obtain ⟨h1, h2, h3⟩ := timing_epochs cfg s att.data ht
    rw [h1] at h2 h3 hn
    cases hcnt : get_committee_count_per_slot cfg s (att.data.slot / cfg.SLOTS_PER_EPOCH) with
    | error e => rw [hcnt] at hn; cases hn
    | ok m =>
      rw [hcnt] at hn
      have : m = n := by simpa [Except.toOption] using hn
      subst this
      exact hok.com _ _ m h2 h3 hcnt hlt


/-- a seed reads one randao mix; writing another entry of the vector leaves it alone -/
theorem seed_set_other (cfg : Config) (s s' : State) (x d : Bytes) (e i : Nat)
    (hne : ∀ (h : cfg.MIN_SEED_LOOKAHEAD + 1 ≤ e + cfg.EPOCHS_PER_HISTORICAL_VECTOR),
      (e + cfg.EPOCHS_PER_HISTORICAL_VECTOR - (cfg.MIN_SEED_LOOKAHEAD + 1)) % cfg.EPOCHS_PER_HISTORICAL_VECTOR ≠ i)
    (hmix : s'.randao_mixes = s.randao_mixes.set i x) :
    get_seed cfg s' e d = get_seed cfg s e d := by
  unfold get_seed get_randao_mix
  cases hu : u64 (e + cfg.EPOCHS_PER_HISTORICAL_VECTOR) "get_seed" with
  | error err => rfl
  | ok v =>
    have hv : v = e + cfg.EPOCHS_PER_HISTORICAL_VECTOR := by
      unfold u64 at hu; split at hu
      · cases hu; rfl
      · cases hu
    subst hv
    simp only [bind, Except.bind]
    by_cases hlt : e + cfg.EPOCHS_PER_HISTORICAL_VECTOR < cfg.MIN_SEED_LOOKAHEAD + 1
    · simp only [hlt, if_true]; rfl
    · simp only [hlt, if_false]
      by_cases h0 : cfg.EPOCHS_PER_HISTORICAL_VECTOR = 0
      · simp only [h0, if_true]; rfl
      · simp only [h0, if_false]
        have hidx : (e + cfg.EPOCHS_PER_HISTORICAL_VECTOR - cfg.MIN_SEED_LOOKAHEAD - 1) = (e + cfg.EPOCHS_PER_HISTORICAL_VECTOR - (cfg.MIN_SEED_LOOKAHEAD + 1)) := by omega
        rw [hidx, hmix]
        unfold idx
        rw [List.getElem?_set_ne (fun h => hne (by omega) h.symm)]

/-- committee count and committee read the registry and the randao history only -/
theorem committee_congr (cfg : Config) (s s' : State) (slot index : Nat) (hv : s'.validators = s.validators)
    (hseed : get_seed cfg s' (compute_epoch_at_slot cfg slot) DOMAIN_BEACON_ATTESTER = get_seed cfg s (compute_epoch_at_slot cfg slot) DOMAIN_BEACON_ATTESTER) :
    get_committee_count_per_slot cfg s' (compute_epoch_at_slot cfg slot) = get_committee_count_per_slot cfg s (compute_epoch_at_slot cfg slot) ∧
    get_beacon_committee cfg s' slot index = get_beacon_committee cfg s slot index := by
  have hc : ∀ e, get_committee_count_per_slot cfg s' e = get_committee_count_per_slot cfg s e := by
    intro e; unfold get_committee_count_per_slot get_active_validator_indices; rw [hv]
  refine ⟨hc _, ?_⟩
  unfold get_beacon_committee
  simp only []
  rw [hc, hseed]
  unfold get_active_validator_indices
  rw [hv]

theorem count_congr (cfg : Config) (s s' : State) (e : Nat) (hv : s'.validators = s.validators) :
    get_committee_count_per_slot cfg s' e = get_committee_count_per_slot cfg s e := by
  unfold get_committee_count_per_slot get_active_validator_indices; rw [hv]

/-- `CommOK` survives an operation that keeps slot and registry and the attester seeds of the attestable epochs -/
theorem CommOK.keep {cfg : Config} {ctx : Ctx} {st st' : State} (h : CommOK cfg ctx st)
    (hv : st'.validators = st.validators) (hs : st'.slot = st.slot)
    (hseed : ∀ e, e ≤ st.slot / cfg.SLOTS_PER_EPOCH → st.slot / cfg.SLOTS_PER_EPOCH ≤ e + 1 →
      get_seed cfg st' e DOMAIN_BEACON_ATTESTER = get_seed cfg st e DOMAIN_BEACON_ATTESTER) : CommOK cfg ctx st' := by
  constructor
  · intro e h1 h2
    rw [hs] at h1 h2
    rw [count_congr cfg st st' e hv]
    exact h.cc e h1 h2
  · intro slot idx n h1 h2 hn hlt
    rw [hs] at h1 h2
    have hc := committee_congr cfg st st' slot idx hv (hseed _ h1 h2)
    unfold compute_epoch_at_slot at hc
    rw [hc.1] at hn
    rw [hc.2]
    exact h.com slot idx n h1 h2 hn hlt


/-- an accepted phase0 attestation only appends to a pending-attestation list -/
theorem phase0_attestation_frame (cfg : Config) (s s' : State) (att : Attestation) (count : Option Nat) (committee : Option (List Nat))
    (proposer : Option Nat) (h : Block.process_attestation_phase0_pure cfg s att count committee proposer = some s') :
    s'.validators = s.validators ∧ s'.slot = s.slot ∧ s'.randao_mixes = s.randao_mixes ∧ s'.fork = s.fork ∧
    s'.slashings = s.slashings ∧ s'.balances = s.balances ∧ s'.eth1_data = s.eth1_data ∧ s'.eth1_deposit_index = s.eth1_deposit_index := by
  unfold Block.process_attestation_phase0_pure at h
  simp only [] at h
  repeat' split at h
  all_goals first | (cases h; done) | (cases h; exact ⟨rfl, rfl, rfl, rfl, rfl, rfl, rfl, rfl⟩)

/-- what header, randao, eth1 vote and phase0 attestations need and keep -/
structure AttInv (cfg : Config) (p : Nat) (ctx : Ctx) (st : State) : Prop where
  head : HeadInv cfg p ctx st
  comm : CommOK cfg ctx st
  nd : ∀ slot idx c, ctx.committee slot idx = some c → c.Nodup
  hcur : st.slot + 2 * cfg.SLOTS_PER_EPOCH < 2 ^ 64

/-- a phase0 block whose only operations are attestations (well-typed bit lists) -/
structure OnlyAttestations (cfg : Config) (block : SignedBlock) : Prop where
  ps : block.proposer_slashings = []
  as : block.attester_slashings = []
  dep : block.deposits = []
  ex : block.voluntary_exits = []
  bls : block.bls_to_execution_changes = []
  payload : block.execution_payload = none
  sync : block.sync_aggregate = none
  typed : ∀ att ∈ block.attestations, att.bits_wellformed = true ∧ att.aggregation_bits.length ≤ cfg.MAX_VALIDATORS_PER_COMMITTEE

theorem AttInv.keep {cfg : Config} {p : Nat} {ctx : Ctx} {st st' : State} (h : AttInv cfg p ctx st)
    (hv : st'.validators = st.validators) (hs : st'.slot = st.slot) (hf : st'.fork = st.fork)
    (hml : st'.randao_mixes.length = st.randao_mixes.length)
    (hps : get_seed cfg st' (get_current_epoch cfg st) DOMAIN_BEACON_PROPOSER = get_seed cfg st (get_current_epoch cfg st) DOMAIN_BEACON_PROPOSER)
    (has : ∀ e, e ≤ st.slot / cfg.SLOTS_PER_EPOCH → st.slot / cfg.SLOTS_PER_EPOCH ≤ e + 1 →
      get_seed cfg st' e DOMAIN_BEACON_ATTESTER = get_seed cfg st e DOMAIN_BEACON_ATTESTER) : AttInv cfg p ctx st' :=
  ⟨⟨by rw [hf]; exact h.head.fork, h.head.ctxp,
      by rw [proposer_frame cfg st st' (sameDuties_of_frame cfg st st' hv hs hps)]; exact h.head.prop,
      by rw [hv]; exact h.head.plt, by rw [hml]; exact h.head.mixes⟩,
   h.comm.keep hv hs has, h.nd, by rw [hs]; exact h.hcur⟩

set_option maxHeartbeats 1000000 in
/-- `OpSteps` for `AttInv`, for phase0 blocks that carry attestations only: every field is discharged -/
theorem opSteps_attestations (cfg : Config) (block : SignedBlock) (p : Nat) (hno : OnlyAttestations cfg block)
    (hspe : 0 < cfg.SLOTS_PER_EPOCH) (hmin : cfg.MIN_ATTESTATION_INCLUSION_DELAY ≤ cfg.SLOTS_PER_EPOCH)
    (hpos : 0 < cfg.EPOCHS_PER_HISTORICAL_VECTOR)
    (hlook : (cfg.MIN_SEED_LOOKAHEAD + 1) % cfg.EPOCHS_PER_HISTORICAL_VECTOR ≠ 0)
    (hlook2 : (cfg.MIN_SEED_LOOKAHEAD + 2) % cfg.EPOCHS_PER_HISTORICAL_VECTOR ≠ 0)
    (hsmall : cfg.EPOCHS_PER_ETH1_VOTING_PERIOD * cfg.SLOTS_PER_EPOCH * 2 + 2 < 2 ^ 64) :
    OpSteps cfg block .phase0 (fun _ => AttInv cfg p) := by
  refine
    { mono := fun _ _ _ h => h
      fork := fun _ ctx st hi => hi.head.fork
      header := ?_, payload := ?_, withdrawals := ?_, randao := ?_, eth1 := ?_, proposerSlashing := ?_, attesterSlashing := ?_,
      attestation := ?_, deposit := ?_, exit := ?_, blsChange := ?_, sync := ?_ }
  · intro _ ctx st hi
    refine ⟨sim_header cfg ctx st block p hi.head.prop hi.head.ctxp, fun st' h => ?_⟩
    rw [hi.head.ctxp] at h
    simp only [ofOpt, res_bind_ok] at h
    obtain ⟨hv, hs, hm, hf⟩ := processHeader_frame st st' block p h
    exact hi.keep hv hs hf (by rw [hm]) (seed_of_mixes cfg st st' _ _ hm) (fun e _ _ => seed_of_mixes cfg st st' _ _ hm)
  · intro ctx payload hpl; rw [hno.payload] at hpl; cases hpl
  · intro _ ctx payload hpl; rw [hno.payload] at hpl; cases hpl
  · intro ctx _ st _ _ hi
    refine ⟨sim_randao cfg ctx st block p hi.head.prop hi.head.ctxp hi.head.plt hi.head.mixes hpos, fun st' h => ⟨?_, fun hf => by cases hf⟩⟩
    obtain ⟨hv, hs, hf, x, hm⟩ := processRandao_frame cfg ctx st st' block h
    rw [hi.head.mixes] at hm
    refine hi.keep hv hs hf (by rw [hm, List.length_set]) ?_ ?_
    · apply seed_set_frame cfg st st' x _ hlook
      rw [hm]; rfl
    · intro e h1 h2
      apply seed_set_other cfg st st' x _ e _ _ hm
      intro hle
      generalize hA : st.slot / cfg.SLOTS_PER_EPOCH = A at *
      by_cases heq : e = A
      · subst heq
        exact mod_shift_ne e cfg.EPOCHS_PER_HISTORICAL_VECTOR (cfg.MIN_SEED_LOOKAHEAD + 1) hpos hlook hle
      · have he : e + 1 = A := by omega
        have h3 := mod_shift_ne A cfg.EPOCHS_PER_HISTORICAL_VECTOR (cfg.MIN_SEED_LOOKAHEAD + 2) hpos hlook2 (by omega)
        have h4 : A + cfg.EPOCHS_PER_HISTORICAL_VECTOR - (cfg.MIN_SEED_LOOKAHEAD + 2) =
            e + cfg.EPOCHS_PER_HISTORICAL_VECTOR - (cfg.MIN_SEED_LOOKAHEAD + 1) := by omega
        rw [h4] at h3
        exact h3
  · intro ctx _ st _ _ hi
    refine ⟨sim_eth1 cfg st block hsmall, fun st' h => ⟨?_, fun hf => by cases hf⟩⟩
    obtain ⟨hv, hs, hm, hf⟩ := processEth1_frame cfg st st' block.eth1_data h
    exact hi.keep hv hs hf (by rw [hm]) (seed_of_mixes cfg st st' _ _ hm) (fun e _ _ => seed_of_mixes cfg st st' _ _ hm)
  · intro ctx _ st x hx; rw [hno.ps] at hx; cases hx
  · intro ctx _ st x hx; rw [hno.as] at hx; cases hx
  · -- attestations
    intro ctx _ st att hatt hi
    obtain ⟨hwf, hmaxbits⟩ := hno.typed att hatt
    simp only [if_true]
    refine ⟨sim_attestation_phase0' cfg ctx st att p hi.head.fork hi.comm hi.head.ctxp hi.head.prop (hi.nd _ _) hwf hmaxbits hspe hmin hi.hcur,
      fun st' h => ?_⟩
    rw [attestation_phase0_eq cfg ctx st att _ _ _ hi.head.fork rfl rfl rfl (hi.nd _ _) hwf hmaxbits hspe hmin hi.hcur] at h
    cases hpure : Block.process_attestation_phase0_pure cfg st att (ctx.committeeCount att.data.target.epoch)
        (ctx.committee att.data.slot att.data.index) ctx.proposer with
    | none => rw [hpure] at h; cases h
    | some s2 =>
      rw [hpure] at h
      simp only [optRes] at h
      cases h
      obtain ⟨hv, hs, hm, hf, _, _, e1, e2⟩ := phase0_attestation_frame cfg st st' att _ _ _ hpure
      exact ⟨hi.keep hv hs hf (by rw [hm]) (seed_of_mixes cfg st st' _ _ hm) (fun e _ _ => seed_of_mixes cfg st st' _ _ hm), fun _ => ⟨e1, e2⟩⟩
  · intro _ ctx st d hd; rw [hno.dep] at hd; cases hd
  · intro ctx _ st x hx; rw [hno.ex] at hx; cases hx
  · intro ctx _ st x hx; rw [hno.bls] at hx; cases hx
  · intro ctx agg hsa; rw [hno.sync] at hsa; cases hsa

/-- `M_block_refines_S` and `M_sound` WITHOUT a premise, for phase0 blocks whose only operations are attestations -/
theorem processBlock_attestations (cfg : Config) (ctx : Ctx) (st : State) (block : SignedBlock) (p : Nat) (hno : OnlyAttestations cfg block)
    (hi : AttInv cfg p ctx st)
    (hspe : 0 < cfg.SLOTS_PER_EPOCH) (hmin : cfg.MIN_ATTESTATION_INCLUSION_DELAY ≤ cfg.SLOTS_PER_EPOCH)
    (hpos : 0 < cfg.EPOCHS_PER_HISTORICAL_VECTOR)
    (hlook : (cfg.MIN_SEED_LOOKAHEAD + 1) % cfg.EPOCHS_PER_HISTORICAL_VECTOR ≠ 0)
    (hlook2 : (cfg.MIN_SEED_LOOKAHEAD + 2) % cfg.EPOCHS_PER_HISTORICAL_VECTOR ≠ 0)
    (hsmall : cfg.EPOCHS_PER_ETH1_VOTING_PERIOD * cfg.SLOTS_PER_EPOCH * 2 + 2 < 2 ^ 64)
    (htyped : Block.check_types cfg block = .ok ()) :
    Sim (Block.process_block cfg st block) (processBlock cfg ctx st block) :=
  processBlock_sim (opSteps_attestations cfg block p hno hspe hmin hpos hlook hlook2 hsmall) 0 ctx st hi htyped

end Zrnt.Proofs.BlockM
