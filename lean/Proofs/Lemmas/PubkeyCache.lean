import Zrnt.PubkeyCache.Spec
/-!
# Pubkey cache: histories of handles, the store invariant, and what each operation does to them
-/
namespace Zrnt.PubkeyCache

/-! ## list facts -/

theorem idxOf?_eq_some_of_nodup {H : List Key} (hn : H.Nodup) {k : Key} {i : Nat}
    (h : H[i]? = some k) : H.idxOf? k = some i := by
  induction H generalizing i with
  | nil => simp at h
  | cons a t ih =>
    rw [List.idxOf?_cons]
    cases i with
    | zero => simp at h; simp [h]
    | succ j =>
      simp at h
      have hmem : k ∈ t := List.mem_iff_getElem?.mpr ⟨j, h⟩
      have hne : a ≠ k := by
        intro e; subst e
        exact (List.nodup_cons.mp hn).1 hmem
      simp [hne, ih (List.nodup_cons.mp hn).2 h]

theorem getElem?_of_idxOf? {H : List Key} {k : Key} {i : Nat} (h : H.idxOf? k = some i) : H[i]? = some k := by
  induction H generalizing i with
  | nil => simp [List.idxOf?] at h
  | cons a t ih =>
    rw [List.idxOf?_cons] at h
    by_cases e : a = k
    · subst e; simp at h; subst h; simp
    · have : (a == k) = false := by simpa using e
      simp [this] at h
      obtain ⟨j, hj, rfl⟩ := h
      simpa using ih hj

theorem idxOf?_iff_of_nodup {H : List Key} (hn : H.Nodup) {k : Key} {i : Nat} :
    H.idxOf? k = some i ↔ H[i]? = some k :=
  ⟨getElem?_of_idxOf?, idxOf?_eq_some_of_nodup hn⟩

theorem nodup_take {H : List Key} (hn : H.Nodup) (n : Nat) : (H.take n).Nodup :=
  List.Sublist.nodup (List.take_sublist n H) hn

theorem nodup_index_unique {H : List Key} (hn : H.Nodup) {k : Key} {i j : Nat}
    (hi : H[i]? = some k) (hj : H[j]? = some k) : i = j := by
  have a := idxOf?_eq_some_of_nodup hn hi
  have b := idxOf?_eq_some_of_nodup hn hj
  rw [a] at b; exact Option.some.inj b

theorem not_mem_take_of_nodup {H : List Key} (hn : H.Nodup) {k : Key} {j n : Nat}
    (hj : H[j]? = some k) (hle : n ≤ j) : k ∉ H.take n := by
  intro hm
  obtain ⟨i, hi⟩ := List.mem_iff_getElem?.mp hm
  rw [List.getElem?_take] at hi
  by_cases hlt : i < n
  · simp [hlt] at hi
    have := nodup_index_unique hn hi hj
    omega
  · simp [hlt] at hi

/-! ## histories -/

/-- `Hist s h H d`: handle `h` of store `s` denotes history `H`; its parent chain has `d` levels. -/
inductive Hist (s : Store) : Nat → List Key → Nat → Prop where
  | root {h : Nat} {l : Level} : s[h]? = some l → l.parent = none → Hist s h l.idx2pub 1
  | child {h : Nat} {l : Level} {p : Nat} {Hp : List Key} {d : Nat} :
      s[h]? = some l → l.parent = some p → Hist s p Hp d → Hist s h (Hp.take l.tpc ++ l.idx2pub) (d + 1)

theorem Hist.lt_length {s : Store} {h : Nat} {H : List Key} {d : Nat} (hh : Hist s h H d) : h < s.length := by
  cases hh with
  | root hl _ => exact (List.getElem?_eq_some_iff.mp hl).1
  | child hl _ _ => exact (List.getElem?_eq_some_iff.mp hl).1

theorem Hist.depth_pos {s : Store} {h : Nat} {H : List Key} {d : Nat} (hh : Hist s h H d) : 1 ≤ d := by
  cases hh <;> omega

theorem Hist.functional {s : Store} {h : Nat} {H₁ H₂ : List Key} {d₁ d₂ : Nat}
    (a : Hist s h H₁ d₁) (b : Hist s h H₂ d₂) : H₁ = H₂ ∧ d₁ = d₂ := by
  induction a generalizing H₂ d₂ with
  | root hl hp =>
    cases b with
    | root hl' hp' => rw [hl] at hl'; cases hl'; exact ⟨rfl, rfl⟩
    | child hl' hp' _ => rw [hl] at hl'; cases hl'; rw [hp] at hp'; cases hp'
  | child hl hp _ ih =>
    cases b with
    | root hl' hp' => rw [hl] at hl'; cases hl'; rw [hp] at hp'; cases hp'
    | child hl' hp' hr =>
      rw [hl] at hl'; cases hl'; rw [hp] at hp'; cases hp'
      obtain ⟨e1, e2⟩ := ih hr
      subst e1; subst e2; exact ⟨rfl, rfl⟩

/-- the store invariant, per level -/
structure LevelOK (s : Store) (h : Nat) (l : Level) : Prop where
  parent_lt : ∀ p, l.parent = some p → p < h
  root_tpc : l.parent = none → l.tpc = 0
  tpc_le : ∀ p Hp d, l.parent = some p → Hist s p Hp d → l.tpc ≤ Hp.length
  map_ok : ∀ k i, l.pub2idx.lookup k = some i ↔ (l.tpc ≤ i ∧ l.idx2pub[i - l.tpc]? = some k)
  nodup : ∀ H d, Hist s h H d → H.Nodup

def WF (s : Store) : Prop := ∀ h l, s[h]? = some l → LevelOK s h l

theorem WF.exists_hist {s : Store} (hw : WF s) : ∀ h, h < s.length → ∃ H d, Hist s h H d ∧ d ≤ h + 1 := by
  intro h
  induction h using Nat.strongRecOn with
  | _ h ih =>
    intro hlt
    have hl : s[h]? = some s[h] := List.getElem?_eq_getElem hlt
    cases hp : s[h].parent with
    | none => exact ⟨_, 1, Hist.root hl hp, by omega⟩
    | some p =>
      have hpl := (hw h _ hl).parent_lt p hp
      obtain ⟨Hp, d, hh, hd⟩ := ih p hpl (by omega)
      exact ⟨_, d + 1, Hist.child hl hp hh, by omega⟩

theorem Hist.split {s : Store} (hw : WF s) {h : Nat} {H : List Key} {d : Nat} (hh : Hist s h H d) :
    ∃ l pre, s[h]? = some l ∧ H = pre ++ l.idx2pub ∧ pre.length = l.tpc := by
  cases hh with
  | root hl hp => exact ⟨_, [], hl, by simp, by simp [(hw _ _ hl).root_tpc hp]⟩
  | child hl hp hr =>
    refine ⟨_, _, hl, rfl, ?_⟩
    have := (hw _ _ hl).tpc_le _ _ _ hp hr
    simp [List.length_take]; omega

theorem Hist.length_eq {s : Store} (hw : WF s) {h : Nat} {H : List Key} {d : Nat} (hh : Hist s h H d) :
    ∃ l, s[h]? = some l ∧ H.length = l.tpc + l.idx2pub.length := by
  obtain ⟨l, pre, hl, rfl, hp⟩ := hh.split hw
  exact ⟨l, hl, by simp [hp]⟩

/-! ## the lookups return the history's answers -/

theorem pubkey_eq {s : Store} (hw : WF s) {h : Nat} {H : List Key} {d : Nat} (hh : Hist s h H d) :
    ∀ fuel, d ≤ fuel → ∀ i, pubkey s fuel h i = .ok H[i]? := by
  induction hh with
  | @root h l hl hp =>
    intro fuel hf i
    cases fuel with
    | zero => omega
    | succ f =>
      have ht := (hw _ _ hl).root_tpc hp
      simp only [pubkey, hl, ht, Nat.zero_le, ↓reduceIte, Nat.zero_add, Nat.sub_zero]
      split
      · rename_i hle; rw [List.getElem?_eq_none_iff.mpr hle]
      · rfl
  | @child h l p Hp d hl hp hr ih =>
    intro fuel hf i
    cases fuel with
    | zero => omega
    | succ f =>
      have hle := (hw _ _ hl).tpc_le _ _ _ hp hr
      have hlen : (Hp.take l.tpc).length = l.tpc := by simp [List.length_take]; omega
      simp only [pubkey, hl]
      by_cases hti : l.tpc ≤ i
      · simp only [hti, ↓reduceIte]
        rw [List.getElem?_append_right (by omega), hlen]
        split
        · rename_i h2; rw [List.getElem?_eq_none_iff.mpr (by omega)]
        · rfl
      · simp only [hti, ↓reduceIte, hp]
        rw [ih f (by omega) i, List.getElem?_append_left (by omega), List.getElem?_take]
        simp [Nat.lt_of_not_le hti]

theorem mem_idx2pub_iff_lookup {s : Store} (hw : WF s) {h : Nat} {l : Level} (hl : s[h]? = some l) (k : Key) :
    l.pub2idx.lookup k = none ↔ k ∉ l.idx2pub := by
  constructor
  · intro hn hm
    obtain ⟨j, hj⟩ := List.mem_iff_getElem?.mp hm
    have := ((hw _ _ hl).map_ok k (l.tpc + j)).mpr ⟨by omega, by simpa using hj⟩
    rw [hn] at this; cases this
  · intro hn
    cases e : l.pub2idx.lookup k with
    | none => rfl
    | some i =>
      have := ((hw _ _ hl).map_ok k i).mp e
      exact absurd (List.mem_iff_getElem?.mpr ⟨_, this.2⟩) hn

theorem validatorIndex_eq {s : Store} (hw : WF s) {h : Nat} {H : List Key} {d : Nat} (hh : Hist s h H d) :
    ∀ fuel, d ≤ fuel → ∀ k, validatorIndex s fuel h k = .ok (H.idxOf? k) := by
  induction hh with
  | @root h l hl hp =>
    intro fuel hf k
    cases fuel with
    | zero => omega
    | succ f =>
      have ht := (hw _ _ hl).root_tpc hp
      have hn := (hw _ _ hl).nodup _ _ (Hist.root hl hp)
      simp only [validatorIndex, hl]
      cases e : l.pub2idx.lookup k with
      | some i =>
        have := ((hw _ _ hl).map_ok k i).mp e
        simp only [ht, Nat.sub_zero] at this
        simp [idxOf?_eq_some_of_nodup hn this.2]
      | none =>
        simp only [hp]
        rw [List.idxOf?_eq_none_iff.mpr ((mem_idx2pub_iff_lookup hw hl k).mp e)]
  | @child h l p Hp d hl hp hr ih =>
    intro fuel hf k
    cases fuel with
    | zero => omega
    | succ f =>
      have hle := (hw _ _ hl).tpc_le _ _ _ hp hr
      have hn := (hw _ _ hl).nodup _ _ (Hist.child hl hp hr)
      have hlen : (Hp.take l.tpc).length = l.tpc := by simp [List.length_take]; omega
      obtain ⟨lp, hlp⟩ : ∃ lp, s[p]? = some lp := ⟨s[p]'hr.lt_length, List.getElem?_eq_getElem _⟩
      have hnp := (hw _ _ hlp).nodup _ _ hr
      simp only [validatorIndex, hl]
      cases e : l.pub2idx.lookup k with
      | some i =>
        have := ((hw _ _ hl).map_ok k i).mp e
        have hi : (Hp.take l.tpc ++ l.idx2pub)[i]? = some k := by
          rw [List.getElem?_append_right (by omega), hlen]; exact this.2
        simp [idxOf?_eq_some_of_nodup hn hi]
      | none =>
        have hnot : k ∉ l.idx2pub := (mem_idx2pub_iff_lookup hw hl k).mp e
        simp only [hp, ih f (by omega) k]
        cases e2 : Hp.idxOf? k with
        | none =>
          have : k ∉ Hp := List.idxOf?_eq_none_iff.mp e2
          have h3 : k ∉ Hp.take l.tpc ++ l.idx2pub := by
            simp only [List.mem_append, not_or]
            exact ⟨fun hm => this (List.mem_of_mem_take hm), hnot⟩
          simp [List.idxOf?_eq_none_iff.mpr h3]
        | some i =>
          have hi := getElem?_of_idxOf? e2
          by_cases hti : l.tpc ≤ i
          · have h3 : k ∉ Hp.take l.tpc ++ l.idx2pub := by
              simp only [List.mem_append, not_or]
              exact ⟨not_mem_take_of_nodup hnp hi hti, hnot⟩
            simp [hti, List.idxOf?_eq_none_iff.mpr h3]
          · have h4 : (Hp.take l.tpc ++ l.idx2pub)[i]? = some k := by
              rw [List.getElem?_append_left (by omega), List.getElem?_take]
              simp [Nat.lt_of_not_le hti, hi]
            simp [hti, idxOf?_eq_some_of_nodup hn h4]


/-! ## forking out a level -/

theorem getElem?_fork_old {s : Store} {h t x : Nat} (hx : x < s.length) : (fork s h t)[x]? = s[x]? :=
  List.getElem?_append_left hx

theorem getElem?_fork_new {s : Store} {h t : Nat} : (fork s h t)[s.length]? = some ⟨some h, t, [], []⟩ := by
  simp [fork]

theorem length_fork {s : Store} {h t : Nat} : (fork s h t).length = s.length + 1 := by simp [fork]

theorem Hist.fork_mono {s : Store} {h t x : Nat} {H : List Key} {d : Nat} (hh : Hist s x H d) :
    Hist (fork s h t) x H d := by
  induction hh with
  | root hl hp => exact Hist.root (by rw [getElem?_fork_old (List.getElem?_eq_some_iff.mp hl).1]; exact hl) hp
  | child hl hp _ ih =>
    exact Hist.child (by rw [getElem?_fork_old (List.getElem?_eq_some_iff.mp hl).1]; exact hl) hp ih

theorem Hist.fork_inv {s : Store} (hw : WF s) {h t x : Nat} {H : List Key} {d : Nat} (hx : x < s.length)
    (hh : Hist (fork s h t) x H d) : Hist s x H d := by
  obtain ⟨H', d', h', _⟩ := hw.exists_hist x hx
  obtain ⟨e1, e2⟩ := (h'.fork_mono (h := h) (t := t)).functional hh
  subst e1; subst e2; exact h'

theorem wf_fork {s : Store} (hw : WF s) {h t : Nat} {H : List Key} {d : Nat} (hh : Hist s h H d)
    (ht : t ≤ H.length) :
    WF (fork s h t) ∧ Hist (fork s h t) s.length (H.take t) (d + 1) := by
  have hnew : Hist (fork s h t) s.length (H.take t) (d + 1) := by
    have := Hist.child (s := fork s h t) getElem?_fork_new rfl (hh.fork_mono (h := h) (t := t))
    simpa using this
  obtain ⟨lh, hlh⟩ : ∃ lh, s[h]? = some lh := ⟨s[h]'hh.lt_length, List.getElem?_eq_getElem _⟩
  have hnH : H.Nodup := (hw _ _ hlh).nodup _ _ hh
  refine ⟨?_, hnew⟩
  intro x lx hlx
  have hxl : x < s.length + 1 := by
    have := (List.getElem?_eq_some_iff.mp hlx).1; rwa [length_fork] at this
  by_cases hx : x < s.length
  · rw [getElem?_fork_old hx] at hlx
    have ok := hw _ _ hlx
    exact {
      parent_lt := ok.parent_lt
      root_tpc := ok.root_tpc
      tpc_le := fun p Hp d' hp hr => ok.tpc_le p Hp d' hp (hr.fork_inv hw (by have := ok.parent_lt p hp; omega))
      map_ok := ok.map_ok
      nodup := fun H' d' hr => ok.nodup H' d' (hr.fork_inv hw hx) }
  · have hxe : x = s.length := by omega
    subst hxe
    rw [getElem?_fork_new] at hlx
    cases hlx
    exact {
      parent_lt := fun p hp => by cases hp; exact hh.lt_length
      root_tpc := fun hp => by cases hp
      tpc_le := fun p Hp d' hp hr => by
        cases hp
        obtain ⟨e1, _⟩ := (hr.fork_inv hw hh.lt_length).functional hh
        subst e1; exact ht
      map_ok := fun k i => by simp
      nodup := fun H' d' hr => by
        obtain ⟨e1, _⟩ := hr.functional hnew
        subst e1; exact nodup_take hnH t }

/-! ## appending in place -/

/-- the level written by the append branch of `AddValidator` -/
def appended (l : Level) (index : Nat) (pub : Key) : Level :=
  { l with idx2pub := l.idx2pub ++ [pub], pub2idx := (pub, index) :: l.pub2idx }

theorem getElem?_set_self' {s : Store} {h : Nat} {v : Level} (hh : h < s.length) : (s.set h v)[h]? = some v := by
  simp [List.getElem?_set, hh]

theorem getElem?_set_other {s : Store} {h x : Nat} {v : Level} (hne : x ≠ h) : (s.set h v)[x]? = s[x]? := by
  rw [List.getElem?_set]; simp [Ne.symm hne]

@[simp] theorem appended_tpc (l : Level) (i : Nat) (k : Key) : (appended l i k).tpc = l.tpc := rfl
@[simp] theorem appended_parent (l : Level) (i : Nat) (k : Key) : (appended l i k).parent = l.parent := rfl

theorem Hist.set_append {s : Store} (hw : WF s) {h : Nat} {l : Level} (hl : s[h]? = some l) (index : Nat) (pub : Key) :
    ∀ x Hx dx, Hist s x Hx dx → Hist (s.set h (appended l index pub)) x (if x = h then Hx ++ [pub] else Hx) dx := by
  intro x Hx dx hh
  have hhl : h < s.length := (List.getElem?_eq_some_iff.mp hl).1
  induction hh with
  | @root x lx hlx hp =>
    by_cases e : x = h
    · subst e
      rw [hl] at hlx; cases hlx
      simp only [↓reduceIte]
      exact Hist.root (l := appended l index pub) (getElem?_set_self' hhl) hp
    · simp only [e, ↓reduceIte]
      exact Hist.root (by rw [getElem?_set_other e]; exact hlx) hp
  | @child x lx p Hp d hlx hp hr ih =>
    have hpx := (hw _ _ hlx).parent_lt p hp
    have hle := (hw _ _ hlx).tpc_le _ _ _ hp hr
    have htake : (if p = h then Hp ++ [pub] else Hp).take lx.tpc = Hp.take lx.tpc := by
      split
      · exact List.take_append_of_le_length hle
      · rfl
    by_cases e : x = h
    · subst e
      rw [hl] at hlx; cases hlx
      simp only [↓reduceIte]
      have := Hist.child (s := s.set x (appended l index pub)) (h := x) (l := appended l index pub)
        (getElem?_set_self' hhl) hp ih
      rw [appended_tpc, htake] at this
      simpa [appended, List.append_assoc] using this
    · simp only [e, ↓reduceIte]
      have := Hist.child (s := s.set h (appended l index pub)) (h := x) (l := lx)
        (by rw [getElem?_set_other e]; exact hlx) hp ih
      rw [htake] at this
      exact this

theorem appendAt_ok {s : Store} (hw : WF s) {h : Nat} {H : List Key} {d : Nat} (hh : Hist s h H d)
    {index : Nat} {pub : Key} (hi : index = H.length) (hpub : pub ∉ H) :
    ∃ s', appendAt s h index pub = .ok (s', some h) ∧ WF s' ∧ s'.length = s.length ∧
      Hist s' h (H ++ [pub]) d ∧ ∀ x Hx dx, x ≠ h → Hist s x Hx dx → Hist s' x Hx dx := by
  obtain ⟨l, pre, hl, hH, hpre⟩ := hh.split hw
  have hhl : h < s.length := hh.lt_length
  have hidx : index = l.tpc + l.idx2pub.length := by rw [hi, hH]; simp [hpre]
  have hnotin : pub ∉ l.idx2pub := fun hm => hpub (by rw [hH]; exact List.mem_append_right _ hm)
  have hset := Hist.set_append hw hl index pub
  refine ⟨s.set h (appended l index pub), ?_, ?_, by simp, ?_, ?_⟩
  · simp [appendAt, hl, hidx, appended]
  · -- WF of the new store
    have key : ∀ x H' d', Hist (s.set h (appended l index pub)) x H' d' →
        ∃ Hx, Hist s x Hx d' ∧ H' = if x = h then Hx ++ [pub] else Hx := by
      intro x H' d' hr
      have hxl : x < s.length := by simpa using hr.lt_length
      obtain ⟨Hx, dx, hx, _⟩ := hw.exists_hist x hxl
      obtain ⟨e1, e2⟩ := (hset x Hx dx hx).functional hr
      subst e2
      exact ⟨Hx, hx, e1.symm⟩
    intro x lx hlx
    have hxl : x < s.length := by simpa using (List.getElem?_eq_some_iff.mp hlx).1
    by_cases e : x = h
    · subst e
      have : lx = appended l index pub := by
        rw [getElem?_set_self' hhl] at hlx; exact (Option.some.inj hlx).symm
      subst this
      have ok := hw _ _ hl
      exact {
        parent_lt := ok.parent_lt
        root_tpc := ok.root_tpc
        tpc_le := fun p Hp d' hp hr => by
          obtain ⟨Hx, hx, rfl⟩ := key p Hp d' hr
          have := ok.tpc_le p Hx d' hp hx
          simp only [appended_tpc]
          split <;> simp <;> omega
        map_ok := fun k i => by
          have old := ok.map_ok k i
          simp only [appended, List.lookup_cons]
          by_cases ek : k = pub
          · subst ek
            simp only [beq_self_eq_true]
            constructor
            · intro hq; cases hq
              exact ⟨by omega, by rw [hidx]; simp⟩
            · rintro ⟨h1, h2⟩
              by_cases hlt : i - l.tpc < l.idx2pub.length
              · rw [List.getElem?_append_left hlt] at h2
                exact absurd (List.mem_iff_getElem?.mpr ⟨_, h2⟩) hnotin
              · have : (l.idx2pub ++ [k])[i - l.tpc]? = some k := h2
                have hb : i - l.tpc < (l.idx2pub ++ [k]).length := (List.getElem?_eq_some_iff.mp this).1
                simp at hb
                congr 1; omega
          · have : (k == pub) = false := by simpa using ek
            simp only [this]
            rw [old]
            constructor
            · rintro ⟨h1, h2⟩
              exact ⟨h1, by rw [List.getElem?_append_left (List.getElem?_eq_some_iff.mp h2).1]; exact h2⟩
            · rintro ⟨h1, h2⟩
              refine ⟨h1, ?_⟩
              by_cases hlt : i - l.tpc < l.idx2pub.length
              · rwa [List.getElem?_append_left hlt] at h2
              · rw [List.getElem?_append_right (by omega)] at h2
                have hb := (List.getElem?_eq_some_iff.mp h2).1
                simp at hb
                have : i - l.tpc - l.idx2pub.length = 0 := by omega
                rw [this] at h2; simp at h2; exact absurd h2.symm ek
        nodup := fun H' d' hr => by
          obtain ⟨Hx, hx, rfl⟩ := key x H' d' hr
          obtain ⟨e1, _⟩ := hx.functional hh
          subst e1
          simp only [↓reduceIte]
          rw [List.nodup_append]
          refine ⟨ok.nodup _ _ hh, by simp, ?_⟩
          intro a ha b hb
          simp at hb; subst hb
          intro e; subst e; exact hpub ha }
    · have hlx' : s[x]? = some lx := by
        rw [getElem?_set_other e] at hlx; exact hlx
      have ok := hw _ _ hlx'
      exact {
        parent_lt := ok.parent_lt
        root_tpc := ok.root_tpc
        tpc_le := fun p Hp d' hp hr => by
          obtain ⟨Hx, hx, rfl⟩ := key p Hp d' hr
          have := ok.tpc_le p Hx d' hp hx
          split <;> simp <;> omega
        map_ok := ok.map_ok
        nodup := fun H' d' hr => by
          obtain ⟨Hx, hx, rfl⟩ := key x H' d' hr
          simp only [e, ↓reduceIte]
          exact ok.nodup _ _ hx }
  · simpa using hset h H d hh
  · intro x Hx dx hne hx
    simpa [hne] using hset x Hx dx hx

theorem appendAt_err {s : Store} (hw : WF s) {h : Nat} {H : List Key} {d : Nat} (hh : Hist s h H d)
    {index : Nat} {pub : Key} (hi : index ≠ H.length) : appendAt s h index pub = .ok (s, none) := by
  obtain ⟨l, hl, hlen⟩ := hh.length_eq hw
  simp [appendAt, hl, ← hlen, hi]


/-! ## `AddValidator` in terms of histories -/

theorem spec_add_noop {H : List Key} {index : Nat} {pub : Key} (h : H[index]? = some pub) :
    Spec.add H index pub = .noop := by simp [Spec.add, h]

theorem spec_add_append {H : List Key} {index : Nat} {pub : Key} (hi : index = H.length) (hp : pub ∉ H) :
    Spec.add H index pub = .append := by
  subst hi
  simp [Spec.add, hp]

theorem spec_add_fork {H : List Key} {index : Nat} {pub : Key} (hne : H[index]? ≠ some pub)
    (hi : index < H.length) (hp : pub ∉ H.take index) :
    Spec.add H index pub = .fork (H.take index ++ [pub]) := by
  have h1 : index ≤ H.length := by omega
  have h2 : index ≠ H.length := by omega
  simp [Spec.add, hne, h1, hp, h2]

theorem spec_add_err {H : List Key} {index : Nat} {pub : Key} (hne : H[index]? ≠ some pub)
    (hc : ¬ (index ≤ H.length ∧ pub ∉ H.take index)) : Spec.add H index pub = .err := by
  simp only [Spec.add, hne, ↓reduceIte, hc]

theorem addValidator_simple {s : Store} (hw : WF s) {h : Nat} {H : List Key} {d : Nat} (hh : Hist s h H d)
    {index : Nat} {pub : Key} (hpub : pub ∉ H) (hidx : H.length ≤ index) {fuel : Nat} (hf : d ≤ fuel) :
    addValidator s fuel h index pub = appendAt s h index pub := by
  cases fuel with
  | zero => have := hh.depth_pos; omega
  | succ f =>
    simp only [addValidator, validatorIndex_eq hw hh (f + 1) hf pub, pubkey_eq hw hh (f + 1) hf index,
      List.idxOf?_eq_none_iff.mpr hpub, List.getElem?_eq_none_iff.mpr hidx]

theorem addValidator_fork_simple {s : Store} (hw : WF s) {h : Nat} {H : List Key} {d : Nat} (hh : Hist s h H d)
    {t index : Nat} {pub : Key} (ht : t ≤ H.length) (hpub : pub ∉ H.take t) (hidx : t ≤ index)
    {fuel : Nat} (hf : d + 1 ≤ fuel) :
    addValidator (fork s h t) fuel s.length index pub = appendAt (fork s h t) s.length index pub := by
  obtain ⟨hw1, hh1⟩ := wf_fork hw hh ht
  exact addValidator_simple hw1 hh1 hpub (by simp [List.length_take]; omega) hf

/-- What `AddValidator` does, read off the history of the handle it is called on. -/
theorem addValidator_spec {s : Store} (hw : WF s) {h : Nat} {H : List Key} {d : Nat} (hh : Hist s h H d)
    (index : Nat) (pub : Key) {fuel : Nat} (hf : d + 4 ≤ fuel) :
    match Spec.add H index pub with
    | .noop => addValidator s fuel h index pub = .ok (s, some h)
    | .append => ∃ s', addValidator s fuel h index pub = .ok (s', some h) ∧ WF s' ∧ s'.length = s.length ∧
        Hist s' h (H ++ [pub]) d ∧ ∀ x Hx dx, x ≠ h → Hist s x Hx dx → Hist s' x Hx dx
    | .fork H' => ∃ s' h' d', addValidator s fuel h index pub = .ok (s', some h') ∧ WF s' ∧ s.length ≤ h' ∧
        s.length ≤ s'.length ∧ Hist s' h' H' d' ∧ d' ≤ d + 2 ∧ ∀ x Hx dx, Hist s x Hx dx → Hist s' x Hx dx
    | .err => ∃ s', addValidator s fuel h index pub = .ok (s', none) := by
  obtain ⟨lh, hlh⟩ : ∃ lh, s[h]? = some lh := ⟨s[h]'hh.lt_length, List.getElem?_eq_getElem _⟩
  have hn : H.Nodup := (hw _ _ hlh).nodup _ _ hh
  obtain ⟨f, rfl⟩ : ∃ f, fuel = f + 1 := ⟨fuel - 1, by omega⟩
  have hA := validatorIndex_eq hw hh (f + 1) (by omega) pub
  have hB := pubkey_eq hw hh (f + 1) (by omega) index
  cases eA : H.idxOf? pub with
  | some j =>
    have hj : H[j]? = some pub := getElem?_of_idxOf? eA
    have hjl : j < H.length := (List.getElem?_eq_some_iff.mp hj).1
    by_cases e : j = index
    · subst e
      rw [spec_add_noop hj]
      simp [addValidator, hA, hB, eA, hj]
    · -- the key sits at another index: fork out at j, then retry
      obtain ⟨hw1, hh1⟩ := wf_fork hw hh (Nat.le_of_lt hjl)
      have hnot1 : pub ∉ H.take j := not_mem_take_of_nodup hn hj (Nat.le_refl _)
      have hne : H[index]? ≠ some pub := fun hc => e (nodup_index_unique hn hj hc)
      obtain ⟨f', rfl⟩ : ∃ f', f = f' + 1 := ⟨f - 1, by omega⟩
      have hA1 := validatorIndex_eq hw1 hh1 (f' + 1) (by omega) pub
      have hB1 := pubkey_eq hw1 hh1 (f' + 1) (by omega) index
      have step0 : addValidator s (f' + 1 + 1) h index pub = addValidator (fork s h j) (f' + 1) s.length index pub := by
        conv => lhs; unfold addValidator
        simp [hA, hB, eA, e]
      by_cases hlt : index < j
      · -- a different key sits at `index` below j: fork out again at `index`, then append
        obtain ⟨k, hk⟩ : ∃ k, H[index]? = some k := ⟨H[index]'(by omega), List.getElem?_eq_getElem _⟩
        have hkp : k ≠ pub := fun hc => hne (hc ▸ hk)
        have hnot2 : pub ∉ (H.take j).take index := fun hm => hnot1 (List.mem_of_mem_take hm)
        have hlen1 : (H.take j).length = j := by simp [List.length_take]; omega
        have step1 : addValidator (fork s h j) (f' + 1) s.length index pub =
            addValidator (fork (fork s h j) s.length index) f' (fork s h j).length index pub := by
          conv => lhs; unfold addValidator
          simp [hA1, hB1, List.idxOf?_eq_none_iff.mpr hnot1, List.getElem?_take, hlt, hk, hkp]
        have step2 := addValidator_fork_simple hw1 hh1 (t := index) (index := index) (pub := pub)
          (by omega) hnot2 (Nat.le_refl _) (fuel := f') (by omega)
        obtain ⟨hw2, hh2⟩ := wf_fork hw1 hh1 (t := index) (by omega)
        have htt : (H.take j).take index = H.take index := by
          rw [List.take_take]; congr 1; omega
        rw [htt] at hh2 hnot2
        obtain ⟨s3, h3, hw3, hl3, hh3, hpres⟩ := appendAt_ok hw2 hh2 (index := index) (pub := pub)
          (by simp [List.length_take]; omega) hnot2
        rw [spec_add_fork hne (by omega) hnot2]
        refine ⟨s3, (fork s h j).length, d + 1 + 1, ?_, hw3, ?_, ?_, hh3, by omega, ?_⟩
        · rw [step0, step1, step2, h3]
        · simp [length_fork]
        · rw [hl3]; simp [length_fork]; omega
        · intro x Hx dx hx
          have hxl : x < s.length := hx.lt_length
          exact hpres x Hx dx (by simp [length_fork]; omega) (hx.fork_mono.fork_mono)
      · -- the key sits below `index`: the forked level expects j next, so this is the gap error
        have hgt : j < index := by omega
        have step1 : addValidator (fork s h j) (f' + 1) s.length index pub =
            appendAt (fork s h j) s.length index pub :=
          addValidator_simple hw1 hh1 hnot1 (by simp [List.length_take]; omega) (by omega)
        have herr := appendAt_err hw1 hh1 (index := index) (pub := pub) (by simp [List.length_take]; omega)
        rw [spec_add_err hne]
        · exact ⟨_, by rw [step0, step1, herr]⟩
        · rintro ⟨_, hnot⟩
          apply hnot
          apply List.mem_iff_getElem?.mpr
          exact ⟨j, by rw [List.getElem?_take]; simp [hgt, hj]⟩
  | none =>
    have hpub : pub ∉ H := List.idxOf?_eq_none_iff.mp eA
    have hne : H[index]? ≠ some pub := fun hc => hpub (List.mem_iff_getElem?.mpr ⟨_, hc⟩)
    by_cases hlt : index < H.length
    · -- another key sits at `index`: fork out at `index`, then append
      obtain ⟨k, hk⟩ : ∃ k, H[index]? = some k := ⟨H[index]'hlt, List.getElem?_eq_getElem _⟩
      have hkp : k ≠ pub := fun hc => hne (hc ▸ hk)
      have hnot : pub ∉ H.take index := fun hm => hpub (List.mem_of_mem_take hm)
      have step0 : addValidator s (f + 1) h index pub = addValidator (fork s h index) f s.length index pub := by
        conv => lhs; unfold addValidator
        simp [hA, hB, eA, hk, hkp]
      have step1 := addValidator_fork_simple hw hh (t := index) (index := index) (pub := pub)
        (by omega) hnot (Nat.le_refl _) (fuel := f) (by omega)
      obtain ⟨hw1, hh1⟩ := wf_fork hw hh (t := index) (by omega)
      obtain ⟨s2, h2, hw2, hl2, hh2, hpres⟩ := appendAt_ok hw1 hh1 (index := index) (pub := pub)
        (by simp [List.length_take]; omega) hnot
      rw [spec_add_fork hne hlt hnot]
      refine ⟨s2, s.length, d + 1, ?_, hw2, Nat.le_refl _, ?_, hh2, by omega, ?_⟩
      · rw [step0, step1, h2]
      · rw [hl2]; simp [length_fork]
      · intro x Hx dx hx
        have hxl : x < s.length := hx.lt_length
        exact hpres x Hx dx (by omega) hx.fork_mono
    · have step0 : addValidator s (f + 1) h index pub = appendAt s h index pub :=
        addValidator_simple hw hh hpub (by omega) (by omega)
      by_cases heq : index = H.length
      · obtain ⟨s', h', hw', hl', hh', hpres⟩ := appendAt_ok hw hh heq hpub
        rw [spec_add_append heq hpub]
        exact ⟨s', by rw [step0, h'], hw', hl', hh', hpres⟩
      · rw [spec_add_err hne (by omega)]
        exact ⟨s, by rw [step0, appendAt_err hw hh heq]⟩

end Zrnt.PubkeyCache
